#!/bin/bash
# validate a seeded change in a scratch worktree of /repo's HEAD: demo passes without, tests pass + demo fails with
id=$1; dir=/verif/seeded/$id
wt=/tmp/sv_$id
git -C /repo worktree add -q --detach $wt HEAD || exit 2
res=""
( cd $wt && PYTHONPATH=$wt /venv/bin/python $dir/demo.py >/tmp/sv_$id.base.out 2>&1 ); base=$?
if git -C $wt apply $dir/patch.diff 2>/dev/null; then
  tests=$(cd $wt && PYTHONPATH=$wt /venv/bin/python -m pytest -q -p no:cacheprovider 2>&1 | tail -1)
  ( cd $wt && PYTHONPATH=$wt /venv/bin/python $dir/demo.py >/tmp/sv_$id.mut.out 2>&1 ); mut=$?
  res="applies base_demo_exit=$base tests='$tests' mutant_demo_exit=$mut"
else
  res="PATCH DOES NOT APPLY to HEAD (base_demo_exit=$base)"
fi
git -C /repo worktree remove --force $wt
echo "$id: $res"
