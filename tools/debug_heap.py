#!/venv/bin/python
"""debug: locate the first disagreeing step of heap histories (C13/C15).  usage: debug_heap.py C13 [n]"""
import sys, os, random, subprocess, tempfile, json
sys.path.insert(0, "/verif/harness")
import common
common.pin_environment()
import importlib
pid = sys.argv[1]
mod = importlib.import_module(f"props.{pid.lower()}")
seed = common.seed_from_env(0)
rng = random.Random(seed * 1000003 + sum(map(ord, pid)))
cases = [c for c in mod.generate(os.environ.get("TIER", "quick"), rng) if c.get("kind") is None]
obs = [mod.run_impl(c) for c in cases]
import heapdrv
terms = [heapdrv.cq_history(o["concrete"], o["obs"]) for o in obs]
fails, err = common.run_coq_cases("Corr.HeapC", terms, shard=60)
print("fails", len(fails), err)
limit = int(sys.argv[2]) if len(sys.argv) > 2 else 3
from collections import Counter
cnt = Counter()
for fi in fails[:40]:
    t = terms[fi]
    src = f"""From Coq Require Import List ZArith QArith Qcanon. Import ListNotations.
From Flodym Require Import Corr.HeapC.
Definition c : case := {t}.
Eval vm_compute in (map (fun n => run_check current empty_heap (firstn n c)) (seq 0 (S (length c)))).
"""
    d = tempfile.mkdtemp()
    open(d + "/d.v", "w").write(src)
    out = subprocess.run(["coqc", "-Q", "/verif/coq/theories", "Flodym", d + "/d.v"], capture_output=True, text=True).stdout
    flags = [x.strip() for x in out.split("[")[1].split("]")[0].split(";")]
    k = flags.index("false") - 1
    st = obs[fi]["concrete"]["steps"][k]
    cnt[st["op"]] += 1
    if limit > 0:
        limit -= 1
        print("case", fi, "first bad step", k, json.dumps(st)[:300])
        o = obs[fi]["obs"][k]
        print("  ok=", o["ok"], o["exc"], "share", o["after"]["share"], "dshare", o["after"]["dshare"])
        if "i" in st:
            print("  operand", json.dumps(o["before"]["arrs"][st["i"]])[:300])
        print("  newest after", json.dumps(o["after"]["arrs"][-1])[:400])
print(cnt)
