#!/bin/bash
# usage: try_mutant.sh <patch.diff> <Cxx> [more Cxx...]   — apply a seeded change to /repo, run checks, undo.
set -u
patch="$1"; shift
git -C /repo diff --quiet || { echo "/repo not clean"; exit 2; }
git -C /repo apply "$patch" || { echo "patch does not apply"; exit 2; }
trap 'git -C /repo checkout -- . ; find /repo -name __pycache__ -type d -prune -exec rm -rf {} + 2>/dev/null' EXIT
for id in "$@"; do
  ( cd /verif && /venv/bin/python harness/check.py "$id" --tier "${TIER:-quick}" 2>&1 | tail -${TAILN:-6} )
  echo "exit=$?  ($id)"
done
