#!/venv/bin/python
"""debug: list disagreeing cases of a property and (for history-type cases that are Coq lists) the first bad step.
usage: debug_corr.py Cxx [show_n]"""
import sys, os, random, subprocess, tempfile, json, importlib, time
sys.path.insert(0, "/verif/harness")
import common
common.pin_environment()
pid = sys.argv[1]
mod = importlib.import_module(f"props.{pid.lower()}")
rng = random.Random(0 * 1000003 + sum(map(ord, pid)))
t=time.time(); cases = mod.generate(os.environ.get("TIER","quick"), rng); print("gen", time.time()-t)
t=time.time(); obs = [mod.run_impl(c) for c in cases]; print("impl", time.time()-t)
keep=[i for i,c in enumerate(cases) if c.get("coq", True)]; cases=[cases[i] for i in keep]; obs=[obs[i] for i in keep]
t=time.time(); terms = [mod.to_coq(c, o) for c, o in zip(cases, obs)]; print("emit", time.time()-t, sum(map(len,terms)))
t=time.time(); fails, err = common.run_coq_cases(mod.COQ_MODULE, terms, header=getattr(mod,"COQ_HEADER",""), shard=getattr(mod,"SHARD",250), check_fn=getattr(mod,"COQ_CHECK","check"), case_type=getattr(mod,"COQ_CASE_TYPE","case")); print("coq", time.time()-t)
print("fails", len(fails), fails[:20], (err or "")[:2000])
n = int(sys.argv[2]) if len(sys.argv) > 2 else 2
stepfn = {"Corr.DimC": "drun_check current_gsc empty_dheap", "Corr.HeapC": "run_check current empty_heap"}.get(mod.COQ_MODULE)
for fi in fails[:n]:
    print("== case", fi, json.dumps({k: v for k, v in cases[fi].items() if k != "uni"})[:600])
    if stepfn:
        src = f"From Coq Require Import List ZArith QArith Qcanon. Import ListNotations.\nFrom Flodym Require Import {mod.COQ_MODULE}.\nDefinition c : case := {terms[fi]}.\nEval vm_compute in (map (fun n => {stepfn} (firstn n c)) (seq 0 (S (length c)))).\n"
        d = tempfile.mkdtemp(); open(d + "/d.v", "w").write(src)
        out = subprocess.run(["coqc", "-Q", "/verif/coq/theories", "Flodym", d + "/d.v"], capture_output=True, text=True).stdout
        flags = [x.strip() for x in out.split("[")[1].split("]")[0].split(";")]
        k = flags.index("false") - 1
        print("  first bad step", k, json.dumps(obs[fi]["steps"][k] if "steps" in obs[fi] else obs[fi]["concrete"]["steps"][k])[:300])
        o = obs[fi]["obs"][k]
        print("  ", json.dumps({kk: vv for kk, vv in o.items() if kk not in ("before",)})[:1200])
    else:
        print("  obs", json.dumps(obs[fi])[:800])
