#!/usr/bin/env python3
"""Regenerates MANIFEST.json from the table below (kept in one place so it stays valid)."""
import json, os
V = os.path.dirname(os.path.dirname(os.path.abspath(__file__)))
ALL = [f"C{i:02d}" for i in range(1, 21)]
CLAIMED = json.load(open(os.path.join(V, "tools", "claimed.json")))
checks = []
for pid, c in sorted(CLAIMED.items()):
    checks.append(dict(
        property_id=pid,
        quick_cmd=f"/venv/bin/python harness/check.py {pid} --tier quick",
        thorough_cmd=f"/venv/bin/python harness/check.py {pid} --tier thorough",
        evidence_file=f"/verif/evidence/{pid}.json",
        replay_cmd_template="/venv/bin/python harness/check.py --replay {path}",
        engine="coq-model+correspondence",
        level_claimed=dict(category="proof", text=c["text"], design_ref=c.get("design_ref", "DESIGN.md section 6")),
        level_note=c["note"],
        technique=c.get("technique", "machine-checked proof in Rocq (Coq 8.16) about an executable Gallina model, tied to the code by a checked correspondence (vm_compute vs implementation)"),
    ))
na = [dict(property_id=p, reason=CLAIMED_NA.get(p, "not built yet in this round")) for p in ALL if p not in CLAIMED] if (CLAIMED_NA := json.load(open(os.path.join(V, "tools", "not_applicable.json")))) is not None else []
m = dict(
    version=1,
    setup_cmd="cd /verif && /venv/bin/python harness/translate.py && cd coq && coq_makefile -f _CoqProject -o Makefile && timeout 3000 make -j16",
    hooks=dict(guard="FLODYM_VERIF", enable="no source hooks are needed: every observable is public API (values, dims, exceptions, log records, returned figures/dicts/files, np.shares_memory)",
               baseline_off_cmd="cd /repo && /venv/bin/python -m pytest -ra -q -p no:cacheprovider --timeout=900 --continue-on-collection-errors",
               source_commits=[], add_only=True),
    engines=[dict(name="coq-model+correspondence", path="/verif/coq + /verif/harness",
                  serves_properties=sorted(CLAIMED.keys()),
                  kind_free_text="Coq 8.16.1 development (models, theorems) + Python harness running the model (vm_compute) and the implementation on the same cases")],
    checks=checks,
    notes="See DESIGN.md. Exit 0 = held; exit 1 + VIOLATION line otherwise. KNOWN_FINDINGS.jsonl lists recorded findings.",
    not_applicable=na,
)
json.dump(m, open(os.path.join(V, "MANIFEST.json"), "w"), indent=1)
print("claimed", len(checks), "not claimed", len(na))
