#!/bin/bash
# runs every quick (or $TIER) check; prints one summary line per property
cd /verif
for i in $(seq -w 1 20); do
  id=C$i
  start=$(date +%s)
  out=$(/venv/bin/python harness/check.py $id --tier ${TIER:-quick} 2>&1); rc=$?
  echo "$id rc=$rc $(( $(date +%s) - start ))s $(echo "$out" | grep "^\[$id\]" | cut -c1-160)"
  echo "$out" | grep "VIOLATION\|KNOWN-FINDING" | head -3 | cut -c1-200
done
