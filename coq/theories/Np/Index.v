(* Model of numpy indexing a[sels] / a[sels] = rhs for index tuples made of slice(None), integers,
   and integer arrays (Python lists, np.ix_ meshes): numpy's full rule —
   integers count as advanced indices once an array index is present; all advanced indices are
   broadcast together; if they are adjacent the broadcast shape replaces them in place,
   OTHERWISE IT MOVES TO THE FRONT.  (Transcription of DESIGN.md appendix E.5.) *)
From Coq Require Import List Arith Lia Bool.
Import ListNotations.
From Flodym Require Import Base.ND Base.Env Np.Einsum Model.Dims.

Inductive sel := SAll | SInt (i : nat) | SArr (ash : list nat) (adat : list nat).

Definition is_adv (s : sel) : bool := match s with SAll => false | _ => true end.
Definition is_arr (s : sel) : bool := match s with SArr _ _ => true | _ => false end.

(* right-aligned broadcasting of shapes, on reversed lists *)
Fixpoint bcast_rev (a b : list nat) : option (list nat) :=
  match a, b with
  | [], _ => Some b
  | _, [] => Some a
  | x :: a', y :: b' =>
      match bcast_rev a' b' with
      | None => None
      | Some r => if Nat.eqb x y then Some (x :: r) else if Nat.eqb x 1 then Some (y :: r)
                  else if Nat.eqb y 1 then Some (x :: r) else None
      end
  end.
Definition bcast (a b : list nat) : option (list nat) := option_map (@rev nat) (bcast_rev (rev a) (rev b)).
Definition bcast_all (shs : list (list nat)) : option (list nat) :=
  fold_left (fun acc s => match acc with Some a => bcast a s | None => None end) shs (Some []).

(* entry of an index array of shape ash at position b of the broadcast shape *)
Definition bfetch (ash adat b : list nat) : nat :=
  let b' := skipn (length b - length ash) b in
  nth (ravel ash (map2 (fun s i => if Nat.eqb s 1 then 0 else i) ash b')) adat 0.

(* source multi-index: walk the selectors; SAll consumes the next slice index *)
Fixpoint src (sels : list sel) (b sl : list nat) : list nat :=
  match sels with
  | [] => []
  | SAll :: r => match sl with i :: sl' => i :: src r b sl' | [] => 0 :: src r b [] end
  | SInt i :: r => i :: src r b sl
  | SArr ash adat :: r => bfetch ash adat b :: src r b sl
  end.

(* are the advanced positions contiguous? *)
Fixpoint drop_false (l : list bool) := match l with false :: r => drop_false r | _ => l end.
Fixpoint drop_true (l : list bool) := match l with true :: r => drop_true r | _ => l end.
Definition adjacent (sels : list sel) : bool :=
  forallb negb (drop_true (drop_false (map is_adv sels))).

Fixpoint slice_sizes (sels : list sel) (sh : list nat) : list nat :=
  match sels, sh with
  | SAll :: r, n :: sh' => n :: slice_sizes r sh'
  | _ :: r, _ :: sh' => slice_sizes r sh'
  | _, _ => []
  end.
(* sizes of the SAll axes before the first advanced index *)
Fixpoint pre_sizes (sels : list sel) (sh : list nat) : list nat :=
  match sels, sh with
  | SAll :: r, n :: sh' => n :: pre_sizes r sh'
  | _, _ => []
  end.

Definition sel_ok (s : sel) (n : nat) : bool :=
  match s with
  | SAll => true
  | SInt i => Nat.ltb i n
  | SArr ash adat => Nat.eqb (length adat) (size ash) && forallb (fun i => Nat.ltb i n) adat
  end.

Record plan := mk_plan { p_osh : list nat; p_npre : nat; p_nb : nat }.

(* output shape and how an output index splits into (pre, broadcast, post) *)
Definition mk_plan_of (sels : list sel) (sh : list nat) : option plan :=
  if negb (Nat.eqb (length sels) (length sh)) then None
  else if negb (forallb (fun p => sel_ok (fst p) (snd p)) (combine sels sh)) then None
  else if negb (existsb is_arr sels) then Some (mk_plan (slice_sizes sels sh) 0 0)
  else match bcast_all (flat_map (fun s => match s with SArr ash _ => [ash] | _ => [] end) sels) with
       | None => None
       | Some B =>
           let ss := slice_sizes sels sh in
           if adjacent sels then
             let pre := pre_sizes sels sh in
             Some (mk_plan (pre ++ B ++ skipn (length pre) ss) (length pre) (length B))
           else Some (mk_plan (B ++ ss) 0 (length B))
       end.

Definition src_of (sels : list sel) (p : plan) (idx : list nat) : list nat :=
  let pre := firstn (p_npre p) idx in
  let rest := skipn (p_npre p) idx in
  src sels (firstn (p_nb p) rest) (pre ++ skipn (p_nb p) rest).

Section I.
Variable R : Type.
Variable rO : R.
Notation nd := (nd R).

Definition index (a : nd) (sels : list sel) : res nd :=
  match mk_plan_of sels (shp a) with
  | None => Err
  | Some p => Ok (mk_nd (p_osh p) (tab (p_osh p) (fun idx => get rO (shp a) (dat a) (src_of sels p idx))))
  end.

Fixpoint upd (l : list R) (k : nat) (v : R) : list R :=
  match l, k with
  | [], _ => []
  | _ :: t, 0 => v :: t
  | a :: t, S j => a :: upd t j v
  end.

(* value of rhs (shape rsh, right-aligned broadcast) at output index idx *)
Definition rhs_at (rsh : list nat) (rdat : list R) (idx : list nat) : R :=
  let i' := skipn (length idx - length rsh) idx in
  get rO rsh rdat (map2 (fun s i => if Nat.eqb s 1 then 0 else i) rsh i').

Definition bcast_to (rsh osh : list nat) : bool :=
  match bcast rsh osh with
  | Some r => if list_eq_dec Nat.eq_dec r osh then true else false
  | None => false
  end.

(* numpy drops surplus leading axes of length 1 of the right-hand side *)
Fixpoint strip_ones (rsh : list nat) (n : nat) : list nat :=
  match rsh with
  | 1 :: r => if Nat.ltb n (length rsh) then strip_ones r n else rsh
  | _ => rsh
  end.

(* a[sels] = rhs ; writes happen in row-major order of the output index (last write wins) *)
Definition setindex (a : nd) (sels : list sel) (rhs : nd) : res nd :=
  match mk_plan_of sels (shp a) with
  | None => Err
  | Some p =>
      (* assigning to a single element (all-integer index) takes a 0-d right-hand side only *)
      let rsh := match p_osh p with [] => shp rhs | _ => strip_ones (shp rhs) (length (p_osh p)) end in
      if bcast_to rsh (p_osh p) then
        Ok (mk_nd (shp a)
              (fold_left (fun d idx => upd d (ravel (shp a) (src_of sels p idx)) (rhs_at rsh (dat rhs) idx))
                         (all_idx (p_osh p)) (dat a)))
      else Err
  end.

End I.
