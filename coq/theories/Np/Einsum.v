(* Model of numpy.einsum as flodym uses it: explicit output subscripts, letters distinct within
   each operand, every output letter present in some operand.  Executable; characterised by
   [einsum_get] (pointwise) and [einsum_den] (label environments). *)
From Coq Require Import List Arith Lia Ring_theory Ring Permutation Bool.
Import ListNotations.
From Flodym Require Import Base.ND Base.Env.

Section E.
Variable R : Type.
Variables (rO rI : R) (radd rmul rsub : R -> R -> R) (ropp : R -> R).
Variable Rth : ring_theory rO rI radd rmul rsub ropp eq.
Add Ring RringE : Rth.
Notation sum := (sum rO radd).
Notation prod := (prod rI rmul).
Notation sum_env := (sum_env rO radd).
Notation get := (get rO).
Notation "x + y" := (radd x y) : rs. Notation "x * y" := (rmul x y) : rs.

Record nd := mk_nd { shp : list nat; dat : list R }.
Definition operand := (list letter * nd)%type.

Definition sizes (ops : list operand) : env :=
  flat_map (fun o => combine (fst o) (shp (snd o))) ops.

Definition summed (ops : list operand) (out : list letter) : list letter :=
  nodup Nat.eq_dec (filter (fun l => negb (memb l out)) (flat_map fst ops)).

(* value of one operand under an environment *)
Definition den_nd (ls : list letter) (a : nd) (e : env) : R :=
  get (shp a) (dat a) (map (lookup e) ls).

Definition term (ops : list operand) (e : env) : R :=
  prod (map (fun o => den_nd (fst o) (snd o) e) ops).

Definition sized (sz : env) (ls : list letter) : env := map (fun l => (l, lookup sz l)) ls.

Definition einsum (ops : list operand) (out : list letter) : nd :=
  let sz := sizes ops in
  let sl := sized sz (summed ops out) in
  let osh := map (lookup sz) out in
  mk_nd osh (tab osh (fun idx => sum_env sl (fun e' => term ops (e' ++ combine out idx)))).

Lemma einsum_shp ops out : shp (einsum ops out) = map (lookup (sizes ops)) out.
Proof. reflexivity. Qed.

Theorem einsum_get ops out idx :
  Forall2 lt idx (map (lookup (sizes ops)) out) ->
  get (shp (einsum ops out)) (dat (einsum ops out)) idx
  = sum_env (sized (sizes ops) (summed ops out)) (fun e' => term ops (e' ++ combine out idx)).
Proof. intros H. unfold einsum; simpl. rewrite (get_tab R rO); auto. Qed.

(* [term] looks up operand letters only *)
Lemma den_nd_ext ls a e e' : (forall l, In l ls -> lookup e l = lookup e' l) ->
  den_nd ls a e = den_nd ls a e'.
Proof. intros H. unfold den_nd. f_equal. apply map_ext_in; auto. Qed.

Lemma term_ext ops e e' :
  (forall l, In l (flat_map fst ops) -> lookup e l = lookup e' l) -> term ops e = term ops e'.
Proof.
  intros H. unfold term. f_equal. apply map_ext_in. intros o Ho. apply den_nd_ext.
  intros l Hl. apply H. apply in_flat_map. exists o; auto.
Qed.

Lemma term_ext_all ops : ext (term ops).
Proof. intros e e' H. apply term_ext. auto. Qed.

Lemma lookup_combine_self out e l : In l out ->
  lookup (combine out (map (lookup e) out)) l = lookup e l.
Proof.
  induction out as [|k out IH]; simpl; [tauto|]. intros Hin.
  destruct (Nat.eqb_spec k l); subst; auto. apply IH. destruct Hin; [contradiction|auto].
Qed.

Lemma sized_fst sz ls : map fst (sized sz ls) = ls.
Proof. unfold sized. rewrite map_map. simpl. apply map_id. Qed.

Lemma summed_spec ops out l :
  In l (summed ops out) <-> In l (flat_map fst ops) /\ ~ In l out.
Proof.
  unfold summed. rewrite nodup_In, filter_In. rewrite negb_true_iff, memb_false. tauto.
Qed.

(* the label-level characterisation *)
Theorem einsum_den ops out e :
  (forall l, In l out -> lookup e l < lookup (sizes ops) l) ->
  den_nd out (einsum ops out) e
  = sum_env (sized (sizes ops) (summed ops out)) (fun e' => term ops (e' ++ e)).
Proof.
  intros Hr. unfold den_nd. rewrite einsum_get.
  - apply sum_env_ext_in. intros e' He'.
    apply term_ext. intros l Hl. rewrite !lookup_app.
    rewrite (all_env_fst _ _ He'), sized_fst.
    destruct (memb l (summed ops out)) eqn:Em; auto.
    apply memb_false in Em. rewrite summed_spec in Em.
    apply lookup_combine_self.
    destruct (in_dec Nat.eq_dec l out); auto. tauto.
  - clear -Hr. induction out as [|l out IH]; simpl; constructor.
    + apply Hr. left; auto.
    + apply IH. intros k Hk. apply Hr. right; auto.
Qed.

(* ----- further numpy primitives used by flodym ----- *)

(* elementwise combination of equal-shaped arrays *)
Fixpoint map2 {A B C} (f : A -> B -> C) (l1 : list A) (l2 : list B) : list C :=
  match l1, l2 with a :: l1', b :: l2' => f a b :: map2 f l1' l2' | _, _ => [] end.

Definition nd_map (f : R -> R) (a : nd) : nd := mk_nd (shp a) (map f (dat a)).
Definition nd_map2 (f : R -> R -> R) (a b : nd) : nd := mk_nd (shp a) (map2 f (dat a) (dat b)).

(* numpy.tile(a, reps) with len reps = ndim a *)
Definition tile (a : nd) (reps : list nat) : nd :=
  let osh := map2 Nat.mul (shp a) reps in
  mk_nd osh (tab osh (fun idx => get (shp a) (dat a) (map2 Nat.modulo idx (shp a)))).

(* a[index] where index consists of slice(None) and np.newaxis only: a reshape *)
Definition reshape (a : nd) (sh : list nat) : nd := mk_nd sh (dat a).

Definition nd_full (sh : list nat) (c : R) : nd := mk_nd sh (tab sh (fun _ => c)).

Lemma nth_map2 {A B C} (f : A -> B -> C) l1 l2 k da db dc :
  k < length l1 -> k < length l2 -> nth k (map2 f l1 l2) dc = f (nth k l1 da) (nth k l2 db).
Proof.
  revert l2 k. induction l1 as [|a l1 IH]; intros [|b l2] [|k] H1 H2; simpl in *; try lia; auto.
  apply IH; lia.
Qed.

Lemma map2_length {A B C} (f : A -> B -> C) l1 l2 :
  length (map2 f l1 l2) = Nat.min (length l1) (length l2).
Proof. revert l2. induction l1 as [|a l1 IH]; intros [|b l2]; simpl; auto. Qed.

End E.

Arguments mk_nd {R} shp dat.
Arguments shp {R} n.
Arguments dat {R} n.
Arguments map2 {A B C} f l1 l2.
