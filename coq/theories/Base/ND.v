(* Flat row-major arrays over an abstract commutative ring: list sums, multi-indices,
   [tab]/[get] and the foundation lemma [get_tab].  Definitions are executable. *)
From Coq Require Import List Arith Lia ZArith Ring_theory Ring Permutation.
Import ListNotations.

Declare Scope rs. Delimit Scope rs with rs.

Lemma Forall2_len {A B} (P : A -> B -> Prop) l l' : Forall2 P l l' -> length l = length l'.
Proof. induction 1; simpl; auto. Qed.

Section S.
Variable R : Type.
Variables (rO rI : R) (radd rmul rsub : R -> R -> R) (ropp : R -> R).
Variable Rth : ring_theory rO rI radd rmul rsub ropp eq.
Add Ring Rring : Rth.
Notation "x + y" := (radd x y) : rs. Notation "x * y" := (rmul x y) : rs.

Definition sum (l : list R) : R := fold_right radd rO l.
Definition prod (l : list R) : R := fold_right rmul rI l.

Lemma sum_app l1 l2 : sum (l1 ++ l2) = (sum l1 + sum l2)%rs.
Proof. induction l1 as [|a l1 IH]; simpl; [ring | rewrite IH; ring]. Qed.

Lemma sum_map_add {A} (f g : A -> R) l :
  sum (map (fun x => (f x + g x)%rs) l) = (sum (map f l) + sum (map g l))%rs.
Proof. induction l as [|a l IH]; simpl; [ring | rewrite IH; ring]. Qed.

Lemma sum_map_scal {A} c (f : A -> R) l :
  sum (map (fun x => (c * f x)%rs) l) = (c * sum (map f l))%rs.
Proof. induction l as [|a l IH]; simpl; [ring | rewrite IH; ring]. Qed.

Lemma sum_map_scal_r {A} c (f : A -> R) l :
  sum (map (fun x => (f x * c)%rs) l) = (sum (map f l) * c)%rs.
Proof. induction l as [|a l IH]; simpl; [ring | rewrite IH; ring]. Qed.

Lemma sum_map_zero {A} (l : list A) : sum (map (fun _ => rO) l) = rO.
Proof. induction l as [|a l IH]; simpl; [reflexivity | rewrite IH; ring]. Qed.

Lemma sum_map_ext {A} (f f' : A -> R) l : (forall a, f a = f' a) -> sum (map f l) = sum (map f' l).
Proof. intros H. f_equal. apply map_ext; auto. Qed.

Lemma sum_map_ext_in {A} (f f' : A -> R) l :
  (forall a, In a l -> f a = f' a) -> sum (map f l) = sum (map f' l).
Proof. intros H. f_equal. apply map_ext_in; auto. Qed.

Lemma sum_swap {A B} (f : A -> B -> R) la lb :
  sum (map (fun a => sum (map (fun b => f a b) lb)) la)
  = sum (map (fun b => sum (map (fun a => f a b) la)) lb).
Proof.
  induction la as [|a la IH]; simpl.
  - induction lb as [|b lb IHb]; simpl; [reflexivity | rewrite <- IHb; ring].
  - rewrite IH. rewrite <- sum_map_add. reflexivity.
Qed.

Lemma sum_perm l l' : Permutation l l' -> sum l = sum l'.
Proof. induction 1; simpl; try congruence; ring. Qed.

Lemma sum_flat_map {A B} (f : A -> list B) (g : B -> R) l :
  sum (map g (flat_map f l)) = sum (map (fun a => sum (map g (f a))) l).
Proof.
  induction l as [|a l IH]; simpl; auto.
  rewrite map_app, sum_app, IH. reflexivity.
Qed.

(* a sum with a single possibly non-zero term *)
Lemma sum_single {A} (eqb : A -> A -> bool) (f : A -> R) (l : list A) (x : A) :
  (forall a b, eqb a b = true <-> a = b) -> NoDup l -> In x l ->
  sum (map (fun a => if eqb a x then f a else rO) l) = f x.
Proof.
  intros He Hnd Hin. induction l as [|a l IH]; [inversion Hin|].
  inversion Hnd as [|? ? Hna Hnd']; subst. simpl.
  destruct Hin as [->|Hin].
  - assert (E : eqb x x = true) by (apply He; reflexivity). rewrite E.
    rewrite (sum_map_ext_in _ (fun _ => rO)).
    + rewrite sum_map_zero. ring.
    + intros b Hb. destruct (eqb b x) eqn:Eb; auto. apply He in Eb; subst. contradiction.
  - destruct (eqb a x) eqn:Ea.
    + apply He in Ea; subst. contradiction.
    + rewrite IH by assumption. ring.
Qed.

(* all multi-indices of a shape, row-major *)
Fixpoint all_idx (sh : list nat) : list (list nat) :=
  match sh with
  | [] => [[]]
  | n :: sh' => flat_map (fun i => map (cons i) (all_idx sh')) (seq 0 n)
  end.

Definition size (sh : list nat) : nat := fold_right Nat.mul 1 sh.

Fixpoint ravel (sh idx : list nat) : nat :=
  match sh, idx with
  | n :: sh', i :: idx' => i * size sh' + ravel sh' idx'
  | _, _ => 0
  end.

Definition tab (sh : list nat) (f : list nat -> R) : list R := map f (all_idx sh).
Definition get (sh : list nat) (v : list R) (idx : list nat) : R := nth (ravel sh idx) v rO.

Lemma all_idx_length sh : length (all_idx sh) = size sh.
Proof.
  induction sh as [|n sh IH]; simpl; auto.
  set (m := size sh) in *.
  generalize 0 at 1. induction n as [|n IHn]; intros s; simpl; auto.
  rewrite app_length, map_length, IH, IHn. reflexivity.
Qed.

Lemma tab_length sh f : length (tab sh f) = size sh.
Proof. unfold tab. rewrite map_length. apply all_idx_length. Qed.

Lemma nth_flat_map_chunks {A} (g : nat -> list A) m (Hg : forall i, length (g i) = m) s n i j d :
  i < n -> j < m -> nth (i * m + j) (flat_map g (seq s n)) d = nth j (g (s + i)) d.
Proof.
  revert s i. induction n as [|n IH]; intros s i Hi Hj; [lia|].
  simpl. destruct i as [|i].
  - simpl. rewrite app_nth1 by (rewrite Hg; lia). f_equal. f_equal. lia.
  - rewrite app_nth2 by (rewrite Hg; nia). rewrite Hg.
    replace (S i * m + j - m) with (i * m + j) by nia.
    rewrite IH by lia. f_equal. f_equal. lia.
Qed.

Lemma nth_all_idx sh idx : Forall2 lt idx sh ->
  nth (ravel sh idx) (all_idx sh) [] = idx /\ ravel sh idx < size sh.
Proof.
  intros H. induction H as [|i n idx sh Hi H IH]; simpl; [split; auto|].
  destruct IH as [IH1 IH2]. split.
  - rewrite nth_flat_map_chunks with (m := size sh); auto.
    + simpl. erewrite nth_indep with (d' := cons i []).
      2:{ rewrite map_length, all_idx_length; auto. }
      rewrite map_nth. rewrite IH1. reflexivity.
    + intros. rewrite map_length. apply all_idx_length.
  - fold (size sh). nia.
Qed.

Theorem get_tab sh f idx : Forall2 lt idx sh -> get sh (tab sh f) idx = f idx.
Proof.
  intros H. unfold get, tab. destruct (nth_all_idx sh idx H) as [H1 H2].
  erewrite nth_indep with (d' := f []). 2:{ rewrite map_length, all_idx_length; auto. }
  rewrite map_nth, H1. reflexivity.
Qed.

Lemma all_idx_in sh idx : In idx (all_idx sh) <-> Forall2 lt idx sh.
Proof.
  revert idx. induction sh as [|n sh IH]; intros idx; simpl.
  - split; [intros [<-|[]]; constructor | intros H; inversion H; auto].
  - rewrite in_flat_map. split.
    + intros (i & Hi & Hm). apply in_map_iff in Hm. destruct Hm as (r & <- & Hr).
      apply in_seq in Hi. constructor; [lia | apply IH; auto].
    + intros H. inversion H as [|i ? r ? Hi Hr]; subst. exists i. split.
      * apply in_seq. lia.
      * apply in_map. apply IH; auto.
Qed.

Lemma NoDup_app_intro {A} (l1 l2 : list A) :
  NoDup l1 -> NoDup l2 -> (forall x, In x l1 -> In x l2 -> False) -> NoDup (l1 ++ l2).
Proof.
  induction l1 as [|a l1 IH]; simpl; intros H1 H2 Hd; auto.
  inversion H1; subst. constructor.
  - rewrite in_app_iff. intros [H|H]; [contradiction | eapply Hd; eauto].
  - apply IH; auto. intros x Hx Hy. eapply Hd; eauto.
Qed.

Lemma all_idx_NoDup sh : NoDup (all_idx sh).
Proof.
  induction sh as [|n sh IH]; simpl; [repeat constructor; auto|].
  generalize 0 as s. induction n as [|n IHn]; intros s; simpl; [constructor|].
  apply NoDup_app_intro.
  - apply FinFun.Injective_map_NoDup; auto. intros a b E. congruence.
  - apply IHn.
  - intros x Hx Hy. apply in_map_iff in Hx. destruct Hx as (r & <- & _).
    apply in_flat_map in Hy. destruct Hy as (i & Hi & Hm). apply in_seq in Hi.
    apply in_map_iff in Hm. destruct Hm as (r' & E & _). injection E as E1 E2. lia.
Qed.

(* a tabulated array is determined by its entries *)
Lemma tab_ext sh f g : (forall idx, Forall2 lt idx sh -> f idx = g idx) -> tab sh f = tab sh g.
Proof. intros H. unfold tab. apply map_ext_in. intros idx Hi. apply H. apply all_idx_in; auto. Qed.

(* every list of the right length is the table of its own entries *)
Lemma tab_get sh v : length v = size sh -> tab sh (get sh v) = v.
Proof.
  intros Hl. apply nth_ext with (d := rO) (d' := rO).
  - rewrite tab_length; auto.
  - intros k Hk. rewrite tab_length in Hk. unfold tab.
    erewrite nth_indep with (d' := get sh v []) by (rewrite map_length, all_idx_length; auto).
    rewrite map_nth. unfold get. f_equal.
    (* ravel (nth k all_idx) = k *)
    clear Hl v. revert k Hk. induction sh as [|n sh IH]; intros k Hk; simpl in *.
    + destruct k; [reflexivity | lia].
    + fold (size sh) in *. set (m := size sh) in *.
      assert (Hm : 0 < m) by (destruct m; [nia | lia]).
      pose proof (Nat.div_mod k m ltac:(lia)) as Hdm.
      assert (Hq : k / m < n) by (apply Nat.div_lt_upper_bound; lia).
      pose proof (Nat.mod_upper_bound k m ltac:(lia)) as Hr.
      replace k with (k / m * m + k mod m) at 1 by lia.
      rewrite nth_flat_map_chunks with (m := m); auto.
      2:{ intros; rewrite map_length; apply all_idx_length. }
      simpl. erewrite nth_indep with (d' := (k / m) :: []) by (rewrite map_length, all_idx_length; auto).
      rewrite map_nth. rewrite IH by auto. lia.
Qed.

End S.

Arguments sum {R} rO radd l.
Arguments prod {R} rI rmul l.
Arguments tab {R} sh f.
Arguments get {R} rO sh v idx.
