(* Label environments and sums over all assignments of a letter/size list.
   [sum_env_perm]: the order in which letters are summed is irrelevant — the single lemma behind
   "storage order does not matter". *)
From Coq Require Import List Arith Lia Ring_theory Ring Permutation Bool.
Import ListNotations.
From Flodym Require Import Base.ND.

Definition letter := nat.
Definition env := list (letter * nat).

Fixpoint lookup (e : env) (l : letter) : nat :=
  match e with [] => 0 | (k, v) :: e' => if Nat.eqb k l then v else lookup e' l end.

Definition memb (l : nat) (ls : list nat) : bool := existsb (Nat.eqb l) ls.

Lemma memb_In l ls : memb l ls = true <-> In l ls.
Proof.
  unfold memb. rewrite existsb_exists. split.
  - intros (x & Hx & E). apply Nat.eqb_eq in E. subst; auto.
  - intros H. exists l. split; auto. apply Nat.eqb_refl.
Qed.

Lemma memb_false l ls : memb l ls = false <-> ~ In l ls.
Proof. rewrite <- memb_In. destruct (memb l ls); split; congruence. Qed.

Fixpoint all_env (L : list (letter * nat)) : list env :=
  match L with
  | [] => [[]]
  | (l, n) :: L' => flat_map (fun i => map (cons (l, i)) (all_env L')) (seq 0 n)
  end.

Lemma lookup_app e1 e2 l :
  lookup (e1 ++ e2) l = if memb l (map fst e1) then lookup e1 l else lookup e2 l.
Proof.
  induction e1 as [|[k v] e1 IH]; simpl; auto.
  rewrite (Nat.eqb_sym l k). destruct (Nat.eqb k l); simpl; auto.
Qed.

Lemma lookup_combine_map ls idx :
  NoDup ls -> length ls = length idx -> map (lookup (combine ls idx)) ls = idx.
Proof.
  revert idx. induction ls as [|l ls IH]; intros [|i idx] Hnd Hl; simpl in *; try discriminate; auto.
  inversion Hnd as [|? ? Hn Hnd']; subst. rewrite Nat.eqb_refl. f_equal.
  transitivity (map (lookup (combine ls idx)) ls); [|apply IH; auto].
  apply map_ext_in. intros a Ha.
  destruct (Nat.eqb_spec l a); subst; [contradiction | reflexivity].
Qed.

Lemma lookup_notin e l : ~ In l (map fst e) -> lookup e l = 0.
Proof.
  induction e as [|[k v] e IH]; simpl; auto. intros H.
  destruct (Nat.eqb_spec k l); [subst; tauto|]. apply IH; tauto.
Qed.

Lemma lookup_combine_lt ls idx sh l :
  Forall2 lt idx sh -> length ls = length idx -> In l ls ->
  lookup (combine ls idx) l < lookup (combine ls sh) l.
Proof.
  intros H. revert ls. induction H as [|i n idx sh Hi H IH]; intros [|k ls] Hl Hin; simpl in *;
    try discriminate; try contradiction.
  destruct (Nat.eqb_spec k l); auto. apply IH; [lia|]. destruct Hin; [contradiction | auto].
Qed.

Section S.
Variable R : Type.
Variables (rO rI : R) (radd rmul rsub : R -> R -> R) (ropp : R -> R).
Variable Rth : ring_theory rO rI radd rmul rsub ropp eq.
Add Ring Rring2 : Rth.
Notation sum := (sum rO radd).
Notation "x + y" := (radd x y) : rs. Notation "x * y" := (rmul x y) : rs.

Definition sum_env (L : list (letter * nat)) (g : env -> R) : R := sum (map g (all_env L)).

Definition ext (g : env -> R) := forall e e', (forall l, lookup e l = lookup e' l) -> g e = g e'.

Lemma sum_env_nil g : sum_env [] g = g [].
Proof. unfold sum_env; simpl. ring. Qed.

Lemma sum_env_cons l n L g :
  sum_env ((l, n) :: L) g = sum (map (fun i => sum_env L (fun e => g ((l, i) :: e))) (seq 0 n)).
Proof.
  unfold sum_env; simpl. rewrite (sum_flat_map R rO rI radd rmul rsub ropp Rth).
  f_equal. apply map_ext; intros i. rewrite map_map. reflexivity.
Qed.

Lemma sum_env_ext L g g' : (forall e, g e = g' e) -> sum_env L g = sum_env L g'.
Proof. intros H; unfold sum_env. f_equal. apply map_ext; auto. Qed.

Lemma all_env_fst L e : In e (all_env L) -> map fst e = map fst L.
Proof.
  revert e. induction L as [|[l n] L IH]; simpl; intros e H.
  - destruct H as [<-|[]]; reflexivity.
  - apply in_flat_map in H. destruct H as (i & _ & H). apply in_map_iff in H.
    destruct H as (e' & <- & He'). simpl. f_equal. auto.
Qed.

Lemma all_env_lt L e l : In e (all_env L) -> In l (map fst L) -> lookup e l < lookup L l.
Proof.
  revert e. induction L as [|[k n] L IH]; simpl; intros e H Hin; [contradiction|].
  apply in_flat_map in H. destruct H as (i & Hi & H). apply in_seq in Hi.
  apply in_map_iff in H. destruct H as (e' & <- & He'). simpl.
  destruct (Nat.eqb_spec k l); [lia|]. apply IH; auto. destruct Hin; [contradiction | auto].
Qed.

Lemma sum_env_ext_in L g g' :
  (forall e, In e (all_env L) -> g e = g' e) -> sum_env L g = sum_env L g'.
Proof. intros H; unfold sum_env. f_equal. apply map_ext_in; auto. Qed.

Lemma sum_env_add L g h : sum_env L (fun e => (g e + h e)%rs) = (sum_env L g + sum_env L h)%rs.
Proof. unfold sum_env. apply (sum_map_add R rO rI radd rmul rsub ropp Rth). Qed.

Lemma sum_env_scal L c g : sum_env L (fun e => (c * g e)%rs) = (c * sum_env L g)%rs.
Proof. unfold sum_env. apply (sum_map_scal R rO rI radd rmul rsub ropp Rth). Qed.

Lemma sum_env_scal_r L c g : sum_env L (fun e => (g e * c)%rs) = (sum_env L g * c)%rs.
Proof. unfold sum_env. apply (sum_map_scal_r R rO rI radd rmul rsub ropp Rth). Qed.

Lemma sum_env_swap a na b nb L g : a <> b -> ext g ->
  sum_env ((a, na) :: (b, nb) :: L) g = sum_env ((b, nb) :: (a, na) :: L) g.
Proof.
  intros Hab Hg. rewrite !sum_env_cons.
  erewrite (sum_map_ext R rO radd). 2:{ intros i. rewrite sum_env_cons. reflexivity. }
  rewrite (sum_swap R rO rI radd rmul rsub ropp Rth).
  apply (sum_map_ext R rO radd); intros j. rewrite sum_env_cons.
  apply (sum_map_ext R rO radd); intros i.
  apply sum_env_ext; intros e. apply Hg. intros l; simpl.
  destruct (Nat.eqb_spec a l), (Nat.eqb_spec b l); subst; auto. congruence.
Qed.

Lemma ext_cons g l i : ext g -> ext (fun e => g ((l, i) :: e)).
Proof. intros Hg e e' H. apply Hg. intros k; simpl. destruct (Nat.eqb l k); auto. Qed.

Lemma ext_app_l g e0 : ext g -> ext (fun e => g (e0 ++ e)).
Proof. intros Hg e e' H. apply Hg. intros k. rewrite !lookup_app. destruct (memb _ _); auto. Qed.

Theorem sum_env_perm L L' g :
  Permutation L L' -> NoDup (map fst L) -> ext g -> sum_env L g = sum_env L' g.
Proof.
  intros HP. revert g.
  induction HP as [| [l n] L L' HP IH | [a na] [b nb] L | L1 L2 L3 HP1 IH1 HP2 IH2]; intros g Hnd Hg.
  - reflexivity.
  - rewrite !sum_env_cons. apply (sum_map_ext R rO radd); intros i. apply IH.
    + simpl in Hnd. inversion Hnd; auto.
    + apply ext_cons; auto.
  - apply sum_env_swap; auto. simpl in Hnd. inversion Hnd as [|? ? Hin _]; subst.
    simpl in Hin. intuition.
  - rewrite IH1 by auto. apply IH2; auto.
    eapply Permutation_NoDup; [|exact Hnd]. apply Permutation_map; auto.
Qed.

(* the same with a weaker premise on g: it may also look at WHICH letters an environment binds
   (needed for g e' = h (e' ++ e0), where an unbound letter falls through to e0) *)
Definition ext_keys (g : env -> R) :=
  forall e e', (forall l, lookup e l = lookup e' l) -> (forall l, In l (map fst e) <-> In l (map fst e')) -> g e = g e'.

Lemma ext_keys_cons g l i : ext_keys g -> ext_keys (fun e => g ((l, i) :: e)).
Proof.
  intros Hg e e' H1 H2. apply Hg.
  - intros k; simpl. destruct (Nat.eqb l k); auto.
  - intros k; simpl. rewrite H2. tauto.
Qed.

Lemma sum_env_swap_keys a na b nb L g : a <> b -> ext_keys g ->
  sum_env ((a, na) :: (b, nb) :: L) g = sum_env ((b, nb) :: (a, na) :: L) g.
Proof.
  intros Hab Hg. rewrite !sum_env_cons.
  erewrite (sum_map_ext R rO radd). 2:{ intros i. rewrite sum_env_cons. reflexivity. }
  rewrite (sum_swap R rO rI radd rmul rsub ropp Rth).
  apply (sum_map_ext R rO radd); intros j. rewrite sum_env_cons.
  apply (sum_map_ext R rO radd); intros i.
  apply sum_env_ext; intros e. apply Hg.
  - intros l; simpl. destruct (Nat.eqb_spec a l), (Nat.eqb_spec b l); subst; auto. congruence.
  - intros l; simpl. tauto.
Qed.

Theorem sum_env_perm_keys L L' g :
  Permutation L L' -> NoDup (map fst L) -> ext_keys g -> sum_env L g = sum_env L' g.
Proof.
  intros HP. revert g.
  induction HP as [| [l n] L L' HP IH | [a na] [b nb] L | L1 L2 L3 HP1 IH1 HP2 IH2]; intros g Hnd Hg.
  - reflexivity.
  - rewrite !sum_env_cons. apply (sum_map_ext R rO radd); intros i. apply IH.
    + simpl in Hnd. inversion Hnd; auto.
    + apply ext_keys_cons; auto.
  - apply sum_env_swap_keys; auto. simpl in Hnd. inversion Hnd as [|? ? Hin _]; subst.
    simpl in Hin. intuition.
  - rewrite IH1 by auto. apply IH2; auto.
    eapply Permutation_NoDup; [|exact Hnd]. apply Permutation_map; auto.
Qed.

Lemma ext_keys_app_r (g : env -> R) e0 : ext g -> ext_keys (fun e => g (e ++ e0)).
Proof.
  intros Hg e e' H1 H2. apply Hg. intros k. rewrite !lookup_app.
  destruct (memb k (map fst e)) eqn:E, (memb k (map fst e')) eqn:E'; auto.
  - apply memb_In in E. apply H2 in E. apply memb_false in E'. contradiction.
  - apply memb_In in E'. apply H2 in E'. apply memb_false in E. contradiction.
Qed.

(* Fubini: a sum over L1 ++ L2 is an iterated sum *)
Lemma sum_env_app L1 L2 g :
  sum_env (L1 ++ L2) g = sum_env L1 (fun e1 => sum_env L2 (fun e2 => g (e1 ++ e2))).
Proof.
  revert g. induction L1 as [|[l n] L1 IH]; intros g; simpl.
  - rewrite sum_env_nil. reflexivity.
  - rewrite !sum_env_cons. apply (sum_map_ext R rO radd); intros i. rewrite IH. reflexivity.
Qed.

(* the entries of a tabulated array, summed = a sum over label environments *)
Lemma all_env_combine ls sh : length ls = length sh ->
  all_env (combine ls sh) = map (combine ls) (all_idx sh).
Proof.
  revert sh. induction ls as [|l ls IH]; intros [|n sh] Hl; simpl in *; try discriminate; auto.
  rewrite IH by lia. generalize (seq 0 n) as l0. induction l0 as [|i l0 IH0]; simpl; auto.
  rewrite map_app, IH0. f_equal. rewrite !map_map. reflexivity.
Qed.

Lemma sum_tab_env ls sh (f : list nat -> R) : NoDup ls -> length ls = length sh ->
  sum (tab sh f) = sum_env (combine ls sh) (fun e => f (map (lookup e) ls)).
Proof.
  intros Hnd Hl. unfold sum_env, tab. rewrite all_env_combine by auto. rewrite map_map.
  f_equal. apply map_ext_in. intros idx Hi. apply all_idx_in in Hi.
  rewrite lookup_combine_map; auto. apply Forall2_len in Hi. lia.
Qed.

End S.

Arguments sum_env {R} rO radd L g.
Arguments ext {R} g.
Arguments ext_keys {R} g.
