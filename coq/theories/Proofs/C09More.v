(* C09: "both tables being zero for cohorts later than the year" and "each cohort's stock ... never increases over time for
   non-negative inflow" (the latter over the ordered field Qc: it is a statement about an order). *)
From Coq Require Import List Arith Lia Field_theory Ring_theory Field Bool QArith Qcanon.
Import ListNotations.
From Flodym Require Import Base.ND Base.Env Np.Einsum Model.Stocks Proofs.StockAlgebra Proofs.StockModel Model.Instances.

Section G.
Variable F : Type.
Variables (fO fI : F) (fadd fmul fsub : F -> F -> F) (fopp : F -> F) (fdiv : F -> F -> F) (finv : F -> F).
Variable Fth : field_theory fO fI fadd fmul fsub fopp fdiv finv eq.
Add Field Ff9 : Fth.
Notation "x + y" := (fadd x y) : rs. Notation "x * y" := (fmul x y) : rs.
Notation "x - y" := (fsub x y) : rs. Notation "x / y" := (fdiv x y) : rs.
Notation nthF := (nthF F fO).
Notation nth2 := (nth2 F fO).
Local Open Scope rs.

Variables (n : nat) (dt inflow : list F) (sf : list (list F)).
Hypothesis Hdt : length dt = n.
Hypothesis Hin : length inflow = n.
Hypothesis lower : forall t c, (t < c)%nat -> nth2 sf t c = fO.
Notation out := (idsm F fO fI fadd fmul fsub fdiv true n dt inflow sf).

Theorem sbc_zero_later_cohorts t c : (t < c)%nat -> (c < n)%nat -> nth2 (o_sbc F out) t c = fO.
Proof.
  intros Htc Hc.
  rewrite (idsm_cohort_entry F fO fI fadd fmul fsub fdiv n dt inflow sf Hdt Hin t c) by lia.
  rewrite (lower t c Htc). ring.
Qed.

Theorem obc_zero_later_cohorts t c : (t < c)%nat -> (c < n)%nat -> nth2 (o_obc F out) t c = fO.
Proof.
  intros Htc Hc. unfold idsm, compute_outflow. cbn [o_obc]. unfold Stocks.nth2.
  assert (Ht : (t < n)%nat) by lia.
  set (tbl := cohort_table F fO fmul n (to_whole_period F fmul dt inflow) (pdf_of F fO fI fsub n sf)).
  assert (Lt : length tbl = n) by (unfold tbl, cohort_table; apply tabulate_length).
  (* row t of the scaled table *)
  assert (Hrow : nth t (map2 (fun row d => map (fun x => x * (fI / d)) row) tbl dt) [] =
                 map (fun x => x * (fI / nthF dt t)) (nth t tbl [])).
  { erewrite nth_map2 with (da := []) (db := fO); [reflexivity | rewrite Lt; exact Ht | rewrite Hdt; exact Ht]. }
  rewrite Hrow. unfold tbl, cohort_table. rewrite nth_tabulate by exact Ht.
  rewrite nth_indep with (d' := fO * (fI / nthF dt t)) by (rewrite map_length, tabulate_length; exact Hc).
  rewrite (map_nth (fun x => x * (fI / nthF dt t))). rewrite nth_tabulate by exact Hc.
  unfold pdf_of. unfold Stocks.nth2. rewrite nth_tabulate by exact Ht. rewrite nth_tabulate by exact Hc.
  unfold pdf_entry. replace (Nat.ltb t c) with true by (symmetry; apply Nat.ltb_lt; exact Htc). ring.
Qed.

End G.

(* ---- monotonicity, over Qc ---- *)
Local Open Scope Qc_scope.

Theorem cohort_stock_never_increases (n : nat) (dt inflow : list Qc) (sf : list (list Qc)) t c :
  length dt = n -> length inflow = n -> (S t < n)%nat -> (c < n)%nat ->
  0 <= nth c inflow 0 * nth c dt 0 ->
  nth c (nth (S t) sf []) 0 <= nth c (nth t sf []) 0 ->
  nth c (nth (S t) (o_sbc Qc (idsm Qc 0 1 Qcplus Qcmult Qcminus Qcdiv true n dt inflow sf)) []) 0
  <= nth c (nth t (o_sbc Qc (idsm Qc 0 1 Qcplus Qcmult Qcminus Qcdiv true n dt inflow sf)) []) 0.
Proof.
  intros Hdt Hin Ht Hc Hw Hs.
  pose proof (idsm_cohort_entry Qc 0 1 Qcplus Qcmult Qcminus Qcdiv n dt inflow sf Hdt Hin) as E.
  unfold Stocks.nth2, Stocks.nthF in E.
  rewrite (E (S t) c) by lia. rewrite (E t c) by lia.
  rewrite (Qcmult_comm _ (nth c (nth (S t) sf []) 0)), (Qcmult_comm _ (nth c (nth t sf []) 0)).
  apply Qcmult_le_compat_r; assumption.
Qed.
