(* C03: "Hence cumulative inflow minus cumulative outflow equals the stock, and check_stock_balance / get_stock_balance accept every
   computed stock": the telescoping consequence of the balance, and the balance vector of a computed stock is zero throughout. *)
From Coq Require Import List Arith Lia Field_theory Ring_theory Field Bool.
Import ListNotations.
From Flodym Require Import Base.ND Base.Env Np.Einsum Model.Stocks Proofs.StockAlgebra Proofs.StockModel.

Section G.
Variable F : Type.
Variables (fO fI : F) (fadd fmul fsub : F -> F -> F) (fopp : F -> F) (fdiv : F -> F -> F) (finv : F -> F).
Variable Fth : field_theory fO fI fadd fmul fsub fopp fdiv finv eq.
Add Field Ff3 : Fth.
Notation "x + y" := (fadd x y) : rs. Notation "x * y" := (fmul x y) : rs.
Notation "x - y" := (fsub x y) : rs. Notation "x / y" := (fdiv x y) : rs.
Notation nthF := (nthF F fO).
Notation nth2 := (nth2 F fO).
Notation ssum := (ssum F fO fadd).
Local Open Scope rs.

(* whatever satisfies the step balance with s(-1) = 0 is the running total of the steps *)
Theorem telescoping (s d : nat -> F) n :
  (forall t, (t < n)%nat -> s t - (if Nat.eqb t 0 then fO else s (t - 1)%nat) = d t) ->
  forall t, (t < n)%nat -> s t = ssum (S t) d.
Proof.
  intros H t. induction t as [|t IH]; intros Ht.
  - pose proof (H 0%nat Ht) as E. cbn [Nat.eqb] in E. unfold StockAlgebra.ssum. cbn [seq map sum fold_right].
    rewrite <- E. ring.
  - rewrite (ssum_S F fO fI fadd fmul fsub fopp fdiv finv Fth). rewrite <- IH by lia.
    pose proof (H (S t) Ht) as E. cbn [Nat.eqb] in E. replace (S t - 1)%nat with t in E by lia. rewrite <- E. ring.
Qed.

(* get_stock_balance, entry by entry: whole-period net inflow minus the change of the stock *)
Theorem stock_balance_entry (dt stock inflow outflow : list F) t :
  (t < length stock)%nat -> length dt = length stock -> length inflow = length stock -> length outflow = length stock ->
  nthF (stock_balance F fO fmul fsub true dt stock inflow outflow) t
  = (nthF inflow t - nthF outflow t) * nthF dt t - (nthF stock t - (if Nat.eqb t 0 then fO else nthF stock (t - 1)%nat)).
Proof.
  intros Ht Hd Hi Ho. unfold stock_balance, to_whole_period, diff_prepend0.
  assert (Lnet : length (map2 fsub inflow outflow) = length stock).
  { rewrite map2_length. rewrite Hi, Ho. apply Nat.min_id. }
  rewrite (nthF_map2 F fO); [| rewrite map2_length, Lnet, Hd, Nat.min_id; exact Ht | rewrite (tabulate_length); exact Ht].
  rewrite (nthF_map2 F fO); [| rewrite Lnet; exact Ht | rewrite Hd; exact Ht].
  rewrite (nthF_map2 F fO); [| rewrite Hi; exact Ht | rewrite Ho; exact Ht].
  unfold Stocks.nthF at 4. rewrite (nth_tabulate _ _ t fO Ht). reflexivity.
Qed.

(* the self-check is zero at a step exactly when the balance identity holds there: a stock that satisfies the identity at every step
   is accepted at any threshold, and a stock whose entry at the last step is off by delta shows exactly -delta there *)
Corollary stock_balance_zero_iff (dt stock inflow outflow : list F) t :
  (t < length stock)%nat -> length dt = length stock -> length inflow = length stock -> length outflow = length stock ->
  (nthF (stock_balance F fO fmul fsub true dt stock inflow outflow) t = fO
   <-> nthF stock t - (if Nat.eqb t 0 then fO else nthF stock (t - 1)%nat) = nthF dt t * (nthF inflow t - nthF outflow t)).
Proof.
  intros Ht Hd Hi Ho. rewrite (stock_balance_entry dt stock inflow outflow t Ht Hd Hi Ho). split; intros E.
  - assert (X : nthF stock t - (if Nat.eqb t 0 then fO else nthF stock (t - 1)%nat)
               = (nthF inflow t - nthF outflow t) * nthF dt t - ((nthF inflow t - nthF outflow t) * nthF dt t - (nthF stock t - (if Nat.eqb t 0 then fO else nthF stock (t - 1)%nat)))) by ring.
    rewrite X, E. ring.
  - rewrite E. ring.
Qed.

(* a stock that satisfies the balance at step t, changed by delta at that step (the step before left alone): the self-check shows
   exactly -delta there, so it is rejected as soon as delta exceeds the threshold *)
Corollary stock_balance_shows_a_perturbation (dt stock stock' inflow outflow : list F) t (delta : F) :
  (t < length stock)%nat -> length stock' = length stock ->
  length dt = length stock -> length inflow = length stock -> length outflow = length stock ->
  nthF stock t - (if Nat.eqb t 0 then fO else nthF stock (t - 1)%nat) = nthF dt t * (nthF inflow t - nthF outflow t) ->
  nthF stock' t = nthF stock t + delta -> (t <> 0%nat -> nthF stock' (t - 1)%nat = nthF stock (t - 1)%nat) ->
  nthF (stock_balance F fO fmul fsub true dt stock' inflow outflow) t = fO - delta.
Proof.
  intros Ht Hl Hd Hi Ho Hbal Ht' Hprev.
  rewrite (stock_balance_entry dt stock' inflow outflow t); try (rewrite Hl; assumption).
  rewrite Ht'. destruct (Nat.eqb_spec t 0) as [E|E].
  - transitivity ((nthF inflow t - nthF outflow t) * nthF dt t - (nthF stock t - fO) - delta); [ring|].
    rewrite Hbal. ring.
  - rewrite (Hprev E).
    transitivity ((nthF inflow t - nthF outflow t) * nthF dt t - (nthF stock t - nthF stock (t - 1)%nat) - delta); [ring|].
    rewrite Hbal. ring.
Qed.

Variables (n : nat) (dt inflow : list F) (sf : list (list F)).
Hypothesis Hdt : length dt = n.
Hypothesis Hin : length inflow = n.
Hypothesis lower : forall t c, (t < c)%nat -> nth2 sf t c = fO.
Hypothesis dt_nonzero : forall t, (t < n)%nat -> nthF dt t <> fO.
Notation r := (idsm F fO fI fadd fmul fsub fdiv true n dt inflow sf).

(* the stock of the inflow-driven model is the cumulated net inflow (rates times interval lengths) *)
Theorem idsm_stock_is_cumulated_net_inflow t : (t < n)%nat ->
  nthF (o_stock F r) t = ssum (S t) (fun tau => nthF dt tau * (nthF inflow tau - nthF (o_outflow F r) tau)).
Proof.
  intros Ht. apply (telescoping (fun tau => nthF (o_stock F r) tau) _ n); [|exact Ht].
  intros tau Htau. apply (balance_idsm F fO fI fadd fmul fsub fopp fdiv finv Fth n dt inflow sf Hdt Hin lower tau Htau (dt_nonzero tau Htau)).
Qed.


Lemma idsm_lengths : length (o_stock F r) = n /\ length (o_outflow F r) = n.
Proof.
  unfold idsm, compute_outflow, row_sums, cohort_table. cbn [o_stock o_outflow]. split.
  - rewrite map_length. apply tabulate_length.
  - rewrite map_length, map2_length, tabulate_length, Hdt. apply Nat.min_id.
Qed.

(* get_stock_balance of a computed inflow-driven stock is zero at every step: the self-check accepts it at any threshold *)
Theorem idsm_self_check_is_zero t : (t < n)%nat ->
  nthF (stock_balance F fO fmul fsub true dt (o_stock F r) inflow (o_outflow F r)) t = fO.
Proof.
  intros Ht. destruct idsm_lengths as [Ls Lo].
  apply stock_balance_zero_iff; rewrite ?Ls; auto.
  apply (balance_idsm F fO fI fadd fmul fsub fopp fdiv finv Fth n dt inflow sf Hdt Hin lower t Ht (dt_nonzero t Ht)).
Qed.

End G.
