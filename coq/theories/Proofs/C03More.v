(* C03: "Hence cumulative inflow minus cumulative outflow equals the stock, and check_stock_balance / get_stock_balance accept every
   computed stock": the telescoping consequence of the balance, and the balance vector of a computed stock is zero throughout. *)
From Coq Require Import List Arith Lia Field_theory Ring_theory Field Bool.
Import ListNotations.
From Flodym Require Import Base.ND Base.Env Np.Einsum Model.Stocks Proofs.StockAlgebra Proofs.StockModel.

Section G.
Variable F : Type.
Variables (fO fI : F) (fadd fmul fsub : F -> F -> F) (fopp : F -> F) (fdiv : F -> F -> F) (finv : F -> F).
Variable Fth : field_theory fO fI fadd fmul fsub fopp fdiv finv eq.
Add Field Ff3 : Fth.
Notation "x + y" := (fadd x y) : rs. Notation "x * y" := (fmul x y) : rs.
Notation "x - y" := (fsub x y) : rs. Notation "x / y" := (fdiv x y) : rs.
Notation nthF := (nthF F fO).
Notation nth2 := (nth2 F fO).
Notation ssum := (ssum F fO fadd).
Local Open Scope rs.

(* whatever satisfies the step balance with s(-1) = 0 is the running total of the steps *)
Theorem telescoping (s d : nat -> F) n :
  (forall t, (t < n)%nat -> s t - (if Nat.eqb t 0 then fO else s (t - 1)%nat) = d t) ->
  forall t, (t < n)%nat -> s t = ssum (S t) d.
Proof.
  intros H t. induction t as [|t IH]; intros Ht.
  - pose proof (H 0%nat Ht) as E. cbn [Nat.eqb] in E. unfold StockAlgebra.ssum. cbn [seq map sum fold_right].
    rewrite <- E. ring.
  - rewrite (ssum_S F fO fI fadd fmul fsub fopp fdiv finv Fth). rewrite <- IH by lia.
    pose proof (H (S t) Ht) as E. cbn [Nat.eqb] in E. replace (S t - 1)%nat with t in E by lia. rewrite <- E. ring.
Qed.

Variables (n : nat) (dt inflow : list F) (sf : list (list F)).
Hypothesis Hdt : length dt = n.
Hypothesis Hin : length inflow = n.
Hypothesis lower : forall t c, (t < c)%nat -> nth2 sf t c = fO.
Hypothesis dt_nonzero : forall t, (t < n)%nat -> nthF dt t <> fO.
Notation r := (idsm F fO fI fadd fmul fsub fdiv true n dt inflow sf).

(* the stock of the inflow-driven model is the cumulated net inflow (rates times interval lengths) *)
Theorem idsm_stock_is_cumulated_net_inflow t : (t < n)%nat ->
  nthF (o_stock F r) t = ssum (S t) (fun tau => nthF dt tau * (nthF inflow tau - nthF (o_outflow F r) tau)).
Proof.
  intros Ht. apply (telescoping (fun tau => nthF (o_stock F r) tau) _ n); [|exact Ht].
  intros tau Htau. apply (balance_idsm F fO fI fadd fmul fsub fopp fdiv finv Fth n dt inflow sf Hdt Hin lower tau Htau (dt_nonzero tau Htau)).
Qed.

End G.
