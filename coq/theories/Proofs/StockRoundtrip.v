(* C10 round trip and C03 for the stock-driven model, on the list model. *)
From Coq Require Import List Arith Lia Ring_theory Field_theory Ring Field Bool.
Import ListNotations.
From Flodym Require Import Base.ND Base.Env Np.Einsum Model.Stocks Proofs.StockAlgebra Proofs.StockModel.

Section R.
Variable F : Type.
Variables (fO fI : F) (fadd fmul fsub : F -> F -> F) (fopp : F -> F) (fdiv : F -> F -> F) (finv : F -> F).
Variable Fth : field_theory fO fI fadd fmul fsub fopp fdiv finv eq.
Add Field FfieldR : Fth.
Notation "x + y" := (fadd x y) : rs. Notation "x * y" := (fmul x y) : rs.
Notation "x - y" := (fsub x y) : rs. Notation "x / y" := (fdiv x y) : rs.
Notation sumF := (sum fO fadd).
Notation nthF := (nthF F fO).
Notation nth2 := (nth2 F fO).
Notation ssum := (ssum F fO fadd).
Notation idsm := (idsm F fO fI fadd fmul fsub fdiv true).
Notation sdsm := (sdsm F fO fI fadd fmul fsub fdiv true).
Notation fs := (fs F fO fadd fmul fsub fdiv).
Local Open Scope rs.

Variables (n : nat) (dt : list F) (sf : list (list F)).
Hypothesis Hdt : length dt = n.
Hypothesis lower : forall t c, (t < c)%nat -> nth2 sf t c = fO.
Hypothesis diag : forall i, (i < n)%nat -> nth2 sf i i <> fO.
Hypothesis dtnz : forall i, (i < n)%nat -> nthF dt i <> fO.

Lemma to_annual_nth (x : list F) t : (t < n)%nat -> length x = n ->
  nthF (to_annual F fI fmul fdiv dt x) t = nthF x t * (fI / nthF dt t).
Proof. intros Ht Hx. unfold to_annual. rewrite (nthF_map2 F fO) by lia. reflexivity. Qed.

(* the stock-driven model is the inflow-driven model run on the inflow it found *)
Lemma sdsm_as_idsm (s : list F) :
  o_outflow F (sdsm n dt s sf) = o_outflow F (idsm n dt (o_inflow F (sdsm n dt s sf)) sf)
  /\ o_sbc F (sdsm n dt s sf) = o_sbc F (idsm n dt (o_inflow F (sdsm n dt s sf)) sf)
  /\ o_obc F (sdsm n dt s sf) = o_obc F (idsm n dt (o_inflow F (sdsm n dt s sf)) sf).
Proof.
  unfold Stocks.sdsm, Stocks.idsm. destruct (compute_outflow F fO fI fadd fmul fsub fdiv true n dt _ sf) eqn:E.
  cbn [o_inflow o_outflow o_sbc o_obc]. auto.
Qed.

(* feeding the inflow-driven stock into the stock-driven model returns the original inflow *)
Theorem roundtrip_inflow (inflow : list F) : length inflow = n ->
  o_inflow F (sdsm n dt (o_stock F (idsm n dt inflow sf)) sf) = inflow.
Proof.
  intros Hin. set (s := o_stock F (idsm n dt inflow sf)).
  assert (Hw : forall t, (t < n)%nat -> nthF (fs sf s n) t = wp F fO fmul dt inflow t).
  { intros t Ht. symmetry. apply (fsolve_unique F fO fI fadd fmul fsub fopp fdiv finv Fth sf s n); auto.
    intros i Hi. unfold s. rewrite (idsm_stock F fO fI fadd fmul fsub fdiv n dt inflow sf Hdt Hin) by auto.
    rewrite (stock_causal F fO fI fadd fmul fsub fopp fdiv finv Fth (nth2 sf) n lower) by auto.
    apply ssum_ext. intros. ring. }
  unfold Stocks.sdsm. destruct (compute_outflow _ _ _ _ _ _ _ _ _ _ _ _) eqn:E. simpl.
  apply nth_ext with (d := fO) (d' := fO).
  - unfold to_annual. rewrite map2_length. fold (fs sf s n). rewrite (fs_len F fO fadd fmul fsub fdiv). lia.
  - intros t Ht. unfold to_annual in Ht. rewrite map2_length in Ht. fold (fs sf s n) in Ht.
    rewrite (fs_len F fO fadd fmul fsub fdiv) in Ht.
    assert (Htn : (t < n)%nat) by lia.
    change (nthF (to_annual F fI fmul fdiv dt (fs sf s n)) t = nthF inflow t).
    rewrite to_annual_nth by (auto; apply (fs_len F fO fadd fmul fsub fdiv)).
    rewrite Hw by auto. unfold wp. field. apply dtnz; auto.
Qed.

(* ... and the same outflow and cohort tables *)
Corollary roundtrip_tables (inflow : list F) : length inflow = n ->
  let r1 := idsm n dt inflow sf in let r2 := sdsm n dt (o_stock F r1) sf in
  o_outflow F r2 = o_outflow F r1 /\ o_sbc F r2 = o_sbc F r1 /\ o_obc F r2 = o_obc F r1.
Proof.
  intros Hin r1 r2. subst r1 r2.
  destruct (sdsm_as_idsm (o_stock F (idsm n dt inflow sf))) as (E1 & E2 & E3).
  rewrite E1, E2, E3. rewrite roundtrip_inflow by auto. auto.
Qed.

(* conversely: the inflow found for a prescribed stock reproduces that stock *)
Theorem roundtrip_stock (s : list F) t : length s = n -> (t < n)%nat ->
  nthF (o_stock F (idsm n dt (o_inflow F (sdsm n dt s sf)) sf)) t = nthF s t.
Proof.
  intros Hs Ht.
  assert (Hli : length (o_inflow F (sdsm n dt s sf)) = n).
  { unfold Stocks.sdsm. destruct (compute_outflow _ _ _ _ _ _ _ _ _ _ _ _). simpl. unfold to_annual.
    rewrite map2_length. fold (fs sf s n). rewrite (fs_len F fO fadd fmul fsub fdiv). lia. }
  rewrite (idsm_stock F fO fI fadd fmul fsub fdiv n dt _ sf Hdt Hli) by auto.
  rewrite (stock_causal F fO fI fadd fmul fsub fopp fdiv finv Fth (nth2 sf) n lower) by auto.
  rewrite <- (fsolve_correct F fO fI fadd fmul fsub fopp fdiv finv Fth sf s n t Ht (diag t Ht)).
  apply ssum_ext. intros c Hc. unfold wp.
  assert (E : nthF (o_inflow F (sdsm n dt s sf)) c = nthF (fs sf s n) c * (fI / nthF dt c)).
  { unfold Stocks.sdsm. destruct (compute_outflow _ _ _ _ _ _ _ _ _ _ _ _). simpl.
    apply to_annual_nth; [lia | apply (fs_len F fO fadd fmul fsub fdiv)]. }
  rewrite E. field. apply dtnz. lia.
Qed.

(* C03 for the stock-driven model: the prescribed stock, the inflow found and the outflow balance *)
Theorem balance_sdsm (s : list F) t : length s = n -> (t < n)%nat ->
  let r := sdsm n dt s sf in
  nthF s t - (if Nat.eqb t 0 then fO else nthF s (t - 1))
  = nthF dt t * (nthF (o_inflow F r) t - nthF (o_outflow F r) t).
Proof.
  intros Hs Ht r. subst r.
  assert (Hli : length (o_inflow F (sdsm n dt s sf)) = n).
  { unfold Stocks.sdsm. destruct (compute_outflow _ _ _ _ _ _ _ _ _ _ _ _). simpl. unfold to_annual.
    rewrite map2_length. fold (fs sf s n). rewrite (fs_len F fO fadd fmul fsub fdiv). lia. }
  destruct (sdsm_as_idsm s) as (E1 & _ & _). rewrite E1.
  pose proof (balance_idsm F fO fI fadd fmul fsub fopp fdiv finv Fth n dt (o_inflow F (sdsm n dt s sf)) sf Hdt Hli lower t Ht (dtnz t Ht)) as B.
  cbv zeta in B. rewrite roundtrip_stock in B by auto.
  destruct (Nat.eqb_spec t 0) as [->|Hne]; [exact B|].
  rewrite roundtrip_stock in B by (auto; lia). exact B.
Qed.

End R.

(* flow-driven stock and the self-check *)
Section Simple.
Variable F : Type.
Variables (fO fI : F) (fadd fmul fsub : F -> F -> F) (fopp : F -> F) (fdiv : F -> F -> F) (finv : F -> F).
Variable Fth : field_theory fO fI fadd fmul fsub fopp fdiv finv eq.
Add Field FfieldS : Fth.
Notation "x + y" := (fadd x y) : rs. Notation "x * y" := (fmul x y) : rs.
Notation "x - y" := (fsub x y) : rs.
Notation nthF := (nthF F fO).
Local Open Scope rs.

Lemma cumsum_from_step acc l t : (t < length l)%nat ->
  nthF (cumsum_from F fadd acc l) t
  = (if Nat.eqb t 0 then acc else nthF (cumsum_from F fadd acc l) (t - 1)) + nthF l t.
Proof.
  revert acc t. induction l as [|x l IH]; intros acc t Ht; simpl in *; [lia|].
  destruct t as [|t]; simpl; [reflexivity|].
  unfold Stocks.nthF in *. simpl. rewrite IH by lia. rewrite Nat.sub_0_r.
  destruct t as [|t]; simpl; [reflexivity|]. rewrite Nat.sub_0_r. reflexivity.
Qed.

(* C03 for SimpleFlowDrivenStock *)
Theorem balance_simple (dt inflow outflow : list F) t :
  length dt = length inflow -> length outflow = length inflow -> (t < length inflow)%nat ->
  let s := simple_stock F fO fadd fmul fsub dt inflow outflow in
  nthF s t - (if Nat.eqb t 0 then fO else nthF s (t - 1)) = nthF dt t * (nthF inflow t - nthF outflow t).
Proof.
  intros H1 H2 Ht s. subst s. unfold simple_stock.
  rewrite cumsum_from_step.
  2:{ unfold to_whole_period. rewrite !map2_length. lia. }
  unfold to_whole_period. rewrite (nthF_map2 F fO) by (rewrite ?map2_length; lia).
  rewrite (nthF_map2 F fO) by lia.
  destruct (Nat.eqb t 0); ring.
Qed.
End Simple.
