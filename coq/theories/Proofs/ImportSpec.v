(* C11, last sentence: "Whenever from_df returns at all, every entry it sets comes from the unique row carrying that
   entry's labels" — for the row-level import model (DF.import_rows, default settings), for EVERY list of rows, in any
   order.  Consequences: the result does not depend on the order of the rows (any permutation of the rows of a table
   that is accepted is accepted with the same result), and the row-major table of to_df is only one instance. *)
From Coq Require Import List Arith Lia Bool Permutation.
Import ListNotations.
From Flodym Require Import Base.ND Base.Env Np.Einsum Np.Index Model.Dims Model.Array Model.DF
  Proofs.IndexProofs Proofs.SetIndexProofs Proofs.DFProofs.
Local Open Scope nat_scope.

Section S.
Variable R : Type.
Variable rO : R.

Notation import := (import_rows R rO true 0).
Notation row := (row R).
Notation r_labels := (r_labels R).
Notation r_value := (r_value R).

Definition val (r : row) : R := match r_value r with Some x => x | None => rO end.
Definition pos_of (ds : dimset) (r : row) : nat := ravel (dshape ds) (positions ds (r_labels r)).

(* the placement loop as a pure function: later rows overwrite earlier ones *)
Definition place (ds : dimset) (rows : list row) : list R :=
  fold_left (fun acc r => upd R acc (pos_of ds r) (val r)) rows (tab (dshape ds) (fun _ => rO)).

(* ---- labels that are known have a position, and the position gives the labels back ---- *)
Lemma index_of_memb l items : memb l items = true ->
  exists i, index_of l items = Some i /\ i < length items /\ nth i items 0 = l.
Proof.
  induction items as [|a items IH]; intros H; [discriminate|]. simpl in *.
  destruct (Nat.eqb_spec a l) as [E|E].
  - exists 0. repeat split; [lia | exact E].
  - unfold memb in H. simpl in H. destruct (Nat.eqb_spec l a) as [E'|E']; [congruence|]. simpl in H.
    destruct (IH H) as (i & E1 & E2 & E3). exists (S i). rewrite E1. repeat split; simpl; auto. lia.
Qed.

Lemma known_positions ds labs : known ds labs = true ->
  Forall2 lt (positions ds labs) (dshape ds) /\ labels_of ds (positions ds labs) = labs.
Proof.
  unfold known. rewrite andb_true_iff, Nat.eqb_eq. intros [Hl Hm].
  revert labs Hl Hm. induction ds as [|d ds IH]; intros [|l labs] Hl Hm; simpl in *; try discriminate.
  - split; [constructor | reflexivity].
  - apply andb_true_iff in Hm. destruct Hm as [Hm1 Hm2].
    destruct (index_of_memb l (ditems d) Hm1) as (i & E1 & E2 & E3).
    destruct (IH labs) as [IH1 IH2]; [lia | exact Hm2 |].
    unfold positions, labels_of in *. cbn [map2]. rewrite E1. split.
    + constructor; [exact E2 | exact IH1].
    + rewrite E3. f_equal. exact IH2.
Qed.

Lemma pos_of_lt ds r : known ds (r_labels r) = true -> pos_of ds r < size (dshape ds).
Proof. intros H. apply known_positions in H. destruct H as [H _]. apply (nth_all_idx (dshape ds) _ H). Qed.

Lemma pos_of_inj ds r r' : known ds (r_labels r) = true -> known ds (r_labels r') = true ->
  pos_of ds r = pos_of ds r' -> r_labels r = r_labels r'.
Proof.
  intros H H' E. destruct (known_positions ds _ H) as [H1 H2]. destruct (known_positions ds _ H') as [H1' H2'].
  unfold pos_of in E. apply ravel_inj in E; auto. rewrite <- H2, <- H2', E. reflexivity.
Qed.

Lemma has_dup_false_NoDup ls : has_dup ls = false -> NoDup ls.
Proof.
  induction ls as [|a l IH]; intros H; [constructor|]. simpl in H. apply orb_false_iff in H. destruct H as [H1 H2].
  constructor; [|apply IH; exact H2]. intros Hin.
  assert (X : existsb (labels_eqb a) l = true) by (apply existsb_exists; exists a; split; [exact Hin | apply labels_eqb_eq; reflexivity]).
  congruence.
Qed.

(* ---- what acceptance (default settings) means ---- *)
Record accepted (ds : dimset) (rows : list row) : Prop := {
  acc_nodup : NoDup (map r_labels rows);
  acc_known : forall r, In r rows -> known ds (r_labels r) = true;
  acc_count : length rows = size (dshape ds);
  acc_values : forall r, In r rows -> exists x, r_value r = Some x
}.

Lemma placement_loop ds rows acc :
  (forall r, In r rows -> known ds (r_labels r) = true) ->
  fold_left (fun acc r => v <- acc ;;
               match mapM (fun p => match wrap_index 0 (fst p) (snd p) with Some i => Ok i | None => Err end)
                          (combine (dshape ds) (positions ds (r_labels r))) with
               | Ok pos => Ok (upd R v (ravel (dshape ds) pos) (match r_value r with Some x => x | None => rO end))
               | Err => Err end) rows (Ok acc)
  = Ok (fold_left (fun acc r => upd R acc (pos_of ds r) (val r)) rows acc).
Proof.
  revert acc. induction rows as [|r rows IH]; intros acc Hk; [reflexivity|]. cbn [fold_left bind].
  destruct (known_positions ds _ (Hk r (or_introl eq_refl))) as [H1 _].
  rewrite (mapM_wrap (dshape ds) _ H1). apply IH. intros; apply Hk; right; assumption.
Qed.

Theorem import_accepts_iff ds rows v :
  import ds false false false false rows = Ok v <-> accepted ds rows /\ v = place ds rows.
Proof.
  unfold import_rows. cbn [orb negb andb].
  destruct (forallb (fun r => known ds (r_labels r)) rows) eqn:Ek; cbn [negb].
  2:{ split; [discriminate|]. intros [[_ Hk _ _] _]. exfalso.
      assert (X : forallb (fun r => known ds (r_labels r)) rows = true) by (apply forallb_forall; exact Hk). congruence. }
  rewrite forallb_forall in Ek.
  destruct (has_dup (map r_labels rows)) eqn:Ed.
  { split; [discriminate|]. intros [[Hn _ _ _] _]. rewrite (has_dup_NoDup _ Hn) in Ed. discriminate. }
  destruct (Nat.eqb_spec (length rows) (size (dshape ds))) as [El|El]; cbn [negb].
  2:{ split; [discriminate|]. intros [[_ _ Hc _] _]. contradiction. }
  destruct (existsb (fun r => match r_value r with None => true | _ => false end) rows) eqn:Ev.
  { split; [discriminate|]. intros [[_ _ _ Hv] _]. apply existsb_exists in Ev. destruct Ev as (r & Hr & E).
    destruct (Hv r Hr) as (x & Ex). rewrite Ex in E. discriminate. }
  rewrite (placement_loop ds rows _ Ek). split.
  - intros E. injection E as <-. split; [|reflexivity]. constructor; auto.
    + apply has_dup_false_NoDup. exact Ed.
    + intros r Hr. destruct (r_value r) as [x|] eqn:Ex; [exists x; reflexivity|]. exfalso.
      assert (X : existsb (fun r => match r_value r with None => true | _ => false end) rows = true)
        by (apply existsb_exists; exists r; rewrite Ex; split; auto). congruence.
  - intros [_ ->]. reflexivity.
Qed.

(* ---- every entry comes from the unique row carrying its labels ---- *)
Lemma NoDup_map_eq {A B} (f : A -> B) l a b : NoDup (map f l) -> In a l -> In b l -> f a = f b -> a = b.
Proof.
  induction l as [|x l IH]; intros Hn Ha Hb E; [contradiction|]. simpl in Hn. inversion Hn as [|? ? Hx Hn']; subst.
  destruct Ha as [->|Ha], Hb as [->|Hb]; auto.
  - exfalso. apply Hx. rewrite E. apply in_map. exact Hb.
  - exfalso. apply Hx. rewrite <- E. apply in_map. exact Ha.
Qed.

Lemma positions_NoDup ds rows : accepted ds rows -> NoDup (map (pos_of ds) rows).
Proof.
  intros [Hn Hk _ _]. clear - Hn Hk. induction rows as [|r rows IH]; [constructor|]. simpl in *.
  inversion Hn as [|? ? Hr Hn']; subst. constructor.
  - intros Hin. apply in_map_iff in Hin. destruct Hin as (r' & E & Hr'). apply Hr.
    rewrite <- (pos_of_inj ds r' r); [apply in_map; exact Hr' | apply Hk; right; exact Hr' | apply Hk; left; reflexivity | exact E].
  - apply IH; auto.
Qed.

Lemma every_position_written ds rows k : accepted ds rows -> k < size (dshape ds) -> In k (map (pos_of ds) rows).
Proof.
  intros Ha Hk. pose proof (positions_NoDup ds rows Ha) as Hn. destruct Ha as [_ Hkn Hc _].
  assert (Hincl : incl (map (pos_of ds) rows) (seq 0 (size (dshape ds)))).
  { intros p Hp. apply in_map_iff in Hp. destruct Hp as (r & <- & Hr). apply in_seq. split; [lia|]. simpl. apply pos_of_lt. apply Hkn. exact Hr. }
  assert (Hlen : length (seq 0 (size (dshape ds))) <= length (map (pos_of ds) rows)) by (rewrite seq_length, map_length; lia).
  apply (NoDup_length_incl Hn Hlen Hincl). apply in_seq. lia.
Qed.

Theorem place_from_unique_row ds rows : items_unique ds -> accepted ds rows ->
  length (place ds rows) = size (dshape ds) /\
  forall idx, Forall2 lt idx (dshape ds) ->
    exists r, In r rows /\ r_labels r = labels_of ds idx
              /\ r_value r = Some (get rO (dshape ds) (place ds rows) idx)
              /\ (forall r', In r' rows -> r_labels r' = labels_of ds idx -> r' = r).
Proof.
  intros Hu Ha. split.
  { unfold place. rewrite fold_upd_length. apply tab_length. }
  intros idx Hidx. destruct (nth_all_idx (dshape ds) idx Hidx) as [_ Hlt].
  pose proof (every_position_written ds rows _ Ha Hlt) as Hin. apply in_map_iff in Hin. destruct Hin as (r & Er & Hr).
  pose proof Ha as [Hn Hk Hc Hv].
  destruct (known_positions ds _ (Hk r Hr)) as [Hp1 Hp2].
  assert (Epos : positions ds (r_labels r) = idx) by (apply (ravel_inj (dshape ds)); auto).
  exists r. split; [exact Hr|]. split; [rewrite <- Hp2, Epos; reflexivity|]. split.
  - unfold get. rewrite <- Er. unfold place.
    rewrite (fold_upd_hit R (pos_of ds) val rows _ r rO (positions_NoDup ds rows Ha) Hr).
    + unfold val. destruct (Hv r Hr) as (x & ->). reflexivity.
    + rewrite tab_length. apply pos_of_lt. apply Hk. exact Hr.
  - intros r' Hr' E'. apply (NoDup_map_eq r_labels rows r' r Hn Hr' Hr). rewrite E', <- Hp2, Epos. reflexivity.
Qed.

(* the statement about from_df (row level): whatever it returns, every entry comes from the unique row with its labels *)
Theorem import_every_entry_from_its_unique_row ds rows v : items_unique ds ->
  import ds false false false false rows = Ok v ->
  length v = size (dshape ds) /\
  forall idx, Forall2 lt idx (dshape ds) ->
    exists r, In r rows /\ r_labels r = labels_of ds idx /\ r_value r = Some (get rO (dshape ds) v idx)
              /\ (forall r', In r' rows -> r_labels r' = labels_of ds idx -> r' = r).
Proof. intros Hu E. apply import_accepts_iff in E. destruct E as [Ha ->]. apply place_from_unique_row; assumption. Qed.

(* ---- allow_missing_values: the missing or empty entries become zero, every present entry is still placed under its labels ---- *)
Record accepted_partial (ds : dimset) (rows : list row) : Prop := {
  accp_nodup : NoDup (map r_labels rows);
  accp_known : forall r, In r rows -> known ds (r_labels r) = true
}.

Theorem import_allow_missing_iff ds rows v :
  import ds false false true false rows = Ok v <-> accepted_partial ds rows /\ v = place ds rows.
Proof.
  unfold import_rows. cbn [orb negb andb].
  destruct (forallb (fun r => known ds (r_labels r)) rows) eqn:Ek; cbn [negb].
  2:{ split; [discriminate|]. intros [[_ Hk] _]. exfalso.
      assert (X : forallb (fun r => known ds (r_labels r)) rows = true) by (apply forallb_forall; exact Hk). congruence. }
  rewrite forallb_forall in Ek.
  destruct (has_dup (map r_labels rows)) eqn:Ed.
  { split; [discriminate|]. intros [[Hn _] _]. rewrite (has_dup_NoDup _ Hn) in Ed. discriminate. }
  rewrite (placement_loop ds rows _ Ek). split.
  - intros E. injection E as <-. split; [|reflexivity]. constructor; auto. apply has_dup_false_NoDup. exact Ed.
  - intros [_ ->]. reflexivity.
Qed.

Lemma positions_NoDup_partial ds rows : accepted_partial ds rows -> NoDup (map (pos_of ds) rows).
Proof.
  intros [Hn Hk]. induction rows as [|r rows IH]; [constructor|]. simpl in *.
  inversion Hn as [|? ? Hr Hn']; subst. constructor.
  - intros Hin. apply in_map_iff in Hin. destruct Hin as (r' & E & Hr'). apply Hr.
    rewrite <- (pos_of_inj ds r' r); [apply in_map; exact Hr' | apply Hk; right; exact Hr' | apply Hk; left; reflexivity | exact E].
  - apply IH; auto.
Qed.

Theorem place_partial ds rows : items_unique ds -> accepted_partial ds rows ->
  length (place ds rows) = size (dshape ds) /\
  forall idx, Forall2 lt idx (dshape ds) ->
    (exists r, In r rows /\ r_labels r = labels_of ds idx /\ get rO (dshape ds) (place ds rows) idx = val r)
    \/ ((forall r, In r rows -> r_labels r <> labels_of ds idx) /\ get rO (dshape ds) (place ds rows) idx = rO).
Proof.
  intros Hu Ha. split.
  { unfold place. rewrite fold_upd_length. apply tab_length. }
  intros idx Hidx. destruct (nth_all_idx (dshape ds) idx Hidx) as [_ Hlt].
  pose proof Ha as [Hn Hk].
  destruct (in_dec Nat.eq_dec (ravel (dshape ds) idx) (map (pos_of ds) rows)) as [Hin|Hout].
  - left. apply in_map_iff in Hin. destruct Hin as (r & Er & Hr).
    destruct (known_positions ds _ (Hk r Hr)) as [Hp1 Hp2].
    assert (Epos : positions ds (r_labels r) = idx) by (apply (ravel_inj (dshape ds)); auto).
    exists r. split; [exact Hr|]. split; [rewrite <- Hp2, Epos; reflexivity|].
    unfold get. rewrite <- Er. unfold place.
    apply (fold_upd_hit R (pos_of ds) val rows _ r rO (positions_NoDup_partial ds rows Ha) Hr).
    rewrite tab_length. apply pos_of_lt. apply Hk. exact Hr.
  - right. split.
    + intros r Hr E. apply Hout. apply in_map_iff. exists r. split; [|exact Hr]. unfold pos_of. rewrite E, positions_labels; auto.
    + unfold get, place. rewrite (fold_upd_frame R (pos_of ds) val rows).
      * change (nth (ravel (dshape ds) idx) (tab (dshape ds) (fun _ : list nat => rO)) rO) with (get rO (dshape ds) (tab (dshape ds) (fun _ : list nat => rO)) idx).
        apply (get_tab R rO (dshape ds) (fun _ => rO) idx Hidx).
      * intros r Hr E. apply Hout. rewrite <- E. apply in_map. exact Hr.
Qed.

(* ---- the order of the rows does not matter ---- *)
Lemma accepted_perm ds rows rows' : Permutation rows rows' -> accepted ds rows -> accepted ds rows'.
Proof.
  intros P [Hn Hk Hc Hv]. constructor.
  - apply (Permutation_NoDup (Permutation_map r_labels P) Hn).
  - intros r Hr. apply Hk. apply (Permutation_in r (Permutation_sym P) Hr).
  - rewrite <- (Permutation_length P). exact Hc.
  - intros r Hr. apply Hv. apply (Permutation_in r (Permutation_sym P) Hr).
Qed.

Theorem import_rows_any_order ds rows rows' v : items_unique ds -> Permutation rows rows' ->
  import ds false false false false rows = Ok v -> import ds false false false false rows' = Ok v.
Proof.
  intros Hu P E. apply import_accepts_iff in E. destruct E as [Ha ->].
  pose proof (accepted_perm ds rows rows' P Ha) as Ha'.
  apply import_accepts_iff. split; [exact Ha'|].
  destruct (place_from_unique_row ds rows Hu Ha) as [L1 S1]. destruct (place_from_unique_row ds rows' Hu Ha') as [L2 S2].
  rewrite <- (tab_get R rO (dshape ds) (place ds rows) L1), <- (tab_get R rO (dshape ds) (place ds rows') L2).
  apply tab_ext. intros idx Hidx.
  destruct (S1 idx Hidx) as (r & Hr & El & Ev & _). destruct (S2 idx Hidx) as (r' & Hr' & El' & Ev' & Hun').
  assert (r = r') by (apply Hun'; [apply (Permutation_in r P Hr) | exact El]). subst r'.
  rewrite Ev in Ev'. injection Ev' as Ev'. exact Ev'.
Qed.

(* a refusal does not depend on the order either *)
Corollary import_refusal_any_order ds rows rows' : items_unique ds -> Permutation rows rows' ->
  import ds false false false false rows = Err -> import ds false false false false rows' = Err.
Proof.
  intros Hu P E. destruct (import ds false false false false rows') as [v|] eqn:E'; [|reflexivity].
  rewrite (import_rows_any_order ds rows' rows v Hu (Permutation_sym P) E') in E. discriminate.
Qed.

(* a table, in whatever order and however it was assembled (long, melted from a wide one, ...), whose rows are accepted and
   each carry the array's entry at their labels, is read back into that array *)
Theorem import_of_consistent_rows ds rows (a : list R) : items_unique ds -> length a = size (dshape ds) ->
  accepted ds rows ->
  (forall r, In r rows -> r_value r = Some (get rO (dshape ds) a (positions ds (r_labels r)))) ->
  import ds false false false false rows = Ok a.
Proof.
  intros Hu Hl Ha Hc. apply import_accepts_iff. split; [exact Ha|].
  destruct (place_from_unique_row ds rows Hu Ha) as [L S].
  rewrite <- (tab_get R rO (dshape ds) a Hl), <- (tab_get R rO (dshape ds) (place ds rows) L).
  apply tab_ext. intros idx Hidx. destruct (S idx Hidx) as (r & Hr & El & Ev & _).
  rewrite (Hc r Hr) in Ev. injection Ev as Ev. rewrite <- Ev, El. rewrite positions_labels; auto.
Qed.

(* C11: "the same holds after any permutation of rows" *)
Corollary roundtrip_any_row_order (is_zero : R -> bool) (a : farr R) rows :
  items_unique (adims a) -> length (avals a) = size (dshape (adims a)) ->
  Permutation (to_rows R rO is_zero false a) rows ->
  import (adims a) false false false false rows = Ok (avals a).
Proof.
  intros Hu Hl P. apply (import_rows_any_order (adims a) _ rows (avals a) Hu P). apply roundtrip_long; assumption.
Qed.

End S.
