(* C02: the closed form of a sum of arrays of differing dimensionality.  Python's
   sum([p1, ..., pn]) folds FlodymArray.__add__, which reduces both operands to their common dimensions
   at every step.  The result carries the dimensions common to ALL parts (in the first part's order),
   and its entry under the labels [e] is the sum, over the parts, of each part summed over all labels of
   its other dimensions. *)
From Coq Require Import List Arith Lia Ring_theory Ring Permutation Bool.
Import ListNotations.
From Flodym Require Import Base.ND Base.Env Np.Einsum Model.Dims Model.Array Proofs.ArrayLemmas Proofs.C07Proofs
  Proofs.C14Proofs Proofs.C01Proofs Proofs.C04Proofs Proofs.SumProofs Proofs.SharesProofs.

Section P.
Variable R : Type.
Variables (rO rI : R) (radd rmul rsub : R -> R -> R) (ropp : R -> R).
Variable Rth : ring_theory rO rI radd rmul rsub ropp eq.
Add Ring RringFA : Rth.
Notation sum := (sum rO radd).
Notation sum_env := (sum_env rO radd).
Notation farr := (farr R).
Notation den := (den R rO).
Notation wf := (wf R).
Notation lsizes := (lsizes R).
Notation others := (others R).
Notation "x + y" := (radd x y) : rs.
Local Open Scope rs.

Definition add (x y : farr) : res farr := binop_common R rO rI radd rmul radd x y.

(* the marginal of [p] on the letters [ds], at the labels [e] *)
Definition marg (p : farr) (ds : list letter) (e : env) : R :=
  sum_env (sized (lsizes p) (others p ds)) (fun e' => den p (e' ++ e)).

(* all arrays agree with one global table of dimension lengths *)
Definition agree (G : env) (p : farr) : Prop := forall d, In d (adims p) -> lookup G (dletter d) = dlen d.

Lemma agree_lsizes G p l : NoDup (aletters R p) -> agree G p -> In l (aletters R p) -> lookup (lsizes p) l = lookup G l.
Proof.
  intros Hn Ha Hl. unfold aletters, letters in Hl. apply in_map_iff in Hl. destruct Hl as (d & <- & Hd).
  unfold ArrayLemmas.lsizes, aletters. rewrite (lookup_lsizes (adims p) d Hn Hd). symmetry. apply Ha. exact Hd.
Qed.

Lemma lookup_sized sz ls l : In l ls -> lookup (sized sz ls) l = lookup sz l.
Proof.
  unfold sized. induction ls as [|x t IH]; [contradiction|]. simpl. intros Hin.
  destruct (Nat.eqb_spec x l) as [->|Hne]; [reflexivity|]. apply IH. destruct Hin; [contradiction | auto].
Qed.

Lemma sized_ext sz sz' ls : (forall l, In l ls -> lookup sz l = lookup sz' l) -> sized sz ls = sized sz' ls.
Proof. intros H. unfold sized. apply map_ext_in. intros l Hl. rewrite H; auto. Qed.

Lemma sized_app sz l1 l2 : sized sz (l1 ++ l2) = sized sz l1 ++ sized sz l2.
Proof. unfold sized. apply map_app. Qed.

Lemma memb_app l a b : memb l (a ++ b) = memb l a || memb l b.
Proof. unfold memb. apply existsb_app. Qed.

Lemma filter_filter {A} (f g : A -> bool) l : filter f (filter g l) = filter (fun x => g x && f x) l.
Proof.
  induction l as [|a t IH]; simpl; auto. destruct (g a); simpl; [|exact IH].
  destruct (f a); simpl; [f_equal|]; exact IH.
Qed.

(* marginals compose: summing the marginal on A1 over the labels of A1 \ R gives the marginal on R *)
Lemma marg_compose G (p : farr) A1 Rs e :
  wf p -> agree G p -> NoDup A1 -> incl A1 (aletters R p) -> incl Rs A1 ->
  sum_env (sized G (filter (fun l => negb (memb l Rs)) A1)) (fun e' => marg p A1 (e' ++ e)) = marg p Rs e.
Proof.
  intros Hwf Hag HnA HA HR. pose proof Hwf as [Hn _].
  set (L1s := filter (fun l => negb (memb l Rs)) A1).
  assert (E1 : sized G L1s = sized (lsizes p) L1s).
  { apply sized_ext. intros l Hl. symmetry. apply agree_lsizes; auto. apply HA. unfold L1s in Hl. apply filter_In in Hl. tauto. }
  rewrite E1. unfold marg.
  (* put the two environments in one *)
  rewrite (sum_env_ext_in R rO radd _ _ (fun e1 => sum_env (sized (lsizes p) (others p A1)) (fun e2 => den p ((e1 ++ e2) ++ e)))).
  2:{ intros e1 He1. apply sum_env_ext_in. intros e2 He2. apply den_ext. intros l _.
      rewrite !lookup_app, map_app, memb_app.
      destruct (memb l (map fst e1)) eqn:E1', (memb l (map fst e2)) eqn:E2; simpl; auto.
      exfalso. rewrite (all_env_fst _ _ He1), sized_fst in E1'. rewrite (all_env_fst _ _ He2), sized_fst in E2.
      apply memb_In in E2, E1'. unfold ArrayLemmas.others in E2. apply filter_In in E2. destruct E2 as [_ E2].
      apply negb_true_iff, memb_false in E2. apply E2. unfold L1s in E1'. apply filter_In in E1'. tauto. }
  rewrite <- (sum_env_app R rO rI radd rmul rsub ropp Rth (sized (lsizes p) L1s) (sized (lsizes p) (others p A1))
                (fun e12 => den p (e12 ++ e))).
  rewrite <- sized_app.
  apply (sum_env_perm_keys R rO rI radd rmul rsub ropp Rth).
  - unfold sized. apply Permutation_map. apply NoDup_Permutation.
    + apply NoDup_app_intro.
      * unfold L1s. apply NoDup_filter. exact HnA.
      * unfold ArrayLemmas.others. apply NoDup_filter. exact Hn.
      * intros l H1 H2. unfold L1s in H1. apply filter_In in H1. unfold ArrayLemmas.others in H2. apply filter_In in H2.
        destruct H2 as [_ H2]. apply negb_true_iff, memb_false in H2. tauto.
    + unfold ArrayLemmas.others. apply NoDup_filter. exact Hn.
    + intros l. rewrite in_app_iff. unfold L1s, ArrayLemmas.others. rewrite !filter_In, !negb_true_iff, !memb_false. split.
      * intros [[H1 H2]|[H1 H2]].
        -- split; [apply HA; exact H1 | exact H2].
        -- split; [exact H1 | intros H3; apply H2; apply HR; exact H3].
      * intros [H1 H2]. destruct (in_dec Nat.eq_dec l A1); [left | right]; auto.
  - rewrite sized_fst. apply NoDup_app_intro.
    + unfold L1s. apply NoDup_filter. exact HnA.
    + unfold ArrayLemmas.others. apply NoDup_filter. exact Hn.
    + intros l H1 H2. unfold L1s in H1. apply filter_In in H1. unfold ArrayLemmas.others in H2. apply filter_In in H2.
      destruct H2 as [_ H2]. apply negb_true_iff, memb_false in H2. tauto.
  - apply ext_keys_app_r. apply den_ext_all.
Qed.

Lemma add_wf (x y r : farr) : wf x -> add x y = Ok r -> wf r.
Proof.
  intros [Hx _] H. unfold add, binop_common in H.
  rewrite (intersect_spec (adims x) (adims y) Hx) in H. cbn [bind] in H.
  destruct (sum_values_to R rO rI radd rmul x _); [|discriminate]. cbn [bind] in H.
  destruct (sum_values_to R rO rI radd rmul y _); [|discriminate]. cbn [bind] in H.
  destruct (shape_eqb _ _); [|discriminate].
  eapply (construct_wf R); [|exact H]. apply NoDup_letters_filter. exact Hx.
Qed.

Lemma add_dims (x y r : farr) : wf x -> add x y = Ok r ->
  adims r = filter (fun d => memb (dletter d) (aletters R y)) (adims x).
Proof.
  intros [Hx _] H. unfold add, binop_common in H.
  rewrite (intersect_spec (adims x) (adims y) Hx) in H. cbn [bind] in H.
  destruct (sum_values_to R rO rI radd rmul x _); [|discriminate]. cbn [bind] in H.
  destruct (sum_values_to R rO rI radd rmul y _); [|discriminate]. cbn [bind] in H.
  destruct (shape_eqb _ _); [|discriminate].
  destruct (construct_ok_gen R _ _ _ H) as (Hd & _ & _). exact Hd.
Qed.

Lemma agree_filter G (x r : farr) (f : dim -> bool) : agree G x -> adims r = filter f (adims x) -> agree G r.
Proof. intros Ha Hd d Hin. rewrite Hd in Hin. apply filter_In in Hin. apply Ha. tauto. Qed.

Lemma in_range_G G (p : farr) e ls : NoDup (aletters R p) -> agree G p -> incl ls (aletters R p) ->
  in_range G e ls -> in_range (lsizes p) e ls.
Proof. intros Hn Ha Hi Hr l Hl. rewrite (agree_lsizes G p l Hn Ha (Hi l Hl)). apply Hr. exact Hl. Qed.

Lemma letters_filter_incl (f : dim -> bool) ds : incl (letters (filter f ds)) (letters ds).
Proof. intros l Hl. unfold letters in *. apply in_map_iff in Hl. destruct Hl as (d & <- & Hd). apply in_map. apply filter_In in Hd. tauto. Qed.

(* one step: the marginal of x + y is the sum of the marginals *)
Lemma add_marg G (x y r : farr) Rs e :
  wf x -> wf y -> agree G x -> agree G y -> add x y = Ok r ->
  incl Rs (aletters R r) -> in_range G e Rs ->
  marg r Rs e = marg x Rs e + marg y Rs e.
Proof.
  intros Hwx Hwy Hax Hay Hadd HR Hr.
  pose proof (add_wf x y r Hwx Hadd) as Hwr. pose proof (add_dims x y r Hwx Hadd) as Hd.
  pose proof Hwr as [Hnr _]. pose proof Hwx as [Hnx _]. pose proof Hwy as [Hny _].
  pose proof (agree_filter G x r _ Hax Hd) as Har.
  set (A1 := aletters R r) in *.
  assert (HA1x : incl A1 (aletters R x)).
  { unfold A1, aletters. rewrite Hd. apply letters_filter_incl. }
  assert (HA1y : incl A1 (aletters R y)).
  { unfold A1, aletters. rewrite Hd. intros l Hl. unfold letters in Hl. apply in_map_iff in Hl. destruct Hl as (d & <- & Hd').
    apply filter_In in Hd'. destruct Hd' as [_ Hm]. apply memb_In in Hm. exact Hm. }
  unfold marg at 1.
  assert (Es : sized (lsizes r) (others r Rs) = sized G (filter (fun l => negb (memb l Rs)) A1)).
  { unfold ArrayLemmas.others. fold A1. apply sized_ext. intros l Hl. apply filter_In in Hl.
    apply agree_lsizes; auto. tauto. }
  rewrite Es.
  rewrite (sum_env_ext_in R rO radd _ _ (fun e' => marg x A1 (e' ++ e) + marg y A1 (e' ++ e))).
  - rewrite (sum_env_add R rO rI radd rmul rsub ropp Rth).
    rewrite (marg_compose G x A1 Rs e Hwx Hax Hnr HA1x HR).
    rewrite (marg_compose G y A1 Rs e Hwy Hay Hnr HA1y HR). reflexivity.
  - intros e' He'.
    assert (Hk : map fst e' = filter (fun l => negb (memb l Rs)) A1).
    { rewrite (all_env_fst _ _ He'). apply sized_fst. }
    assert (HrA : in_range G (e' ++ e) A1).
    { intros l Hl. rewrite lookup_app, Hk.
      destruct (memb l (filter (fun l0 => negb (memb l0 Rs)) A1)) eqn:Em.
      - apply memb_In in Em. pose proof (all_env_lt _ _ l He') as Hlt. rewrite sized_fst in Hlt.
        specialize (Hlt Em). rewrite lookup_sized in Hlt by exact Em. exact Hlt.
      - apply Hr. apply memb_false in Em. destruct (in_dec Nat.eq_dec l Rs) as [Hin|Hnin]; auto.
        exfalso. apply Em. apply filter_In. split; auto. apply negb_true_iff, memb_false. exact Hnin. }
    destruct (binop_common_spec R rO rI radd rmul rsub ropp Rth radd x y r (e' ++ e) Hwx Hwy Hadd) as [_ Hv].
    + apply (in_range_G G x); auto.
    + apply (in_range_G G y); auto.
    + rewrite Hv. reflexivity.
Qed.

Lemma fold_err (ps : list farr) : fold_left (fun acc p => a <- acc ;; add a p) ps Err = Err.
Proof. induction ps; simpl; auto. Qed.

(* sum of the marginals of a list of parts *)
Definition msum (ps : list farr) (ds : list letter) (e : env) : R := sum (map (fun p => marg p ds e) ps).

Theorem fold_add_spec G (ps : list farr) (a0 r : farr) :
  wf a0 -> agree G a0 -> Forall wf ps -> Forall (agree G) ps ->
  fold_left (fun acc p => a <- acc ;; add a p) ps (Ok a0) = Ok r ->
  wf r
  /\ adims r = filter (fun d => forallb (fun p => memb (dletter d) (aletters R p)) ps) (adims a0)
  /\ forall Rs e, incl Rs (aletters R r) -> in_range G e Rs -> marg r Rs e = marg a0 Rs e + msum ps Rs e.
Proof.
  revert a0. induction ps as [|p ps IH]; intros a0 Hw0 Ha0 Hws Has Hf; simpl in Hf.
  - injection Hf as <-. split; [exact Hw0|]. split.
    + simpl. clear. induction (adims a0) as [|d t IHt]; simpl; [reflexivity | f_equal; exact IHt].
    + intros Rs e _ _. unfold msum. simpl. ring.
  - inversion Hws as [|? ? Hwp Hws']; subst. inversion Has as [|? ? Hap Has']; subst.
    destruct (add a0 p) as [a1|] eqn:Ea; [|rewrite fold_err in Hf; discriminate].
    pose proof (add_wf a0 p a1 Hw0 Ea) as Hw1. pose proof (add_dims a0 p a1 Hw0 Ea) as Hd1.
    pose proof (agree_filter G a0 a1 _ Ha0 Hd1) as Ha1.
    destruct (IH a1 Hw1 Ha1 Hws' Has' Hf) as (Hwr & Hdr & Hm).
    split; [exact Hwr|]. split.
    + rewrite Hdr, Hd1. apply filter_filter.
    + intros Rs e HR Hr. rewrite (Hm Rs e HR Hr).
      assert (HR1 : incl Rs (aletters R a1)).
      { intros l Hl. specialize (HR l Hl). unfold aletters in *. rewrite Hdr in HR. apply letters_filter_incl in HR. exact HR. }
      rewrite (add_marg G a0 p a1 Rs e Hw0 Hwp Ha0 Hap Ea HR1 Hr). unfold msum. simpl. ring.
Qed.

(* the marginal on all of an array's own letters is the entry itself *)
Lemma marg_self (p : farr) e : marg p (aletters R p) e = den p e.
Proof.
  unfold marg. assert (E : others p (aletters R p) = []).
  { unfold ArrayLemmas.others. apply (proj2 (filter_nil_iff_gen _ _)). intros l Hl. apply negb_false_iff, memb_In. exact Hl. }
  rewrite E. simpl. apply (sum_env_nil R rO rI radd rmul rsub ropp Rth).
Qed.

(* Python's sum(parts) = ((0 + p1) + p2) + ... where 0 + p1 is p1 + (zeros over p1's dimensions) *)
Definition g_sum (parts : list farr) : res (option farr) :=
  match parts with
  | [] => Ok None
  | p1 :: r =>
      a0 <- add p1 (full R (adims p1) rO) ;;
      a <- fold_left (fun acc p => a <- acc ;; add a p) r (Ok a0) ;;
      Ok (Some a)
  end.

Theorem g_sum_spec G (p1 : farr) (ps : list farr) (r : farr) :
  Forall wf (p1 :: ps) -> Forall (agree G) (p1 :: ps) ->
  g_sum (p1 :: ps) = Ok (Some r) ->
  adims r = filter (fun d => forallb (fun p => memb (dletter d) (aletters R p)) ps) (adims p1)
  /\ forall e, in_range G e (aletters R r) -> den r e = msum (p1 :: ps) (aletters R r) e.
Proof.
  intros Hws Has Hg. inversion Hws as [|? ? Hw1 Hws']; subst. inversion Has as [|? ? Ha1 Has']; subst.
  pose proof Hw1 as [Hn1 _].
  unfold g_sum in Hg.
  set (z := full R (adims p1) rO) in *.
  assert (Hwz : wf z). { split; [exact Hn1|]. unfold z, full, nd_full; simpl. apply tab_length. }
  assert (Haz : agree G z). { intros d Hd. apply Ha1. exact Hd. }
  destruct (add p1 z) as [a0|] eqn:Ea; [|discriminate]. cbn [bind] in Hg.
  destruct (fold_left (fun acc p => a <- acc ;; add a p) ps (Ok a0)) as [a|] eqn:Ef; [|discriminate]. cbn [bind] in Hg.
  injection Hg as <-.
  pose proof (add_wf p1 z a0 Hw1 Ea) as Hw0. pose proof (add_dims p1 z a0 Hw1 Ea) as Hd0.
  assert (Hd0' : adims a0 = adims p1).
  { rewrite Hd0. clear. unfold z, full, aletters; simpl. induction (adims p1) as [|d t IH]; simpl; auto.
    rewrite Nat.eqb_refl. simpl. f_equal.
    transitivity (filter (fun d0 => memb (dletter d0) (letters t)) t).
    - apply filter_ext_in. intros d0 Hd0. unfold memb. simpl.
      destruct (Nat.eqb (dletter d0) (dletter d)); simpl; auto.
      symmetry. apply memb_In. unfold letters. apply in_map. exact Hd0.
    - exact IH. }
  pose proof (agree_filter G p1 a0 _ Ha1 Hd0) as Ha0.
  destruct (fold_add_spec G ps a0 a Hw0 Ha0 Hws' Has' Ef) as (Hwr & Hdr & Hm).
  split; [rewrite Hdr, Hd0'; reflexivity|].
  intros e Hr. rewrite <- (marg_self a e).
  rewrite (Hm (aletters R a) e (fun l H => H) Hr).
  assert (HR0 : incl (aletters R a) (aletters R a0)).
  { intros l Hl. unfold aletters in *. rewrite Hdr in Hl. apply letters_filter_incl in Hl. exact Hl. }
  rewrite (add_marg G p1 z a0 (aletters R a) e Hw1 Hwz Ha1 Haz Ea HR0 Hr).
  assert (Ez : marg z (aletters R a) e = rO).
  { unfold marg. rewrite (sum_env_ext_in R rO radd _ _ (fun _ => rO)).
    - unfold Env.sum_env. apply (sum_map_zero R rO rI radd rmul rsub ropp Rth).
    - intros e' He'. unfold z. apply (den_full R rO); [exact Hn1|].
      intros l Hl. rewrite lookup_app, (all_env_fst _ _ He'), sized_fst.
      change (combine (letters (adims p1)) (dshape (adims p1))) with (lsizes p1).
      change (lsizes p1) with (lsizes z).
      destruct (memb l (others z (aletters R a))) eqn:Em.
      + apply memb_In in Em. pose proof (all_env_lt _ _ l He') as Hlt. rewrite sized_fst in Hlt.
        specialize (Hlt Em). rewrite lookup_sized in Hlt by exact Em. exact Hlt.
      + apply memb_false in Em.
        assert (Hin : In l (aletters R a)).
        { destruct (in_dec Nat.eq_dec l (aletters R a)) as [H|H]; auto. exfalso. apply Em.
          unfold ArrayLemmas.others. apply filter_In. split; [exact Hl|]. apply negb_true_iff, memb_false. exact H. }
        rewrite (agree_lsizes G z l Hn1 Haz Hl). apply Hr. exact Hin. }
  rewrite Ez. unfold msum. simpl. ring.
Qed.

End P.
