(* C07: cumsum accumulates along the dimension given by its letter, in item order. *)
From Coq Require Import List Arith Lia Ring_theory Ring Permutation Bool.
Import ListNotations.
From Flodym Require Import Base.ND Base.Env Np.Einsum Model.Dims Model.Array Proofs.ArrayLemmas Proofs.SharesProofs.

Lemma index_of_none l ls : ~ In l ls -> index_of l ls = None.
Proof.
  induction ls as [|a t IH]; simpl; intros H; auto.
  destruct (Nat.eqb_spec a l) as [E|_]; [exfalso; apply H; left; exact E|].
  rewrite IH; auto.
Qed.

Lemma index_of_upd ls l ax (e : env) j :
  NoDup ls -> index_of l ls = Some ax ->
  firstn ax (map (lookup e) ls) ++ j :: skipn (S ax) (map (lookup e) ls) = map (lookup ((l, j) :: e)) ls
  /\ nth ax (map (lookup e) ls) 0 = lookup e l.
Proof.
  revert ax. induction ls as [|a t IH]; intros ax Hn Hi; simpl in Hi; [discriminate|].
  inversion Hn as [|? ? Hna Hn']; subst.
  destruct (Nat.eqb_spec a l) as [->|Hne].
  - injection Hi as <-. simpl. rewrite Nat.eqb_refl. split; [|reflexivity]. f_equal.
    apply map_ext_in. intros x Hx. destruct (Nat.eqb_spec l x) as [->|_]; [contradiction | reflexivity].
  - destruct (index_of l t) as [ax'|] eqn:E; simpl in Hi; [|discriminate]. injection Hi as <-.
    destruct (IH ax' Hn' eq_refl) as [I1 I2]. simpl.
    destruct (Nat.eqb_spec l a) as [->|_]; [contradiction|]. split; [f_equal; exact I1 | exact I2].
Qed.

Section P.
Variable R : Type.
Variables (rO rI : R) (radd rmul rsub : R -> R -> R) (ropp : R -> R).
Notation sum := (sum rO radd).
Notation farr := (farr R).
Notation den := (den R rO).
Notation wf := (wf R).
Notation lsizes := (lsizes R).

(* the entry of the cumulated array under the labels [e] is the sum of the source entries whose label
   along [l] is at or before that of [e], all other labels being the same *)
Theorem cumsum_spec (a r : farr) l e :
  wf a -> cumsum R rO radd a l = Ok r -> in_range (lsizes a) e (aletters R a) ->
  adims r = adims a
  /\ den r e = sum (map (fun j => den a ((l, j) :: e)) (seq 0 (S (lookup e l)))).
Proof.
  intros [Hn Hlen] Hc Hr. unfold cumsum in Hc.
  destruct (index_of l (aletters R a)) as [ax|] eqn:Ei; [|discriminate]. pose proof (f_equal (fun x => match x with Ok y => y | Err => r end) Hc) as Hc'. cbv beta iota in Hc'. subst r. clear Hc.
  split; [reflexivity|].
  match goal with |- den (mk_farr ?ds ?v) e = _ =>
    change (den (mk_farr ds v) e) with (get rO (dshape ds) v (map (lookup e) (letters ds))) end.
  rewrite (get_tab R rO) by (apply (idx_in_range R a e Hn Hr)).
  destruct (index_of_upd (aletters R a) l ax e 0 Hn Ei) as [_ Hnth].
  unfold aletters in Hnth. rewrite Hnth.
  f_equal. apply map_ext. intros j.
  destruct (index_of_upd (aletters R a) l ax e j Hn Ei) as [Hu _]. unfold aletters in Hu. rewrite Hu.
  reflexivity.
Qed.

Theorem cumsum_unknown (a : farr) l : ~ In l (aletters R a) -> cumsum R rO radd a l = Err.
Proof. intros H. unfold cumsum. rewrite index_of_none; auto. Qed.

End P.
