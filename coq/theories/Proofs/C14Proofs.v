(* C14: ordered-set laws of the pure DimensionSet operations, and the heap-level facts:
   no two set objects ever share a list, out-of-place operations leave every existing set as it
   was, an in-place operation changes the receiver only, letters stay unique. *)
From Coq Require Import List Arith Lia Bool ZArith.
Import ListNotations.
From Flodym Require Import Base.ND Base.Env Model.Dims Model.SubArray Model.DimHeap Proofs.ArrayLemmas.
Local Open Scope nat_scope.

(* ---------- pure laws ---------- *)

Lemma find_letter_in ds d : NoDup (letters ds) -> In d ds -> find_letter ds (dletter d) = Some d.
Proof.
  induction ds as [|e ds IH]; simpl; intros Hn Hin; [contradiction|].
  inversion Hn as [|? ? Hne Hn']; subst. destruct Hin as [->|Hin].
  - rewrite Nat.eqb_refl. reflexivity.
  - destruct (Nat.eqb_spec (dletter e) (dletter d)) as [E|E].
    + exfalso. apply Hne. unfold letters. rewrite E. apply in_map. exact Hin.
    + apply IH; auto.
Qed.

Lemma mapM_ok_map {A B} (f : A -> res B) (g : A -> B) l :
  (forall a, In a l -> f a = Ok (g a)) -> mapM f l = Ok (map g l).
Proof.
  induction l as [|a l IH]; simpl; intros H; auto.
  rewrite H by (left; auto). simpl. rewrite IH by (intros; apply H; right; auto). reflexivity.
Qed.

Lemma mapM_map_id {A B} (f : A -> res B) (g : B -> A) l :
  (forall b, In b l -> f (g b) = Ok b) -> mapM f (map g l) = Ok l.
Proof.
  induction l as [|b l IH]; simpl; intros H; auto.
  rewrite H by (left; auto). simpl. rewrite IH by (intros; apply H; right; auto). reflexivity.
Qed.

(* selecting, by letter, the dimensions that satisfy a predicate keeps them in the set's order *)
Lemma get_subset_filter ds (f : letter -> bool) : NoDup (letters ds) ->
  get_subset ds (map KLetter (filter f (letters ds))) = Ok (filter (fun d => f (dletter d)) ds).
Proof.
  intros Hn. unfold get_subset.
  assert (E : map KLetter (filter f (letters ds)) = map (fun d => KLetter (dletter d)) (filter (fun d => f (dletter d)) ds)).
  { unfold letters. clear Hn. induction ds as [|d ds IH]; simpl; auto. destruct (f (dletter d)); simpl; congruence. }
  rewrite E. apply mapM_map_id.
  intros d Hd. apply filter_In in Hd. destruct Hd as [Hd _]. simpl. rewrite find_letter_in; auto.
Qed.

Theorem intersect_spec x y : NoDup (letters x) ->
  intersect_with x y = Ok (filter (fun d => memb (dletter d) (letters y)) x).
Proof. intros H. unfold intersect_with. apply get_subset_filter; auto. Qed.

Theorem difference_spec x y : NoDup (letters x) ->
  difference_with x y = Ok (filter (fun d => negb (memb (dletter d) (letters y))) x).
Proof. intros H. unfold difference_with. apply (get_subset_filter x (fun l => negb (memb l (letters y)))); auto. Qed.

Lemma letters_app a b : letters (a ++ b) = letters a ++ letters b.
Proof. unfold letters. apply map_app. Qed.

Lemma NoDup_letters_filter (f : dim -> bool) ds : NoDup (letters ds) -> NoDup (letters (filter f ds)).
Proof.
  unfold letters. induction ds as [|d ds IH]; simpl; intros H; [constructor|].
  inversion H as [|? ? Hn H']; subst. destruct (f d); simpl; auto. constructor; auto.
  intros Hin. apply Hn. apply in_map_iff in Hin. destruct Hin as (e & E & He).
  apply filter_In in He. rewrite <- E. apply in_map. tauto.
Qed.

(* union keeps the left set's order and appends the right set's new dimensions *)
Theorem union_spec x y : NoDup (letters x) -> NoDup (letters y) ->
  union_with x y = Ok (x ++ filter (fun d => negb (memb (dletter d) (letters x))) y).
Proof.
  intros Hx Hy. unfold union_with, expand_by.
  set (add := filter (fun d => negb (memb (dletter d) (letters x))) y).
  assert (Ha : forallb (fun d => negb (memb (dletter d) (letters x))) add = true).
  { apply forallb_forall. intros d Hd. apply filter_In in Hd. tauto. }
  rewrite Ha. unfold mk_dimset.
  assert (Hn : NoDup (letters (x ++ add))).
  { rewrite letters_app. apply NoDup_app_intro; auto.
    - apply NoDup_letters_filter; auto.
    - intros l H1 H2. unfold letters in H2. apply in_map_iff in H2. destruct H2 as (d & E & Hd).
      apply filter_In in Hd. destruct Hd as [_ Hd]. apply negb_true_iff, memb_false in Hd. subst. contradiction. }
  apply nodupb_NoDup in Hn. rewrite Hn. reflexivity.
Qed.

Theorem add_rejects_overlap x y d : NoDup (letters x) ->
  In d x -> In (dletter d) (letters y) -> add_sets x y = Err.
Proof.
  intros Hx Hd Hl. unfold add_sets. rewrite intersect_spec by auto. simpl.
  destruct (filter _ x) eqn:E; auto.
  exfalso. assert (Hin : In d (filter (fun d0 => memb (dletter d0) (letters y)) x)).
  { apply filter_In. split; auto. apply memb_In; auto. }
  rewrite E in Hin. contradiction.
Qed.

Theorem get_subset_order ds ks r : get_subset ds ks = Ok r -> Forall2 (fun k d => find_key ds k = Some d) ks r.
Proof.
  unfold get_subset. revert r. induction ks as [|k ks IH]; simpl; intros r H.
  - injection H as <-. constructor.
  - destruct (find_key ds k) as [d|] eqn:E; simpl in H; [|discriminate].
    destruct (mapM _ ks) as [r'|]; simpl in H; [|discriminate]. injection H as <-. constructor; auto.
Qed.

(* ---------- heap facts ---------- *)

Definition no_sharing (h : dheap) : Prop := NoDup (objs h) /\ Forall (fun c => c < length (cells h)) (objs h).

Lemma no_sharing_new h ds : no_sharing h -> no_sharing (new_obj h ds).
Proof.
  intros [Hn Hb]. unfold no_sharing, new_obj; simpl. split.
  - apply NoDup_app_intro; auto. { repeat constructor; auto. }
    intros c H1 [<-|[]]. rewrite Forall_forall in Hb. apply Hb in H1. lia.
  - rewrite app_length; simpl. apply Forall_app. split.
    + eapply Forall_impl; [|exact Hb]. simpl; intros; lia.
    + constructor; [lia | constructor].
Qed.

Lemma upd_nth_length {A} (l : list A) k v : length (upd_nth l k v) = length l.
Proof. revert k. induction l as [|a l IH]; intros [|k]; simpl; auto. Qed.

Lemma no_sharing_set_cell h i ds : no_sharing h -> no_sharing (set_cell h i ds).
Proof.
  intros [Hn Hb]. unfold set_cell. destruct (nth_error (objs h) i); [|split; auto].
  unfold no_sharing; simpl. rewrite upd_nth_length. split; auto.
Qed.

Ltac ns_tac H :=
  repeat match goal with
         | |- no_sharing (fst (if ?c then _ else _)) => destruct c
         | |- no_sharing (fst (match ?c with _ => _ end)) => destruct c
         | |- no_sharing (fst (_, _)) => simpl
         | |- no_sharing (new_obj _ _) => apply no_sharing_new
         | |- no_sharing (set_cell _ _ _) => apply no_sharing_set_cell
         | |- no_sharing _ => exact H
         end.

Lemma In_upd_nth {A} (l : list A) i c x : In x (upd_nth l i c) -> x = c \/ In x l.
Proof.
  revert i. induction l as [|a l IH]; intros [|i] H; simpl in *; auto.
  - destruct H as [H|H]; auto.
  - destruct H as [H|H]; auto. apply IH in H. tauto.
Qed.

Lemma NoDup_upd_nth_fresh (l : list nat) i c : NoDup l -> ~ In c l -> NoDup (upd_nth l i c).
Proof.
  revert i. induction l as [|a l IH]; intros [|i] Hn Hc; simpl; auto.
  - inversion Hn; subst. constructor; auto. intros H. apply Hc. right; auto.
  - inversion Hn as [|? ? Ha Hn']; subst. constructor.
    + intros H. apply In_upd_nth in H. destruct H as [->|H]; [apply Hc; left; auto | contradiction].
    + apply IH; auto. intros H. apply Hc. right; auto.
Qed.

Lemma Forall_upd_nth {A} (P : A -> Prop) l i x : Forall P l -> P x -> Forall P (upd_nth l i x).
Proof. revert i; induction l as [|a t IH]; intros [|j] Hl Hx; simpl; auto; inversion Hl; subst; constructor; auto. Qed.

(* with the repaired get_subset(), no two DimensionSet objects ever share their list *)
Theorem no_sharing_step h o : no_sharing h -> no_sharing (fst (dstep true h o)).
Proof.
  intros H. destruct o; simpl; ns_tac H.
  (* what is left is DArrayOf: the receiver's list is re-copied into a fresh cell *)
  all: destruct H as [Hn Hb]; unfold no_sharing; simpl; split;
    [ apply NoDup_upd_nth_fresh; auto; intros X; rewrite Forall_forall in Hb; apply Hb in X; lia
    | rewrite app_length; simpl; apply Forall_upd_nth; [|lia]; eapply Forall_impl; [|exact Hb]; simpl; intros; lia ].
Qed.

Theorem no_sharing_reachable ops : no_sharing (drun true ops).
Proof.
  unfold drun. assert (G : forall h, no_sharing h -> no_sharing (fold_left (fun h o => fst (dstep true h o)) ops h)).
  { induction ops as [|o ops IH]; simpl; intros h Hh; auto. apply IH. apply no_sharing_step; auto. }
  apply G. split; constructor.
Qed.

(* an in-place edit of one object changes no other object *)
Lemma nth_error_upd_nth_other {A} (l : list A) k j v : j <> k -> nth_error (upd_nth l k v) j = nth_error l j.
Proof. revert k j. induction l as [|a l IH]; intros [|k] [|j] H; simpl; auto; try congruence. Qed.

Theorem set_cell_frame h i ds j : no_sharing h -> j <> i -> cell_of (set_cell h i ds) j = cell_of h j.
Proof.
  intros [Hn _] Hji. unfold set_cell. destruct (nth_error (objs h) i) as [c|] eqn:Ei; auto.
  unfold cell_of; simpl. destruct (nth_error (objs h) j) as [c'|] eqn:Ej; auto.
  apply nth_error_upd_nth_other. intros ->.
  apply Hji. eapply NoDup_nth_error; eauto. { apply nth_error_Some. congruence. } congruence.
Qed.

(* an out-of-place result is a new object: every existing object keeps its content *)
Lemma new_obj_frame h ds j d : cell_of h j = Some d -> cell_of (new_obj h ds) j = Some d.
Proof.
  unfold cell_of, new_obj; simpl. destruct (nth_error (objs h) j) as [c|] eqn:E; [|discriminate].
  intros Hc. rewrite nth_error_app1 by (apply nth_error_Some; congruence). rewrite E.
  rewrite nth_error_app1 by (apply nth_error_Some; congruence). exact Hc.
Qed.

(* ---------- letters stay unique ---------- *)

Definition is_letter_key (k : key) : bool := match k with KLetter _ => true | _ => false end.
Definition key_letter (k : key) : letter := match k with KLetter l => l | KName n => n end.

(* operations that add DISTINCT dimensions / select distinct dimensions (the property's premise) *)
Definition wf_dop (o : dop) : Prop :=
  match o with
  | DSubset _ (Some ks) => NoDup (map key_letter ks) /\ forallb is_letter_key ks = true
  | DExpand _ ds _ => NoDup (letters ds)
  | _ => True
  end.

Definition all_unique (h : dheap) : Prop := Forall (fun ds => NoDup (letters ds)) (cells h).

Lemma find_letter_letter ds l d : find_letter ds l = Some d -> dletter d = l.
Proof.
  induction ds as [|e ds IH]; simpl; [discriminate|].
  destruct (Nat.eqb_spec (dletter e) l); [intros H; injection H as <-; auto | auto].
Qed.

Lemma get_subset_letters ds ks r :
  forallb is_letter_key ks = true -> get_subset ds ks = Ok r -> letters r = map key_letter ks.
Proof.
  unfold get_subset. revert r. induction ks as [|k ks IH]; simpl; intros r Hk H.
  - injection H as <-. reflexivity.
  - apply andb_true_iff in Hk. destruct Hk as [Hk1 Hk2].
    destruct (find_key ds k) as [d|] eqn:E; simpl in H; [|discriminate].
    destruct (mapM _ ks) as [r'|] eqn:E'; simpl in H; [|discriminate]. injection H as <-.
    simpl. rewrite (IH r' Hk2 eq_refl). f_equal.
    destruct k; simpl in *; [|discriminate]. apply find_letter_letter in E. auto.
Qed.

Lemma mk_dimset_unique l r : mk_dimset l = Ok r -> NoDup (letters r).
Proof. unfold mk_dimset. destruct (nodupb (letters l)) eqn:E; [|discriminate]. intros H; injection H as <-. apply nodupb_NoDup; auto. Qed.

Lemma expand_by_unique x a r : expand_by x a = Ok r -> NoDup (letters r).
Proof. unfold expand_by. destruct (forallb _ a); [apply mk_dimset_unique | discriminate]. Qed.

Lemma union_unique x y r : union_with x y = Ok r -> NoDup (letters r).
Proof. apply expand_by_unique. Qed.

Lemma NoDup_filter_letters (f : letter -> bool) ds : NoDup (letters ds) -> NoDup (filter f (letters ds)).
Proof. apply NoDup_filter. Qed.

Lemma get_subset_filter_unique ds f r : NoDup (letters ds) ->
  get_subset ds (map KLetter (filter f (letters ds))) = Ok r -> NoDup (letters r).
Proof.
  intros Hn H. rewrite get_subset_filter in H by auto. injection H as <-. apply NoDup_letters_filter; auto.
Qed.

Lemma letters_remove_nth ds n : letters (remove_nth ds n) = remove_nth (letters ds) n.
Proof. revert n. induction ds as [|d ds IH]; intros [|n]; simpl; auto. f_equal. apply IH. Qed.

Lemma In_remove_nth {A} (l : list A) n y : In y (remove_nth l n) -> In y l.
Proof.
  revert n. induction l as [|a l IH]; intros [|n] H; simpl in *; auto.
  destruct H as [H|H]; auto. right. eapply IH; eauto.
Qed.

Lemma NoDup_remove_nth (l : list nat) n : NoDup l -> NoDup (remove_nth l n).
Proof.
  revert n. induction l as [|a l IH]; intros [|n] H; simpl; auto; inversion H as [|? ? Ha H']; subst; auto.
  constructor; auto. intros X. apply Ha. eapply In_remove_nth; eauto.
Qed.

Lemma In_replace_nth {A} (l : list A) n x y : In y (replace_nth l n x) -> y = x \/ In y l.
Proof.
  revert n. induction l as [|a l IH]; intros [|n] H; simpl in *; auto.
  - destruct H; auto. - destruct H as [H|H]; auto. apply IH in H. tauto.
Qed.

Lemma letters_replace_nth ds n d : letters (replace_nth ds n d) = replace_nth (letters ds) n (dletter d).
Proof. revert n. induction ds as [|e ds IH]; intros [|n]; simpl; auto. f_equal. apply IH. Qed.

Lemma NoDup_replace_nth (l : list nat) n x : NoDup l -> ~ In x l -> NoDup (replace_nth l n x).
Proof.
  revert n. induction l as [|a l IH]; intros [|n] H Hx; simpl; auto; inversion H as [|? ? Ha H']; subst.
  - constructor; auto. intros X. apply Hx. right; auto.
  - constructor.
    + intros X. apply In_replace_nth in X. destruct X as [->|X]; [apply Hx; left; auto | contradiction].
    + apply IH; auto. intros X. apply Hx. right; auto.
Qed.

Lemma letters_insert_at ds n d : letters (insert_at ds n d) = insert_at (letters ds) n (dletter d).
Proof. revert ds. induction n as [|n IH]; intros [|e ds]; simpl; auto. f_equal. apply IH. Qed.

Lemma In_insert_at {A} (l : list A) n x y : In y (insert_at l n x) <-> y = x \/ In y l.
Proof.
  revert l. induction n as [|n IH]; intros [|a l]; simpl; try tauto; try (intuition congruence).
  rewrite IH. intuition congruence.
Qed.

Lemma NoDup_insert_at (l : list nat) n x : NoDup l -> ~ In x l -> NoDup (insert_at l n x).
Proof.
  revert l. induction n as [|n IH]; intros l H Hx.
  - destruct l; simpl; constructor; auto.
  - destruct l as [|a l]; simpl.
    + constructor; auto.
    + inversion H as [|? ? Ha H']; subst. constructor.
      * rewrite In_insert_at. intros [->|X]; [apply Hx; left; auto | contradiction].
      * apply IH; auto. intros X. apply Hx. right; auto.
Qed.

Lemma check_additional_spec x d : check_additional x d = true -> ~ In (dletter d) (letters x).
Proof. unfold check_additional. intros H. apply negb_true_iff, memb_false in H. exact H. Qed.

Lemma cell_unique h i x : all_unique h -> cell_of h i = Some x -> NoDup (letters x).
Proof.
  unfold all_unique, cell_of. intros H E. destruct (nth_error (objs h) i); [|discriminate].
  rewrite Forall_forall in H. apply H. eapply nth_error_In; eauto.
Qed.

Lemma all_unique_new h ds : all_unique h -> NoDup (letters ds) -> all_unique (new_obj h ds).
Proof. intros H Hn. unfold all_unique, new_obj; simpl. apply Forall_app. split; auto. Qed.

Lemma all_unique_set h i ds : all_unique h -> NoDup (letters ds) -> all_unique (set_cell h i ds).
Proof.
  intros H Hn. unfold set_cell. destruct (nth_error (objs h) i); auto.
  unfold all_unique; simpl. apply Forall_upd_nth; auto.
Qed.

Lemma NoDup_letters_app x ds : NoDup (letters x) -> NoDup (letters ds) ->
  forallb (fun d => negb (memb (dletter d) (letters x))) ds = true -> NoDup (letters (x ++ ds)).
Proof.
  intros Hx Hd Hf. rewrite letters_app. apply NoDup_app_intro; auto.
  intros l H1 H2. unfold letters in H2. apply in_map_iff in H2. destruct H2 as (d & E & Hd').
  rewrite forallb_forall in Hf. apply Hf in Hd'. apply negb_true_iff, memb_false in Hd'. subst. contradiction.
Qed.

Theorem letters_unique_step h o : all_unique h -> wf_dop o -> all_unique (fst (dstep true h o)).
Proof.
  intros H Hw.
  assert (Hret : forall r : res dimset, (forall ds, r = Ok ds -> NoDup (letters ds)) ->
            all_unique (fst (match r with Ok ds => (new_obj h ds, DDone) | Err => (h, DRaised) end))).
  { intros [ds|] Hr; simpl; auto. apply all_unique_new; auto. }
  assert (Hupd : forall (i : nat) (ip : bool) (r : res dimset), (forall ds, r = Ok ds -> NoDup (letters ds)) ->
            all_unique (fst (match r with
                             | Ok ds => if ip then (set_cell h i ds, DDone) else (new_obj h ds, DDone)
                             | Err => (h, DRaised) end))).
  { intros i ip [ds|] Hr; simpl; auto. destruct ip; simpl; [apply all_unique_set | apply all_unique_new]; auto. }
  destruct o; simpl.
  - apply Hret. intros r E. eapply mk_dimset_unique; eauto.
  - destruct (cell_of h i) as [x|] eqn:Ex, (cell_of h j) as [y|] eqn:Ey; simpl; auto.
    apply Hret. intros r E. eapply union_unique; eauto.
  - destruct (cell_of h i) as [x|] eqn:Ex, (cell_of h j) as [y|] eqn:Ey; simpl; auto.
    apply Hret. intros r E.
    apply (get_subset_filter_unique x (fun l => memb l (letters y)) r); [eapply cell_unique; eauto | exact E].
  - destruct (cell_of h i) as [x|] eqn:Ex, (cell_of h j) as [y|] eqn:Ey; simpl; auto.
    apply Hret. intros r E.
    apply (get_subset_filter_unique x (fun l => negb (memb l (letters y))) r); [eapply cell_unique; eauto | exact E].
  - destruct (cell_of h i) as [x|] eqn:Ex, (cell_of h j) as [y|] eqn:Ey; simpl; auto.
    apply Hret. intros r E. unfold xor_with in E.
    destruct (difference_with x y); simpl in E; [|discriminate].
    destruct (difference_with y x); simpl in E; [|discriminate]. eapply union_unique; eauto.
  - destruct (cell_of h i) as [x|] eqn:Ex, (cell_of h j) as [y|] eqn:Ey; simpl; auto.
    apply Hret. intros r E. unfold add_sets in E.
    destruct (intersect_with x y) as [[|? ?]|]; simpl in E; try discriminate. eapply union_unique; eauto.
  - destruct ks as [ks|].
    + destruct (cell_of h i) as [x|] eqn:Ex; simpl; auto. apply Hret. intros r E.
      destruct Hw as [Hw1 Hw2]. rewrite (get_subset_letters x ks r Hw2 E). exact Hw1.
    + destruct (nth_error (objs h) i) as [c|] eqn:Ec; simpl; auto.
      destruct (nth_error (cells h) c) as [ds|] eqn:Ed; simpl; auto.
      apply all_unique_new; auto. unfold all_unique in H. rewrite Forall_forall in H. apply H. eapply nth_error_In; eauto.
  - destruct (cell_of h i) as [x|] eqn:Ex; simpl; auto. apply all_unique_new; auto. eapply cell_unique; eauto.
  - destruct (cell_of h i) as [x|] eqn:Ex; simpl; auto.
    destruct (nodupb (letters x)) eqn:En; simpl; auto. apply nodupb_NoDup in En.
    unfold all_unique, new_obj; simpl. rewrite <- app_assoc. apply Forall_app. split; auto.
    simpl. repeat constructor; auto.
  - destruct (cell_of h i) as [x|] eqn:Ex; simpl; auto.
    destruct (check_additional x d) eqn:Ec; simpl; auto. apply check_additional_spec in Ec.
    pose proof (cell_unique h i x H Ex) as Hx. apply Hupd. intros r E. destruct inplace.
    + injection E as <-. rewrite letters_app. apply NoDup_app_intro; auto.
      * repeat constructor; auto. * simpl. intros l H1 [<-|[]]. contradiction.
    + unfold add_sets in E. destruct (intersect_with x [d]) as [[|? ?]|]; simpl in E; try discriminate. eapply union_unique; eauto.
  - destruct (cell_of h i) as [x|] eqn:Ex; simpl; auto.
    destruct (check_additional x d) eqn:Ec; simpl; auto. apply check_additional_spec in Ec.
    pose proof (cell_unique h i x H Ex) as Hx. apply Hupd. intros r E. destruct inplace.
    + injection E as <-. simpl. constructor; auto.
    + unfold add_sets in E. destruct (intersect_with [d] x) as [[|? ?]|]; simpl in E; try discriminate. eapply union_unique; eauto.
  - destruct (cell_of h i) as [x|] eqn:Ex; simpl; auto.
    destruct (check_additional x d) eqn:Ec; simpl; auto. apply check_additional_spec in Ec.
    pose proof (cell_unique h i x H Ex) as Hx. apply Hupd. intros r E. destruct inplace.
    + injection E as <-. rewrite letters_insert_at. apply NoDup_insert_at; auto.
    + eapply mk_dimset_unique; eauto.
  - destruct (cell_of h i) as [x|] eqn:Ex; simpl; auto.
    pose proof (cell_unique h i x H Ex) as Hx. apply Hupd. intros r E.
    unfold ds_drop in E. destruct (ds_index x k) as [n|]; [|discriminate]. destruct inplace.
    + injection E as <-. rewrite letters_remove_nth. apply NoDup_remove_nth; auto.
    + eapply mk_dimset_unique; eauto.
  - destruct (cell_of h i) as [x|] eqn:Ex; simpl; auto.
    pose proof (cell_unique h i x H Ex) as Hx. apply Hupd. intros r E.
    unfold ds_replace in E. destruct (memb (dletter d) (letters x)) eqn:Em; [discriminate|].
    apply memb_false in Em. destruct (ds_index x k) as [n|]; [|discriminate]. destruct inplace.
    + injection E as <-. rewrite letters_replace_nth. apply NoDup_replace_nth; auto.
    + eapply mk_dimset_unique; eauto.
  - destruct (cell_of h i) as [x|] eqn:Ex; simpl; auto.
    destruct (forallb _ ds) eqn:Ef; simpl; auto.
    pose proof (cell_unique h i x H Ex) as Hx. apply Hupd. intros r E. destruct inplace.
    + injection E as <-. apply NoDup_letters_app; auto.
    + eapply mk_dimset_unique; eauto.
Qed.

Theorem letters_unique_reachable ops : Forall wf_dop ops -> all_unique (drun true ops).
Proof.
  unfold drun. assert (G : forall h, all_unique h -> Forall wf_dop ops -> all_unique (fold_left (fun h o => fst (dstep true h o)) ops h)).
  { induction ops as [|o ops IH]; simpl; intros h Hh Hw; auto. inversion Hw; subst. apply IH; auto. apply letters_unique_step; auto. }
  apply G. constructor.
Qed.
