(* C11 on the model of the layout recognition, wide layout: the table that to_df(dim_to_columns=D, index=False) produces
   (one column per other dimension, labelled by its name, and one column per item of D, labelled by the item) is
   recognised as wide, melted and read back into the identical array — whatever the values are, also when an item column
   happens to hold the items of a dimension.  The melted rows come in another order than the array's (item by item of
   D); that the order is irrelevant is ImportSpec. *)
From Coq Require Import List Arith Lia Bool ZArith QArith Qcanon.
Import ListNotations.
From Flodym Require Import Base.ND Base.Env Np.Einsum Np.Index Model.Dims Model.Array Model.SubArray Model.Instances
  Model.DF Model.Detect Proofs.C14Proofs Proofs.C01Proofs Proofs.IndexProofs Proofs.SetIndexProofs Proofs.DFProofs
  Proofs.DetectProofs Proofs.ImportSpec.
Local Open Scope nat_scope.

(* ---- small list facts ---- *)
Lemma mapM_ok_map {A B} (f : A -> res B) (g : A -> B) l : (forall x, In x l -> f x = Ok (g x)) -> mapM f l = Ok (map g l).
Proof.
  induction l as [|a l IH]; intros H; [reflexivity|]. cbn [mapM map]. rewrite (H a (or_introl eq_refl)). cbn [bind].
  rewrite IH by (intros; apply H; right; assumption). reflexivity.
Qed.

Lemma mapM_app {A B} (f : A -> res B) l1 l2 r1 r2 : mapM f l1 = Ok r1 -> mapM f l2 = Ok r2 -> mapM f (l1 ++ l2) = Ok (r1 ++ r2).
Proof.
  revert r1. induction l1 as [|a l IH]; intros r1 H1 H2; cbn [mapM app] in *.
  - injection H1 as <-. exact H2.
  - destruct (f a) as [b|]; [|discriminate]. cbn [bind] in *. destruct (mapM f l) as [r|] eqn:E; [|discriminate].
    cbn [bind] in *. injection H1 as <-. rewrite (IH r eq_refl H2). reflexivity.
Qed.

Lemma find_unique {A} (f : A -> bool) l x : (forall y, In y l -> f y = true -> y = x) -> In x l -> f x = true -> find f l = Some x.
Proof.
  induction l as [|a l IH]; intros Hu Hin Hx; [contradiction|]. cbn [find]. destruct (f a) eqn:E.
  - f_equal. apply Hu; [left; reflexivity | exact E].
  - destruct Hin as [->|Hin]; [congruence|]. apply IH; auto. intros y Hy. apply Hu. right. exact Hy.
Qed.

Lemma app_mid_inj {A} (l1 l2 r1 r2 : list A) a b : length l1 = length l2 -> l1 ++ a :: r1 = l2 ++ b :: r2 -> l1 = l2 /\ a = b /\ r1 = r2.
Proof.
  revert l2. induction l1 as [|x l1 IH]; intros [|y l2] Hl E; simpl in *; try discriminate.
  - injection E as -> ->. auto.
  - injection E as -> E. destruct (IH l2 ltac:(lia) E) as (-> & -> & ->). auto.
Qed.

Lemma NoDup_pairs {A B C} (f : A -> B -> C) l1 l2 :
  NoDup l1 -> NoDup l2 -> (forall a a' b b', In a l1 -> In a' l1 -> In b l2 -> In b' l2 -> f a b = f a' b' -> a = a' /\ b = b') ->
  NoDup (concat (map (fun a => map (f a) l2) l1)).
Proof.
  intros H1 H2 Hinj. induction H1 as [|a l Ha H1 IH]; [constructor|]. cbn [map concat].
  apply NoDup_app_intro.
  - apply NoDup_map_inj_in; [|exact H2]. intros b b' Hb Hb' E. apply (Hinj a a b b'); auto; left; reflexivity.
  - apply IH. intros x x' b b' Hx Hx'. apply Hinj; right; assumption.
  - intros c Hc Hc'. apply in_map_iff in Hc. destruct Hc as (b & <- & Hb).
    apply in_concat in Hc'. destruct Hc' as (lst & Hl & Hc'). apply in_map_iff in Hl. destruct Hl as (a' & <- & Ha').
    apply in_map_iff in Hc'. destruct Hc' as (b' & E & Hb').
    assert (X : a' = a /\ b' = b) by (apply Hinj; [right; exact Ha' | left; reflexivity | exact Hb' | exact Hb | exact E]).
    destruct X as [-> _]. contradiction.
Qed.

Lemma size_app sh1 sh2 : size (sh1 ++ sh2) = size sh1 * size sh2.
Proof. induction sh1 as [|n sh IH]; simpl; [lia|]. fold (size (sh ++ sh2)) (size sh). rewrite IH. lia. Qed.

Lemma length_concat_const {A} (ls : list (list A)) n : (forall l, In l ls -> length l = n) -> length (concat ls) = length ls * n.
Proof.
  induction ls as [|l ls IH]; intros H; [reflexivity|]. cbn [concat length]. rewrite app_length, (H l (or_introl eq_refl)), IH; [lia|].
  intros; apply H; right; assumption.
Qed.

Lemma nth_firstn_lt {A} (l : list A) n j d : j < n -> nth j (firstn n l) d = nth j l d.
Proof. revert n j. induction l as [|a l IH]; intros [|n] [|j] H; simpl; auto; try lia. apply IH. lia. Qed.

Lemma nth_skipn_add {A} (l : list A) n j d : nth j (skipn n l) d = nth (n + j) l d.
Proof. revert n. induction l as [|a l IH]; intros [|n]; simpl; auto. destruct j; reflexivity. Qed.

Lemma seq_add_map n m : map (fun j => n + j) (seq 0 m) = seq n m.
Proof. revert n. induction m as [|m IH]; intros n; [reflexivity|]. cbn [seq map]. rewrite Nat.add_0_r. f_equal.
  rewrite <- seq_shift, map_map. rewrite <- (IH (S n)). apply map_ext. intros j. lia. Qed.

Section W.
Variables (pre post : list tdim) (wd : tdim) (venc : Qc -> ent).
Notation tds := (pre ++ wd :: post).
Notation others := (pre ++ post).
Notation w := (length pre).
Notation witems := (ditems (td wd)).
Notation onames := (map td_name others).

(* the labels of a full row from the item of the spread dimension and the labels of the other dimensions *)
Definition ins (it : nat) (o : list nat) : list nat := firstn w o ++ it :: skipn w o.

Record wide_ok : Prop := {
  w_names_distinct : NoDup (map td_name tds);
  w_names_not_letters : forall d d', In d tds -> In d' tds -> td_name d <> td_letter d';
  w_names_not_items : forall d d', In d tds -> In d' tds -> ~ In (td_name d) (ditems (td d'));
  w_items_not_letters : forall it d, In it witems -> In d tds -> it <> td_letter d;
  w_items_nodup : NoDup witems;
  w_other_dims : others <> [];
  w_item_sets_differ : forall d, In d tds -> same_items (map item_ent witems) d = true -> d = wd;
  w_values_numeric : forall q, e_val (venc q) = VNum q
}.
Hypothesis Hok : wide_ok.

Variable vfun : list nat -> Qc.          (* the array's entry under a full list of labels *)
Variable orows : list (list nat).        (* the label combinations of the other dimensions, one per table row *)
Hypothesis Holen : forall o, In o orows -> length o = length others.

Definition ocol (j : nat) (d : tdim) : column := (name_ent d, map (fun o => item_ent (nth j o 0)) orows).
Definition icol (it : nat) : column := (item_ent it, map (fun o => venc (vfun (ins it o))) orows).
Definition wide_cols : list column :=
  map (fun jd => ocol (fst jd) (snd jd)) (combine (seq 0 (length others)) others) ++ map icol witems.
Notation cols := wide_cols.

Lemma in_others_tds d : In d others -> In d tds.
Proof. intros H. apply in_app_or in H. apply in_or_app. destruct H; [left | right; right]; assumption. Qed.

Lemma wd_in_tds : In wd tds.
Proof. apply in_or_app. right. left. reflexivity. Qed.

Lemma wide_labels : map (fun c : column => e_raw (fst c)) cols = onames ++ witems.
Proof.
  unfold wide_cols. rewrite map_app, !map_map. f_equal.
  - generalize (pre ++ post) as l. intros l. generalize 0. induction l as [|d l IH]; intros s; cbn [length seq combine map]; [reflexivity|].
    f_equal. apply IH.
  - apply map_id.
Qed.

Lemma w_is_name_other d : In d others -> is_name tds (td_name d) = true.
Proof. intros H. unfold is_name. apply existsb_exists. exists d. split; [apply in_others_tds; exact H | apply Nat.eqb_refl]. Qed.

Lemma w_is_name_item it : In it witems -> is_name tds it = false.
Proof.
  intros Hit. unfold is_name. destruct (existsb _ tds) eqn:E; auto. apply existsb_exists in E. destruct E as (d & Hd & E).
  apply Nat.eqb_eq in E. exfalso. apply (w_names_not_items Hok d wd Hd wd_in_tds). rewrite E. exact Hit.
Qed.

Lemma w_find_by_letter_none c : (forall d, In d tds -> c <> td_letter d) -> find_by_letter tds c = None.
Proof.
  intros H. unfold find_by_letter. destruct (find _ tds) as [d|] eqn:E; auto.
  apply find_some in E. destruct E as [Hd E]. apply Nat.eqb_eq in E. exfalso. apply (H d Hd). symmetry. exact E.
Qed.

Lemma wide_rename_id : rename_letters tds cols = cols.
Proof.
  unfold rename_letters. rewrite <- (map_id cols) at 2. apply map_ext_in. intros c Hc.
  assert (Hl : In (e_raw (fst c)) (onames ++ witems)).
  { pose proof (in_map (fun c0 : column => e_raw (fst c0)) cols c Hc) as X.
    exact (eq_ind _ (fun l => In (e_raw (fst c)) l) X _ wide_labels). }
  rewrite w_find_by_letter_none; [reflexivity|].
  intros d Hd. apply in_app_or in Hl. destruct Hl as [Hl|Hl].
  - apply in_map_iff in Hl. destruct Hl as (d0 & <- & Hd0). apply (w_names_not_letters Hok); auto. apply in_others_tds. exact Hd0.
  - apply (w_items_not_letters Hok); auto.
Qed.

Lemma wide_dim_columns : dim_columns_of tds cols = onames.
Proof.
  unfold dim_columns_of.
  match goal with |- filter _ ?m = _ => replace m with (onames ++ witems) by (symmetry; exact wide_labels) end.
  rewrite filter_app.
  assert (G1 : forall l, incl l others -> filter (is_name tds) (map td_name l) = map td_name l).
  { induction l as [|d l IH]; intros Hi; simpl; auto. rewrite w_is_name_other by (apply Hi; left; auto). f_equal. apply IH.
    intros x Hx. apply Hi. right. exact Hx. }
  assert (G2 : forall l, incl l witems -> filter (is_name tds) l = []).
  { induction l as [|it l IH]; intros Hi; simpl; auto. rewrite w_is_name_item by (apply Hi; left; auto). apply IH.
    intros x Hx. apply Hi. right. exact Hx. }
  rewrite (G1 others), (G2 witems), app_nil_r; [reflexivity | intros x Hx; exact Hx | intros x Hx; exact Hx].
Qed.

Lemma w_same_items_name_first d d' es : In d tds -> In d' tds -> same_items (name_ent d :: es) d' = false.
Proof.
  intros Hd Hd'. unfold same_items. cbn [map]. unfold coerce at 1. destruct (td_ty d'); cbn [name_ent e_int e_str e_raw all_some].
  - reflexivity.
  - destruct (all_some (map (coerce TStr) es)); [|reflexivity]. cbn [forallb].
    replace (memb (td_name d) (ditems (td d'))) with false; [reflexivity|].
    symmetry. apply memb_false. apply (w_names_not_items Hok); auto.
  - destruct (all_some (map (coerce TNone) es)); [|reflexivity]. cbn [forallb].
    replace (memb (td_name d) (ditems (td d'))) with false; [reflexivity|].
    symmetry. apply memb_false. apply (w_names_not_items Hok); auto.
Qed.

Lemma wide_first_row_silent : first_row_fires tds cols = false.
Proof.
  unfold first_row_fires, wide_cols. pose proof (w_other_dims Hok) as Hne. pose proof in_others_tds as Hin.
  destruct others as [|d0 l]; [congruence|].
  cbn [length seq combine map app ocol fst snd].
  destruct (existsb _ tds) eqn:Ex; [|reflexivity]. apply existsb_exists in Ex. destruct Ex as (d' & Hd' & Hs).
  rewrite (w_same_items_name_first d0 d') in Hs; [discriminate | apply Hin; left; reflexivity | exact Hd'].
Qed.

Lemma wide_value_columns : filter (fun c : ent * list ent => negb (memb (e_raw (fst c)) onames)) cols = map icol witems.
Proof.
  unfold wide_cols. set (P := fun c : ent * list ent => negb (memb (e_raw (fst c)) onames)). rewrite filter_app.
  assert (F1 : filter P (map (fun jd => ocol (fst jd) (snd jd)) (combine (seq 0 (length others)) others)) = []).
  { apply (proj2 (C01Proofs.filter_nil_iff_gen _ _)). intros c Hc. apply in_map_iff in Hc. destruct Hc as ([j d] & <- & Hjd).
    unfold P. apply negb_false_iff, memb_In. cbn [ocol fst name_ent e_raw]. apply in_map. apply in_combine_r in Hjd. exact Hjd. }
  match goal with |- ?X ++ _ = _ => replace X with (@nil column) by (symmetry; exact F1) end.
  cbn [app].
  assert (G : forall l, incl l witems -> filter P (map icol l) = map icol l).
  { induction l as [|it l IH]; intros Hi; [reflexivity|]. cbn [map filter]. unfold P at 1. cbn [icol fst item_ent e_raw].
    replace (memb it onames) with false.
    - cbn [negb]. f_equal. apply IH. intros x Hx. apply Hi. right. exact Hx.
    - symmetry. apply memb_false. intros Hc. apply in_map_iff in Hc. destruct Hc as (d & E & Hd).
      apply (w_names_not_items Hok d wd (in_others_tds d Hd) wd_in_tds). rewrite E. apply Hi. left. reflexivity. }
  apply G. intros x Hx. exact Hx.
Qed.

Lemma map_fst_icol : map fst (map icol witems) = map item_ent witems.
Proof. rewrite map_map. reflexivity. Qed.

Lemma coerce_item ty it : coerce ty (item_ent it) = Some it.
Proof. destruct ty; reflexivity. Qed.

Lemma all_some_items ty l : all_some (map (coerce ty) (map item_ent l)) = Some l.
Proof. induction l as [|it l IH]; [reflexivity|]. cbn [map all_some]. rewrite coerce_item, IH. reflexivity. Qed.

Lemma same_items_self : same_items (map item_ent witems) wd = true.
Proof.
  unfold same_items. rewrite all_some_items. apply andb_true_iff. split; apply forallb_forall; intros x Hx; apply memb_In; exact Hx.
Qed.

Lemma wd_name_not_other : memb (td_name wd) onames = false.
Proof.
  apply memb_false. intros Hc. pose proof (w_names_distinct Hok) as Hn. rewrite map_app in Hn. cbn [map] in Hn.
  apply NoDup_remove_2 in Hn. apply Hn. rewrite <- map_app. exact Hc.
Qed.

Lemma wide_by_items_id : by_items true tds cols onames = (cols, onames).
Proof.
  unfold by_items. cbv zeta. rewrite wide_value_columns, map_fst_icol.
  assert (Hex : existsb (fun d => negb (memb (td_name d) onames) && same_items (map item_ent witems) d) tds = true).
  { apply existsb_exists. exists wd. split; [apply wd_in_tds|]. rewrite wd_name_not_other, same_items_self. reflexivity. }
  rewrite Hex. reflexivity.
Qed.

Lemma wide_value_format : value_format tds cols onames = Ok (FWide wd).
Proof.
  unfold value_format. cbv zeta. rewrite wide_value_columns, map_fst_icol.
  rewrite (find_unique _ tds wd); [reflexivity | | apply wd_in_tds | apply same_items_self].
  intros d Hd Hs. apply (w_item_sets_differ Hok d Hd Hs).
Qed.

(* ---- melting ---- *)
Lemma wide_nrows : nrows cols = length orows.
Proof.
  unfold nrows, wide_cols. pose proof (w_other_dims Hok) as Hne.
  destruct others as [|d l]; [congruence|]. cbn [length seq combine map app ocol snd]. apply map_length.
Qed.

Lemma find_icol it : In it witems ->
  find (fun c : ent * list ent => match coerce (td_ty wd) (fst c) with Some k => Nat.eqb k it | None => false end) (map icol witems)
  = Some (icol it).
Proof.
  intros Hit. pose proof (w_items_nodup Hok) as Hn. revert Hit Hn. generalize witems as l.
  induction l as [|x l IH]; intros Hit Hn; [contradiction|]. cbn [map find icol fst]. rewrite coerce_item.
  inversion Hn as [|? ? Hx Hn']; subst. destruct (Nat.eqb_spec x it) as [->|Hne]; [reflexivity|].
  destruct Hit as [E|Hit]; [congruence|]. apply IH; assumption.
Qed.

Lemma column_of_other k d : nth_error others k = Some d -> column_of cols (td_name d) = Some (snd (ocol k d)).
Proof.
  intros Hk. unfold column_of, wide_cols.
  assert (Hnd : NoDup onames).
  { pose proof (w_names_distinct Hok) as Hn. rewrite map_app in Hn. cbn [map] in Hn. apply NoDup_remove_1 in Hn. rewrite <- map_app in Hn. exact Hn. }
  assert (G : forall l s j tail, NoDup (map td_name l) -> nth_error l j = Some d ->
              find (fun c : ent * list ent => Nat.eqb (e_raw (fst c)) (td_name d))
                   (map (fun jd => ocol (fst jd) (snd jd)) (combine (seq s (length l)) l) ++ tail)
              = Some (ocol (s + j) d)).
  { induction l as [|d0 l IH]; intros s j tail Hn Hj; [destruct j; discriminate|].
    cbn [length seq combine map app find ocol fst snd name_ent e_raw]. inversion Hn as [|? ? Hn0 Hn']; subst.
    destruct j as [|j]; simpl in Hj.
    - injection Hj as ->. rewrite Nat.eqb_refl, Nat.add_0_r. reflexivity.
    - destruct (Nat.eqb_spec (td_name d0) (td_name d)) as [E|_].
      + exfalso. apply Hn0. rewrite E. apply in_map. apply (nth_error_In _ _ Hj).
      + replace (s + S j) with (S s + j) by lia. apply IH; auto. }
  rewrite (G others 0 k _ Hnd Hk). reflexivity.
Qed.

Lemma label_other k d i o : nth_error others k = Some d -> nth_error orows i = Some o ->
  label_at cols onames d i = Ok (nth k o 0).
Proof.
  intros Hk Hi. unfold label_at.
  replace (memb (td_name d) onames) with true by (symmetry; apply memb_In; apply in_map; apply (nth_error_In _ _ Hk)).
  rewrite (column_of_other k d Hk). cbn [ocol snd]. rewrite nth_error_map, Hi. cbn [option_map]. rewrite coerce_item. reflexivity.
Qed.

Lemma name_differs d : In d others -> Nat.eqb (td_name d) (td_name wd) = false.
Proof.
  intros Hd. apply Nat.eqb_neq. intros E. pose proof wd_name_not_other as Hm. apply memb_false in Hm. apply Hm. rewrite <- E. apply in_map. exact Hd.
Qed.

Lemma labels_wide it i o : nth_error orows i = Some o ->
  mapM (fun d => if Nat.eqb (td_name d) (td_name wd) then Ok it else label_at cols onames d i) tds = Ok (ins it o).
Proof.
  intros Hi. pose proof (Holen o (nth_error_In _ _ Hi)) as Hl. rewrite app_length in Hl. unfold ins.
  apply mapM_app.
  - (* the dimensions before the spread one *)
    rewrite (mapM_by_position _ (fun j => nth j o 0) pre 0).
    + f_equal. rewrite (list_as_nth (firstn w o) 0), firstn_length_le by lia. apply map_ext_in. intros j Hj. apply in_seq in Hj.
      symmetry. apply nth_firstn_lt. lia.
    + intros k d Hk. cbn [Nat.add]. rewrite name_differs by (apply in_or_app; left; apply (nth_error_In _ _ Hk)).
      apply (label_other k d i o); [|exact Hi]. rewrite nth_error_app1 by (apply nth_error_Some; congruence). exact Hk.
  - cbn [mapM]. rewrite Nat.eqb_refl. cbn [bind].
    rewrite (mapM_by_position _ (fun j => nth j o 0) post w).
    + cbn [bind]. f_equal. f_equal. rewrite (list_as_nth (skipn w o) 0), skipn_length. replace (length o - w) with (length post) by lia.
      rewrite <- (seq_add_map w). rewrite map_map. apply map_ext_in. intros j Hj. symmetry. apply nth_skipn_add.
    + intros k d Hk. rewrite name_differs by (apply in_or_app; right; apply (nth_error_In _ _ Hk)).
      apply (label_other (w + k) d i o); [|exact Hi]. rewrite nth_error_app2 by lia. replace (w + k - w) with k by lia. exact Hk.
Qed.

Definition melted : list (row Qc) :=
  concat (map (fun it => map (fun o => mk_row Qc (ins it o) (Some (vfun (ins it o)))) orows) witems).

Lemma wide_rows_melted : wide_rows tds cols onames wd = Ok melted.
Proof.
  unfold wide_rows. rewrite wide_value_columns.
  rewrite (mapM_ok_map _ (fun it => map (fun o => mk_row Qc (ins it o) (Some (vfun (ins it o)))) orows) witems); [reflexivity|].
  intros it Hit. rewrite (find_icol it Hit). cbn [icol]. rewrite wide_nrows.
  apply (mapM_seq_nth _ (fun o => mk_row Qc (ins it o) (Some (vfun (ins it o)))) orows 0).
  intros i o Hi. cbn [Nat.add]. rewrite (labels_wide it i o Hi). cbn [bind].
  unfold value_at. rewrite nth_error_map, Hi. cbn [option_map]. rewrite (w_values_numeric Hok). reflexivity.
Qed.

End W.

(* ---- the table of to_df(dim_to_columns = wd, index = False) and its way back ---- *)
Definition wide_table (pre post : list tdim) (wd : tdim) (venc : Qc -> ent) (a : fQ) : table :=
  let ods := map td (pre ++ post) in
  let ds := map td (pre ++ wd :: post) in
  mk_table [] None (wide_cols pre post wd venc
     (fun labs => get QO (dshape ds) (avals a) (positions ds labs))
     (map (labels_of ods) (all_idx (dshape ods)))).

Lemma known_iff ds labs : known ds labs = true <-> Forall2 (fun d l => In l (ditems d)) ds labs.
Proof.
  unfold known. rewrite andb_true_iff, Nat.eqb_eq. revert labs. induction ds as [|d ds IH]; intros [|l labs]; simpl; split.
  - constructor.
  - auto.
  - intros [H _]; discriminate.
  - intros H; inversion H.
  - intros [H _]; discriminate.
  - intros H; inversion H.
  - intros [Hl Hf]. apply andb_true_iff in Hf. destruct Hf as [H1 H2]. constructor; [apply memb_In; exact H1|].
    apply IH. split; [lia | exact H2].
  - intros H. inversion H as [|? ? ? ? H1 H2]; subst. apply IH in H2. destruct H2 as [Hl Hf]. split; [lia|].
    apply andb_true_iff. split; [apply memb_In; exact H1 | exact Hf].
Qed.

Lemma Forall2_ins {A B} (P : A -> B -> Prop) (l1 l2 : list A) (x : A) (o : list B) (y : B) :
  Forall2 P (l1 ++ l2) o -> P x y -> Forall2 P (l1 ++ x :: l2) (firstn (length l1) o ++ y :: skipn (length l1) o).
Proof.
  revert o. induction l1 as [|a l1 IH]; intros o H Hxy; simpl in *.
  - constructor; assumption.
  - inversion H as [|? b ? o' Hab H']; subst. simpl. constructor; [exact Hab | apply IH; assumption].
Qed.

Theorem detect_roundtrip_wide (pre post : list tdim) (wd : tdim) (venc : Qc -> ent) (a : fQ) (lo hi : Z) :
  wide_ok pre post wd venc -> adims a = map td (pre ++ wd :: post) ->
  items_unique (map td (pre ++ wd :: post)) -> length (avals a) = size (dshape (map td (pre ++ wd :: post))) ->
  convert true lo hi (pre ++ wd :: post) false false (wide_table pre post wd venc a) = OValues (avals a).
Proof.
  intros Hok Hd Hu Hl. unfold convert, wide_table. cbn [reset_index t_levels t_cols].
  set (ds := map td (pre ++ wd :: post)). set (ods := map td (pre ++ post)).
  set (vfun := fun labs => get QO (dshape ds) (avals a) (positions ds labs)).
  set (orows := map (labels_of ods) (all_idx (dshape ods))).
  assert (Holen : forall o, In o orows -> length o = length (pre ++ post)).
  { intros o Ho. unfold orows in Ho. apply in_map_iff in Ho. destruct Ho as (idx & <- & Hi).
    apply all_idx_in in Hi. apply Forall2_len in Hi. rewrite labels_of_length; [unfold ods; apply map_length|].
    rewrite Hi. unfold dshape. rewrite map_length. reflexivity. }
  rewrite (wide_rename_id pre post wd venc Hok vfun orows).
  rewrite (wide_dim_columns pre post wd venc Hok vfun orows).
  rewrite (wide_first_row_silent pre post wd venc Hok vfun orows).
  rewrite (wide_by_items_id pre post wd venc Hok vfun orows).
  rewrite (wide_value_format pre post wd venc Hok vfun orows).
  rewrite (wide_rows_melted pre post wd venc Hok vfun orows Holen).
  fold ds.
  assert (Huo : items_unique ods).
  { unfold items_unique, ods, ds in *. rewrite map_app in *. cbn [map] in Hu. apply Forall_app in Hu. destruct Hu as [H1 H2].
    inversion H2; subst. apply Forall_app. split; assumption. }
  assert (Hno : NoDup orows).
  { unfold orows. apply NoDup_map_inj_in; [|apply all_idx_NoDup]. intros i j Hi Hj. apply labels_injective; auto; apply all_idx_in; auto. }
  assert (Hko : forall o, In o orows -> Forall2 (fun d l => In l (ditems d)) ods o).
  { intros o Ho. apply known_iff. unfold orows in Ho. apply in_map_iff in Ho. destruct Ho as (idx & <- & Hi).
    apply known_labels. apply all_idx_in. exact Hi. }
  set (rows := melted pre wd vfun orows).
  assert (Hin : forall r, In r rows -> exists it o, In it (ditems (td wd)) /\ In o orows /\ r = mk_row Qc (ins pre it o) (Some (vfun (ins pre it o)))).
  { intros r Hr. unfold rows, melted in Hr. apply in_concat in Hr. destruct Hr as (blk & Hb & Hr).
    apply in_map_iff in Hb. destruct Hb as (it & <- & Hit). apply in_map_iff in Hr. destruct Hr as (o & <- & Ho). exists it, o. auto. }
  assert (Hacc : accepted Qc ds rows).
  { constructor.
    - (* pairwise different label combinations *)
      assert (E : map (r_labels Qc) rows = concat (map (fun it => map (ins pre it) orows) (ditems (td wd)))).
      { unfold rows, melted. rewrite concat_map, map_map. f_equal. apply map_ext. intros it. rewrite map_map. reflexivity. }
      rewrite E. apply NoDup_pairs; [apply (w_items_nodup _ _ _ _ Hok) | exact Hno |].
      intros it it' o o' _ _ Ho Ho' Ei. unfold ins in Ei.
      pose proof (Holen o Ho) as L1. pose proof (Holen o' Ho') as L2. rewrite app_length in L1, L2.
      apply app_mid_inj in Ei; [|rewrite !firstn_length_le; lia]. destruct Ei as (E1 & E2 & E3).
      split; [exact E2|]. rewrite <- (firstn_skipn (length pre) o), <- (firstn_skipn (length pre) o'), E1, E3. reflexivity.
    - (* every label is an item of its dimension *)
      intros r Hr. destruct (Hin r Hr) as (it & o & Hit & Ho & ->). cbn [r_labels]. apply known_iff.
      unfold ds, ins. rewrite map_app. cbn [map]. rewrite <- (map_length td pre).
      apply Forall2_ins; [|exact Hit]. rewrite <- map_app. apply (Hko o Ho).
    - (* one row per entry *)
      unfold rows, melted. rewrite (length_concat_const _ (length orows)).
      + rewrite map_length. unfold orows. rewrite map_length, all_idx_length. unfold ds, ods, dshape.
        rewrite !map_app. cbn [map]. rewrite !size_app. cbn [size fold_right]. fold (size (map dlen (map td post))). unfold dlen. lia.
      + intros l Hl0. apply in_map_iff in Hl0. destruct Hl0 as (it & <- & _). apply map_length.
    - intros r Hr. destruct (Hin r Hr) as (it & o & _ & _ & ->). eexists. reflexivity. }
  rewrite (import_of_consistent_rows Qc QO ds rows (avals a) Hu Hl Hacc); [reflexivity|].
  intros r Hr. destruct (Hin r Hr) as (it & o & _ & _ & ->). reflexivity.
  exact Holen.
Qed.
