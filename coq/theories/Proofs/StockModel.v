(* Connects the executable list model of Model/Stocks.v with the algebra of Proofs/StockAlgebra.v
   and proves the forward-substitution facts (C10). *)
From Coq Require Import List Arith Lia Ring_theory Field_theory Ring Field Bool.
Import ListNotations.
From Flodym Require Import Base.ND Base.Env Np.Einsum Model.Stocks Proofs.StockAlgebra.

Section M.
Variable F : Type.
Variables (fO fI : F) (fadd fmul fsub : F -> F -> F) (fopp : F -> F) (fdiv : F -> F -> F) (finv : F -> F).
Variable Fth : field_theory fO fI fadd fmul fsub fopp fdiv finv eq.
Add Field FfieldM : Fth.
Notation "x + y" := (fadd x y) : rs. Notation "x * y" := (fmul x y) : rs.
Notation "x - y" := (fsub x y) : rs. Notation "x / y" := (fdiv x y) : rs.
Notation sumF := (sum fO fadd).
Notation nthF := (nthF F fO).
Notation nth2 := (nth2 F fO).
Notation ssum := (ssum F fO fadd).
Local Open Scope rs.

Lemma nth_tabulate {A} n (f : nat -> A) t d : (t < n)%nat -> nth t (tabulate n f) d = f t.
Proof.
  intros H. unfold tabulate. erewrite nth_indep with (d' := f 0) by (rewrite map_length, seq_length; auto).
  rewrite map_nth, seq_nth by auto. reflexivity.
Qed.

Lemma tabulate_length {A} n (f : nat -> A) : length (tabulate n f) = n.
Proof. unfold tabulate. rewrite map_length, seq_length. reflexivity. Qed.

Lemma nthF_map2 (f : F -> F -> F) l1 l2 t :
  (t < length l1)%nat -> (t < length l2)%nat -> nthF (map2 f l1 l2) t = f (nthF l1 t) (nthF l2 t).
Proof. intros H1 H2. unfold Stocks.nthF. apply nth_map2; auto. Qed.

Lemma nthF_row_sums m t : nthF (row_sums F fO fadd m) t = sumF (nth t m []).
Proof. unfold Stocks.nthF, row_sums. change fO with (sumF []). apply map_nth. Qed.

Lemma sumF_tabulate n f : sumF (tabulate n f) = ssum n f.
Proof. reflexivity. Qed.

Section WithData.
Variables (n : nat) (dt inflow : list F) (sf : list (list F)).
Hypothesis Hdt : length dt = n.
Hypothesis Hin : length inflow = n.
Hypothesis lower : forall t c, (t < c)%nat -> nth2 sf t c = fO.

Definition wp (c : nat) : F := nthF inflow c * nthF dt c.

Lemma wp_list c : (c < n)%nat -> nthF (to_whole_period F fmul dt inflow) c = wp c.
Proof. intros H. unfold to_whole_period. rewrite nthF_map2 by lia. reflexivity. Qed.

Lemma pdf_entry_eq t c : pdf_entry F fO fI fsub sf t c = pdf F fO fI fsub (nth2 sf) t c.
Proof. reflexivity. Qed.

Lemma idsm_stock t : (t < n)%nat ->
  nthF (o_stock F (idsm F fO fI fadd fmul fsub fdiv true n dt inflow sf)) t
  = stock F fO fadd fmul (nth2 sf) n wp t.
Proof.
  intros Ht. unfold idsm. simpl. rewrite nthF_row_sums. unfold cohort_table.
  rewrite nth_tabulate by auto. rewrite sumF_tabulate. unfold stock.
  apply ssum_ext. intros c Hc. rewrite wp_list by auto. reflexivity.
Qed.

Lemma idsm_outflow t : (t < n)%nat ->
  nthF (o_outflow F (idsm F fO fI fadd fmul fsub fdiv true n dt inflow sf)) t
  = outflow F fO fI fadd fmul fsub fdiv (nth2 sf) n wp (nthF dt) t.
Proof.
  intros Ht. unfold idsm, compute_outflow. simpl. rewrite nthF_row_sums.
  assert (E : nth t (map2 (fun row d => map (fun x => x * (fI / d)) row)
                        (cohort_table F fO fmul n (to_whole_period F fmul dt inflow) (pdf_of F fO fI fsub n sf)) dt) []
              = map (fun x => x * (fI / nthF dt t))
                    (tabulate n (fun c => nthF (to_whole_period F fmul dt inflow) c * nth2 (pdf_of F fO fI fsub n sf) t c))).
  { erewrite nth_map2 with (da := []) (db := fO).
    - unfold cohort_table. rewrite nth_tabulate by auto. reflexivity.
    - unfold cohort_table. rewrite tabulate_length. auto.
    - lia. }
  rewrite E. unfold tabulate. rewrite map_map. unfold outflow.
  apply ssum_ext. intros c Hc. rewrite wp_list by auto.
  unfold Stocks.nth2 at 1, pdf_of. rewrite nth_tabulate by auto. rewrite nth_tabulate by auto. reflexivity.
Qed.

(* C03 for the inflow-driven model *)
Theorem balance_idsm t : (t < n)%nat -> nthF dt t <> fO ->
  let r := idsm F fO fI fadd fmul fsub fdiv true n dt inflow sf in
  nthF (o_stock F r) t - (if Nat.eqb t 0 then fO else nthF (o_stock F r) (t - 1))
  = nthF dt t * (nthF inflow t - nthF (o_outflow F r) t).
Proof.
  intros Ht Hd r. subst r. rewrite idsm_stock, idsm_outflow by auto.
  assert (E : (if Nat.eqb t 0 then fO else nthF (o_stock F (idsm F fO fI fadd fmul fsub fdiv true n dt inflow sf)) (t - 1))
              = stock_prev F fO fadd fmul (nth2 sf) n wp t).
  { unfold stock_prev. destruct (Nat.eqb_spec t 0); auto. apply idsm_stock. lia. }
  rewrite E.
  rewrite (balance F fO fI fadd fmul fsub fopp fdiv finv Fth (nth2 sf) n lower wp (nthF dt) t Ht Hd).
  unfold wp. ring.
Qed.

(* C09: cohort table entries and their sums *)
Theorem idsm_cohort_entry t c : (t < n)%nat -> (c < n)%nat ->
  nth2 (o_sbc F (idsm F fO fI fadd fmul fsub fdiv true n dt inflow sf)) t c = (nthF inflow c * nthF dt c) * nth2 sf t c.
Proof.
  intros Ht Hc. unfold idsm. simpl. unfold Stocks.nth2 at 1, cohort_table.
  rewrite nth_tabulate by auto. rewrite nth_tabulate by auto. rewrite wp_list by auto. reflexivity.
Qed.

Theorem idsm_stock_is_cohort_sum t :
  nthF (o_stock F (idsm F fO fI fadd fmul fsub fdiv true n dt inflow sf)) t
  = sumF (nth t (o_sbc F (idsm F fO fI fadd fmul fsub fdiv true n dt inflow sf)) []).
Proof. unfold idsm. simpl. apply nthF_row_sums. Qed.

Theorem idsm_outflow_is_cohort_sum t :
  nthF (o_outflow F (idsm F fO fI fadd fmul fsub fdiv true n dt inflow sf)) t
  = sumF (nth t (o_obc F (idsm F fO fI fadd fmul fsub fdiv true n dt inflow sf)) []).
Proof. unfold idsm, compute_outflow. simpl. apply nthF_row_sums. Qed.

End WithData.

(* ---------- forward substitution (C10) ---------- *)
Section Solve.
Variable sf : list (list F).
Definition fs (b : list F) (m : nat) : list F := fsolve F fO fadd fmul fsub fdiv m sf b.

Lemma fs_len b m : length (fs b m) = m.
Proof. unfold fs. induction m; simpl; auto. rewrite app_length; simpl. lia. Qed.

Lemma fs_prefix b k m j : (j < k)%nat -> (k <= m)%nat -> nthF (fs b m) j = nthF (fs b k) j.
Proof.
  intros Hj Hkm. induction Hkm; auto. unfold fs in *. simpl. unfold Stocks.nthF in *. rewrite app_nth1; auto. fold (fs b m). rewrite fs_len. lia.
Qed.

Lemma fs_last b m : nthF (fs b (S m)) m
  = (nthF b m - ssum m (fun j => nth2 sf m j * nthF (fs b m) j)) / nth2 sf m m.
Proof.
  unfold fs. simpl. fold (fs b m). unfold Stocks.nthF at 1. rewrite app_nth2 by (rewrite fs_len; lia).
  rewrite fs_len, Nat.sub_diag. reflexivity.
Qed.

(* the computed inflow solves the triangular system ... *)
Theorem fsolve_correct b m i : (i < m)%nat -> nth2 sf i i <> fO ->
  ssum (S i) (fun j => nth2 sf i j * nthF (fs b m) j) = nthF b i.
Proof.
  intros Hi Hd. rewrite (ssum_S F fO fI fadd fmul fsub fopp fdiv finv Fth).
  rewrite (fs_prefix b (S i) m i) by lia. rewrite fs_last.
  rewrite (ssum_ext F fO fadd i _ (fun j => nth2 sf i j * nthF (fs b i) j)).
  2:{ intros j Hj. rewrite (fs_prefix b i m j) by lia. reflexivity. }
  field. exact Hd.
Qed.

(* ... and is its only solution: any exact triangular solver (LAPACK's included) returns it *)
Theorem fsolve_unique b m (y : nat -> F) :
  (forall i, (i < m)%nat -> nth2 sf i i <> fO) ->
  (forall i, (i < m)%nat -> ssum (S i) (fun j => nth2 sf i j * y j) = nthF b i) ->
  forall i, (i < m)%nat -> y i = nthF (fs b m) i.
Proof.
  intros Hd Hy i. induction i as [i IH] using lt_wf_ind. intros Hi.
  rewrite (fs_prefix b (S i) m i) by lia. rewrite fs_last.
  pose proof (Hy i Hi) as E. rewrite (ssum_S F fO fI fadd fmul fsub fopp fdiv finv Fth) in E.
  rewrite (ssum_ext F fO fadd i (fun j => nth2 sf i j * nthF (fs b i) j) (fun j => nth2 sf i j * y j)).
  2:{ intros j Hj. rewrite (IH j Hj) by lia. rewrite (fs_prefix b i m j) by lia. reflexivity. }
  rewrite <- E. field. apply Hd; auto.
Qed.

(* causality of the stock-driven model: the first k inflows only look at the first k stocks *)
Theorem fsolve_causal b b' m k : (k <= m)%nat -> (forall j, (j < k)%nat -> nthF b j = nthF b' j) ->
  forall j, (j < k)%nat -> nthF (fs b m) j = nthF (fs b' m) j.
Proof.
  intros Hkm Hb.
  assert (P : forall q, (q <= k)%nat -> forall j, (j < q)%nat -> nthF (fs b q) j = nthF (fs b' q) j).
  { induction q as [|q IHq]; intros Hq j0 Hj0; [lia|].
    destruct (Nat.eq_dec j0 q) as [->|Hne].
    - rewrite !fs_last. rewrite Hb by lia. f_equal. f_equal.
      apply ssum_ext. intros j1 Hj1. rewrite IHq by lia. reflexivity.
    - rewrite (fs_prefix b q (S q) j0) by lia. rewrite (fs_prefix b' q (S q) j0) by lia. apply IHq; lia. }
  intros j Hj. rewrite (fs_prefix b k m j), (fs_prefix b' k m j) by lia. apply P; lia.
Qed.

(* linearity of the stock-driven inflow in the prescribed stock *)
Theorem fsolve_linear (b1 b2 b3 : list F) a c m :
  (forall j, (j < m)%nat -> nthF b3 j = a * nthF b1 j + c * nthF b2 j) ->
  (forall j, (j < m)%nat -> nth2 sf j j <> fO) ->
  forall j, (j < m)%nat -> nthF (fs b3 m) j = a * nthF (fs b1 m) j + c * nthF (fs b2 m) j.
Proof.
  intros Hb Hd.
  assert (P : forall q, (q <= m)%nat -> forall j, (j < q)%nat ->
             nthF (fs b3 q) j = a * nthF (fs b1 q) j + c * nthF (fs b2 q) j).
  { induction q as [|q IHq]; intros Hq j0 Hj0; [lia|].
    destruct (Nat.eq_dec j0 q) as [->|Hne].
    - rewrite !fs_last. rewrite Hb by lia.
      rewrite (ssum_ext F fO fadd q (fun j => nth2 sf q j * nthF (fs b3 q) j)
                 (fun j => a * (nth2 sf q j * nthF (fs b1 q) j) + c * (nth2 sf q j * nthF (fs b2 q) j))).
      2:{ intros j1 Hj1. rewrite IHq by lia. ring. }
      rewrite (ssum_add F fO fI fadd fmul fsub fopp fdiv finv Fth), !(ssum_scal F fO fI fadd fmul fsub fopp fdiv finv Fth).
      field. apply Hd. lia.
    - rewrite (fs_prefix b3 q (S q) j0), (fs_prefix b1 q (S q) j0), (fs_prefix b2 q (S q) j0) by lia. apply IHq; lia. }
  intros j Hj. apply P; lia.
Qed.

End Solve.
End M.
