(* C02: check_mass_balance succeeds exactly when every process has a NaN-free balance within the
   tolerance; check_flows flags exactly the non-excepted flows with a NaN or an entry below -tol. *)
From Coq Require Import List Arith Lia Bool ZArith QArith Qcanon.
Import ListNotations.
From Flodym Require Import Base.ND Base.Env Np.Einsum Model.Dims Model.Array Model.Instances Model.System.
Local Open Scope nat_scope.

Lemma mapM_Forall2 {A B} (f : A -> res B) l rs : mapM f l = Ok rs <-> Forall2 (fun x r => f x = Ok r) l rs.
Proof.
  revert rs. induction l as [|a l IH]; intros rs; simpl.
  - split; [intros H; injection H as <-; constructor | intros H; inversion H; reflexivity].
  - split.
    + destruct (f a) as [b|] eqn:E; simpl; [|discriminate].
      destruct (mapM f l) as [bs|] eqn:E'; simpl; [|discriminate].
      intros H; injection H as <-. constructor; auto. apply IH. reflexivity.
    + intros H. inversion H as [|? r ? rs' Hr Hrs]; subst. rewrite Hr. simpl.
      apply IH in Hrs. rewrite Hrs. reflexivity.
Qed.

Lemma mapM_Err_exists {A B} (f : A -> res B) l : mapM f l = Err -> exists x, In x l /\ f x = Err.
Proof.
  induction l as [|a l IH]; simpl; [discriminate|].
  destruct (f a) eqn:E; simpl.
  - destruct (mapM f l) eqn:E'; simpl; [discriminate|]. intros _. destruct (IH eq_refl) as (x & Hx & Ex). exists x; auto.
  - intros _. exists a; auto.
Qed.

Lemma Forall2_find {A B} (R : A -> B -> Prop) l es p :
  Forall2 R l es -> In p l -> exists e, In (p, e) (combine l es) /\ R p e.
Proof.
  induction 1 as [|a e l es Hae H IH]; intros Hin; [contradiction|].
  destruct Hin as [->|Hin]; [exists e; split; [left; auto | auto]|].
  destruct (IH Hin) as (e' & H1 & H2). exists e'. split; [right; auto | auto].
Qed.

Lemma Forall2_combine {A B} (R : A -> B -> Prop) l es p e :
  Forall2 R l es -> In (p, e) (combine l es) -> R p e.
Proof.
  induction 1 as [|a e0 l es Hae H IH]; intros Hin; [contradiction|].
  destruct Hin as [Hin|Hin]; [injection Hin as <- <-; auto | auto].
Qed.

(* what one process contributes to the verdict *)
Definition proc_error (vr : sysvariant) (s : system) (p : nat) : res oq :=
  b <- balance_v vr s p ;; match b with None => Err | Some a => np_max_abs (avals a) end.

Definition within (t : oq) (e : oq) : bool :=
  match e, t with Some ev, Some tv => Qc_leb ev tv | _, _ => false end.

Lemma filter_nil_iff {A} (f : A -> bool) l : filter f l = [] <-> forall x, In x l -> f x = false.
Proof.
  induction l as [|a l IH]; simpl; [split; auto; intros _ x []|].
  destruct (f a) eqn:E; split.
  - discriminate. - intros H. specialize (H a (or_introl eq_refl)). congruence.
  - intros H x [<-|Hx]; auto. apply IH; auto.
  - intros H. apply IH. intros x Hx. apply H. right; auto.
Qed.

(* explicit tolerance: success iff every process has a computable, NaN-free balance within it *)
Theorem check_mb_iff factor s (t : Qc) :
  check_mass_balance_v sys_current factor s (Some t) = VSuccess
  <-> forall p, p < sy_nproc s -> exists e, proc_error sys_current s p = Ok (Some e) /\ Qc_leb e t = true.
Proof.
  unfold check_mass_balance_v. fold (proc_error sys_current s).
  change (mapM (fun p => b <- balance_v sys_current s p ;; match b with None => Err | Some a => np_max_abs (avals a) end))
    with (mapM (proc_error sys_current s)).
  destruct (mapM (proc_error sys_current s) (seq 0 (sy_nproc s))) as [es|] eqn:E.
  - apply mapM_Forall2 in E.
    set (bad := fun pe : nat * option Qc => match snd pe with
                                            | Some e => negb (Qc_leb e t) | None => nan_fails sys_current end).
    split.
    + intros H p Hp.
      destruct (filter bad (combine (seq 0 (sy_nproc s)) es)) eqn:Ef; [|discriminate].
      rewrite filter_nil_iff in Ef.
      assert (Hin : In p (seq 0 (sy_nproc s))) by (apply in_seq; lia).
      destruct (Forall2_find _ _ _ _ E Hin) as (e & Hpe & He).
      specialize (Ef (p, e) Hpe). unfold bad in Ef. simpl in Ef.
      destruct e as [ev|]; [|discriminate]. exists ev. split; [exact He|].
      apply negb_false_iff in Ef. exact Ef.
    + intros H.
      assert (Ef : filter bad (combine (seq 0 (sy_nproc s)) es) = []).
      { apply filter_nil_iff. intros [p e] Hin. unfold bad. simpl.
        assert (Hp : In p (seq 0 (sy_nproc s))) by (eapply in_combine_l; eauto).
        apply in_seq in Hp. destruct (H p ltac:(lia)) as (ev & Hev & Hle).
        assert (Ee : proc_error sys_current s p = Ok e) by (eapply (Forall2_combine _ _ _ _ _ E); eauto).
        rewrite Ee in Hev. injection Hev as ->. rewrite Hle. reflexivity. }
      rewrite Ef. reflexivity.
  - split; [discriminate|]. intros H. exfalso.
    apply mapM_Err_exists in E. destruct E as (p & Hp & Ep). apply in_seq in Hp.
    destruct (H p ltac:(lia)) as (e & He & _). congruence.
Qed.

(* a NaN balance is never a success *)
Corollary nan_balance_fails factor s (t : Qc) p :
  p < sy_nproc s -> proc_error sys_current s p = Ok None ->
  check_mass_balance_v sys_current factor s (Some t) <> VSuccess.
Proof.
  intros Hp Hn H. pose proof (proj1 (check_mb_iff factor s t) H) as H'. destruct (H' p Hp) as (e & He & _). congruence.
Qed.

(* before the repair a NaN balance was a success: witness *)
Lemma nan_success_before_fix :
  exists s, check_mass_balance_v (mk_sysvariant false true true) (q 100 1) s (Some (q 1 1)) = VSuccess
            /\ proc_error sys_current s 0 = Ok None.
Proof.
  exists (mk_system 1 [mk_flow 0 0 0 (mk_farr [] [None])] []). vm_compute. split; reflexivity.
Qed.

(* check_flows: with the default tolerance t = factor * eps * (largest finite magnitude), the flagged
   flows are exactly the non-excepted ones holding a NaN, resp. an entry below -t *)
Definition has_nan (f : flow) : bool := existsb (fun x => match x with None => true | _ => false end) (avals (f_arr f)).
Definition has_below (t : Qc) (f : flow) : bool :=
  existsb (fun x => match x with Some v => negb (Qc_leb (Qcopp t) v) | None => false end) (avals (f_arr f)).
Definition largest_magnitude (s : system) : Qc :=
  fold_left Qc_max (flat_map (fun v => match nanmax_abs v with Some m => [m] | None => [] end)
                      (map (fun f => avals (f_arr f)) (sy_flows s) ++ map (fun sr => avals (s_stock sr)) (sy_stocks s))) 0%Qc.

Theorem check_flows_spec factor s excepted :
  let fl := filter (fun f => negb (excepted f)) (sy_flows s) in
  let t := Qcmult factor (Qcmult eps64 (largest_magnitude s)) in
  check_flows_v sys_current factor s excepted
  = FResult (map f_name (filter has_nan fl)) (map f_name (filter (has_below t) fl)).
Proof. reflexivity. Qed.
