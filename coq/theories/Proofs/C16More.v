(* C16, the last sentence: "Shifting all time items by a constant changes nothing, and the stock response to a unit inflow rate
   in one cohort is that cohort's column of the survival table times its interval length." *)
From Coq Require Import List Arith Lia Field_theory Ring_theory Field.
Import ListNotations.
From Flodym Require Import Base.ND Model.Stocks Model.Lifetime Proofs.StockAlgebra Proofs.StockModel.

Section G.
Variable F : Type.
Variables (fO fI : F) (fadd fmul fsub : F -> F -> F) (fopp : F -> F) (fdiv : F -> F -> F) (finv : F -> F).
Variable Fth : field_theory fO fI fadd fmul fsub fopp fdiv finv eq.
Add Field Ff : Fth.
Notation "x + y" := (fadd x y) : rs. Notation "x * y" := (fmul x y) : rs.
Notation "x - y" := (fsub x y) : rs. Notation "x / y" := (fdiv x y) : rs.
Notation nthF := (nthF F fO).
Notation nth2 := (nth2 F fO).
Local Open Scope rs.

(* ---- impulse response of the inflow-driven model ---- *)
Theorem idsm_unit_impulse n dt inflow sf c0 t :
  length dt = n -> length inflow = n -> (c0 < n)%nat -> (t < n)%nat ->
  (forall c, (c < n)%nat -> nthF inflow c = if Nat.eqb c c0 then fI else fO) ->
  nthF (o_stock F (idsm F fO fI fadd fmul fsub fdiv true n dt inflow sf)) t = nthF dt c0 * nth2 sf t c0.
Proof.
  intros Hdt Hin Hc Ht Himp.
  rewrite (idsm_stock F fO fI fadd fmul fsub fdiv n dt inflow sf Hdt Hin t Ht).
  unfold stock.
  rewrite (ssum_ext F fO fadd n _ (fun c => if Nat.eqb c c0 then nthF dt c0 * nth2 sf t c0 else fO)).
  - apply (ssum_single F fO fI fadd fmul fsub fopp fdiv finv Fth n c0 (fun _ => nthF dt c0 * nth2 sf t c0) Hc).
  - intros c Hcn. unfold wp. rewrite (Himp c Hcn). destruct (Nat.eqb_spec c c0) as [->|_]; ring.
Qed.

(* ---- a calendar shift ---- *)
Definition shift (s : F) (items : list F) : list F := map (fun x => x + s) items.

Hypothesis two_nonzero : fI + fI <> fO.

Lemma nthF_shift s items i : (i < length items)%nat -> nthF (shift s items) i = nthF items i + s.
Proof.
  intros H. unfold shift, Stocks.nthF. rewrite nth_indep with (d' := fO + s) by (rewrite map_length; exact H).
  rewrite (map_nth (fun x => x + s)). reflexivity.
Qed.

Lemma shift_map {A} s (f : A -> F) l : shift s (map f l) = map (fun i => f i + s) l.
Proof. unfold shift. apply map_map. Qed.

Lemma shift_length s l : length (shift s l) = length l.
Proof. apply map_length. Qed.

Lemma middles_shift s items : middles F fO fI fadd fdiv (shift s items) = shift s (middles F fO fI fadd fdiv items).
Proof.
  unfold middles, tabulate. rewrite shift_map, shift_length.
  apply map_ext_in. intros i Hi. apply in_seq in Hi.
  rewrite !nthF_shift by lia. unfold two. field. exact two_nonzero.
Qed.

Lemma shift_app s l1 l2 : shift s (l1 ++ l2) = shift s l1 ++ shift s l2.
Proof. apply map_app. Qed.

Lemma bounds_shift s items : (3 <= length items)%nat ->
  bounds F fO fI fadd fsub fdiv (shift s items) = shift s (bounds F fO fI fadd fsub fdiv items).
Proof.
  intros H. unfold bounds. cbv zeta. rewrite middles_shift.
  set (m := middles F fO fI fadd fdiv items).
  assert (Hm : length m = (length items - 1)%nat) by (unfold m, middles; apply tabulate_length).
  rewrite !shift_app, shift_length. cbn [shift map].
  assert (L2 : (2 <= length m)%nat) by lia. clearbody m.
  rewrite (nthF_shift s m 0), (nthF_shift s m 1), (nthF_shift s m (length m - 1)), (nthF_shift s m (length m - 2)) by (clear - L2; lia).
  f_equal; [f_equal; ring|]. f_equal. f_equal. ring.
Qed.

Lemma bounds_length items : (1 <= length items)%nat -> length (bounds F fO fI fadd fsub fdiv items) = (length items + 1)%nat.
Proof.
  intros H1. unfold bounds. cbv zeta. rewrite !app_length. cbn [length]. unfold middles. rewrite tabulate_length. lia.
Qed.

Theorem interval_lengths_shift s items : (3 <= length items)%nat ->
  interval_lengths F fO fI fadd fsub fdiv (shift s items) = interval_lengths F fO fI fadd fsub fdiv items.
Proof.
  intros H. unfold interval_lengths. cbv zeta. rewrite bounds_shift by exact H.
  rewrite shift_length. unfold tabulate. apply map_ext_in. intros i Hi. apply in_seq in Hi.
  rewrite bounds_length in Hi by lia. rewrite !nthF_shift by (rewrite bounds_length; lia). ring.
Qed.

(* the ages, hence the survival table of ANY distribution, do not move *)
Variable P : Type.
Variable S : F -> P -> F.

Lemma age_shift s b t c eta : (Datatypes.S t < length b)%nat -> (Datatypes.S c < length b)%nat ->
  age F fO fI fadd fmul fsub (shift s b) t c eta = age F fO fI fadd fmul fsub b t c eta.
Proof.
  intros Ht Hc. unfold age, inflow_instant. rewrite !nthF_shift by lia. ring.
Qed.

Theorem sf_table_shift s items quad prm :
  (3 <= length items)%nat ->
  sf_table F fO fI fadd fmul fsub P S (length items) (bounds F fO fI fadd fsub fdiv (shift s items)) quad prm
  = sf_table F fO fI fadd fmul fsub P S (length items) (bounds F fO fI fadd fsub fdiv items) quad prm.
Proof.
  intros H. rewrite bounds_shift by exact H. unfold sf_table, tabulate.
  apply map_ext_in. intros t Ht. apply in_seq in Ht. apply map_ext_in. intros c Hc. apply in_seq in Hc.
  unfold sf_entry. destruct (Nat.ltb t c); [reflexivity|]. f_equal. apply map_ext. intros ew.
  rewrite age_shift by (rewrite bounds_length; lia). reflexivity.
Qed.

End G.
