(* C05 / C06: what SubArrayHandler makes of a dict key {letter: selection}.  The code processes the
   entries one after the other, replacing / dropping dimensions of dims_out IN PLACE and overwriting
   positions of the id list; the net effect is per dimension:
     not addressed      -> the dimension is kept,   slice(None)
     a single item      -> the dimension is dropped, the item's index
     a subset Dimension -> replaced by the subset,   the indices of the subset's items
     a list of items    -> kept (the key is invalid for reads), the indices of the items. *)
From Coq Require Import List Arith Lia Bool.
Import ListNotations.
From Flodym Require Import Base.ND Base.Env Np.Einsum Np.Index Model.Dims Model.Array Model.SubArray
  Proofs.C14Proofs Proofs.CumsumProofs.
Local Open Scope nat_scope.

Definition asg := letter -> option isel.
Definition upd_asg (f : asg) (l : letter) (v : isel) : asg := fun l' => if Nat.eqb l' l then Some v else f l'.

Definition ids_of (d : dim) (its : list nat) : list nat :=
  map (fun it => match index_of it (ditems d) with Some i => i | None => 0 end) its.

Definition out_for (f : asg) (d : dim) : list dim :=
  match f (dletter d) with
  | None => [d] | Some (ISingle _) => [] | Some (IDim sd) => [sd] | Some (IList _) => [d]
  end.
Definition sel_for (f : asg) (d : dim) : rawid :=
  match f (dletter d) with
  | None => RAll
  | Some (ISingle it) => RInt (match index_of it (ditems d) with Some i => i | None => 0 end)
  | Some (IDim sd) => RList (ids_of d (ditems sd))
  | Some (IList its) => RList (ids_of d its)
  end.

(* a selection is valid for a dimension *)
Definition sel_valid (ds : dimset) (d : dim) (v : isel) : Prop :=
  match v with
  | ISingle it => In it (ditems d)
  | IDim sd => incl (ditems sd) (ditems d)
  | IList its => incl its (ditems d)
  end.

(* ---- list surgery ---- *)
Lemma replace_nth_app {A} (l1 : list A) x l2 y : replace_nth (l1 ++ x :: l2) (length l1) y = l1 ++ y :: l2.
Proof. induction l1 as [|a l1 IH]; simpl; auto. f_equal. exact IH. Qed.

Lemma remove_nth_app {A} (l1 : list A) x l2 : remove_nth (l1 ++ x :: l2) (length l1) = l1 ++ l2.
Proof. induction l1 as [|a l1 IH]; simpl; auto. f_equal. exact IH. Qed.

Lemma find_letter_app_notin l1 d l2 : ~ In (dletter d) (letters l1) -> find_letter (l1 ++ d :: l2) (dletter d) = Some d.
Proof.
  induction l1 as [|a l1 IH]; simpl; intros H.
  - rewrite Nat.eqb_refl. reflexivity.
  - destruct (Nat.eqb_spec (dletter a) (dletter d)) as [E|_]; [exfalso; apply H; left; exact E|]. apply IH. tauto.
Qed.

Lemma index_of_app_notin (l : nat) l1 l2 : ~ In l l1 -> index_of l (l1 ++ l :: l2) = Some (length l1).
Proof.
  induction l1 as [|a l1 IH]; simpl; intros H.
  - rewrite Nat.eqb_refl. reflexivity.
  - destruct (Nat.eqb_spec a l) as [E|_]; [exfalso; apply H; left; exact E|]. rewrite IH by tauto. reflexivity.
Qed.

Lemma in_split_nodup ds d : NoDup (letters ds) -> In d ds ->
  exists ds1 ds2, ds = ds1 ++ d :: ds2 /\ ~ In (dletter d) (letters ds1) /\ ~ In (dletter d) (letters ds2).
Proof.
  intros Hn Hin. destruct (in_split _ _ Hin) as (ds1 & ds2 & ->). exists ds1, ds2. split; [reflexivity|].
  rewrite letters_app in Hn. simpl in Hn. apply NoDup_remove_2 in Hn. rewrite in_app_iff in Hn. tauto.
Qed.

(* the assignment built so far addresses letters of ds only through dimensions with fresh letters *)
Definition fresh (f : asg) (ds : dimset) : Prop :=
  forall d sd, In d ds -> f (dletter d) = Some (IDim sd) -> ~ In (dletter sd) (letters ds).

Lemma out_for_letters_notin f ds l dsub :
  incl dsub ds -> fresh f ds -> In l (letters ds) -> ~ In l (letters dsub) -> ~ In l (letters (flat_map (out_for f) dsub)).
Proof.
  intros Hi Hf Hl Hn Hin. unfold letters in Hin. apply in_map_iff in Hin. destruct Hin as (x & Ex & Hx).
  apply in_flat_map in Hx. destruct Hx as (d & Hd & Hx). unfold out_for in Hx.
  destruct (f (dletter d)) as [[it|sd|its]|] eqn:E; simpl in Hx.
  - contradiction.
  - destruct Hx as [<-|[]]. apply (Hf d sd (Hi d Hd) E). rewrite Ex. exact Hl.
  - destruct Hx as [<-|[]]. apply Hn. rewrite <- Ex. unfold letters. apply in_map. exact Hd.
  - destruct Hx as [<-|[]]. apply Hn. rewrite <- Ex. unfold letters. apply in_map. exact Hd.
Qed.

Lemma flat_map_ext_in {A B} (f g : A -> list B) l : (forall x, In x l -> f x = g x) -> flat_map f l = flat_map g l.
Proof. induction l as [|a l IH]; simpl; intros H; auto. rewrite H by (left; auto). rewrite IH; [reflexivity|]. intros; apply H; right; auto. Qed.

Lemma out_for_upd_other f l v dsub : ~ In l (letters dsub) -> flat_map (out_for (upd_asg f l v)) dsub = flat_map (out_for f) dsub.
Proof.
  intros H. apply flat_map_ext_in. intros d Hd. unfold out_for, upd_asg.
  destruct (Nat.eqb_spec (dletter d) l) as [E|_]; [|reflexivity]. exfalso. apply H. rewrite <- E. unfold letters. apply in_map. exact Hd.
Qed.

Lemma sel_for_upd_other f l v dsub : ~ In l (letters dsub) -> map (sel_for (upd_asg f l v)) dsub = map (sel_for f) dsub.
Proof.
  intros H. apply map_ext_in. intros d Hd. unfold sel_for, upd_asg.
  destruct (Nat.eqb_spec (dletter d) l) as [E|_]; [|reflexivity]. exfalso. apply H. rewrite <- E. unfold letters. apply in_map. exact Hd.
Qed.

(* ---- one entry of the dict ---- *)

(* dims_out *)
Lemma dims_out_step f ds d v :
  NoDup (letters ds) -> In d ds -> f (dletter d) = None -> fresh f ds ->
  (forall sd, v = IDim sd -> ~ In (dletter sd) (letters ds)
                            /\ forall d' sd', In d' ds -> f (dletter d') = Some (IDim sd') -> dletter sd' <> dletter sd) ->
  init_dims_out (flat_map (out_for f) ds) [(KLetter (dletter d), v)]
  = Ok (flat_map (out_for (upd_asg f (dletter d) v)) ds).
Proof.
  intros Hn Hin Hf Hfr Hv.
  destruct (in_split_nodup ds d Hn Hin) as (ds1 & ds2 & -> & H1 & H2).
  rewrite !flat_map_app. cbn [flat_map].
  rewrite (out_for_upd_other f (dletter d) v ds1 H1), (out_for_upd_other f (dletter d) v ds2 H2).
  set (F1 := flat_map (out_for f) ds1). set (F2 := flat_map (out_for f) ds2).
  assert (Hd0 : out_for f d = [d]) by (unfold out_for; rewrite Hf; reflexivity). rewrite Hd0. cbn [app].
  assert (HF1 : ~ In (dletter d) (letters F1)).
  { apply (out_for_letters_notin f (ds1 ++ d :: ds2)); auto.
    - intros x Hx. apply in_or_app. left. exact Hx.
    - unfold letters. apply in_map. exact Hin. }
  assert (Hidx : ds_index (F1 ++ d :: F2) (KLetter (dletter d)) = Some (length F1)).
  { unfold ds_index. cbn [find_key]. rewrite find_letter_app_notin by exact HF1.
    rewrite letters_app. cbn [letters map]. fold (letters F1). fold (letters F2).
    replace (length F1) with (length (letters F1)) by (unfold letters; apply map_length).
    apply index_of_app_notin. exact HF1. }
  assert (Hnew : out_for (upd_asg f (dletter d) v) d = match v with ISingle _ => [] | IDim sd => [sd] | IList _ => [d] end).
  { unfold out_for, upd_asg. rewrite Nat.eqb_refl. reflexivity. }
  rewrite Hnew. destruct v as [it|sd|its]; cbn [init_dims_out bind].
  - unfold ds_drop. rewrite Hidx. rewrite remove_nth_app. reflexivity.
  - unfold ds_replace. destruct (Hv sd eq_refl) as [Hs1 Hs2].
    assert (Hfresh : memb (dletter sd) (letters (F1 ++ d :: F2)) = false).
    { apply memb_false. intros Hc. unfold letters in Hc. apply in_map_iff in Hc. destruct Hc as (x & Ex & Hx).
      apply in_app_or in Hx. simpl in Hx.
      assert (Hcase : In x (flat_map (out_for f) (ds1 ++ d :: ds2))).
      { rewrite flat_map_app. cbn [flat_map]. rewrite Hd0. apply in_or_app. destruct Hx as [Hx|[<-|Hx]]; [left; exact Hx | right; left; reflexivity | right; right; exact Hx]. }
      apply in_flat_map in Hcase. destruct Hcase as (d' & Hd' & Hx'). unfold out_for in Hx'.
      destruct (f (dletter d')) as [[it'|sd'|its']|] eqn:E'; simpl in Hx'.
      - contradiction.
      - destruct Hx' as [<-|[]]. apply (Hs2 d' sd' Hd' E'). exact Ex.
      - destruct Hx' as [<-|[]]. apply Hs1. rewrite <- Ex. unfold letters. apply in_map. exact Hd'.
      - destruct Hx' as [<-|[]]. apply Hs1. rewrite <- Ex. unfold letters. apply in_map. exact Hd'. }
    rewrite Hfresh, Hidx. rewrite replace_nth_app. reflexivity.
  - reflexivity.
Qed.

Lemma item_ids_ok d its : incl its (ditems d) -> item_ids d its = Ok (ids_of d its).
Proof.
  intros H. unfold item_ids, ids_of. apply mapM_ok_map. intros it Hit.
  destruct (index_of it (ditems d)) as [i|] eqn:E; [reflexivity|].
  exfalso. specialize (H it Hit). clear -H E. induction (ditems d) as [|a l IH]; simpl in *; [contradiction|].
  destruct (Nat.eqb_spec a it) as [|Hne]; [discriminate|]. destruct (index_of it l); simpl in E; [discriminate|].
  apply IH; auto. destruct H; [contradiction | assumption].
Qed.

Lemma index_of_in it l : In it l -> exists i, index_of it l = Some i.
Proof.
  induction l as [|a l IH]; simpl; [contradiction|]. intros H.
  destruct (Nat.eqb_spec a it) as [|Hne]; [eexists; reflexivity|].
  destruct H as [H|H]; [contradiction|]. destruct (IH H) as [i ->]. eexists; reflexivity.
Qed.

(* ids *)
Lemma ids_step f ds d v :
  NoDup (letters ds) -> In d ds -> sel_valid ds d v ->
  init_ids ds [(KLetter (dletter d), v)] (map (sel_for f) ds) = Ok (map (sel_for (upd_asg f (dletter d) v)) ds).
Proof.
  intros Hn Hin Hv.
  destruct (in_split_nodup ds d Hn Hin) as (ds1 & ds2 & E & H1 & H2).
  assert (Hfind : find_key ds (KLetter (dletter d)) = Some d) by (simpl; apply find_letter_in; auto).
  assert (Hidx : ds_index ds (KLetter (dletter d)) = Some (length ds1)).
  { unfold ds_index. rewrite Hfind. rewrite E, letters_app. cbn [letters map]. fold (letters ds1). fold (letters ds2).
    replace (length ds1) with (length (letters ds1)) by (unfold letters; apply map_length).
    apply index_of_app_notin. exact H1. }
  cbn [init_ids]. unfold ids_single_dim. rewrite Hfind, Hidx.
  assert (Hmap : forall x, replace_nth (map (sel_for f) ds) (length ds1) x
                           = map (sel_for f) ds1 ++ x :: map (sel_for f) ds2).
  { intros x. rewrite E, map_app. cbn [map].
    replace (length ds1) with (length (map (sel_for f) ds1)) by apply map_length. apply replace_nth_app. }
  assert (Hres : map (sel_for (upd_asg f (dletter d) v)) ds
                 = map (sel_for f) ds1 ++ sel_for (upd_asg f (dletter d) v) d :: map (sel_for f) ds2).
  { rewrite E at 1. rewrite map_app. cbn [map]. rewrite (sel_for_upd_other f (dletter d) v ds1 H1), (sel_for_upd_other f (dletter d) v ds2 H2). reflexivity. }
  assert (Hself : sel_for (upd_asg f (dletter d) v) d
                  = match v with
                    | ISingle it => RInt (match index_of it (ditems d) with Some i => i | None => 0 end)
                    | IDim sd => RList (ids_of d (ditems sd))
                    | IList its => RList (ids_of d its)
                    end).
  { unfold sel_for, upd_asg. rewrite Nat.eqb_refl. reflexivity. }
  rewrite Hres, Hself. clear Hres Hself.
  destruct v as [it|sd|its]; simpl in Hv.
  - destruct (index_of_in it (ditems d) Hv) as [i Ei]. rewrite Ei. cbn [bind fst snd]. rewrite Hmap. reflexivity.
  - assert (Hall : forallb (fun it => memb it (ditems d)) (ditems sd) = true).
    { apply forallb_forall. intros it Hit. apply memb_In. apply Hv. exact Hit. }
    rewrite Hall, (item_ids_ok d (ditems sd) Hv). cbn [bind fst snd]. rewrite Hmap. reflexivity.
  - rewrite (item_ids_ok d its Hv). cbn [bind fst snd]. rewrite Hmap. reflexivity.
Qed.

(* ---- the whole dict ---- *)

(* a dict whose keys are letters of pairwise different dimensions of ds, each with a valid selection; subset
   Dimensions carry letters that are new and pairwise different *)
Inductive wf_dict (ds : dimset) : asg -> list (key * isel) -> Prop :=
| wfd_nil f : wf_dict ds f []
| wfd_cons f d v r :
    In d ds -> f (dletter d) = None -> sel_valid ds d v ->
    (forall sd, v = IDim sd -> ~ In (dletter sd) (letters ds)
                              /\ forall d' sd', In d' ds -> f (dletter d') = Some (IDim sd') -> dletter sd' <> dletter sd) ->
    wf_dict ds (upd_asg f (dletter d) v) r ->
    wf_dict ds f ((KLetter (dletter d), v) :: r).

Fixpoint asg_of (f : asg) (kvs : list (key * isel)) : asg :=
  match kvs with
  | [] => f
  | (KLetter l, v) :: r => asg_of (upd_asg f l v) r
  | _ :: r => asg_of f r
  end.

Lemma init_dims_out_cons ds k v r :
  init_dims_out ds ((k, v) :: r) = (ds' <- init_dims_out ds [(k, v)] ;; init_dims_out ds' r).
Proof.
  simpl. destruct v as [it|sd|its]; simpl.
  - destruct (ds_drop ds k); reflexivity.
  - destruct (ds_replace ds k sd); reflexivity.
  - reflexivity.
Qed.

Lemma init_ids_cons ds k v r acc :
  init_ids ds ((k, v) :: r) acc = (acc' <- init_ids ds [(k, v)] acc ;; init_ids ds r acc').
Proof. simpl. destruct (ids_single_dim ds k v); reflexivity. Qed.

Lemma fresh_upd f ds d v :
  NoDup (letters ds) -> fresh f ds -> In d ds ->
  (forall sd, v = IDim sd -> ~ In (dletter sd) (letters ds)) ->
  fresh (upd_asg f (dletter d) v) ds.
Proof.
  intros Hn Hf Hin Hv d' sd' Hd' E. unfold upd_asg in E.
  destruct (Nat.eqb_spec (dletter d') (dletter d)) as [El|Hne].
  - injection E as ->. apply (Hv sd' eq_refl).
  - apply (Hf d' sd' Hd' E).
Qed.

Theorem handler_dict ds f kvs :
  NoDup (letters ds) -> fresh f ds -> wf_dict ds f kvs ->
  init_dims_out (flat_map (out_for f) ds) kvs = Ok (flat_map (out_for (asg_of f kvs)) ds)
  /\ init_ids ds kvs (map (sel_for f) ds) = Ok (map (sel_for (asg_of f kvs)) ds).
Proof.
  intros Hn Hf Hw. induction Hw as [f|f d v r Hin Hnone Hval Hfr Hw IH].
  - split; reflexivity.
  - assert (Hf' : fresh (upd_asg f (dletter d) v) ds).
    { apply fresh_upd; auto. intros sd E. apply (proj1 (Hfr sd E)). }
    destruct (IH Hf') as [I1 I2]. split.
    + rewrite init_dims_out_cons. rewrite (dims_out_step f ds d v Hn Hin Hnone Hf Hfr). cbn [bind]. exact I1.
    + rewrite init_ids_cons. rewrite (ids_step f ds d v Hn Hin Hval). cbn [bind]. exact I2.
Qed.

Definition no_asg : asg := fun _ => None.

Lemma out_for_none ds : flat_map (out_for no_asg) ds = ds.
Proof. induction ds as [|d ds IH]; simpl; auto. f_equal. exact IH. Qed.

Lemma sel_for_none ds : map (sel_for no_asg) ds = map (fun _ => RAll) ds.
Proof. reflexivity. Qed.

(* the handler of a well-formed dict key *)
Theorem mk_handler_dict ds kvs :
  NoDup (letters ds) -> wf_dict ds no_asg kvs ->
  mk_handler_of ds (KDict kvs)
  = Ok (mk_handler (flat_map (out_for (asg_of no_asg kvs)) ds)
                   (to_sels (map (sel_for (asg_of no_asg kvs)) ds) (dshape ds))
                   (existsb (fun p => match snd p with IList _ => true | _ => false end) kvs)).
Proof.
  intros Hn Hw. unfold mk_handler_of, mk_handler_of_v. cbn [def_dict bind].
  assert (Hf : fresh no_asg ds) by (intros d sd _ E; discriminate).
  destruct (handler_dict ds no_asg kvs Hn Hf Hw) as [H1 H2].
  rewrite out_for_none in H1. rewrite H1. cbn [bind].
  rewrite <- sel_for_none. rewrite H2. cbn [bind]. reflexivity.
Qed.
