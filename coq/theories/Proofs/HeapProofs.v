(* C13 / C15 on the heap model: the shape invariant is preserved by every operation of the
   alphabet (hence holds in every reachable state), a raising call leaves the heap unchanged,
   operations that are not in place only append (inputs untouched), results of the listed
   operations live in a fresh buffer. *)
From Coq Require Import List Arith Lia Bool ZArith QArith Qcanon.
Import ListNotations.
From Flodym Require Import Base.ND Base.Env Np.Einsum Np.Index Model.Dims Model.Array Model.SubArray
  Model.Instances Model.Heap Proofs.ArrayLemmas.
From Flodym Require Corr.C01.
Local Open Scope nat_scope.

Ltac break_match :=
  match goal with
  | |- context [match ?x with _ => _ end] => destruct x eqn:?
  | H : context [match ?x with _ => _ end] |- _ => destruct x eqn:?
  end.

Lemma shape_eqb_eq a b : shape_eqb a b = true -> a = b.
Proof. unfold shape_eqb. destruct (list_eq_dec Nat.eq_dec a b); congruence. Qed.

Lemma obj_ok_spec ds sh n : obj_ok ds sh n = true -> sh = dshape ds /\ NoDup (letters ds) /\ n = size sh.
Proof.
  unfold obj_ok. rewrite !andb_true_iff. intros [[H1 H2] H3].
  split; [apply shape_eqb_eq; auto|]. split; [apply (nodupb_NoDup); auto | apply Nat.eqb_eq; auto].
Qed.

Lemma Forall_upd_list {A} (P : A -> Prop) l i x : Forall P l -> P x -> Forall P (upd_list l i x).
Proof.
  revert i; induction l as [|a t IH]; intros [|j] Hl Hx; simpl; auto; inversion Hl; subst; constructor; auto.
Qed.

Lemma inv_alloc h ds v :
  Inv h -> NoDup (letters ds) -> length v = size (dshape ds) -> Inv (alloc h ds v).
Proof.
  intros H Hn Hl. unfold Inv, alloc; simpl. apply Forall_app. split; auto.
  constructor; [|constructor]. unfold obj_inv; simpl. rewrite seq_length. auto.
Qed.

Lemma inv_add_result h r : Inv h -> Inv (fst (add_result h r)).
Proof.
  intros H. unfold add_result. destruct r as [a|]; simpl; auto.
  destruct (obj_ok _ _ _) eqn:E; simpl; auto.
  apply obj_ok_spec in E. destruct E as (_ & Hn & Hl). apply inv_alloc; auto.
Qed.

Lemma inv_add_view h ds b offs : Inv h -> Inv (fst (add_view h ds b offs)).
Proof.
  intros H. unfold add_view. destruct (shp offs) eqn:Es.
  - apply inv_add_result; auto.
  - rewrite <- Es. destruct (obj_ok _ _ _) eqn:E; simpl; auto.
    apply obj_ok_spec in E. destruct E as (Hs & Hn & Hl).
    unfold Inv; simpl. apply Forall_app. split; auto. constructor; [|constructor].
    unfold obj_inv; simpl. auto.
Qed.

Lemma inv_write_back h a v : Inv h -> Inv (write_back h a v).
Proof. intros H. unfold Inv, write_back; simpl. exact H. Qed.

Lemma inv_rebind h i a v :
  Inv h -> obj_inv a -> length v = size (a_shape a) -> Inv (rebind h i a v).
Proof.
  intros H Ha Hl. unfold Inv, rebind; simpl. apply Forall_upd_list; auto.
  destruct Ha as (H1 & H2 & H3). unfold obj_inv; simpl. rewrite seq_length. auto.
Qed.

Lemma nth_error_inv h i a : Inv h -> nth_error (arrs h) i = Some a -> obj_inv a.
Proof.
  intros H E. unfold Inv in H. rewrite Forall_forall in H. apply H. eapply nth_error_In; eauto.
Qed.

Lemma construct_ok ds v a :
  construct Qc ds v = Ok a -> adims a = ds /\ length (avals a) = size (dshape ds).
Proof.
  unfold construct. destruct (shape_eqb _ _ && _) eqn:E; [|discriminate].
  intros H; injection H as <-. simpl. apply andb_true_iff in E. destruct E as [E1 E2].
  apply shape_eqb_eq in E1. apply Nat.eqb_eq in E2. rewrite <- E1. auto.
Qed.

Lemma setitem_ellipsis_nd (x : fQ) v a' :
  setitem Qc QO QI Qcplus Qcmult x KEllipsis (RNd Qc v) = Ok a' ->
  adims a' = adims x /\ length (avals a') = size (dshape (adims x)).
Proof.
  unfold setitem. destruct (mk_handler_of (adims x) KEllipsis); simpl; [|discriminate].
  unfold set_values. apply construct_ok.
Qed.

Lemma cumsum_len (x : fQ) l r :
  cumsum Qc QO Qcplus x l = Ok r -> length (avals r) = size (dshape (adims x)).
Proof.
  unfold cumsum. destruct (index_of l _); [|discriminate]. intros H; injection H as <-. simpl.
  apply tab_length.
Qed.

Lemma un_len (x : fQ) u r : C01.run x (C01.OUn u) = Ok r -> length (avals r) = length (avals x).
Proof. destruct u; simpl; intros H; injection H as <-; simpl; apply map_length. Qed.

Arguments add_result : simpl never.
Arguments add_view : simpl never.
Arguments write_back : simpl never.
Arguments rebind : simpl never.
Arguments as_farr : simpl never.

Theorem inv_step h o : Inv h -> Inv (fst (step current h o)).
Proof.
  intros H. destruct o; simpl; try exact H;
    try (apply inv_add_result; assumption);
    try (destruct (nth_error (arrs h) i) as [a|] eqn:Ea; simpl; [|assumption];
         pose proof (nth_error_inv h i a H Ea) as Ha).
  - apply inv_add_result; auto.
  - apply inv_add_result; auto.
  - destruct y as [j|c|v]; simpl; auto.
    + destruct (nth_error (arrs h) j); simpl; auto. apply inv_add_result; auto.
    + apply inv_add_result; auto.
  - destruct u; simpl; (destruct inplace; simpl;
      [apply inv_rebind; auto; simpl; rewrite map_length; unfold as_farr, vals_of; simpl; rewrite map_length;
       destruct Ha as (_ & _ & Hl); exact Hl
      | apply inv_add_result; auto]).
  - destruct (tuple_to_letters Qc (as_farr h a) xs); simpl; auto.
    destruct (Nat.eqb _ _).
    + destruct (get_subset _ _); simpl; auto.
      destruct (sum_values_to nat 0 1 Nat.add Nat.mul _ _); simpl; auto.
      apply inv_add_view; auto.
    + apply inv_add_result; auto.
  - destruct (tuple_to_letters Qc (as_farr h a) xs) as [[|l0 ls]|]; simpl;
      try (apply inv_add_result; assumption).
    destruct (sum_over _ _ _ _ _ _ _); simpl; auto. apply inv_add_view; auto.
  - apply inv_add_result; auto.
  - apply inv_add_result; auto.
  - destruct (cumsum Qc QO Qcplus (as_farr h a) l) as [r|] eqn:Ec; simpl; auto.
    destruct inplace; simpl.
    + apply inv_rebind; auto. apply cumsum_len in Ec. simpl in Ec.
      destruct Ha as (Hs & _ & _). rewrite Hs. exact Ec.
    + apply inv_add_result; auto.
  - apply inv_add_result; auto.
  - destruct (match r with
              | HArr j => match nth_error (arrs h) j with Some a2 => Ok (RArr Qc (as_farr h a2)) | None => Err end
              | HNum c => Ok (RNum Qc c)
              | HNd v => Ok (RNd Qc v)
              end) as [rf|] eqn:Er; simpl; auto.
    destruct (setitem Qc QO QI Qcplus Qcmult (as_farr h a) k rf) as [a'|] eqn:Es.
    + destruct k; simpl; try (apply inv_write_back; assumption).
      destruct rf; simpl; try (apply inv_write_back; assumption).
      apply inv_rebind; auto. apply setitem_ellipsis_nd in Es. simpl in Es.
      destruct Ha as (Hs & _ & _). rewrite Hs. tauto.
    + destruct k; simpl; auto. destruct rf; simpl; auto.
  - destruct (construct Qc (a_dims a) v) as [a'|] eqn:Ec; simpl; auto.
    apply inv_rebind; auto. apply construct_ok in Ec. destruct Ha as (Hs & _ & _). rewrite Hs. tauto.
  - apply inv_write_back; auto.
Qed.

Theorem inv_reachable ops : Inv (run current ops).
Proof.
  unfold run.
  assert (G : forall h, Inv h -> Inv (fold_left (fun h o => fst (step current h o)) ops h)).
  { induction ops as [|o ops IH]; simpl; intros h Hh; auto. apply IH. apply inv_step; auto. }
  apply G. constructor.
Qed.

(* ---- a call that raises leaves the heap exactly as it was -------------------------------------- *)

Lemma add_result_raise h r : snd (add_result h r) = Raised -> fst (add_result h r) = h.
Proof. unfold add_result. destruct r; simpl; auto. destruct (obj_ok _ _ _); simpl; auto. discriminate. Qed.

Lemma add_view_raise h ds b o : snd (add_view h ds b o) = Raised -> fst (add_view h ds b o) = h.
Proof.
  unfold add_view. destruct (shp o); [apply add_result_raise|].
  destruct (obj_ok _ _ _); simpl; auto. discriminate.
Qed.

Theorem raise_frame h o : snd (step current h o) = Raised -> fst (step current h o) = h.
Proof.
  destruct o; simpl; try (intros _; reflexivity);
    try (apply add_result_raise);
    try (destruct (nth_error (arrs h) i) as [a|] eqn:Ea; simpl; [|reflexivity]);
    try (apply add_result_raise).
  - destruct y as [j|c|v]; simpl; auto.
    + destruct (nth_error (arrs h) j); simpl; auto. apply add_result_raise.
    + apply add_result_raise.
  - destruct u; simpl; (destruct inplace; simpl; [discriminate | apply add_result_raise]).
  - destruct (tuple_to_letters Qc (as_farr h a) xs); simpl; auto.
    destruct (Nat.eqb _ _); [|apply add_result_raise].
    destruct (get_subset _ _); simpl; auto.
    destruct (sum_values_to nat 0 1 Nat.add Nat.mul _ _); simpl; auto. apply add_view_raise.
  - destruct (tuple_to_letters Qc (as_farr h a) xs) as [[|l0 ls]|]; simpl; try (apply add_result_raise).
    destruct (sum_over _ _ _ _ _ _ _); simpl; auto. apply add_view_raise.
  - destruct (cumsum Qc QO Qcplus (as_farr h a) l); simpl; auto.
    destruct inplace; simpl; [discriminate | apply add_result_raise].
  - destruct (match r with
              | HArr j => match nth_error (arrs h) j with Some a2 => Ok (RArr Qc (as_farr h a2)) | None => Err end
              | HNum c => Ok (RNum Qc c)
              | HNd v => Ok (RNd Qc v)
              end) as [rf|]; simpl; auto.
    destruct (setitem Qc QO QI Qcplus Qcmult (as_farr h a) k rf).
    + destruct k; simpl; try discriminate. destruct rf; simpl; discriminate.
    + destruct k; simpl; auto. destruct rf; simpl; auto.
  - destruct (construct Qc (a_dims a) v); simpl; auto. discriminate.
  - discriminate.
Qed.

(* the behaviour before the repair of set_values: a rejected array stays behind *)
Lemma inv_refuted_before_fix :
  exists ops, ~ Inv (run (mk_variant true false) ops).
Proof.
  exists [HNew [mk_dim 97 0 [0; 1; 2]; mk_dim 98 1 [3; 4]] (mk_nd [3; 2] (map (fun z => q z 1) [1; 2; 3; 4; 5; 6]%Z));
          HSetValues 0 (mk_nd [2; 3] (map (fun z => q z 1) [1; 2; 3; 4; 5; 6]%Z))].
  intros H. unfold Inv in H. vm_compute in H. inversion H as [|? ? Ho _]. destruct Ho as (Hs & _). discriminate.
Qed.

(* ---- C15: inputs are never modified by operations that are not in place -------------------------- *)

Definition in_place (o : hop) : bool :=
  match o with
  | HSet _ _ _ | HSetValues _ _ | HSetValuesArr _ _ | HRawFill _ _ => true
  | HCumsum _ _ ip => ip
  | HUn _ _ ip => ip
  | _ => false
  end.

Definition extends (h h' : heap) : Prop :=
  (exists eb, bufs h' = bufs h ++ eb) /\ (exists ea, arrs h' = arrs h ++ ea).

Lemma extends_refl h : extends h h.
Proof. split; exists []; rewrite app_nil_r; reflexivity. Qed.

Lemma extends_add_result h r : extends h (fst (add_result h r)).
Proof.
  unfold add_result. destruct r as [a|]; simpl; [|apply extends_refl].
  destruct (obj_ok _ _ _); simpl; [|apply extends_refl].
  split; eexists; reflexivity.
Qed.

Lemma extends_add_view h ds b o : extends h (fst (add_view h ds b o)).
Proof.
  unfold add_view. destruct (shp o); [apply extends_add_result|].
  destruct (obj_ok _ _ _); simpl; [|apply extends_refl].
  split; [exists []; rewrite app_nil_r; reflexivity | eexists; reflexivity].
Qed.

(* every buffer and every array object that existed before is still there, unchanged *)
Theorem op_frame vr h o : in_place o = false -> extends h (fst (step vr h o)).
Proof.
  intros Hip. destruct o; simpl in *; try discriminate;
    try (apply extends_add_result);
    try (destruct (nth_error (arrs h) i) as [a|] eqn:Ea; simpl; [|apply extends_refl]);
    try (apply extends_add_result).
  - destruct y as [j|c|v]; simpl; try apply extends_refl.
    + destruct (nth_error (arrs h) j); simpl; [apply extends_add_result | apply extends_refl].
    + apply extends_add_result.
  - subst inplace. destruct u; simpl; apply extends_add_result.
  - destruct (tuple_to_letters Qc (as_farr h a) xs); simpl; [|apply extends_refl].
    destruct (Nat.eqb _ _); [|apply extends_add_result].
    destruct (get_subset _ _); simpl; [|apply extends_refl].
    destruct (sum_values_to nat 0 1 Nat.add Nat.mul _ _); simpl; [apply extends_add_view | apply extends_refl].
  - destruct (tuple_to_letters Qc (as_farr h a) xs) as [[|l0 ls]|]; simpl; try (apply extends_add_result).
    destruct (sum_over _ _ _ _ _ _ _); simpl; [apply extends_add_view | apply extends_refl].
  - subst inplace. destruct (cumsum Qc QO Qcplus (as_farr h a) l); simpl; [apply extends_add_result | apply extends_refl].
  - destruct (getitem_copies vr); [apply extends_add_result|].
    destruct (mk_handler_of (a_dims a) k) as [hd|]; simpl; [|apply extends_refl].
    destruct (h_invalid hd); [apply extends_refl|].
    destruct (forallb is_basic (h_sels hd)); [|apply extends_add_result].
    destruct (index nat 0 _ _); simpl; [apply extends_add_view | apply extends_refl].
Qed.

(* results of copy / full_like / arithmetic / unary / cast / shares / cumsum / slice reads are
   allocated in a buffer that did not exist before: they share memory with no earlier array *)
Definition independent_result (o : hop) : bool :=
  match o with
  | HCopy _ | HFullLike _ _ | HBin _ _ _ | HCast _ _ | HShares _ _ | HGet _ _ | HNew _ _ => true
  | HCumsum _ _ ip => negb ip
  | HUn _ _ ip => negb ip
  | _ => false
  end.

Lemma fresh_add_result h r h' :
  add_result h r = (h', Done) -> arrs h' = arrs h \/
  exists a, arrs h' = arrs h ++ [a] /\ a_buf a = length (bufs h).
Proof.
  unfold add_result. destruct r as [x|]; [|discriminate].
  destruct (obj_ok _ _ _); [|discriminate]. intros E; injection E as <-. right. eexists. split; reflexivity.
Qed.

Theorem result_fresh h o h' :
  independent_result o = true -> step current h o = (h', Done) ->
  arrs h' = arrs h \/ exists a, arrs h' = arrs h ++ [a] /\ a_buf a = length (bufs h).
Proof.
  intros Hi Hs. destruct o; simpl in *; try discriminate;
    try (apply (fresh_add_result _ _ _ Hs));
    try (destruct (nth_error (arrs h) i) as [a|] eqn:Ea; simpl in Hs; [|discriminate]);
    try (apply (fresh_add_result _ _ _ Hs)).
  - destruct y as [j|c|v]; simpl in Hs; try discriminate.
    + destruct (nth_error (arrs h) j); [apply (fresh_add_result _ _ _ Hs) | discriminate].
    + apply (fresh_add_result _ _ _ Hs).
  - destruct inplace; [discriminate|]. destruct u; simpl in Hs; apply (fresh_add_result _ _ _ Hs).
  - destruct (cumsum Qc QO Qcplus (as_farr h a) l); [|discriminate].
    destruct inplace; [discriminate|]. apply (fresh_add_result _ _ _ Hs).
Qed.

(* before the repair, a slice read was a view: a raw write into the result reaches the source *)
Lemma slice_view_refuted_before_fix :
  exists ops, vals_of (run (mk_variant false true) ops) (nth 0 (arrs (run (mk_variant false true) ops)) (mk_aobj [] [] 0 []))
              <> map (fun z => q z 1) [1; 2; 3; 4]%Z.
Proof.
  exists [HNew [mk_dim 97 0 [0; 1]; mk_dim 98 1 [2; 3]] (mk_nd [2; 2] (map (fun z => q z 1) [1; 2; 3; 4]%Z));
          HGet 0 (KDict [(KLetter 97, ISingle 0)]);
          HRawFill 1 (q 9 1)].
  vm_compute. discriminate.
Qed.
