(* C01: x ** y.  y's dimensions must be among x's; y is cast to x's dimensions (replicated by label) and
   the power is taken entry by entry: the result has x's dimensions and its entry under the labels e is
   (entry of x under e) ** (entry of y under e). *)
From Coq Require Import List Arith Lia Ring_theory Ring Permutation Bool.
Import ListNotations.
From Flodym Require Import Base.ND Base.Env Np.Einsum Model.Dims Model.Array Proofs.ArrayLemmas Proofs.C07Proofs
  Proofs.C01Proofs Proofs.C04Proofs Proofs.CastProofs Proofs.SharesProofs.

Section P.
Variable R : Type.
Variables (rO rI : R) (radd rmul rsub : R -> R -> R) (ropp : R -> R).
Variable Rth : ring_theory rO rI radd rmul rsub ropp eq.
Notation farr := (farr R).
Notation den := (den R rO).
Notation wf := (wf R).
Notation lsizes := (lsizes R).

Theorem pow_spec (p : R -> R -> R) (x y r : farr) e :
  wf x -> wf y ->
  (forall d, In d (adims x) -> memb (dletter d) (aletters R y) = true -> lookup (lsizes y) (dletter d) = dlen d) ->
  pow_like R rO rI radd rmul p x y = Ok r ->
  in_range (lsizes x) e (aletters R x) ->
  adims r = adims x /\ den r e = p (den x e) (den y e).
Proof.
  intros Hwx Hwy Hcomp Hp Hr. pose proof Hwx as [Hnx Hlx].
  unfold pow_like in Hp.
  destruct (forallb (fun l => memb l (aletters R x)) (aletters R y)) eqn:Hsub; [|discriminate].
  unfold cast_to in Hp.
  destruct (cast_values_to R rO rI radd rmul y (adims x)) as [vc|] eqn:Ec; [|discriminate]. cbn [bind] in Hp.
  destruct (construct R (adims x) vc) as [yc|] eqn:Eyc; [|discriminate]. cbn [bind] in Hp.
  destruct (construct_ok_gen R _ _ _ Eyc) as (Hdyc & Hvyc & Hsyc).
  destruct (construct_ok_gen R _ _ _ Hp) as (Hdr & Hvr & _). cbn [dat] in Hvr.
  split; [exact Hdr|].
  assert (Hidx : Forall2 lt (map (lookup e) (aletters R x)) (dshape (adims x))) by (apply (idx_in_range R x e Hnx Hr)).
  destruct (nth_all_idx _ _ Hidx) as [_ Hlt].
  assert (Hwyc : wf yc) by (apply (construct_wf R (adims x) vc yc Hnx Eyc)).
  destruct Hwyc as [_ Hlyc]. rewrite Hdyc in Hlyc.
  unfold ArrayLemmas.den at 1. unfold Einsum.den_nd, a_nd, aletters. cbn [shp dat]. rewrite Hdr, Hvr. unfold ND.get.
  rewrite (nth_map2 p (avals x) (avals yc) _ rO rO rO) by (rewrite ?Hlx, ?Hlyc; exact Hlt).
  f_equal.
  (* the cast operand, read under the same labels *)
  assert (Hden : den_nd R rO (letters (adims x)) vc e = den y e).
  { refine (proj1 (cast_values_to_den R rO rI radd rmul rsub ropp Rth y (adims x) vc e Hwy Hnx Ec _ Hcomp)).
    intros d Hd. pose proof (Hr (dletter d)) as H. unfold ArrayLemmas.lsizes, aletters in H.
    rewrite (lookup_lsizes (adims x) d Hnx Hd) in H. apply H. unfold letters. apply in_map. exact Hd. }
  rewrite <- Hden. unfold Einsum.den_nd, ND.get. rewrite Hvyc, Hsyc. reflexivity.
Qed.

End P.
