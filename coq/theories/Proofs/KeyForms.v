(* C06: bare-item and tuple keys are turned into dict keys: an item names the one dimension that holds it. *)
From Coq Require Import List Arith Lia Bool.
Import ListNotations.
From Flodym Require Import Base.ND Base.Env Np.Einsum Np.Index Model.Dims Model.Array Model.SubArray
  Proofs.C14Proofs Proofs.C01Proofs Proofs.HandlerProofs.
Local Open Scope nat_scope.

(* [d] is the only dimension of [ds] holding the item *)
Definition only_in (ds : dimset) (it : nat) (d : dim) : Prop :=
  In d ds /\ In it (ditems d) /\ forall d', In d' ds -> In it (ditems d') -> d' = d.

Lemma key_of_item_unique ds it d : NoDup (letters ds) -> only_in ds it d -> key_of_item ds it = Ok (dletter d).
Proof.
  intros Hn (Hin & Hit & Hu). unfold key_of_item.
  destruct (in_split_nodup ds d Hn Hin) as (ds1 & ds2 & -> & H1 & H2).
  assert (G : forall sub, (forall x, In x sub -> In x (ds1 ++ d :: ds2)) -> ~ In (dletter d) (letters sub) ->
              filter (fun d0 => memb it (ditems d0)) sub = []).
  { intros sub Hs Hl. apply (proj2 (filter_nil_iff_gen _ _)). intros x Hx.
    destruct (memb it (ditems x)) eqn:Em; [|reflexivity]. apply memb_In in Em.
    assert (x = d) by (apply Hu; [apply Hs; exact Hx | exact Em]). subst x.
    exfalso. apply Hl. unfold letters. apply in_map. exact Hx. }
  rewrite filter_app. simpl.
  rewrite (G ds1) by (auto; intros x Hx; apply in_or_app; left; exact Hx).
  rewrite (G ds2) by (auto; intros x Hx; apply in_or_app; right; right; exact Hx).
  replace (memb it (ditems d)) with true by (symmetry; apply memb_In; exact Hit). reflexivity.
Qed.

(* a bare item is the dict key {its dimension: the item} *)
Theorem bare_key_is_dict ds it d : NoDup (letters ds) -> only_in ds it d ->
  mk_handler_of ds (KBare it) = mk_handler_of ds (KDict [(KLetter (dletter d), ISingle it)]).
Proof.
  intros Hn Ho. unfold mk_handler_of, mk_handler_of_v. cbn [def_dict].
  rewrite (key_of_item_unique ds it d Hn Ho). reflexivity.
Qed.

(* a tuple of items from pairwise different dimensions is the dict key with one single-item entry per item *)
Lemma add_item_fresh acc l it : ~ In l (map fst acc) -> add_item acc l it = acc ++ [(l, [it])].
Proof.
  induction acc as [|[k v] acc IH]; simpl; intros H; auto.
  destruct (Nat.eqb_spec k l) as [E|_]; [exfalso; apply H; left; exact E|]. f_equal. apply IH. tauto.
Qed.

Lemma to_dict_tuple_distinct ds : NoDup (letters ds) -> forall its dsel acc,
  Forall2 (only_in ds) its dsel -> NoDup (map fst acc ++ letters dsel) ->
  to_dict_tuple ds its acc = Ok (acc ++ map (fun p => (dletter (snd p), [fst p])) (combine its dsel)).
Proof.
  intros Hn its dsel acc H. revert acc. induction H as [|it d its dsel Ho H IH]; intros acc Hnd; simpl.
  - rewrite app_nil_r. reflexivity.
  - rewrite (key_of_item_unique ds it d Hn Ho). cbn [bind].
    assert (Hfresh : ~ In (dletter d) (map fst acc)).
    { intros Hc. apply NoDup_remove_2 in Hnd. apply Hnd. apply in_or_app. left. exact Hc. }
    rewrite add_item_fresh by exact Hfresh. rewrite IH.
    + rewrite <- app_assoc. reflexivity.
    + rewrite map_app. simpl. rewrite <- app_assoc. simpl.
      (* move the letter of d from the head of the second part to the end of the first *)
      apply NoDup_remove_1 in Hnd as Hnd1. apply NoDup_remove_2 in Hnd as Hnd2.
      clear -Hnd1 Hnd2. induction (map fst acc) as [|a l IHl]; simpl in *.
      * constructor; auto.
      * inversion Hnd1 as [|? ? Ha Hl]; subst. constructor.
        -- intros Hc. apply in_app_or in Hc. destruct Hc as [Hc|[Hc|Hc]].
           ++ apply Ha. apply in_or_app. left. exact Hc.
           ++ apply Hnd2. left. symmetry. exact Hc.
           ++ apply Ha. apply in_or_app. right. exact Hc.
        -- apply IHl; auto.
Qed.

Theorem tuple_key_is_dict ds its dsel : NoDup (letters ds) ->
  Forall2 (only_in ds) its dsel -> NoDup (letters dsel) ->
  mk_handler_of ds (KTuple its)
  = mk_handler_of ds (KDict (map (fun p => (KLetter (dletter (snd p)), ISingle (fst p))) (combine its dsel))).
Proof.
  intros Hn H Hd. unfold mk_handler_of, mk_handler_of_v. cbn [def_dict].
  rewrite (to_dict_tuple_distinct ds Hn its dsel [] H) by exact Hd. cbn [bind app].
  rewrite map_map. reflexivity.
Qed.

Section G.
Variable R : Type.
Variables (rO rI : R) (radd rmul : R -> R -> R).

Corollary getitem_bare_is_dict (a : farr R) it d : NoDup (aletters R a) -> only_in (adims a) it d ->
  getitem R rO a (KBare it) = getitem R rO a (KDict [(KLetter (dletter d), ISingle it)]).
Proof.
  intros Hn Ho. unfold getitem, getitem_v.
  pose proof (bare_key_is_dict (adims a) it d Hn Ho) as E. unfold mk_handler_of in E. rewrite E. reflexivity.
Qed.

Corollary getitem_tuple_is_dict (a : farr R) its dsel : NoDup (aletters R a) ->
  Forall2 (only_in (adims a)) its dsel -> NoDup (letters dsel) ->
  getitem R rO a (KTuple its)
  = getitem R rO a (KDict (map (fun p => (KLetter (dletter (snd p)), ISingle (fst p))) (combine its dsel))).
Proof.
  intros Hn H Hd. unfold getitem, getitem_v.
  pose proof (tuple_key_is_dict (adims a) its dsel Hn H Hd) as E. unfold mk_handler_of in E. rewrite E. reflexivity.
Qed.

Corollary setitem_bare_is_dict (a y : farr R) it d : NoDup (aletters R a) -> only_in (adims a) it d ->
  setitem R rO rI radd rmul a (KBare it) (RArr R y) = setitem R rO rI radd rmul a (KDict [(KLetter (dletter d), ISingle it)]) (RArr R y).
Proof. intros Hn Ho. unfold setitem. rewrite (bare_key_is_dict (adims a) it d Hn Ho). reflexivity. Qed.

Corollary setitem_tuple_is_dict (a y : farr R) its dsel : NoDup (aletters R a) ->
  Forall2 (only_in (adims a)) its dsel -> NoDup (letters dsel) ->
  setitem R rO rI radd rmul a (KTuple its) (RArr R y)
  = setitem R rO rI radd rmul a (KDict (map (fun p => (KLetter (dletter (snd p)), ISingle (fst p))) (combine its dsel))) (RArr R y).
Proof. intros Hn H Hd. unfold setitem. rewrite (tuple_key_is_dict (adims a) its dsel Hn H Hd). reflexivity. Qed.
End G.
