(* C04 for slice reads: reading with a dict key does not depend on the order in which the source stores its
   dimensions — the same entries come back under the same labels, the result's dimensions being those of the
   source (in ITS order) with single-item selections dropped and subsets replaced. *)
From Coq Require Import List Arith Lia Bool Permutation.
Import ListNotations.
From Flodym Require Import Base.ND Base.Env Np.Einsum Np.Index Model.Dims Model.Array Model.SubArray
  Proofs.ArrayLemmas Proofs.C14Proofs Proofs.C04Proofs Proofs.CumsumProofs Proofs.OrthoIndex Proofs.HandlerProofs Proofs.GetitemSpec.
Local Open Scope nat_scope.

Lemma wf_dict_perm ds ds' f kvs : Permutation ds ds' -> wf_dict ds f kvs -> wf_dict ds' f kvs.
Proof.
  intros HP Hw. induction Hw as [f|f d v r Hin Hnone Hval Hfr Hw IH]; [constructor|].
  assert (Hl : forall l, In l (letters ds) <-> In l (letters ds')).
  { intros l. unfold letters. split; apply Permutation_in; [apply Permutation_map; exact HP | apply Permutation_map; symmetry; exact HP]. }
  constructor; auto.
  - eapply Permutation_in; eauto.
  - intros sd E. destruct (Hfr sd E) as [H1 H2]. split.
    + intros Hc. apply H1. apply Hl. exact Hc.
    + intros d' sd' Hd'. apply H2. eapply Permutation_in; [symmetry; exact HP | exact Hd'].
Qed.

Lemma no_lists_perm F ds ds' : Permutation ds ds' -> no_lists F ds -> no_lists F ds'.
Proof. intros HP H d its Hd. apply H. eapply Permutation_in; [symmetry; exact HP | exact Hd]. Qed.

Lemma lookup_src_env_at F ds e d : NoDup (letters ds) -> In d ds -> lookup (src_env F ds e) (dletter d) = src_idx F e d.
Proof.
  intros Hn Hin. unfold src_env. induction ds as [|d0 ds IH]; [contradiction|]. simpl.
  inversion Hn as [|? ? Hne Hn']; subst. destruct Hin as [->|Hin].
  - rewrite Nat.eqb_refl. reflexivity.
  - destruct (Nat.eqb_spec (dletter d0) (dletter d)) as [E|_]; [|apply IH; auto].
    exfalso. apply Hne. rewrite E. unfold letters. apply in_map. exact Hin.
Qed.

Lemma flat_map_perm {A B} (f : A -> list B) l l' : Permutation l l' -> Permutation (flat_map f l) (flat_map f l').
Proof.
  induction 1; simpl; auto.
  - apply Permutation_app_head. assumption.
  - rewrite !app_assoc. apply Permutation_app_tail. apply Permutation_app_comm.
  - etransitivity; eauto.
Qed.

Section G.
Variable R : Type.
Variable rO : R.
Notation farr := (farr R).
Notation den := (den R rO).
Notation wf := (wf R).

(* the source index chosen for a dimension lies within it *)
Lemma src_idx_lt F ds e d : valid_asg F ds -> no_lists F ds -> In d ds ->
  (forall d', In d' (flat_map (out_for F) ds) -> lookup e (dletter d') < dlen d') ->
  src_idx F e d < dlen d.
Proof.
  intros Hv Hnl Hin He. pose proof (Hv d) as Hvd. pose proof (Hnl d) as Hnld.
  assert (Hout : forall x, In x (out_for F d) -> lookup e (dletter x) < dlen x).
  { intros x Hx. apply He. apply in_flat_map. exists d. split; auto. }
  unfold src_idx. unfold out_for in Hout. destruct (F (dletter d)) as [[it|sd|its]|] eqn:E.
  - specialize (Hvd _ Hin eq_refl). simpl in Hvd. destruct (index_of_in it (ditems d) Hvd) as [j Ej]. rewrite Ej. apply (index_of_lt _ _ _ Ej).
  - specialize (Hvd _ Hin eq_refl). simpl in Hvd. specialize (Hout sd (or_introl eq_refl)).
    pose proof (ids_of_lt d (ditems sd) Hvd) as Hall. rewrite forallb_forall in Hall.
    apply Nat.ltb_lt. apply Hall. apply nth_In. unfold ids_of. rewrite map_length. exact Hout.
  - exfalso. apply (Hnld its Hin). reflexivity.
  - apply Hout. left. reflexivity.
Qed.

Theorem getitem_congr (a a' r r' : farr) kvs e :
  wf a -> wf a' -> same_arr R rO a a' ->
  wf_dict (adims a) no_asg kvs ->
  existsb (fun p => match snd p with IList _ => true | _ => false end) kvs = false ->
  no_lists (asg_of no_asg kvs) (adims a) ->
  getitem R rO a (KDict kvs) = Ok r -> getitem R rO a' (KDict kvs) = Ok r' ->
  (forall d, In d (adims r) -> lookup e (dletter d) < dlen d) ->
  den r e = den r' e /\ Permutation (adims r) (adims r').
Proof.
  intros Hwa Hwa' [HP Hsame] Hw Hinv Hnl Hg Hg' He.
  pose proof Hwa as [Hn _]. pose proof Hwa' as [Hn' _].
  set (F := asg_of no_asg kvs) in *.
  destruct (getitem_dict_spec R rO a kvs Hwa Hw Hinv Hnl) as (r1 & G1 & D1 & S1).
  destruct (getitem_dict_spec R rO a' kvs Hwa' (wf_dict_perm _ _ _ _ HP Hw) Hinv (no_lists_perm _ _ _ HP Hnl)) as (r2 & G2 & D2 & S2).
  rewrite Hg in G1. injection G1 as <-. rewrite Hg' in G2. injection G2 as <-. fold F in D1, D2, S1, S2.
  assert (HPr : Permutation (adims r) (adims r')) by (rewrite D1, D2; apply flat_map_perm; exact HP).
  split; [|exact HPr].
  rewrite (S1 e He).
  rewrite (S2 e) by (intros d Hd; apply He; eapply Permutation_in; [symmetry; exact HPr | exact Hd]).
  assert (Hval : valid_asg F (adims a)) by (apply valid_asg_of; auto; intros d v _ E; discriminate).
  rewrite D1 in He.
  (* a and a' agree on the source environment; the environments built along ds and ds' give the same labels *)
  rewrite Hsame.
  - apply den_ext. intros l Hl. unfold aletters, letters in Hl. apply in_map_iff in Hl. destruct Hl as (d & <- & Hd).
    rewrite (lookup_src_env_at F (adims a') e d Hn' Hd).
    rewrite (lookup_src_env_at F (adims a) e d Hn); [reflexivity|]. eapply Permutation_in; [symmetry; exact HP | exact Hd].
  - intros l Hl. unfold aletters, letters in Hl. apply in_map_iff in Hl. destruct Hl as (d & <- & Hd).
    rewrite (lookup_src_env_at F (adims a) e d Hn Hd).
    unfold ArrayLemmas.lsizes, aletters. rewrite (lookup_lsizes (adims a) d Hn Hd).
    apply (src_idx_lt F (adims a) e d Hval Hnl Hd He).
Qed.

End G.
