(* C05 core: writing through the index tuple SubArrayHandler builds.  With a right-hand side of exactly
   the region's shape, the entry at every addressed position becomes the right-hand side's entry for that
   position, every other entry keeps its value. *)
From Coq Require Import List Arith Lia Bool.
Import ListNotations.
From Flodym Require Import Base.ND Base.Env Np.Einsum Np.Index Model.Dims Model.Array Model.SubArray
  Proofs.IndexProofs Proofs.OrthoIndex.
Local Open Scope nat_scope.

Lemma NoDup_map_inj_in {A B} (f : A -> B) l :
  (forall x y, In x l -> In y l -> f x = f y -> x = y) -> NoDup l -> NoDup (map f l).
Proof.
  intros Hinj Hn. induction Hn as [|a l Ha Hn IH]; simpl; constructor.
  - intros Hin. apply in_map_iff in Hin. destruct Hin as (y & E & Hy).
    assert (y = a) by (apply Hinj; [right; exact Hy | left; reflexivity | exact E]). subst. contradiction.
  - apply IH. intros x y Hx Hy. apply Hinj; right; assumption.
Qed.

Section S.
Variable R : Type.
Variable rO : R.

Lemma nth_upd_same (l : list R) k v d : k < length l -> nth k (upd R l k v) d = v.
Proof. revert k. induction l as [|a l IH]; intros [|k] H; simpl in *; try lia; auto. apply IH. lia. Qed.

Lemma fold_upd_hit {A} (pos : A -> nat) (val : A -> R) l : forall v x d,
  NoDup (map pos l) -> In x l -> pos x < length v ->
  nth (pos x) (fold_left (fun acc y => upd R acc (pos y) (val y)) l v) d = val x.
Proof.
  induction l as [|y l IH]; intros v x d Hn Hin Hlt; [contradiction|].
  simpl in Hn. inversion Hn as [|? ? Hy Hn']; subst. simpl. destruct Hin as [->|Hin].
  - rewrite (fold_upd_frame R pos val l (upd R v (pos x) (val x)) (pos x) d).
    + apply nth_upd_same. exact Hlt.
    + intros z Hz E. apply Hy. rewrite <- E. apply in_map. exact Hz.
  - apply IH; auto. rewrite upd_length. exact Hlt.
Qed.

(* broadcasting a shape with itself *)
Lemma bcast_rev_self a : bcast_rev a a = Some a.
Proof. induction a as [|x a IH]; simpl; auto. rewrite IH, Nat.eqb_refl. reflexivity. Qed.

Lemma bcast_to_self sh : bcast_to sh sh = true.
Proof.
  unfold bcast_to, bcast. rewrite bcast_rev_self. simpl. rewrite rev_involutive.
  destruct (list_eq_dec Nat.eq_dec sh sh); [reflexivity | contradiction].
Qed.

Lemma strip_ones_same sh : strip_ones sh (length sh) = sh.
Proof. destruct sh as [|x sh]; simpl; auto. destruct x as [|[|x]]; auto. rewrite Nat.ltb_irrefl. reflexivity. Qed.

Lemma rhs_at_exact sh (dat : list R) idx : Forall2 lt idx sh -> rhs_at R rO sh dat idx = get rO sh dat idx.
Proof.
  intros H. unfold rhs_at. rewrite (Forall2_len _ _ _ H), Nat.sub_diag. simpl skipn. f_equal.
  induction H as [|i n idx sh Hi H IH]; simpl; auto. rewrite IH. f_equal.
  destruct (Nat.eqb_spec n 1); [lia | reflexivity].
Qed.

(* lists of distinct indices: different output indices address different source positions *)
Definition raw_nodup (r : rawid) : Prop := match r with RList is => NoDup is | _ => True end.

Lemma pull_inj raw : forall sh idx1 idx2,
  length raw = length sh -> Forall raw_nodup raw ->
  Forall2 lt idx1 (out_shape raw sh) -> Forall2 lt idx2 (out_shape raw sh) ->
  pull raw idx1 = pull raw idx2 -> idx1 = idx2.
Proof.
  induction raw as [|r raw IH]; intros [|m sh] idx1 idx2 Hl Hn H1 H2 E; simpl in *; try discriminate.
  - inversion H1; inversion H2; reflexivity.
  - inversion Hn as [|? ? Hr Hn']; subst. destruct r as [|i|is]; simpl in *.
    + inversion H1 as [|a1 ? r1 ? Ha1 Hr1]; subst. inversion H2 as [|a2 ? r2 ? Ha2 Hr2]; subst.
      injection E as -> E. f_equal. apply (IH sh); auto.
    + injection E as E. apply (IH sh); auto.
    + inversion H1 as [|a1 ? r1 ? Ha1 Hr1]; subst. inversion H2 as [|a2 ? r2 ? Ha2 Hr2]; subst.
      injection E as E0 E. f_equal; [|apply (IH sh); auto].
      apply (proj1 (NoDup_nth is 0) Hr); auto.
Qed.

Lemma pull_in_range raw : forall sh idx,
  length raw = length sh -> Forall2 (fun r m => raw_ok r m = true) raw sh ->
  Forall2 lt idx (out_shape raw sh) -> Forall2 lt (pull raw idx) sh.
Proof.
  induction raw as [|r raw IH]; intros [|m sh] idx Hl Hok Hi; simpl in *; try discriminate; [constructor|].
  inversion Hok as [|? ? ? ? Hr Hok']; subst. destruct r as [|i|is]; simpl in *.
  - inversion Hi; subst. constructor; auto.
  - constructor; [apply Nat.ltb_lt; exact Hr | apply IH; auto].
  - inversion Hi as [|a ? rest ? Ha Hrest]; subst. constructor; [|apply IH; auto].
    rewrite forallb_forall in Hr. apply Nat.ltb_lt. apply Hr. apply nth_In. exact Ha.
Qed.

Lemma ravel_inj sh i1 i2 : Forall2 lt i1 sh -> Forall2 lt i2 sh -> ravel sh i1 = ravel sh i2 -> i1 = i2.
Proof.
  intros H1 H2 E. destruct (nth_all_idx sh i1 H1) as [E1 _]. destruct (nth_all_idx sh i2 H2) as [E2 _].
  rewrite <- E1, <- E2, E. reflexivity.
Qed.

(* general form: whatever numpy makes of the right-hand side by broadcasting, described by [val] *)
Theorem setindex_orthogonal_gen (a rhs : nd R) raw (val : list nat -> R) :
  length raw = length (shp a) -> Forall2 (fun r m => raw_ok r m = true) raw (shp a) -> Forall raw_nodup raw ->
  length (dat a) = size (shp a) ->
  (let osh := out_shape raw (shp a) in
   let rsh := match osh with [] => shp rhs | _ => strip_ones (shp rhs) (length osh) end in
   bcast_to rsh osh = true /\ forall idx, Forall2 lt idx osh -> rhs_at R rO rsh (dat rhs) idx = val idx) ->
  exists w, setindex R rO a (to_sels raw (shp a)) rhs = Ok w /\ shp w = shp a /\ length (dat w) = length (dat a)
    /\ (forall idx, Forall2 lt idx (out_shape raw (shp a)) -> get rO (shp a) (dat w) (pull raw idx) = val idx)
    /\ (forall src, Forall2 lt src (shp a) ->
          (forall idx, Forall2 lt idx (out_shape raw (shp a)) -> pull raw idx <> src) ->
          get rO (shp a) (dat w) src = get rO (shp a) (dat a) src).
Proof.
  intros Hl Hok Hnd Hla Hrhs.
  destruct (to_sels_orthogonal raw (shp a) Hl Hok) as (p & Hp & Ho & Hs).
  cbv zeta in Hrhs. rewrite <- Ho in Hrhs. destruct Hrhs as [Hb Hval].
  unfold setindex. rewrite Hp. cbv zeta. rewrite Hb.
  eexists. split; [reflexivity|]. cbn [shp dat].
  split; [reflexivity|]. split; [apply fold_upd_length|].
  set (rsh := match p_osh p with [] => shp rhs | _ :: _ => strip_ones (shp rhs) (length (p_osh p)) end) in *.
  set (pos := fun idx => ravel (shp a) (src_of (to_sels raw (shp a)) p idx)).
  set (vl := fun idx => rhs_at R rO rsh (dat rhs) idx).
  split.
  - intros idx Hidx. unfold get.
    assert (Hin : In idx (all_idx (p_osh p))) by (apply all_idx_in; rewrite Ho; exact Hidx).
    assert (Epos : ravel (shp a) (pull raw idx) = pos idx) by (unfold pos; rewrite Hs by exact Hidx; reflexivity).
    rewrite Epos.
    change (nth (pos idx) (fold_left (fun acc y => upd R acc (pos y) (vl y)) (all_idx (p_osh p)) (dat a)) rO = val idx).
    rewrite (fold_upd_hit pos vl (all_idx (p_osh p)) (dat a) idx rO).
    + unfold vl. apply Hval. rewrite Ho. exact Hidx.
    + apply NoDup_map_inj_in; [|apply all_idx_NoDup].
      intros x y Hx Hy E. apply all_idx_in in Hx, Hy. rewrite Ho in Hx, Hy. unfold pos in E.
      rewrite (Hs x Hx), (Hs y Hy) in E.
      apply (ravel_inj (shp a)) in E; try (apply pull_in_range; auto).
      apply (pull_inj raw (shp a)); auto.
    + exact Hin.
    + unfold pos. rewrite Hs by exact Hidx. rewrite Hla.
      apply (proj2 (nth_all_idx (shp a) _ (pull_in_range raw (shp a) idx Hl Hok Hidx))).
  - intros src Hsrc Hno. unfold get. apply (fold_upd_frame R pos vl).
    intros idx Hin E. apply all_idx_in in Hin. rewrite Ho in Hin. unfold pos in E. rewrite (Hs idx Hin) in E.
    apply (ravel_inj (shp a)) in E; auto; [|apply pull_in_range; auto]. apply (Hno idx Hin). exact E.
Qed.

(* a right-hand side of exactly the region's shape: entry for entry *)
Theorem setindex_orthogonal (a rhs : nd R) raw :
  length raw = length (shp a) -> Forall2 (fun r m => raw_ok r m = true) raw (shp a) -> Forall raw_nodup raw ->
  length (dat a) = size (shp a) ->
  shp rhs = out_shape raw (shp a) ->
  exists w, setindex R rO a (to_sels raw (shp a)) rhs = Ok w /\ shp w = shp a /\ length (dat w) = length (dat a)
    /\ (forall idx, Forall2 lt idx (out_shape raw (shp a)) ->
          get rO (shp a) (dat w) (pull raw idx) = get rO (shp rhs) (dat rhs) idx)
    /\ (forall src, Forall2 lt src (shp a) ->
          (forall idx, Forall2 lt idx (out_shape raw (shp a)) -> pull raw idx <> src) ->
          get rO (shp a) (dat w) src = get rO (shp a) (dat a) src).
Proof.
  intros Hl Hok Hnd Hla Hrs.
  apply (setindex_orthogonal_gen a rhs raw (fun idx => get rO (shp rhs) (dat rhs) idx) Hl Hok Hnd Hla).
  cbv zeta. rewrite <- Hrs.
  assert (E : match shp rhs with [] => shp rhs | _ :: _ => strip_ones (shp rhs) (length (shp rhs)) end = shp rhs).
  { destruct (shp rhs); [reflexivity|]. apply strip_ones_same. }
  rewrite E. split; [apply bcast_to_self|]. intros idx Hidx. apply rhs_at_exact. exact Hidx.
Qed.

(* a number (0-dimensional right-hand side) fills the region *)
Lemma bcast_to_scalar osh : bcast_to [] osh = true.
Proof.
  unfold bcast_to, bcast. simpl. rewrite rev_involutive.
  destruct (list_eq_dec Nat.eq_dec osh osh); [reflexivity | contradiction].
Qed.

Theorem setindex_fill (a : nd R) raw (c : R) :
  length raw = length (shp a) -> Forall2 (fun r m => raw_ok r m = true) raw (shp a) -> Forall raw_nodup raw ->
  length (dat a) = size (shp a) ->
  exists w, setindex R rO a (to_sels raw (shp a)) (mk_nd [] [c]) = Ok w /\ shp w = shp a /\ length (dat w) = length (dat a)
    /\ (forall idx, Forall2 lt idx (out_shape raw (shp a)) -> get rO (shp a) (dat w) (pull raw idx) = c)
    /\ (forall src, Forall2 lt src (shp a) ->
          (forall idx, Forall2 lt idx (out_shape raw (shp a)) -> pull raw idx <> src) ->
          get rO (shp a) (dat w) src = get rO (shp a) (dat a) src).
Proof.
  intros Hl Hok Hnd Hla.
  apply (setindex_orthogonal_gen a (mk_nd [] [c]) raw (fun _ => c) Hl Hok Hnd Hla).
  cbv zeta. cbn [shp dat].
  assert (E : match out_shape raw (shp a) with [] => [] | _ :: _ => strip_ones [] (length (out_shape raw (shp a))) end = @nil nat).
  { destruct (out_shape raw (shp a)); reflexivity. }
  rewrite E. split; [apply bcast_to_scalar|].
  intros idx _. unfold rhs_at, get. cbn [length map2 ravel nth]. destruct (skipn (length idx - 0) idx); reflexivity.
Qed.

End S.
