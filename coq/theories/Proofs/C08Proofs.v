(* C08: (1) the Gauss-Lobatto tables in flodym/gauss_lobatto.py (regenerated from source into
   Gen/SourceFacts.v) are what they claim to be — checked over the complete finite domain n = 2..10
   by computation; (2) structure of the survival table over the reals: zero above the diagonal,
   a weighted average of the distribution's survival function at the documented ages, hence in [0,1]
   and never increasing with age; (3) the log-normal parameter transform matches mean and std. *)
From Coq Require Import List Arith Lia Bool ZArith QArith Qabs Reals Lra.
Import ListNotations.
From Flodym Require Import Base.ND Model.Stocks Model.Lifetime.
From Flodym Require Gen.SourceFacts.

(* ---------- (1) the quadrature tables ---------- *)
Local Open Scope Q_scope.

Definition tol_sym : Q := 1 # 1125899906842624.          (* 2^-50 *)
Definition tol_exact : Q := 1 # 100000000000000.         (* 1e-14 *)

Definition Qlt_bool (a b : Q) : bool := negb (Qle_bool b a).
Definition qsum (l : list Q) : Q := fold_right Qplus 0 l.
Fixpoint increasing (l : list Q) : bool :=
  match l with a :: ((b :: _) as r) => Qlt_bool a b && increasing r | _ => true end.
Definition close (a b tol : Q) : bool := Qle_bool (Qabs (a - b)) tol.

(* integral of x^k over [-1,1] *)
Definition moment (k : nat) : Q := if Nat.even k then 2 # (Pos.of_nat (S k)) else 0.

Definition rule_ok (n : nat) : bool :=
  let x := lookup_tab SourceFacts.gl_nodes_src n in
  let w := lookup_tab SourceFacts.gl_weights_src n in
  Nat.eqb (length x) n && Nat.eqb (length w) n
  && Qeq_bool (hd 0 x) (-1 # 1) && Qeq_bool (last x 0) 1
  && increasing x
  && forallb (fun p => close (fst p) (- snd p) tol_sym) (combine x (rev x))      (* antisymmetric nodes *)
  && forallb (fun p => close (fst p) (snd p) tol_sym) (combine w (rev w))        (* symmetric weights *)
  && forallb (fun wi => Qlt_bool 0 wi) w                                 (* positive weights *)
  && close (qsum w) 2 tol_sym
  (* exactness for all polynomials of degree <= 2n-3: this characterises the n-point Gauss-Lobatto rule *)
  && forallb (fun k => close (qsum (map (fun p => snd p * Qpower (fst p) (Z.of_nat k)) (combine x w))) (moment k) tol_exact)
             (seq 0 (2 * n - 2)).

Theorem gl_tables_ok : forallb rule_ok (seq 2 9) = true.      (* n = 2 .. 10, the complete table *)
Proof. vm_compute. reflexivity. Qed.

(* mapped to [0,1]: nodes (x+1)/2 in [0,1], weights w/2 sum to 1 (within 2^-50) *)
Definition mapped_ok (n : nat) : bool :=
  match quad_points_Q n AtMiddle with
  | None => false
  | Some qd => forallb (fun p => Qle_bool 0 (fst p) && Qle_bool (fst p) 1 && Qle_bool 0 (snd p)) qd
               && close (qsum (map snd qd)) 1 tol_sym && Nat.eqb (length qd) n
  end.
Theorem gl_mapped_ok : forallb mapped_ok (seq 2 9) = true.
Proof. vm_compute. reflexivity. Qed.

(* n = 1: the inflow instant is the start, the middle or the end of the interval; n = 11 is refused *)
Theorem quad_single_point :
  quad_points_Q 1 AtStart = Some [(0, 1)] /\ quad_points_Q 1 AtMiddle = Some [(1 # 2, 1)]
  /\ quad_points_Q 1 AtEnd = Some [(1, 1)] /\ quad_points_Q 11 AtMiddle = None.
Proof. vm_compute. repeat split; reflexivity. Qed.

Local Close Scope Q_scope.

(* ---------- (2) structure of the survival table, over the reals ---------- *)
Local Open Scope R_scope.

Section SF.
Variable P : Type.
Variable S : R -> P -> R.                       (* the distribution's survival function *)
Notation sf_entry := (sf_entry R 0 1 Rplus Rmult Rminus P S).
Notation age := (age R 0 1 Rplus Rmult Rminus).

Lemma sumR_nonneg (l : list R) : Forall (fun x => 0 <= x) l -> 0 <= sum 0 Rplus l.
Proof. induction 1; simpl; lra. Qed.

Theorem sf_upper_zero b quad prm t c : (t < c)%nat -> sf_entry b quad prm t c = 0.
Proof. intros H. unfold Lifetime.sf_entry. apply Nat.ltb_lt in H. rewrite H. reflexivity. Qed.

(* every entry on or below the diagonal is the quadrature average of S at the ages from the inflow
   instants (eta inside the cohort's interval) to the END of year t, with the cohort's parameters *)
Theorem sf_entry_spec b quad prm t c : (c <= t)%nat ->
  sf_entry b quad prm t c = sum 0 Rplus (map (fun ew => snd ew * S (age b t c (fst ew)) (prm c)) quad).
Proof. intros H. unfold Lifetime.sf_entry. destruct (Nat.ltb_spec t c); [lia | reflexivity]. Qed.

Theorem sf_range b quad prm t c :
  (forall a p, 0 <= S a p <= 1) -> Forall (fun ew => 0 <= snd ew) quad ->
  0 <= sf_entry b quad prm t c <= sum 0 Rplus (map snd quad).
Proof.
  intros HS Hw. unfold Lifetime.sf_entry. destruct (Nat.ltb t c).
  - split; [lra|]. apply sumR_nonneg. apply Forall_map. exact Hw.
  - induction Hw as [|ew q Hew Hq IH]; simpl; [lra|].
    pose proof (HS (age b t c (fst ew)) (prm c)). nra.
Qed.

(* never increasing with age: S antitone in the age and interval bounds increasing *)
Theorem sf_antitone b quad prm t c :
  (forall a a' p, a <= a' -> S a' p <= S a p) -> Forall (fun ew => 0 <= snd ew) quad ->
  (c <= t)%nat -> nthF R 0 b (Datatypes.S t) <= nthF R 0 b (Datatypes.S (Datatypes.S t)) ->
  sf_entry b quad prm (Datatypes.S t) c <= sf_entry b quad prm t c.
Proof.
  intros HS Hw Hct Hb. rewrite !sf_entry_spec by lia.
  induction Hw as [|ew q Hew Hq IH]; simpl; [lra|].
  assert (Hage : age b t c (fst ew) <= age b (Datatypes.S t) c (fst ew)).
  { unfold Lifetime.age. lra. }
  pose proof (HS _ _ (prm c) Hage). nra.
Qed.
End SF.

(* ---------- (3) log-normal: the code's parameters are the distribution's own mean and std ---------- *)
Lemma exp_half x : exp (x / 2) = sqrt (exp x).
Proof.
  symmetry. apply sqrt_lem_1; [left; apply exp_pos | left; apply exp_pos |].
  rewrite <- exp_plus. f_equal. lra.
Qed.

Theorem lognormal_moments m s : 0 < m -> 0 < s ->
  let mu := ln (m*m / sqrt (m*m + s*s)) in let sg := sqrt (ln (1 + s*s/(m*m))) in
  exp (mu + sg*sg/2) = m /\ (exp (sg*sg) - 1) * exp (2*mu + sg*sg) = s*s.
Proof.
  intros Hm Hs mu sg.
  assert (Hmm : 0 < m*m) by nra. assert (Hss : 0 < s*s) by nra.
  assert (Hq : 0 < m*m + s*s) by lra.
  assert (Hsq : 0 < sqrt (m*m + s*s)) by (apply sqrt_lt_R0; lra).
  assert (Hr : 0 < s*s/(m*m)) by (apply Rdiv_lt_0_compat; lra).
  assert (Hln : 0 <= ln (1 + s*s/(m*m))). { rewrite <- ln_1. left. apply ln_increasing; lra. }
  assert (Esg : sg*sg = ln (1 + s*s/(m*m))) by (unfold sg; apply sqrt_sqrt; exact Hln).
  assert (Eexpsg : exp (sg*sg) = 1 + s*s/(m*m)) by (rewrite Esg; apply exp_ln; lra).
  assert (Emu : exp mu = m*m / sqrt (m*m + s*s)).
  { unfold mu. apply exp_ln. apply Rdiv_lt_0_compat; lra. }
  assert (E1 : 1 + s*s/(m*m) = (m*m + s*s)/(m*m)) by (field; lra).
  assert (Ess : sqrt (m*m+s*s) * sqrt (m*m+s*s) = m*m+s*s) by (apply sqrt_sqrt; lra).
  split.
  - rewrite exp_plus, exp_half, Emu, Eexpsg, E1.
    rewrite sqrt_div_alt by lra. rewrite (sqrt_square m) by lra. field. split; lra.
  - replace (2*mu + sg*sg) with (mu + mu + sg*sg) by lra. rewrite !exp_plus, Emu, Eexpsg.
    replace (1 + s*s/(m*m) - 1) with (s*s/(m*m)) by lra.
    rewrite E1.
    replace (s * s / (m * m) * (m * m / sqrt (m * m + s * s) * (m * m / sqrt (m * m + s * s)) * ((m * m + s * s) / (m * m))))
      with (s*s * (m*m + s*s) / (sqrt (m*m+s*s) * sqrt (m*m+s*s))) by (field; split; lra).
    rewrite Ess. field. lra.
Qed.
