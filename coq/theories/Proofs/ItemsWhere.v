(* C06, last sentence: items_where reports entries under their true labels -- exactly the label tuples of the entries that meet the
   condition, each once, in row-major order of the array (stated for the condition "negative", the one the correspondence runs;
   the proof does not look at the condition). *)
From Coq Require Import List Arith Bool QArith Qcanon.
Import ListNotations.
From Flodym Require Import Base.ND Model.Dims Model.Array Model.Instances Corr.Indexing.

Definition labels_at (a : fQ) (idx : list nat) : list nat := map2 (fun d i => nth i (ditems d) 0%nat) (adims a) idx.
Definition is_neg (a : fQ) (idx : list nat) : bool := negb (Qc_leb QO (get QO (dshape (adims a)) (avals a) idx)).

Theorem items_where_spec (a : fQ) labs :
  In labs (items_where_neg a) <->
  exists idx, Forall2 lt idx (dshape (adims a)) /\ labs = labels_at a idx /\ is_neg a idx = true.
Proof.
  unfold items_where_neg. rewrite in_map_iff. split.
  - intros (idx & E & Hin). apply filter_In in Hin. destruct Hin as [Hin Hc]. apply all_idx_in in Hin.
    exists idx. repeat split; auto.
  - intros (idx & Hr & E & Hc). exists idx. split; [symmetry; exact E|]. apply filter_In. split; [apply all_idx_in; exact Hr | exact Hc].
Qed.

(* one report per entry, in row-major order: the reported list is the list of all index tuples, filtered, under their labels *)
Theorem items_where_is_the_filtered_index_list (a : fQ) :
  items_where_neg a = map (labels_at a) (filter (is_neg a) (all_idx (dshape (adims a))))
  /\ NoDup (filter (is_neg a) (all_idx (dshape (adims a)))).
Proof. split; [reflexivity|]. apply NoDup_filter. apply all_idx_NoDup. Qed.
