(* C05 / C06 on the numpy index model and the SubArrayHandler model: pointwise characterisation of
   reads, the frame property of writes (nothing outside the addressed positions changes), dims and
   size preserved by assignment, refusals of malformed keys. *)
From Coq Require Import List Arith Lia Bool.
Import ListNotations.
From Flodym Require Import Base.ND Base.Env Np.Einsum Np.Index Model.Dims Model.Array Model.SubArray.
Local Open Scope nat_scope.

Section I.
Variable R : Type.
Variable rO : R.

(* reads: every entry of a[sels] is the entry of a at the source index the numpy rule assigns *)
Theorem index_get (a : nd R) sels p idx :
  mk_plan_of sels (shp a) = Some p -> Forall2 lt idx (p_osh p) ->
  exists r, index R rO a sels = Ok r /\ shp r = p_osh p
            /\ get rO (shp r) (dat r) idx = get rO (shp a) (dat a) (src_of sels p idx).
Proof.
  intros Hp Hi. unfold index. rewrite Hp. eexists. split; [reflexivity|]. split; [reflexivity|].
  simpl. rewrite (get_tab R rO (p_osh p) _ idx Hi). reflexivity.
Qed.

Lemma upd_length (l : list R) k v : length (upd R l k v) = length l.
Proof. revert k. induction l as [|a l IH]; intros [|k]; simpl; auto. Qed.

Lemma nth_upd_other (l : list R) k j v d : j <> k -> nth j (upd R l k v) d = nth j l d.
Proof. revert k j. induction l as [|a l IH]; intros [|k] [|j] H; simpl; auto; try congruence. Qed.

Lemma fold_upd_frame {A} (pos : A -> nat) (val : A -> R) (l : list A) (v : list R) j d :
  (forall x, In x l -> pos x <> j) ->
  nth j (fold_left (fun acc x => upd R acc (pos x) (val x)) l v) d = nth j v d.
Proof.
  revert v. induction l as [|x l IH]; intros v H; simpl; auto.
  rewrite IH by (intros; apply H; right; auto). apply nth_upd_other. intros E. apply (H x (or_introl eq_refl)). auto.
Qed.

Lemma fold_upd_length {A} (pos : A -> nat) (val : A -> R) (l : list A) (v : list R) :
  length (fold_left (fun acc x => upd R acc (pos x) (val x)) l v) = length v.
Proof. revert v. induction l as [|x l IH]; intros v; simpl; auto. rewrite IH. apply upd_length. Qed.

(* writes: a[sels] = rhs keeps the shape and the number of entries, and every flat position that is
   not the image of an output index keeps its value *)
Theorem setindex_frame (a : nd R) sels rhs r :
  setindex R rO a sels rhs = Ok r ->
  shp r = shp a /\ length (dat r) = length (dat a)
  /\ forall p, mk_plan_of sels (shp a) = Some p -> forall j d,
       (forall idx, In idx (all_idx (p_osh p)) -> ravel (shp a) (src_of sels p idx) <> j) ->
       nth j (dat r) d = nth j (dat a) d.
Proof.
  unfold setindex. destruct (mk_plan_of sels (shp a)) as [p|] eqn:Hp; [|discriminate].
  destruct (bcast_to _ _); [|discriminate]. intros H; injection H as <-. simpl.
  split; [reflexivity|]. split; [apply fold_upd_length|].
  intros p' Hp' j d Hj. injection Hp' as <-. apply fold_upd_frame. exact Hj.
Qed.

End I.

(* ---- flodym level ---- *)
Section F.
Variable R : Type.
Variables (rO rI : R) (radd rmul : R -> R -> R).

(* assignment never changes the target's dimensions or its number of entries *)
Theorem setitem_keeps_dims (a a' : farr R) k r :
  length (avals a) = size (dshape (adims a)) ->
  setitem R rO rI radd rmul a k r = Ok a' -> adims a' = adims a /\ length (avals a') = length (avals a).
Proof.
  intros Hl. unfold setitem. destruct (mk_handler_of (adims a) k) as [h|]; simpl; [|discriminate].
  assert (G : forall v w, setindex R rO (a_nd R a) (h_sels h) v = Ok w ->
              adims (mk_farr (adims a) (dat w)) = adims a /\ length (avals (mk_farr (adims a) (dat w))) = length (avals a)).
  { intros v w Hw. apply setindex_frame in Hw. simpl. destruct Hw as (_ & Hlen & _). split; auto. }
  assert (S : forall rr, set_values R a rr = Ok a' -> adims a' = adims a /\ length (avals a') = length (avals a)).
  { intros rr. unfold set_values. destruct rr as [y|c|v]; [discriminate | |].
    - intros H; injection H as <-. simpl. split; auto. unfold nd_full; simpl. rewrite tab_length. auto.
    - unfold construct. destruct (shape_eqb (shp v) (dshape (adims a)) && Nat.eqb (length (dat v)) (size (shp v))) eqn:E; [|discriminate].
      intros H; injection H as <-. simpl. split; auto. apply andb_true_iff in E. destruct E as [E1 E2].
      apply Nat.eqb_eq in E2. unfold shape_eqb in E1. destruct (list_eq_dec Nat.eq_dec (shp v) (dshape (adims a))); [|discriminate].
      congruence. }
  destruct r as [y|c|v].
  - destruct (sum_values_to R rO rI radd rmul y (letters (h_dims_out h))) as [sv|]; simpl; [|discriminate].
    destruct (setindex R rO (a_nd R a) (h_sels h) sv) eqn:Ew; simpl; [|discriminate].
    intros H; injection H as <-. eapply G; eauto.
  - destruct k; try (destruct (setindex R rO (a_nd R a) (h_sels h) (mk_nd [] [c])) eqn:Ew; simpl; [|discriminate];
                     intros H; injection H as <-; eapply G; eauto).
    apply S.
  - destruct k; try (destruct (setindex R rO (a_nd R a) (h_sels h) v) eqn:Ew; simpl; [|discriminate];
                     intros H; injection H as <-; eapply G; eauto).
    apply S.
Qed.

(* whole-array assignment of an ndarray: accepted only with exactly the target's shape *)
Theorem ellipsis_ndarray_exact_shape (a : farr R) v :
  shp v <> dshape (adims a) -> setitem R rO rI radd rmul a KEllipsis (RNd R v) = Err.
Proof.
  intros H. unfold setitem. destruct (mk_handler_of (adims a) KEllipsis); simpl; auto.
  unfold construct, shape_eqb. destruct (list_eq_dec Nat.eq_dec (shp v) (dshape (adims a))); [contradiction | reflexivity].
Qed.

(* malformed keys *)
Theorem slice_key_refused ds : mk_handler_of ds KSlice = Err.
Proof. reflexivity. Qed.

Theorem unknown_item_refused ds it : (forall d, In d ds -> ~ In it (ditems d)) -> mk_handler_of ds (KBare it) = Err.
Proof.
  intros H. unfold mk_handler_of, mk_handler_of_v. simpl. unfold key_of_item.
  assert (E : filter (fun d => memb it (ditems d)) ds = []).
  { induction ds as [|d ds' IH]; simpl; auto. destruct (memb it (ditems d)) eqn:Em.
    - apply memb_In in Em. exfalso. apply (H d (or_introl eq_refl)). exact Em.
    - apply IH. intros; apply H; right; auto. }
  rewrite E. reflexivity.
Qed.

Theorem ambiguous_item_refused ds d1 d2 it rest :
  filter (fun d => memb it (ditems d)) ds = d1 :: d2 :: rest -> mk_handler_of ds (KBare it) = Err.
Proof. intros H. unfold mk_handler_of, mk_handler_of_v. simpl. unfold key_of_item. rewrite H. reflexivity. Qed.

Theorem list_selector_refused_in_reads (a : farr R) k h :
  mk_handler_of (adims a) k = Ok h -> h_invalid h = true -> getitem R rO a k = Err.
Proof. intros Hh Hi. unfold getitem, getitem_v. fold (mk_handler_of (adims a) k). rewrite Hh. simpl. rewrite Hi. reflexivity. Qed.

End F.
