(* C06 core: the index tuple that SubArrayHandler builds (plain slices / integers / one list, or an
   open mesh as soon as a list meets another list or an integer) makes numpy select ORTHOGONALLY:
   the result has one axis per kept or multi-item dimension, in the array's order, and its entry at an
   output index is the source entry whose index is obtained axis by axis. *)
From Coq Require Import List Arith Lia Bool.
Import ListNotations.
From Flodym Require Import Base.ND Base.Env Np.Einsum Np.Index Model.Dims Model.Array Model.SubArray.
Local Open Scope nat_scope.

(* what the handler asks for *)
Fixpoint out_shape (raw : list rawid) (sh : list nat) : list nat :=
  match raw, sh with
  | RAll :: r, n :: s => n :: out_shape r s
  | RInt _ :: r, _ :: s => out_shape r s
  | RList is :: r, _ :: s => length is :: out_shape r s
  | _, _ => []
  end.

Fixpoint pull (raw : list rawid) (idx : list nat) : list nat :=
  match raw with
  | [] => []
  | RAll :: r => match idx with i :: idx' => i :: pull r idx' | [] => 0 :: pull r [] end
  | RInt i :: r => i :: pull r idx
  | RList is :: r => match idx with i :: idx' => nth i is 0 :: pull r idx' | [] => nth 0 is 0 :: pull r [] end
  end.

Definition raw_ok (r : rawid) (n : nat) : bool :=
  match r with RAll => true | RInt i => Nat.ltb i n | RList is => forallb (fun i => Nat.ltb i n) is end.

Definition is_rint (r : rawid) : bool := match r with RInt _ => true | _ => false end.

(* ---------- no list at all: slices and integers ---------- *)

Lemma plain_no_list_sels raw : filter is_rlist raw = [] -> existsb is_arr (to_sels_plain raw) = false.
Proof.
  induction raw as [|r raw IH]; simpl; auto. destruct r; simpl; auto; discriminate.
Qed.

Lemma plain_sel_ok raw sh : length raw = length sh -> Forall2 (fun r n => raw_ok r n = true) raw sh ->
  forallb (fun p => sel_ok (fst p) (snd p)) (combine (to_sels_plain raw) sh) = true.
Proof.
  intros _ H. induction H as [|r n raw sh Hr H IH]; simpl; auto. rewrite IH, andb_true_r.
  destruct r as [|i|is]; simpl in *; auto. rewrite Nat.mul_1_r, Nat.eqb_refl. exact Hr.
Qed.

Lemma plain_slice_sizes raw sh : filter is_rlist raw = [] -> length raw = length sh ->
  slice_sizes (to_sels_plain raw) sh = out_shape raw sh.
Proof.
  revert sh. induction raw as [|r raw IH]; intros [|n sh] Hf Hl; simpl in *; try discriminate; auto.
  destruct r; simpl in *; try discriminate; [f_equal|]; apply IH; auto.
Qed.

Lemma plain_src raw b idx : filter is_rlist raw = [] -> src (to_sels_plain raw) b idx = pull raw idx.
Proof.
  revert idx. induction raw as [|r raw IH]; intros idx Hf; simpl in *; auto.
  destruct r; simpl in *; try discriminate.
  - destruct idx; f_equal; apply IH; auto.
  - f_equal. apply IH; auto.
Qed.

Lemma to_sels_plain_length raw : length (to_sels_plain raw) = length raw.
Proof. apply map_length. Qed.

Theorem ortho_no_list raw sh :
  filter is_rlist raw = [] -> length raw = length sh -> Forall2 (fun r n => raw_ok r n = true) raw sh ->
  exists p, mk_plan_of (to_sels_plain raw) sh = Some p /\ p_osh p = out_shape raw sh
            /\ forall idx, src_of (to_sels_plain raw) p idx = pull raw idx.
Proof.
  intros Hf Hl Hok. unfold mk_plan_of.
  rewrite to_sels_plain_length, Hl, Nat.eqb_refl. simpl.
  rewrite plain_sel_ok by auto. simpl. rewrite plain_no_list_sels by auto. simpl.
  eexists. split; [reflexivity|]. split; [apply plain_slice_sizes; auto|].
  intros idx. unfold src_of. simpl. apply plain_src. exact Hf.
Qed.

(* ---------- exactly one list and no integer: the list stays where it is ---------- *)

Definition alls (p : nat) : list rawid := repeat RAll p.

Lemma one_list_decomp raw is :
  filter is_rlist raw = [RList is] -> filter is_rint raw = [] ->
  exists p q, raw = alls p ++ RList is :: alls q.
Proof.
  induction raw as [|r raw IH]; simpl; [discriminate|]. destruct r as [|i|is']; simpl.
  - intros H1 H2. destruct (IH H1 H2) as (p & q & ->). exists (S p), q. reflexivity.
  - discriminate.
  - intros H1 H2. injection H1 as -> H1. exists 0.
    assert (Hq : raw = alls (length raw)).
    { clear -H1 H2. unfold alls. induction raw as [|r raw IH]; simpl in *; auto. destruct r; simpl in *; try discriminate. f_equal. apply IH; auto. }
    exists (length raw). simpl. f_equal. exact Hq.
Qed.

Lemma plain_alls_app p x : to_sels_plain (alls p ++ x) = repeat SAll p ++ to_sels_plain x.
Proof. induction p; simpl; auto. f_equal. exact IHp. Qed.

Lemma plain_alls q : to_sels_plain (alls q) = repeat SAll q.
Proof. induction q; simpl; auto. f_equal. exact IHq. Qed.

Lemma split_shape {A} p (l : list A) q : length l = p + S q ->
  exists P n Q, l = P ++ n :: Q /\ length P = p /\ length Q = q.
Proof.
  revert l. induction p as [|p IH]; intros l H.
  - destruct l as [|n Q]; simpl in H; [lia|]. exists [], n, Q. simpl. repeat split; auto; lia.
  - destruct l as [|a l]; simpl in H; [lia|]. destruct (IH l ltac:(lia)) as (P & n & Q & -> & H1 & H2).
    exists (a :: P), n, Q. simpl. repeat split; auto; lia.
Qed.

Lemma pre_sizes_alls P x Q sels : is_adv x = true ->
  pre_sizes (repeat SAll (length P) ++ x :: sels) (P ++ Q) = P.
Proof.
  intros Hx. induction P as [|a P IH]; simpl.
  - destruct x; simpl in Hx; try discriminate; destruct Q; reflexivity.
  - f_equal. exact IH.
Qed.

Lemma slice_sizes_alls P sels Q : slice_sizes (repeat SAll (length P) ++ sels) (P ++ Q) = P ++ slice_sizes sels Q.
Proof. induction P as [|a P IH]; simpl; auto. f_equal. exact IH. Qed.

Lemma slice_sizes_all_only Q : slice_sizes (repeat SAll (length Q)) Q = Q.
Proof. induction Q as [|a Q IH]; simpl; auto. f_equal. exact IH. Qed.

Lemma out_shape_alls P raw Q : out_shape (alls (length P) ++ raw) (P ++ Q) = P ++ out_shape raw Q.
Proof. induction P as [|a P IH]; simpl; auto. f_equal. exact IH. Qed.

Lemma out_shape_all_only Q : out_shape (alls (length Q)) Q = Q.
Proof. induction Q as [|a Q IH]; simpl; auto. f_equal. exact IH. Qed.

Lemma adjacent_one p x q : is_adv x = true -> adjacent (repeat SAll p ++ x :: repeat SAll q) = true.
Proof.
  intros Hx. unfold adjacent. rewrite map_app. simpl. rewrite Hx.
  induction p as [|p IH]; simpl; [|exact IH].
  destruct q as [|q]; simpl; auto. induction q as [|q IHq]; simpl; auto.
Qed.

Lemma existsb_arr_one p ash adat l : existsb is_arr (repeat SAll p ++ SArr ash adat :: l) = true.
Proof. induction p; simpl; auto. Qed.

Lemma arr_shapes_one p ash adat q :
  flat_map (fun s => match s with SArr a _ => [a] | _ => [] end) (repeat SAll p ++ SArr ash adat :: repeat SAll q) = [ash].
Proof.
  induction p as [|p IH]; simpl; auto. f_equal. induction q as [|q IHq]; simpl; auto.
Qed.

Lemma sel_ok_alls P Q sels :
  forallb (fun p => sel_ok (fst p) (snd p)) (combine (repeat SAll (length P) ++ sels) (P ++ Q))
  = forallb (fun p => sel_ok (fst p) (snd p)) (combine sels Q).
Proof. induction P as [|a P IH]; simpl; auto. Qed.

Lemma sel_ok_all_only Q : forallb (fun p => sel_ok (fst p) (snd p)) (combine (repeat SAll (length Q)) Q) = true.
Proof. induction Q as [|a Q IH]; simpl; auto. Qed.

Lemma src_alls_pre (ip : list nat) sels b sl :
  src (repeat SAll (length ip) ++ sels) b (ip ++ sl) = ip ++ src sels b sl.
Proof. induction ip as [|i ip IH]; simpl; auto. f_equal. exact IH. Qed.

Lemma src_all_only (iq : list nat) b : src (repeat SAll (length iq)) b iq = iq.
Proof. induction iq as [|i iq IH]; simpl; auto. f_equal. exact IH. Qed.

Lemma pull_alls_pre (ip : list nat) raw idx : pull (alls (length ip) ++ raw) (ip ++ idx) = ip ++ pull raw idx.
Proof. induction ip as [|i ip IH]; simpl; auto. f_equal. exact IH. Qed.

Lemma pull_all_only (iq : list nat) : pull (alls (length iq)) iq = iq.
Proof. induction iq as [|i iq IH]; simpl; auto. f_equal. exact IH. Qed.

Lemma bfetch_vector is i : i < length is -> bfetch [length is] is [i] = nth i is 0.
Proof.
  intros Hi. unfold bfetch. simpl. destruct (Nat.eqb_spec (length is) 1) as [E|_].
  - assert (i = 0) by lia. subst. simpl. reflexivity.
  - simpl. rewrite Nat.mul_1_r, Nat.add_0_r. reflexivity.
Qed.

Lemma Forall2_app_inv_len {A B} (R : A -> B -> Prop) l1 l2 r1 r2 :
  Forall2 R (l1 ++ l2) (r1 ++ r2) -> length l1 = length r1 -> Forall2 R l1 r1 /\ Forall2 R l2 r2.
Proof.
  revert r1. induction l1 as [|a l1 IH]; intros [|b r1] H Hl; simpl in *; try discriminate; [split; [constructor | exact H]|].
  inversion H; subst. destruct (IH r1 ltac:(assumption) ltac:(lia)) as [H1 H2]. split; [constructor; assumption | assumption].
Qed.

Theorem ortho_one_list raw sh is :
  filter is_rlist raw = [RList is] -> filter is_rint raw = [] ->
  length raw = length sh -> Forall2 (fun r n => raw_ok r n = true) raw sh ->
  exists p, mk_plan_of (to_sels_plain raw) sh = Some p /\ p_osh p = out_shape raw sh
            /\ forall idx, Forall2 lt idx (out_shape raw sh) -> src_of (to_sels_plain raw) p idx = pull raw idx.
Proof.
  intros H1 H2 Hl Hok. destruct (one_list_decomp raw is H1 H2) as (p & q & ->).
  assert (Hlen : length sh = p + S q).
  { rewrite <- Hl, app_length. unfold alls. simpl. rewrite !repeat_length. reflexivity. }
  destruct (split_shape p sh q Hlen) as (P & n & Q & -> & HP & HQ). subst p q.
  destruct (Forall2_app_inv_len _ _ _ _ _ Hok) as [_ Hok2]; [unfold alls; rewrite repeat_length; reflexivity|].
  inversion Hok2 as [|? ? ? ? Hr _]; subst. simpl in Hr.
  rewrite plain_alls_app. cbn [to_sels_plain map]. fold (to_sels_plain (alls (length Q))). rewrite plain_alls.
  unfold mk_plan_of.
  assert (E0 : length (repeat SAll (length P) ++ SArr [length is] is :: repeat SAll (length Q)) = length (P ++ n :: Q)).
  { rewrite !app_length. simpl. rewrite !repeat_length. reflexivity. }
  rewrite E0, Nat.eqb_refl. cbn [negb].
  rewrite sel_ok_alls. cbn [combine forallb fst snd sel_ok]. rewrite sel_ok_all_only, andb_true_r.
  assert (Esz : Nat.eqb (length is) (size [length is]) = true) by (simpl; rewrite Nat.mul_1_r; apply Nat.eqb_refl).
  rewrite Esz, Hr. cbn [andb negb].
  rewrite existsb_arr_one. cbn [negb]. rewrite arr_shapes_one.
  assert (Eb : bcast_all [[length is]] = Some [length is]).
  { reflexivity. }
  rewrite Eb. rewrite adjacent_one by reflexivity.
  rewrite (pre_sizes_alls P (SArr [length is] is) (n :: Q)) by reflexivity.
  rewrite slice_sizes_alls. cbn [slice_sizes]. rewrite slice_sizes_all_only.
  eexists. split; [reflexivity|]. cbn [p_osh p_npre p_nb].
  assert (Eo : out_shape (alls (length P) ++ RList is :: alls (length Q)) (P ++ n :: Q) = P ++ length is :: Q).
  { rewrite out_shape_alls. cbn [out_shape]. rewrite out_shape_all_only. reflexivity. }
  split.
  - rewrite Eo. f_equal. simpl. f_equal. rewrite skipn_app, skipn_all, Nat.sub_diag. reflexivity.
  - intros idx Hidx. rewrite Eo in Hidx.
    assert (Hli : length idx = length P + S (length Q)).
    { apply Forall2_len in Hidx. rewrite Hidx, app_length. reflexivity. }
    destruct (split_shape (length P) idx (length Q) Hli) as (ip & i & iq & -> & Hip & Hiq).
    destruct (Forall2_app_inv_len _ _ _ _ _ Hidx Hip) as [_ Hi2]. inversion Hi2 as [|? ? ? ? Hi _]; subst.
    unfold src_of. cbn [p_npre p_nb length].
    rewrite <- Hip. rewrite firstn_app, firstn_all, Nat.sub_diag, skipn_app, skipn_all, Nat.sub_diag. simpl firstn. simpl skipn.
    rewrite app_nil_r. rewrite Hip. rewrite <- Hip at 1. rewrite src_alls_pre. cbn [src].
    rewrite <- Hiq. rewrite src_all_only. rewrite bfetch_vector by exact Hi.
    rewrite <- Hip. rewrite pull_alls_pre. cbn [pull]. rewrite pull_all_only. reflexivity.
Qed.

(* ---------- the open mesh: every non-integer axis becomes an index array of shape (1,..,m,..,1) ---------- *)

Definition comb (x y : nat) : option nat :=
  if Nat.eqb x y then Some x else if Nat.eqb x 1 then Some y else if Nat.eqb y 1 then Some x else None.

Inductive Forall3 {A B C} (R : A -> B -> C -> Prop) : list A -> list B -> list C -> Prop :=
| F3_nil : Forall3 R [] [] []
| F3_cons a b c la lb lc : R a b c -> Forall3 R la lb lc -> Forall3 R (a :: la) (b :: lb) (c :: lc).

Lemma Forall3_app {A B C} (R : A -> B -> C -> Prop) a1 b1 c1 a2 b2 c2 :
  Forall3 R a1 b1 c1 -> Forall3 R a2 b2 c2 -> Forall3 R (a1 ++ a2) (b1 ++ b2) (c1 ++ c2).
Proof. induction 1; simpl; auto. intros. constructor; auto. Qed.

Lemma Forall3_rev {A B C} (R : A -> B -> C -> Prop) a b c : Forall3 R a b c -> Forall3 R (rev a) (rev b) (rev c).
Proof.
  induction 1 as [|x y z la lb lc H H' IH]; simpl; [constructor|].
  apply Forall3_app; auto. constructor; auto. constructor.
Qed.

Lemma bcast_rev_spec a b c : Forall3 (fun x y z => comb x y = Some z) a b c -> bcast_rev a b = Some c.
Proof.
  induction 1 as [|x y z la lb lc H H' IH]; simpl; auto.
  rewrite IH. unfold comb in H.
  destruct (Nat.eqb x y); [congruence|]. destruct (Nat.eqb x 1); [congruence|]. destruct (Nat.eqb y 1); congruence.
Qed.

Lemma bcast_spec a b c : Forall3 (fun x y z => comb x y = Some z) a b c -> bcast a b = Some c.
Proof.
  intros H. unfold bcast. rewrite (bcast_rev_spec _ _ _ (Forall3_rev _ _ _ _ H)). simpl. rewrite rev_involutive. reflexivity.
Qed.

Lemma bcast_nil_l s : bcast [] s = Some s.
Proof. unfold bcast. simpl. rewrite rev_involutive. reflexivity. Qed.

Lemma mesh_shape_split n j m : j < n -> mesh_shape n j m = repeat 1 j ++ m :: repeat 1 (n - S j).
Proof.
  intros Hj. unfold mesh_shape.
  replace n with (j + S (n - S j)) at 1 by lia. rewrite seq_app, map_app. simpl. f_equal; [|f_equal].
  - clear Hj. assert (H : forall s, s + j <= j + s -> map (fun i => if Nat.eqb i (s + j) then m else 1) (seq s j) = repeat 1 j).
    { induction j as [|j IH]; intros s Hs; simpl; auto.
      destruct (Nat.eqb_spec s (s + S j)); [lia|]. f_equal.
      replace (s + S j) with (S s + j) by lia. apply IH. lia. }
    apply (H 0). lia.
  - rewrite Nat.eqb_refl. reflexivity.
  - generalize (n - S j) as q. intros q.
    assert (H : forall s, j < s -> map (fun i => if Nat.eqb i j then m else 1) (seq s q) = repeat 1 q).
    { induction q as [|q IH]; intros s Hs; simpl; auto. destruct (Nat.eqb_spec s j); [lia|]. f_equal. apply IH. lia. }
    apply H. lia.
Qed.

Lemma Forall3_comb_ones_r (l : list nat) : Forall3 (fun x y z => comb x y = Some z) l (repeat 1 (length l)) l.
Proof.
  induction l as [|x l IH]; simpl; constructor; auto. unfold comb.
  destruct (Nat.eqb_spec x 1); [subst; reflexivity|]. reflexivity.
Qed.

Lemma Forall3_comb_ones q : Forall3 (fun x y z => comb x y = Some z) (repeat 1 q) (repeat 1 q) (repeat 1 q).
Proof. induction q; simpl; constructor; auto. Qed.

(* one step of the fold: (pre, 1, 1, ..) combined with the mesh shape of axis k *)
Lemma bcast_mesh_step n pre m :
  length pre < n ->
  bcast (pre ++ repeat 1 (n - length pre)) (mesh_shape n (length pre) m) = Some ((pre ++ [m]) ++ repeat 1 (n - S (length pre))).
Proof.
  intros Hk. rewrite mesh_shape_split by exact Hk. apply bcast_spec.
  replace (n - length pre) with (S (n - S (length pre))) by lia. simpl repeat. rewrite <- app_assoc. simpl.
  apply Forall3_app; [apply Forall3_comb_ones_r|]. constructor; [|apply Forall3_comb_ones].
  unfold comb. destruct (Nat.eqb_spec 1 m); [subst; reflexivity | reflexivity].
Qed.

Definition bstep (acc : option (list nat)) (s : list nat) : option (list nat) :=
  match acc with Some a => bcast a s | None => None end.

Lemma fold_mesh n B' : forall pre, length pre + length B' = n -> 1 <= length pre ->
  fold_left bstep (map (fun jm => mesh_shape n (fst jm) (snd jm)) (combine (seq (length pre) (length B')) B'))
            (Some (pre ++ repeat 1 (n - length pre)))
  = Some (pre ++ B').
Proof.
  induction B' as [|m B' IH]; intros pre Hn Hk; simpl in *.
  - replace (n - length pre) with 0 by lia. reflexivity.
  - rewrite bcast_mesh_step by lia.
    replace (S (length pre)) with (length (pre ++ [m])) by (rewrite app_length; simpl; lia).
    rewrite IH; [rewrite <- app_assoc; reflexivity | rewrite app_length; simpl; lia | rewrite app_length; simpl; lia].
Qed.

Lemma bcast_all_mesh n B : length B = n -> 1 <= n ->
  bcast_all (map (fun jm => mesh_shape n (fst jm) (snd jm)) (combine (seq 0 n) B)) = Some B.
Proof.
  intros Hn H1. destruct B as [|m B']; simpl in Hn; [lia|]. subst n. unfold bcast_all.
  cbn [seq combine map fold_left fst snd]. rewrite bcast_nil_l.
  rewrite (mesh_shape_split (S (length B')) 0 m) by lia.
  pose proof (fold_mesh (S (length B')) B' [m]) as F. cbn [length app] in F.
  replace (S (length B') - S 0) with (S (length B') - 1) by lia.
  cbn [repeat app]. unfold bstep in F. apply F; lia.
Qed.

Definition arr_shapes (sels : list sel) : list (list nat) :=
  flat_map (fun s => match s with SArr a _ => [a] | _ => [] end) sels.

Lemma mesh_length raw : forall sh n k, length raw = length sh -> length (to_sels_mesh raw sh n k) = length raw.
Proof.
  induction raw as [|r raw IH]; intros [|m sh] n k Hl; simpl in *; try discriminate; auto.
  destruct r; simpl; f_equal; apply IH; lia.
Qed.

Lemma mesh_all_adv raw : forall sh n k, forallb is_adv (to_sels_mesh raw sh n k) = true.
Proof.
  induction raw as [|r raw IH]; intros [|m sh] n k; simpl; auto; destruct r; simpl; auto.
Qed.

Lemma mesh_arr_shapes raw : forall sh n k, length raw = length sh ->
  arr_shapes (to_sels_mesh raw sh n k)
  = map (fun jm => mesh_shape n (fst jm) (snd jm)) (combine (seq k (length (out_shape raw sh))) (out_shape raw sh)).
Proof.
  unfold arr_shapes.
  induction raw as [|r raw IH]; intros [|m sh] n k Hl; simpl in *; try discriminate; auto.
  destruct r as [|i|is]; simpl; [f_equal; apply IH; lia | apply IH; lia | f_equal; apply IH; lia].
Qed.

Lemma all_adv_adjacent sels : forallb is_adv sels = true -> adjacent sels = true.
Proof.
  intros H. unfold adjacent.
  assert (E : drop_true (drop_false (map is_adv sels)) = []).
  { induction sels as [|s sels IH]; simpl in *; auto. apply andb_true_iff in H. destruct H as [H1 H2]. rewrite H1. simpl.
    clear IH H1. induction sels as [|s' sels IH]; simpl in *; auto. apply andb_true_iff in H2. destruct H2 as [H1 H2]. rewrite H1. auto. }
  rewrite E. reflexivity.
Qed.

Lemma all_adv_pre_sizes sels sh : forallb is_adv sels = true -> pre_sizes sels sh = [].
Proof. destruct sels as [|s sels]; simpl; auto. destruct s; simpl; try discriminate; destruct sh; auto. Qed.

Lemma all_adv_slice_sizes sels : forall sh, forallb is_adv sels = true -> slice_sizes sels sh = [].
Proof.
  induction sels as [|s sels IH]; intros sh H; simpl in *; auto. apply andb_true_iff in H. destruct H as [H1 H2].
  destruct s; simpl in H1; try discriminate; destruct sh; auto.
Qed.

Lemma size_ones q : size (repeat 1 q) = 1.
Proof. unfold size. induction q; cbn [repeat fold_right]; [reflexivity | rewrite IHq; reflexivity]. Qed.

Lemma size_mesh n k m : k < n -> size (mesh_shape n k m) = m.
Proof.
  intros H. rewrite mesh_shape_split by exact H. generalize (n - S k) as q. intros q.
  induction k as [|k IH]; simpl.
  - fold (size (repeat 1 q)). rewrite size_ones. lia.
  - fold (size (repeat 1 k ++ m :: repeat 1 q)). assert (Hk : k < S k) by lia.
    rewrite <- (IH ltac:(lia)) at 2. unfold size. simpl. lia.
Qed.

Lemma forallb_seq_lt m : forallb (fun i => Nat.ltb i m) (seq 0 m) = true.
Proof. apply forallb_forall. intros x Hx. apply in_seq in Hx. apply Nat.ltb_lt. lia. Qed.

Lemma out_shape_len_le raw : forall sh, length (out_shape raw sh) <= length raw.
Proof. induction raw as [|r raw IH]; intros [|m sh]; simpl; try lia; [destruct r; simpl; lia|]. destruct r; simpl; specialize (IH sh); lia. Qed.

Lemma mesh_sel_ok raw : forall sh n k, Forall2 (fun r m => raw_ok r m = true) raw sh ->
  k + length (out_shape raw sh) <= n ->
  forallb (fun p => sel_ok (fst p) (snd p)) (combine (to_sels_mesh raw sh n k) sh) = true.
Proof.
  induction raw as [|r raw IH]; intros sh n k H Hk; inversion H as [|? m ? sh' Hr H']; subst; simpl in *; auto.
  destruct r as [|i|is]; simpl in *.
  - rewrite seq_length, size_mesh by lia. rewrite Nat.eqb_refl, forallb_seq_lt. simpl. apply IH; auto. lia.
  - rewrite Hr. simpl. apply IH; auto.
  - rewrite size_mesh by lia. rewrite Nat.eqb_refl, Hr. simpl. apply IH; auto. lia.
Qed.

Lemma mesh_shape_length n k m : length (mesh_shape n k m) = n.
Proof. unfold mesh_shape. rewrite map_length, seq_length. reflexivity. Qed.

Lemma ravel_mesh k m q y : ravel (repeat 1 k ++ m :: repeat 1 q) (repeat 0 k ++ y :: repeat 0 q) = y.
Proof.
  induction k as [|k IH]; simpl.
  - fold (size (repeat 1 q)). rewrite size_ones.
    assert (E : ravel (repeat 1 q) (repeat 0 q) = 0). { clear. induction q; simpl; auto. } rewrite E. lia.
  - exact IH.
Qed.

Lemma map2_mesh k m q (i1 : list nat) x i2 : length i1 = k -> length i2 = q ->
  map2 (fun s i => if Nat.eqb s 1 then 0 else i) (repeat 1 k ++ m :: repeat 1 q) (i1 ++ x :: i2)
  = repeat 0 k ++ (if Nat.eqb m 1 then 0 else x) :: repeat 0 q.
Proof.
  revert i1. induction k as [|k IH]; intros [|a i1] H1 H2; simpl in *; try discriminate.
  - f_equal. clear -H2. revert i2 H2. induction q as [|q IH]; intros [|b i2] H; simpl in *; try discriminate; auto.
    f_equal. apply IH. lia.
  - f_equal. apply IH; lia.
Qed.

Lemma bfetch_mesh n k m dat idx : length idx = n -> k < n -> nth k idx 0 < m ->
  bfetch (mesh_shape n k m) dat idx = nth (nth k idx 0) dat 0.
Proof.
  intros Hl Hk Hx. unfold bfetch. rewrite mesh_shape_length, Hl, Nat.sub_diag. simpl skipn.
  rewrite mesh_shape_split by exact Hk.
  assert (Hs : length idx = k + S (n - S k)) by lia.
  destruct (split_shape k idx (n - S k) Hs) as (i1 & x & i2 & -> & H1 & H2).
  assert (Ex : nth k (i1 ++ x :: i2) 0 = x). { rewrite app_nth2 by lia. rewrite H1, Nat.sub_diag. reflexivity. }
  rewrite Ex in *.
  assert (Em : map2 (fun s i => if Nat.eqb s 1 then 0 else i) (repeat 1 k ++ m :: repeat 1 (n - S k)) (i1 ++ x :: i2)
               = repeat 0 k ++ (if Nat.eqb m 1 then 0 else x) :: repeat 0 (n - S k)).
  { apply map2_mesh; auto. }
  rewrite Em, ravel_mesh. destruct (Nat.eqb_spec m 1) as [->|_]; [|reflexivity].
  assert (x = 0) by lia. subst. reflexivity.
Qed.

Lemma skipn_S_tl {A} k (l : list A) : skipn (S k) l = tl (skipn k l).
Proof. revert l. induction k as [|k IH]; intros [|a l]; simpl; auto. rewrite <- IH. reflexivity. Qed.

Lemma mesh_src raw : forall sh n k idx sl,
  length raw = length sh -> length idx = n ->
  k + length (out_shape raw sh) = n ->
  Forall2 lt (skipn k idx) (out_shape raw sh) ->
  src (to_sels_mesh raw sh n k) idx sl = pull raw (skipn k idx).
Proof.
  induction raw as [|r raw IH]; intros [|m sh] n k idx sl Hl Hi Hk Hlt; simpl in *; try discriminate; auto.
  destruct r as [|i|is]; simpl in *.
  - assert (Hkn : k < n) by lia.
    destruct (skipn k idx) as [|x rest] eqn:Es; [inversion Hlt|]. inversion Hlt as [|? ? ? ? Hx Hrest]; subst.
    assert (Ex : nth k idx 0 = x).
    { rewrite <- (firstn_skipn k idx) at 1. rewrite Es. rewrite app_nth2; rewrite firstn_length_le by lia; [|lia]. rewrite Nat.sub_diag. reflexivity. }
    assert (Er : skipn (S k) idx = rest).
    { rewrite skipn_S_tl, Es. reflexivity. }
    rewrite bfetch_mesh by (auto; rewrite Ex; exact Hx). rewrite Ex, seq_nth by exact Hx. simpl. f_equal.
    rewrite <- Er. apply IH; auto; try lia. rewrite Er. exact Hrest.
  - f_equal. apply IH; auto; lia.
  - assert (Hkn : k < n) by lia.
    destruct (skipn k idx) as [|x rest] eqn:Es; [inversion Hlt|]. inversion Hlt as [|? ? ? ? Hx Hrest]; subst.
    assert (Ex : nth k idx 0 = x).
    { rewrite <- (firstn_skipn k idx) at 1. rewrite Es. rewrite app_nth2; rewrite firstn_length_le by lia; [|lia]. rewrite Nat.sub_diag. reflexivity. }
    assert (Er : skipn (S k) idx = rest).
    { rewrite skipn_S_tl, Es. reflexivity. }
    rewrite bfetch_mesh by (auto; rewrite Ex; exact Hx). rewrite Ex. f_equal.
    rewrite <- Er. apply IH; auto; try lia. rewrite Er. exact Hrest.
Qed.

Theorem ortho_mesh raw sh :
  length raw = length sh -> Forall2 (fun r m => raw_ok r m = true) raw sh ->
  existsb is_rlist raw = true ->
  let n := length (out_shape raw sh) in
  exists p, mk_plan_of (to_sels_mesh raw sh n 0) sh = Some p /\ p_osh p = out_shape raw sh
            /\ forall idx, Forall2 lt idx (out_shape raw sh) -> src_of (to_sels_mesh raw sh n 0) p idx = pull raw idx.
Proof.
  intros Hl Hok Hex n.
  assert (Hn1 : 1 <= n).
  { unfold n. clear Hok n. revert sh Hl. induction raw as [|r raw IH]; intros [|m sh] Hl; simpl in *; try discriminate.
    destruct r; simpl in *; try lia. apply IH; auto. }
  unfold mk_plan_of. rewrite mesh_length by exact Hl. rewrite Hl, Nat.eqb_refl. cbn [negb].
  rewrite mesh_sel_ok by (auto; simpl; fold n; lia). cbn [negb].
  assert (Harr : existsb is_arr (to_sels_mesh raw sh n 0) = true).
  { clear Hok Hn1. generalize 0 as k. generalize n as n0. clear n. revert sh Hl. induction raw as [|r raw IH]; intros [|m sh] Hl n0 k; simpl in *; try discriminate.
    destruct r; simpl in *; auto. }
  rewrite Harr. cbn [negb]. fold (arr_shapes (to_sels_mesh raw sh n 0)).
  rewrite mesh_arr_shapes by exact Hl. fold n. rewrite (bcast_all_mesh n (out_shape raw sh) eq_refl Hn1).
  rewrite all_adv_adjacent by apply mesh_all_adv.
  rewrite all_adv_pre_sizes by apply mesh_all_adv. rewrite all_adv_slice_sizes by apply mesh_all_adv.
  eexists. split; [reflexivity|]. cbn [p_osh p_npre p_nb length app skipn].
  split; [apply app_nil_r|].
  intros idx Hidx. unfold src_of. cbn [p_npre p_nb firstn skipn app].
  assert (Hli : length idx = n). { apply Forall2_len in Hidx. exact Hidx. }
  fold n. rewrite <- Hli, firstn_all. rewrite Hli.
  rewrite (mesh_src raw sh n 0 idx _ Hl Hli); [reflexivity | simpl; reflexivity | simpl; exact Hidx].
Qed.

(* ---------- all cases together ---------- *)

Lemma nonint_count raw : forall sh, length raw = length sh ->
  length (filter (fun r => match r with RInt _ => false | _ => true end) raw) = length (out_shape raw sh).
Proof.
  induction raw as [|r raw IH]; intros [|m sh] Hl; simpl in *; try discriminate; auto.
  destruct r as [|i|is]; simpl; [f_equal; apply IH; lia | apply IH; lia | f_equal; apply IH; lia].
Qed.

Lemma filter_rlist_one raw : length (filter is_rlist raw) = 1 -> exists is, filter is_rlist raw = [RList is].
Proof.
  intros H. destruct (filter is_rlist raw) as [|r [|r' l]] eqn:E; simpl in H; try discriminate.
  assert (Hin : In r (filter is_rlist raw)) by (rewrite E; left; reflexivity).
  apply filter_In in Hin. destruct Hin as [_ Hr]. destruct r; simpl in Hr; try discriminate. eexists; reflexivity.
Qed.

Lemma existsb_false_filter {A} (f : A -> bool) l : existsb f l = false -> filter f l = [].
Proof. induction l as [|a l IH]; simpl; auto. destruct (f a); simpl; [discriminate | exact IH]. Qed.

Lemma filter_nil_length {A} (f : A -> bool) l : length (filter f l) = 0 -> filter f l = [].
Proof. destruct (filter f l); simpl; [reflexivity | discriminate]. Qed.

Lemma filter_rlist_exists raw : 1 <= length (filter is_rlist raw) -> existsb is_rlist raw = true.
Proof.
  induction raw as [|r raw IH]; simpl; [lia|]. destruct (is_rlist r); simpl; auto.
Qed.

(* the index tuple built by SubArrayHandler selects orthogonally *)
Theorem to_sels_orthogonal raw sh :
  length raw = length sh -> Forall2 (fun r m => raw_ok r m = true) raw sh ->
  exists p, mk_plan_of (to_sels raw sh) sh = Some p /\ p_osh p = out_shape raw sh
            /\ forall idx, Forall2 lt idx (out_shape raw sh) -> src_of (to_sels raw sh) p idx = pull raw idx.
Proof.
  intros Hl Hok. unfold to_sels, to_sels_v.
  set (nl := length (filter is_rlist raw)).
  set (has_int := existsb (fun r => match r with RInt _ => true | _ => false end) raw).
  destruct (Nat.ltb 1 nl || (true && Nat.eqb nl 1 && has_int)) eqn:Ec.
  - (* mesh *)
    rewrite (nonint_count raw sh Hl).
    apply ortho_mesh; auto. apply filter_rlist_exists. fold nl.
    apply orb_true_iff in Ec. destruct Ec as [Ec|Ec].
    + apply Nat.ltb_lt in Ec. lia.
    + simpl in Ec. apply andb_true_iff in Ec. destruct Ec as [Ec _]. apply Nat.eqb_eq in Ec. lia.
  - apply orb_false_iff in Ec. destruct Ec as [E1 E2]. apply Nat.ltb_ge in E1. simpl in E2.
    destruct (Nat.eqb_spec nl 1) as [En|En].
    + (* one list, no integer *)
      simpl in E2. destruct (filter_rlist_one raw En) as [is His].
      destruct (ortho_one_list raw sh is His (existsb_false_filter _ _ E2) Hl Hok) as (p & H1 & H2 & H3).
      exists p. auto.
    + (* no list *)
      assert (Hz : filter is_rlist raw = []) by (apply filter_nil_length; fold nl; lia).
      destruct (ortho_no_list raw sh Hz Hl Hok) as (p & H1 & H2 & H3). exists p. split; [exact H1|]. split; [exact H2|].
      intros idx _. apply H3.
Qed.

Section OnArrays.
Variable R : Type.
Variable rO : R.

(* reading with that tuple: one output axis per kept / multi-item dimension, entries fetched axis by axis *)
Theorem index_orthogonal (a : nd R) raw :
  length raw = length (shp a) -> Forall2 (fun r m => raw_ok r m = true) raw (shp a) ->
  exists v, index R rO a (to_sels raw (shp a)) = Ok v /\ shp v = out_shape raw (shp a)
            /\ length (dat v) = size (shp v)
            /\ forall idx, Forall2 lt idx (out_shape raw (shp a)) ->
                 get rO (shp v) (dat v) idx = get rO (shp a) (dat a) (pull raw idx).
Proof.
  intros Hl Hok. destruct (to_sels_orthogonal raw (shp a) Hl Hok) as (p & Hp & Ho & Hs).
  unfold index. rewrite Hp. eexists. split; [reflexivity|]. cbn [shp dat]. split; [exact Ho|]. split; [apply tab_length|].
  intros idx Hidx. rewrite (get_tab R rO) by (rewrite Ho; exact Hidx). rewrite Hs by exact Hidx. reflexivity.
Qed.
End OnArrays.
