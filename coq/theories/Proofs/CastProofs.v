(* C07: cast_to replicates every entry along the added dimensions, in the target's order. *)
From Coq Require Import List Arith Lia Ring_theory Ring Permutation Bool.
Import ListNotations.
From Flodym Require Import Base.ND Base.Env Np.Einsum Model.Dims Model.Array Proofs.ArrayLemmas Proofs.C07Proofs Proofs.C01Proofs Proofs.C04Proofs.

Section P.
Variable R : Type.
Variables (rO rI : R) (radd rmul rsub : R -> R -> R) (ropp : R -> R).
Variable Rth : ring_theory rO rI radd rmul rsub ropp eq.
Add Ring RringCast : Rth.
Notation sum_env := (sum_env rO radd).
Notation get := (get rO).
Notation farr := (farr R).
Notation einsum := (einsum R rO rI radd rmul).
Notation den_nd := (den_nd R rO).
Notation den := (den R rO).
Notation wf := (wf R).
Notation lsizes := (lsizes R).

(* numpy.tile *)
Lemma tile_get (a : nd R) reps idx :
  Forall2 lt idx (map2 Nat.mul (shp a) reps) ->
  get (shp (tile R rO a reps)) (dat (tile R rO a reps)) idx = get (shp a) (dat a) (map2 Nat.modulo idx (shp a)).
Proof. intros H. unfold tile; simpl. rewrite (get_tab R rO); auto. Qed.

(* indexing a reshaped array whose extra axes have length 1, at index 0 on those axes *)
Fixpoint squeeze (keep : list bool) (l : list nat) : list nat :=
  match keep, l with
  | true :: k, x :: r => x :: squeeze k r
  | false :: k, _ :: r => squeeze k r
  | _, _ => []
  end.

Lemma ravel_squeeze keep sh idx :
  length keep = length sh -> length idx = length sh ->
  (forall j, nth j keep true = false -> nth j sh 0 = 1 /\ nth j idx 0 = 0) ->
  ravel sh idx = ravel (squeeze keep sh) (squeeze keep idx) /\ size sh = size (squeeze keep sh).
Proof.
  revert sh idx. induction keep as [|b keep IH]; intros [|n sh] [|i idx] Hk Hi Hz; simpl in *; try lia; auto.
  assert (Hz' : forall j, nth j keep true = false -> nth j sh 0 = 1 /\ nth j idx 0 = 0).
  { intros j Hj. apply (Hz (S j)). exact Hj. }
  destruct (IH sh idx ltac:(lia) ltac:(lia) Hz') as [E1 E2].
  destruct b; simpl.
  - fold (size sh). fold (size (squeeze keep sh)). rewrite E1, E2. split; reflexivity.
  - destruct (Hz 0 eq_refl) as [Hn Hi0]. simpl in Hn, Hi0. subst. fold (size sh). rewrite E1, E2. split; lia.
Qed.

(* the three per-axis lists of cast_values_to, for a target dimension list *)
Definition c_keep (ls : list letter) (target : dimset) : list bool := map (fun d => memb (dletter d) ls) target.
Definition c_sh1 (ls : list letter) (sz : env) (target : dimset) : list nat :=
  map (fun d => if memb (dletter d) ls then lookup sz (dletter d) else 1) target.
Definition c_reps (ls : list letter) (target : dimset) : list nat :=
  map (fun d => if memb (dletter d) ls then 1 else dlen d) target.
Definition c_kept (ls : list letter) (target : dimset) : list letter := filter (fun l => memb l ls) (letters target).

Lemma cast_axes ls sz target e :
  (forall d, In d target -> lookup e (dletter d) < dlen d) ->
  (forall d, In d target -> memb (dletter d) ls = true -> lookup sz (dletter d) = dlen d) ->
  Forall2 lt (map (lookup e) (letters target)) (map2 Nat.mul (c_sh1 ls sz target) (c_reps ls target))
  /\ squeeze (c_keep ls target) (c_sh1 ls sz target) = map (lookup sz) (c_kept ls target)
  /\ squeeze (c_keep ls target) (map2 Nat.modulo (map (lookup e) (letters target)) (c_sh1 ls sz target)) = map (lookup e) (c_kept ls target)
  /\ length (c_keep ls target) = length (c_sh1 ls sz target)
  /\ length (map2 Nat.modulo (map (lookup e) (letters target)) (c_sh1 ls sz target)) = length (c_sh1 ls sz target)
  /\ (forall j, nth j (c_keep ls target) true = false ->
        nth j (c_sh1 ls sz target) 0 = 1 /\ nth j (map2 Nat.modulo (map (lookup e) (letters target)) (c_sh1 ls sz target)) 0 = 0).
Proof.
  induction target as [|d target IH]; intros Hr Hc.
  - simpl. split; [constructor|]. do 4 (split; [reflexivity|]). intros j Hj. destruct j; simpl in Hj; discriminate.
  - assert (Hr' : forall d0, In d0 target -> lookup e (dletter d0) < dlen d0) by (intros; apply Hr; right; auto).
    assert (Hc' : forall d0, In d0 target -> memb (dletter d0) ls = true -> lookup sz (dletter d0) = dlen d0) by (intros; apply Hc; auto; right; auto).
    destruct (IH Hr' Hc') as (I1 & I2 & I3 & I4 & I5 & I6).
    pose proof (Hr d (or_introl eq_refl)) as Hd.
    unfold c_keep, c_sh1, c_reps, c_kept, letters in *. cbn [map map2 filter].
    destruct (memb (dletter d) ls) eqn:Em.
    + pose proof (Hc d (or_introl eq_refl) Em) as Hsz. rewrite Hsz. cbn [squeeze map length].
      rewrite Nat.mod_small by exact Hd.
      split; [constructor; [lia | exact I1]|].
      split; [rewrite Hsz; f_equal; exact I2|].
      split; [f_equal; exact I3|].
      split; [simpl; f_equal; exact I4|].
      split; [simpl; f_equal; exact I5|].
      intros j Hj. destruct j as [|j]; simpl in Hj; [discriminate|]. simpl. apply I6. exact Hj.
    + cbn [squeeze map length]. rewrite Nat.mod_1_r.
      split; [constructor; [lia | exact I1]|].
      split; [exact I2|].
      split; [exact I3|].
      split; [simpl; f_equal; exact I4|].
      split; [simpl; f_equal; exact I5|].
      intros j Hj. destruct j as [|j]; simpl; [split; reflexivity|]. simpl in Hj. apply I6. exact Hj.
Qed.

(* cast_to: every entry of the result is the source entry carrying the same labels *)
Theorem cast_values_to_den (a : farr) (target : dimset) v e :
  wf a -> NoDup (letters target) ->
  cast_values_to R rO rI radd rmul a target = Ok v ->
  (forall d, In d target -> lookup e (dletter d) < dlen d) ->
  (forall d, In d target -> memb (dletter d) (aletters R a) = true -> lookup (lsizes a) (dletter d) = dlen d) ->
  den_nd (letters target) v e = den a e /\ shp v = dshape target.
Proof.
  intros [Hn Hl] Hnt Hc Hr Hcomp. unfold cast_values_to in Hc.
  destruct (forallb (fun l => memb l (letters target)) (aletters R a)) eqn:Hsub; [|discriminate].
  fold (c_kept (aletters R a) target) in Hc.
  destruct (nodupb (c_kept (aletters R a) target)) eqn:Hnk; [|discriminate]. cbn [bind] in Hc.
  injection Hc as <-.
  set (ls := aletters R a) in *. set (sz := lsizes a) in *.
  set (ops := [(ls, a_nd R a)]).
  fold (c_sh1 ls (combine ls (dshape (adims a))) target). fold (c_reps ls target).
  change (combine ls (dshape (adims a))) with sz.
  destruct (cast_axes ls sz target e Hr Hcomp) as (F1 & F2 & F3 & F4 & F5 & F6).
  set (idx := map (lookup e) (letters target)) in *.
  assert (Eshape : map2 Nat.mul (c_sh1 ls sz target) (c_reps ls target) = dshape target).
  { clear -Hcomp. induction target as [|d t IH]; simpl; auto.
    unfold c_sh1, c_reps in *. cbn [map map2]. f_equal.
    - destruct (memb (dletter d) ls) eqn:Em; [rewrite (Hcomp d (or_introl eq_refl) Em) | ]; lia.
    - apply IH. intros; apply Hcomp; auto. right; auto. }
  split; [|unfold tile; simpl; exact Eshape].
  unfold Einsum.den_nd. fold idx.
  rewrite (tile_get (reshape R (einsum ops (c_kept ls target)) (c_sh1 ls sz target)) (c_reps ls target) idx F1).
  unfold reshape; simpl. unfold ND.get.
  destruct (ravel_squeeze (c_keep ls target) (c_sh1 ls sz target) (map2 Nat.modulo idx (c_sh1 ls sz target)) F4 F5 F6) as [Er _].
  rewrite Er, F2, F3.
  (* now an entry of the reordering einsum *)
  assert (Eshp : shp (einsum ops (c_kept ls target)) = map (lookup sz) (c_kept ls target)).
  { rewrite einsum_shp. unfold ops. rewrite (sizes_single R). reflexivity. }
  change (nth (ravel (map (lookup sz) (c_kept ls target)) (map (lookup e) (c_kept ls target))) (dat (einsum ops (c_kept ls target))) rO)
    with (ND.get rO (map (lookup sz) (c_kept ls target)) (dat (einsum ops (c_kept ls target))) (map (lookup e) (c_kept ls target))).
  rewrite <- Eshp.
  change (den_nd (c_kept ls target) (einsum ops (c_kept ls target)) e = den a e).
  rewrite einsum_den.
  - assert (Es : summed R ops (c_kept ls target) = []).
    { unfold summed. assert (F : filter (fun l => negb (memb l (c_kept ls target))) (flat_map fst ops) = []).
      { apply (proj2 (filter_nil_iff_gen _ _)). intros l Hin. apply negb_false_iff, memb_In.
        unfold ops in Hin. simpl in Hin. rewrite app_nil_r in Hin.
        unfold c_kept. apply filter_In. split; [|apply memb_In; exact Hin].
        rewrite forallb_forall in Hsub. apply memb_In. apply Hsub. exact Hin. }
      rewrite F. reflexivity. }
    rewrite Es. simpl. rewrite (sum_env_nil R rO rI radd rmul rsub ropp Rth). simpl.
    unfold ops. apply (term_single R rO rI radd rmul rsub ropp Rth).
  - intros l Hin. unfold ops. rewrite (sizes_single R). simpl.
    unfold c_kept in Hin. apply filter_In in Hin. destruct Hin as [Hin Hm].
    unfold letters in Hin. apply in_map_iff in Hin. destruct Hin as (d & <- & Hd).
    change (combine ls (dshape (adims a))) with sz. rewrite (Hcomp d Hd Hm). apply Hr. exact Hd.
Qed.

(* a target that lacks a source dimension is refused *)
Theorem cast_refuses_missing (a : farr) (target : dimset) l :
  In l (aletters R a) -> ~ In l (letters target) -> cast_values_to R rO rI radd rmul a target = Err.
Proof.
  intros Hin Hnot. unfold cast_values_to.
  destruct (forallb (fun l0 => memb l0 (letters target)) (aletters R a)) eqn:E; [|reflexivity].
  rewrite forallb_forall in E. specialize (E l Hin). apply memb_In in E. contradiction.
Qed.

(* n-fold sum of one value *)
Definition nmul (n : nat) (x : R) : R := sum rO radd (repeat x n).

Lemma all_env_length L : length (all_env L) = size (map snd L).
Proof.
  induction L as [|[l n] L IH]; simpl; auto.
  fold (size (map snd L)). rewrite <- IH. clear IH.
  generalize 0. induction n as [|n IHn]; intros s; simpl; auto.
  rewrite app_length, map_length, IHn. reflexivity.
Qed.

Lemma sum_env_const L c : sum_env L (fun _ => c) = nmul (size (map snd L)) c.
Proof.
  unfold Env.sum_env, nmul. rewrite <- all_env_length.
  induction (all_env L) as [|x l IH]; simpl; auto. rewrite IH. reflexivity.
Qed.

(* the letters the cast adds, with the target's sizes *)
Definition added (a : farr) (target : dimset) : list letter :=
  filter (fun l => negb (memb l (aletters R a))) (letters target).

Lemma lookup_lsizes_target (target : dimset) d :
  NoDup (letters target) -> In d target -> lookup (combine (letters target) (dshape target)) (dletter d) = dlen d.
Proof.
  induction target as [|d0 t IH]; intros Hnd Hin; [contradiction|].
  unfold letters, dshape in *. simpl in *. inversion Hnd as [|? ? Hn Hnd']; subst.
  destruct Hin as [->|Hin]; [rewrite Nat.eqb_refl; reflexivity|].
  destruct (Nat.eqb_spec (dletter d0) (dletter d)) as [E|_]; [|apply IH; auto].
  exfalso. apply Hn. rewrite E. apply in_map. exact Hin.
Qed.

(* summing the cast back over the added dimensions gives the source times the number of added label
   combinations *)
Theorem cast_sum_back (a b : farr) (target : dimset) v e :
  wf a -> NoDup (letters target) ->
  (forall d, In d target -> memb (dletter d) (aletters R a) = true -> lookup (lsizes a) (dletter d) = dlen d) ->
  cast_to R rO rI radd rmul a target = Ok b ->
  sum_values_to R rO rI radd rmul b (aletters R a) = Ok v ->
  in_range (lsizes a) e (aletters R a) ->
  den_nd (aletters R a) v e
  = nmul (size (map (lookup (combine (letters target) (dshape target))) (added a target))) (den a e).
Proof.
  intros Hwf Hnt Hcomp Hc Hs Hr. unfold cast_to in Hc.
  destruct (cast_values_to R rO rI radd rmul a target) as [vc|] eqn:Ec; [|discriminate]. cbn [bind] in Hc.
  unfold construct in Hc.
  destruct (shape_eqb (shp vc) (dshape target) && Nat.eqb (length (dat vc)) (size (shp vc))) eqn:Eok; [|discriminate].
  injection Hc as <-. apply andb_true_iff in Eok. destruct Eok as [Esh Elen].
  unfold shape_eqb in Esh. destruct (list_eq_dec Nat.eq_dec (shp vc) (dshape target)) as [Esh'|]; [|discriminate].
  apply Nat.eqb_eq in Elen.
  set (b := mk_farr target (dat vc)).
  assert (Hwfb : wf b). { split; [exact Hnt|]. simpl. rewrite Elen, Esh'. reflexivity. }
  assert (Hsub : incl (aletters R a) (letters target)).
  { unfold cast_values_to in Ec. destruct (forallb (fun l => memb l (letters target)) (aletters R a)) eqn:E; [|discriminate].
    apply forallb_memb_incl. exact E. }
  assert (Hrb : in_range (lsizes b) e (aletters R a)).
  { intros l Hl. specialize (Hr l Hl). unfold lsizes, b, aletters. simpl.
    assert (Hlt : In l (letters target)) by (apply Hsub; exact Hl).
    unfold letters in Hlt. apply in_map_iff in Hlt. destruct Hlt as (d & <- & Hd).
    rewrite (lookup_lsizes_target target d Hnt Hd). rewrite <- (Hcomp d Hd); [exact Hr|]. apply memb_In. exact Hl. }
  rewrite (sum_values_to_den R rO rI radd rmul rsub ropp Rth b (aletters R a) v e Hwfb Hs Hrb).
  assert (Eo : others R b (aletters R a) = added a target) by reflexivity.
  rewrite Eo.
  rewrite (sum_env_ext_in R rO radd _ _ (fun _ => den a e)).
  - rewrite sum_env_const. unfold sized. rewrite map_map. simpl. reflexivity.
  - intros e' He'.
    assert (Hk : map fst e' = added a target).
    { rewrite (all_env_fst _ _ He'). apply sized_fst. }
    assert (Ed : den b (e' ++ e) = den a (e' ++ e)).
    { change (den b (e' ++ e)) with (den_nd (letters target) (mk_nd (dshape target) (dat vc)) (e' ++ e)).
      rewrite <- Esh'. replace (mk_nd (shp vc) (dat vc)) with vc by (destruct vc; reflexivity).
      refine (proj1 (cast_values_to_den a target vc (e' ++ e) Hwf Hnt Ec _ Hcomp)).
      intros d Hd. rewrite lookup_app, Hk.
      destruct (memb (dletter d) (added a target)) eqn:Em.
      - pose proof (all_env_lt _ _ (dletter d) He') as Hlt.
        rewrite sized_fst in Hlt. apply memb_In in Em. specialize (Hlt Em).
        unfold sized in Hlt.
        assert (El : lookup (map (fun l => (l, lookup (lsizes b) l)) (added a target)) (dletter d) = lookup (lsizes b) (dletter d)).
        { clear -Em. induction (added a target) as [|x l IH]; [contradiction|]. simpl.
          destruct (Nat.eqb_spec x (dletter d)) as [->|Hne]; [reflexivity|]. apply IH. destruct Em; [contradiction|auto]. }
        rewrite El in Hlt. unfold lsizes, b, aletters in Hlt. simpl in Hlt.
        rewrite (lookup_lsizes_target target d Hnt Hd) in Hlt. exact Hlt.
      - assert (Hina : memb (dletter d) (aletters R a) = true).
        { destruct (memb (dletter d) (aletters R a)) eqn:Ea; auto. exfalso.
          apply memb_false in Em. apply Em. unfold added. apply filter_In. split.
          - unfold letters. apply in_map. exact Hd.
          - rewrite Ea. reflexivity. }
        rewrite <- (Hcomp d Hd Hina). apply Hr. apply memb_In. exact Hina. }
    rewrite Ed. apply den_ext. intros l Hl. rewrite lookup_app, Hk.
    destruct (memb l (added a target)) eqn:Em; auto.
    apply memb_In in Em. unfold added in Em. apply filter_In in Em. destruct Em as [_ Em].
    apply negb_true_iff, memb_false in Em. contradiction.
Qed.

End P.
