(* C02: for a NaN-free system the balance of a process is, entry by entry, the sum of its contributions
   (minus each flow leaving, plus each flow entering, minus the net addition of each attached stock, plus
   the net addition of every stock on the system environment), each summed over all labels of the
   dimensions that are not common to all of the process's contributions. *)
From Coq Require Import List Arith Lia Bool ZArith QArith Qcanon Ring_theory.
Import ListNotations.
From Flodym Require Import Base.ND Base.Env Np.Einsum Model.Dims Model.Array Model.Instances Model.System
  Proofs.ArrayLemmas Proofs.FoldAdd Proofs.Lift.
Local Open Scope nat_scope.

Definition qarr := farr Qc.
Definition qlift : qarr -> fO := lift Qc oq Some.

Record qflow := mk_qflow { qf_name : nat; qf_from : nat; qf_to : nat; qf_arr : qarr }.
Record qstock := mk_qstock { qs_proc : option nat; qs_inflow : qarr; qs_outflow : qarr; qs_stock : qarr }.
Record qsystem := mk_qsystem { q_nproc : nat; q_flows : list qflow; q_stocks : list qstock }.

(* the NaN-free system with these values *)
Definition lift_sys (s : qsystem) : system :=
  mk_system (q_nproc s)
    (map (fun f => mk_flow (qf_name f) (qf_from f) (qf_to f) (qlift (qf_arr f))) (q_flows s))
    (map (fun sr => mk_stockrec (qs_proc sr) (qlift (qs_inflow sr)) (qlift (qs_outflow sr)) (qlift (qs_stock sr))) (q_stocks s)).

Definition q_add (x y : qarr) : res qarr := binop_common Qc 0%Qc 1%Qc Qcplus Qcmult Qcplus x y.
Definition q_sub (x y : qarr) : res qarr := binop_common Qc 0%Qc 1%Qc Qcplus Qcmult Qcminus x y.
Definition q_neg (x : qarr) : qarr := amap Qc Qcopp x.

(* the contributions of process p, as rational arrays, in the order the code appends them *)
Definition qcontributions (s : qsystem) (p : nat) : res (list qarr) :=
  let fl := flat_map (fun f => (if Nat.eqb (qf_from f) p then [q_neg (qf_arr f)] else [])
                               ++ (if Nat.eqb (qf_to f) p then [qf_arr f] else [])) (q_flows s) in
  st <- mapM (fun sr =>
        match qs_proc sr with
        | None => Ok []
        | Some q =>
            ch <- q_sub (qs_inflow sr) (qs_outflow sr) ;;
            Ok ((if Nat.eqb q p then [q_neg ch] else []) ++ (if Nat.eqb p 0 then [ch] else []))
        end) (q_stocks s) ;;
  Ok (fl ++ concat st).

Lemma o_add_lift x y : o_add (qlift x) (qlift y) = res_map (lift Qc oq Some) (q_add x y).
Proof. apply (binop_common_hom Qc oq 0%Qc 1%Qc Qcplus Qcmult o0 o1 oadd omul Some); reflexivity. Qed.

Lemma o_sub_lift x y : o_sub (qlift x) (qlift y) = res_map (lift Qc oq Some) (q_sub x y).
Proof. apply (binop_common_hom Qc oq 0%Qc 1%Qc Qcplus Qcmult o0 o1 oadd omul Some); reflexivity. Qed.

Lemma o_neg_lift x : o_neg (qlift x) = qlift (q_neg x).
Proof. apply (amap_hom Qc oq Some). reflexivity. Qed.

Theorem contributions_lift s p :
  contributions (lift_sys s) p = res_map (map qlift) (qcontributions s p).
Proof.
  unfold contributions, qcontributions, lift_sys. cbn [sy_flows sy_stocks].
  assert (Efl : flat_map (fun f => (if Nat.eqb (f_from f) p then [o_neg (f_arr f)] else [])
                                   ++ (if Nat.eqb (f_to f) p then [f_arr f] else []))
                  (map (fun f => mk_flow (qf_name f) (qf_from f) (qf_to f) (qlift (qf_arr f))) (q_flows s))
                = map qlift (flat_map (fun f => (if Nat.eqb (qf_from f) p then [q_neg (qf_arr f)] else [])
                                                ++ (if Nat.eqb (qf_to f) p then [qf_arr f] else [])) (q_flows s))).
  { induction (q_flows s) as [|f fs IH]; simpl; auto. rewrite IH, map_app. f_equal.
    destruct (Nat.eqb (qf_from f) p), (Nat.eqb (qf_to f) p); simpl; rewrite ?o_neg_lift; reflexivity. }
  rewrite Efl. clear Efl.
  set (FL := flat_map _ (q_flows s)).
  assert (Est : mapM (fun sr => match s_proc sr with
                                | None => Ok []
                                | Some q => ch <- o_sub (s_inflow sr) (s_outflow sr) ;;
                                            Ok ((if Nat.eqb q p then [o_neg ch] else []) ++ (if Nat.eqb p 0 then [ch] else []))
                                end)
                  (map (fun sr => mk_stockrec (qs_proc sr) (qlift (qs_inflow sr)) (qlift (qs_outflow sr)) (qlift (qs_stock sr))) (q_stocks s))
                = res_map (map (map qlift))
                    (mapM (fun sr => match qs_proc sr with
                                     | None => Ok []
                                     | Some q => ch <- q_sub (qs_inflow sr) (qs_outflow sr) ;;
                                                 Ok ((if Nat.eqb q p then [q_neg ch] else []) ++ (if Nat.eqb p 0 then [ch] else []))
                                     end) (q_stocks s))).
  { induction (q_stocks s) as [|sr srs IH]; simpl; auto. rewrite IH. clear IH.
    destruct (qs_proc sr) as [q|]; simpl.
    - rewrite o_sub_lift. destruct (q_sub (qs_inflow sr) (qs_outflow sr)) as [ch|]; simpl; [|reflexivity].
      destruct (mapM _ srs); simpl; [|reflexivity]. f_equal. f_equal.
      destruct (Nat.eqb q p), (Nat.eqb p 0); simpl; rewrite ?o_neg_lift; reflexivity.
    - destruct (mapM _ srs); simpl; reflexivity. }
  rewrite Est. clear Est.
  destruct (mapM _ (q_stocks s)) as [st|]; simpl; [|reflexivity].
  f_equal. rewrite map_app. f_equal. rewrite concat_map. reflexivity.
Qed.

Lemma fold_bind_err {X Y} (f : X -> Y -> res X) l : fold_left (fun acc p => a <- acc ;; f a p) l Err = Err.
Proof. induction l; simpl; auto. Qed.

Lemma fold_add_lift (cs : list qarr) (a0 : qarr) :
  fold_left (fun acc p => a <- acc ;; o_add a p) (map qlift cs) (Ok (qlift a0))
  = res_map (lift Qc oq Some) (fold_left (fun acc p => a <- acc ;; q_add a p) cs (Ok a0)).
Proof.
  revert a0. induction cs as [|c cs IH]; intros a0; simpl; auto.
  rewrite o_add_lift. destruct (q_add a0 c) as [a1|]; simpl.
  - apply IH.
  - rewrite !fold_bind_err. reflexivity.
Qed.

Theorem py_sum_lift (cs : list qarr) :
  py_sum (map qlift cs)
  = res_map (option_map (lift Qc oq Some)) (g_sum Qc 0%Qc 1%Qc Qcplus Qcmult cs).
Proof.
  destruct cs as [|c cs]; [reflexivity|].
  assert (E : g_sum Qc 0%Qc 1%Qc Qcplus Qcmult (c :: cs)
              = (a0 <- q_add c (full Qc (adims c) 0%Qc) ;;
                 a <- fold_left (fun acc p => a <- acc ;; q_add a p) cs (Ok a0) ;; Ok (Some a))) by reflexivity.
  rewrite E. clear E. cbn [map py_sum].
  change (adims (qlift c)) with (adims c).
  change (full oq (adims c) o0) with (full oq (adims c) (Some 0%Qc)).
  rewrite (full_hom Qc oq Some). fold qlift. rewrite o_add_lift.
  destruct (q_add c (full Qc (adims c) 0%Qc)) as [a0|]; cbn [res_map bind]; [|reflexivity].
  fold qlift. rewrite fold_add_lift.
  destruct (fold_left (fun acc p => a <- acc ;; q_add a p) cs (Ok a0)); reflexivity.
Qed.

Definition Qc_ring : ring_theory 0%Qc 1%Qc Qcplus Qcmult Qcminus Qcopp eq := Qcrt.

(* the balance of a process with at least one contribution *)
Theorem balance_closed_form (s : qsystem) (p : nat) (G : env) (c1 : qarr) (cs : list qarr) (b : fO) :
  qcontributions s p = Ok (c1 :: cs) ->
  Forall (wf Qc) (c1 :: cs) -> Forall (agree Qc G) (c1 :: cs) ->
  balance (lift_sys s) p = Ok (Some b) ->
  exists r : qarr,
    b = qlift r
    /\ adims r = filter (fun d => forallb (fun c => memb (dletter d) (aletters Qc c)) cs) (adims c1)
    /\ forall e, in_range G e (aletters Qc r) ->
         den Qc 0%Qc r e = msum Qc 0%Qc Qcplus (c1 :: cs) (aletters Qc r) e.
Proof.
  intros Hc Hw Ha Hb. unfold balance, balance_v in Hb.
  rewrite contributions_lift, Hc in Hb. cbn [res_map bind map] in Hb.
  change (qlift c1 :: map qlift cs) with (map qlift (c1 :: cs)) in Hb.
  rewrite py_sum_lift in Hb.
  destruct (g_sum Qc 0%Qc 1%Qc Qcplus Qcmult (c1 :: cs)) as [[r|]|] eqn:Eg; simpl in Hb; try discriminate.
  injection Hb as <-. exists r. split; [reflexivity|].
  apply (g_sum_spec Qc 0%Qc 1%Qc Qcplus Qcmult Qcminus Qcopp Qc_ring G c1 cs r Hw Ha Eg).
Qed.

(* a process without any contribution has the scalar balance 0 *)
Theorem balance_empty (s : qsystem) (p : nat) :
  qcontributions s p = Ok [] -> balance (lift_sys s) p = Ok (Some (mk_farr [] [o0])).
Proof.
  intros Hc. unfold balance, balance_v. rewrite contributions_lift, Hc. reflexivity.
Qed.
