(* The algebra behind C03 / C09 / C10 / C16, over an arbitrary field, for one label column:
   w   : whole-period inflow of each cohort,  sf : lower-triangular survival table,
   pdf : outflow probabilities (negative differences of sf),  dt : interval lengths. *)
From Coq Require Import List Arith Lia Ring_theory Field_theory Ring Field Bool.
Import ListNotations.
From Flodym Require Import Base.ND.

Section A.
Variable F : Type.
Variables (fO fI : F) (fadd fmul fsub : F -> F -> F) (fopp : F -> F) (fdiv : F -> F -> F) (finv : F -> F).
Variable Fth : field_theory fO fI fadd fmul fsub fopp fdiv finv eq.
Add Field FfieldA : Fth.
Notation "x + y" := (fadd x y) : rs. Notation "x * y" := (fmul x y) : rs.
Notation "x - y" := (fsub x y) : rs. Notation "x / y" := (fdiv x y) : rs.
Notation sumF := (sum fO fadd).
Local Open Scope rs.

Definition Rth : ring_theory fO fI fadd fmul fsub fopp eq := F_R Fth.

Definition ssum (n : nat) (f : nat -> F) : F := sumF (map f (seq 0 n)).

Lemma ssum_ext n f g : (forall c, c < n -> f c = g c) -> ssum n f = ssum n g.
Proof. intros H. unfold ssum. f_equal. apply map_ext_in. intros c Hc. apply in_seq in Hc. apply H. lia. Qed.

Lemma ssum_add n f g : ssum n (fun c => f c + g c) = ssum n f + ssum n g.
Proof. unfold ssum. apply (sum_map_add F fO fI fadd fmul fsub fopp Rth). Qed.

Lemma ssum_scal n k f : ssum n (fun c => k * f c) = k * ssum n f.
Proof. unfold ssum. apply (sum_map_scal F fO fI fadd fmul fsub fopp Rth). Qed.

Lemma ssum_scal_r n k f : ssum n (fun c => f c * k) = ssum n f * k.
Proof. unfold ssum. apply (sum_map_scal_r F fO fI fadd fmul fsub fopp Rth). Qed.

Lemma ssum_zero n : ssum n (fun _ => fO) = fO.
Proof. unfold ssum. apply (sum_map_zero F fO fI fadd fmul fsub fopp Rth). Qed.

Lemma ssum_sub n f g : ssum n (fun c => f c - g c) = ssum n f - ssum n g.
Proof.
  transitivity (ssum n (fun c => f c + (fopp fI) * g c)).
  - apply ssum_ext. intros. ring.
  - rewrite ssum_add, ssum_scal. ring.
Qed.

Lemma ssum_single n t f : t < n -> ssum n (fun c => if Nat.eqb c t then f c else fO) = f t.
Proof.
  intros Ht. unfold ssum. apply (sum_single F fO fI fadd fmul fsub fopp Rth Nat.eqb).
  - intros a b. apply Nat.eqb_eq. - apply seq_NoDup. - apply in_seq. lia.
Qed.

Lemma ssum_S n f : ssum (S n) f = ssum n f + f n.
Proof. unfold ssum. rewrite seq_S, map_app, (sum_app F fO fI fadd fmul fsub fopp Rth). simpl. ring. Qed.

(* a sum over cohorts that vanish beyond t can be cut at t *)
Lemma ssum_cut n t f : t < n -> (forall c, t < c -> c < n -> f c = fO) -> ssum n f = ssum (S t) f.
Proof.
  intros Ht Hz. induction n as [|n IH]; [lia|].
  destruct (Nat.eq_dec t n) as [->|Hne]; auto.
  rewrite ssum_S, IH by (try lia; intros; apply Hz; lia). rewrite Hz by lia. ring.
Qed.

Variable sf : nat -> nat -> F.
Variable n : nat.
Hypothesis lower : forall t c, t < c -> sf t c = fO.

Definition pdf (t c : nat) : F :=
  if Nat.ltb t c then fO else if Nat.eqb t c then fI - sf c c else sf (t - 1) c - sf t c.

Definition sfprev (t c : nat) : F := if Nat.eqb t 0 then fO else sf (t - 1) c.

Lemma sf_step t c : sf t c - sfprev t c = (if Nat.eqb c t then fI else fO) - pdf t c.
Proof.
  unfold pdf, sfprev. destruct (Nat.ltb_spec t c) as [Hlt|Hge].
  - rewrite (lower t c Hlt). destruct (Nat.eqb_spec c t); [lia|].
    destruct (Nat.eqb_spec t 0); [ring|]. rewrite (lower (t - 1) c) by lia. ring.
  - destruct (Nat.eqb_spec t c) as [->|Hne].
    + rewrite Nat.eqb_refl. destruct (Nat.eqb_spec c 0); [ring|]. rewrite (lower (c - 1) c) by lia. ring.
    + destruct (Nat.eqb_spec c t); [lia|]. destruct (Nat.eqb_spec t 0); [lia|]. ring.
Qed.

(* stock and outflow of a vector of whole-period cohort inflows *)
Variable w : nat -> F.
Variable dt : nat -> F.
Definition stock (t : nat) : F := ssum n (fun c => w c * sf t c).
Definition outflow (t : nat) : F := ssum n (fun c => (w c * pdf t c) * (fI / dt t)).
Definition stock_prev (t : nat) : F := if Nat.eqb t 0 then fO else stock (t - 1).

(* mass balance: stock change = whole-period inflow minus whole-period outflow *)
Theorem balance t : t < n -> dt t <> fO ->
  stock t - stock_prev t = w t - dt t * outflow t.
Proof.
  intros Ht Hd. unfold stock_prev, stock, outflow.
  assert (E : (if Nat.eqb t 0 then fO else ssum n (fun c => w c * sf (t - 1) c)) = ssum n (fun c => w c * sfprev t c)).
  { unfold sfprev. destruct (Nat.eqb t 0).
    - rewrite (ssum_ext n _ (fun _ => fO)) by (intros; ring). rewrite ssum_zero. reflexivity.
    - reflexivity. }
  rewrite E. rewrite <- ssum_sub.
  rewrite (ssum_ext n _ (fun c => (if Nat.eqb c t then w c else fO) - w c * pdf t c)).
  2:{ intros c Hc. transitivity (w c * (sf t c - sfprev t c)); [ring|]. rewrite sf_step.
      destruct (Nat.eqb c t); ring. }
  rewrite ssum_sub, ssum_single by auto.
  rewrite ssum_scal_r. field. exact Hd.
Qed.

(* survival + cumulated outflow probabilities = 1 *)
Theorem pdf_telescopes c t : c <= t -> sf t c + ssum (S t) (fun tau => pdf tau c) = fI.
Proof.
  intros Hct. induction t as [|t IH].
  - assert (c = 0) by lia. subst. unfold ssum; simpl. unfold pdf; simpl. ring.
  - destruct (Nat.eq_dec c (S t)) as [->|Hne].
    + rewrite ssum_S. rewrite (ssum_ext (S t) _ (fun _ => fO)).
      2:{ intros tau Ht. unfold pdf. destruct (Nat.ltb_spec tau (S t)); [reflexivity | lia]. }
      rewrite ssum_zero. unfold pdf. rewrite Nat.ltb_irrefl, Nat.eqb_refl. ring.
    + rewrite ssum_S. assert (Hle : c <= t) by lia. specialize (IH Hle).
      unfold pdf at 2. destruct (Nat.ltb_spec (S t) c); [lia|]. destruct (Nat.eqb_spec (S t) c); [lia|].
      replace (S t - 1)%nat with t by lia.
      transitivity (sf t c + ssum (S t) (fun tau => pdf tau c)); [ring | exact IH].
Qed.

(* each cohort is conserved: what entered = what is still in stock + what has left so far *)
Theorem cohort_conserved c t : c <= t ->
  w c = w c * sf t c + ssum (S t) (fun tau => w c * pdf tau c).
Proof.
  intros H. rewrite ssum_scal.
  transitivity (w c * (sf t c + ssum (S t) (fun tau => pdf tau c))); [rewrite pdf_telescopes by auto; ring | ring].
Qed.

(* causality: the stock at t only looks at cohorts <= t *)
Theorem stock_causal t : t < n -> stock t = ssum (S t) (fun c => w c * sf t c).
Proof. intros Ht. unfold stock. apply ssum_cut; auto. intros c Hc _. rewrite lower by lia. ring. Qed.

End A.

(* linearity in the cohort inflows *)
Section Lin.
Variable F : Type.
Variables (fO fI : F) (fadd fmul fsub : F -> F -> F) (fopp : F -> F) (fdiv : F -> F -> F) (finv : F -> F).
Variable Fth : field_theory fO fI fadd fmul fsub fopp fdiv finv eq.
Add Field FfieldL : Fth.
Notation "x + y" := (fadd x y) : rs. Notation "x * y" := (fmul x y) : rs.
Local Open Scope rs.

Theorem stock_linear sf n a b w1 w2 t :
  stock F fO fadd fmul sf n (fun c => a * w1 c + b * w2 c) t
  = a * stock F fO fadd fmul sf n w1 t + b * stock F fO fadd fmul sf n w2 t.
Proof.
  unfold stock.
  rewrite (ssum_ext F fO fadd n _ (fun c => a * (w1 c * sf t c) + b * (w2 c * sf t c))) by (intros; ring).
  rewrite (ssum_add F fO fI fadd fmul fsub fopp fdiv finv Fth).
  rewrite !(ssum_scal F fO fI fadd fmul fsub fopp fdiv finv Fth). reflexivity.
Qed.

Theorem outflow_linear sf n dt a b w1 w2 t :
  outflow F fO fI fadd fmul fsub fdiv sf n (fun c => a * w1 c + b * w2 c) dt t
  = a * outflow F fO fI fadd fmul fsub fdiv sf n w1 dt t + b * outflow F fO fI fadd fmul fsub fdiv sf n w2 dt t.
Proof.
  unfold outflow.
  rewrite (ssum_ext F fO fadd n _ (fun c => a * ((w1 c * pdf F fO fI fsub sf t c) * (fdiv fI (dt t)))
                                           + b * ((w2 c * pdf F fO fI fsub sf t c) * (fdiv fI (dt t))))) by (intros; ring).
  rewrite (ssum_add F fO fI fadd fmul fsub fopp fdiv finv Fth).
  rewrite !(ssum_scal F fO fI fadd fmul fsub fopp fdiv finv Fth). reflexivity.
Qed.
End Lin.
