(* C14: "Lookup by name, letter or position, membership, index, size, shape and total size agree with that order": in a set with
   pairwise different letters, the dimension at position i is the one found by its letter, index(letter) is i, its size is the i-th
   entry of the shape, membership by letter is membership in the list of letters, and the total size is the product of the shape. *)
From Coq Require Import List Arith Lia Bool.
Import ListNotations.
From Flodym Require Import Base.ND Base.Env Np.Einsum Model.Dims Proofs.C14Proofs.
Local Open Scope nat_scope.

Lemma index_of_letters ds i d : NoDup (letters ds) -> nth_error ds i = Some d -> index_of (dletter d) (letters ds) = Some i.
Proof.
  revert i. induction ds as [|d0 ds IH]; intros i Hn Hi; [destruct i; discriminate|].
  cbn [letters map] in *. inversion Hn as [|? ? H0 Hn']; subst. destruct i as [|i]; simpl in Hi.
  - injection Hi as ->. simpl. rewrite Nat.eqb_refl. reflexivity.
  - simpl. destruct (Nat.eqb_spec (dletter d0) (dletter d)) as [E|_].
    + exfalso. apply H0. rewrite E. apply in_map. apply (nth_error_In _ _ Hi).
    + fold (letters ds). rewrite (IH i Hn' Hi). reflexivity.
Qed.

Theorem lookup_by_letter_is_lookup_by_position ds i d :
  NoDup (letters ds) -> nth_error ds i = Some d ->
  find_key ds (KLetter (dletter d)) = Some d
  /\ ds_index ds (KLetter (dletter d)) = Some i
  /\ nth_error (dshape ds) i = Some (dlen d)
  /\ has_key ds (KLetter (dletter d)) = true.
Proof.
  intros Hn Hi. pose proof (find_letter_in ds d Hn (nth_error_In _ _ Hi)) as Hf.
  split; [exact Hf|]. split.
  - unfold ds_index. cbn [find_key]. rewrite Hf. apply index_of_letters; assumption.
  - split; [unfold dshape; apply map_nth_error; exact Hi|]. unfold has_key. cbn [find_key]. rewrite Hf. reflexivity.
Qed.

Theorem membership_by_letter ds l : has_key ds (KLetter l) = memb l (letters ds).
Proof.
  unfold has_key. cbn [find_key]. induction ds as [|d ds IH]; [reflexivity|]. cbn [find_letter letters map].
  unfold memb in *. cbn [existsb]. rewrite (Nat.eqb_sym l (dletter d)). destruct (Nat.eqb (dletter d) l); [reflexivity|]. exact IH.
Qed.

Theorem total_size_is_product_of_shape ds : total_size ds = fold_right Nat.mul 1 (map dlen ds).
Proof. reflexivity. Qed.
