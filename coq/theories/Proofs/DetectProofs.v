(* C11 on the model of the layout recognition: the long table that to_df produces (one column per dimension,
   labelled by the dimension's name, and one value column) is always recognised and read back into the identical
   array — whatever the values are, also when they coincide with the items of a dimension.  Before the repair
   ("a dimension that already has its column is skipped") that was false: witness below. *)
From Coq Require Import List Arith Lia Bool ZArith QArith Qcanon.
Import ListNotations.
From Flodym Require Import Base.ND Base.Env Np.Einsum Np.Index Model.Dims Model.Array Model.SubArray Model.Instances
  Model.DF Model.Detect Proofs.C14Proofs Proofs.C01Proofs Proofs.DFProofs.
Local Open Scope nat_scope.

(* the cell holding an item of a dimension, read correctly under every coercion *)
Definition item_ent (it : nat) : ent := mk_ent it (Some it) it VBad.

(* a long table from logical rows (labels in dimension order, value) *)
Notation lrow := (list nat * Qc)%type.

Definition dim_column (rows : list lrow) (j : nat) (d : tdim) : column :=
  (name_ent d, map (fun r => item_ent (nth j (fst r) 0)) rows).

Definition value_column (vlab : ent) (venc : Qc -> ent) (rows : list lrow) : column :=
  (vlab, map (fun r => venc (snd r)) rows).

Definition long_cols (tds : list tdim) (vlab : ent) (venc : Qc -> ent) (rows : list lrow) : list column :=
  map (fun jd => dim_column rows (fst jd) (snd jd)) (combine (seq 0 (length tds)) tds) ++ [value_column vlab venc rows].

(* to_df(index=False) of the array a : every entry once, in row-major order *)
Definition array_rows (ds : dimset) (vals : list Qc) : list lrow :=
  map (fun idx => (labels_of ds idx, get QO (dshape ds) vals idx)) (all_idx (dshape ds)).

Definition long_table (tds : list tdim) (vlab : ent) (venc : Qc -> ent) (a : fQ) : table :=
  mk_table [] None (long_cols tds vlab venc (array_rows (map td tds) (avals a))).

(* what the labels have to satisfy *)
Record labels_ok (tds : list tdim) (vlab : ent) (venc : Qc -> ent) : Prop := {
  names_distinct : NoDup (map td_name tds);
  names_not_letters : forall d d', In d tds -> In d' tds -> td_name d <> td_letter d';
  names_not_items : forall d d', In d tds -> In d' tds -> ~ In (td_name d) (ditems (td d'));
  value_not_name : forall d, In d tds -> e_raw vlab <> td_name d;
  value_not_letter : forall d, In d tds -> e_raw vlab <> td_letter d;
  value_label_no_items : forall d, In d tds -> same_items [vlab] d = false;
  value_first_no_items : forall d es, In d tds -> same_items (vlab :: es) d = false;
  values_numeric : forall q, e_val (venc q) = VNum q
}.

Section P.
Variables (tds : list tdim) (vlab : ent) (venc : Qc -> ent).
Hypothesis Hok : labels_ok tds vlab venc.
Variable rows : list lrow.

Notation cols := (long_cols tds vlab venc rows).
Notation names := (map td_name tds).

Lemma labels_of_cols : map (fun c => e_raw (fst c)) cols = names ++ [e_raw vlab].
Proof.
  unfold long_cols. rewrite map_app, map_map. cbn [map fst value_column e_raw]. f_equal.
  clear Hok. generalize 0. induction tds as [|d l IH]; intros s; cbn [length seq combine map]; [reflexivity|].
  f_equal. apply IH.
Qed.

Lemma is_name_name d : In d tds -> is_name tds (td_name d) = true.
Proof. intros H. unfold is_name. apply existsb_exists. exists d. split; auto. apply Nat.eqb_refl. Qed.

Lemma is_name_value : is_name tds (e_raw vlab) = false.
Proof.
  unfold is_name. destruct (existsb _ tds) eqn:E; auto. apply existsb_exists in E. destruct E as (d & Hd & E).
  apply Nat.eqb_eq in E. exfalso. apply (value_not_name _ _ _ Hok d Hd). symmetry. exact E.
Qed.

Lemma find_by_letter_none c : (forall d, In d tds -> c <> td_letter d) -> find_by_letter tds c = None.
Proof.
  intros H. unfold find_by_letter. destruct (find _ tds) as [d|] eqn:E; auto.
  apply find_some in E. destruct E as [Hd E]. apply Nat.eqb_eq in E. exfalso. apply (H d Hd). symmetry. exact E.
Qed.

Lemma rename_letters_id : rename_letters tds cols = cols.
Proof.
  unfold rename_letters. rewrite <- (map_id cols) at 2. apply map_ext_in. intros c Hc.
  assert (Hl : In (e_raw (fst c)) (names ++ [e_raw vlab])) by (rewrite <- labels_of_cols; apply (in_map (fun c0 : column => e_raw (fst c0))); exact Hc).
  rewrite find_by_letter_none; [reflexivity|].
  intros d Hd. apply in_app_or in Hl. destruct Hl as [Hl|[<-|[]]].
  - apply in_map_iff in Hl. destruct Hl as (d0 & <- & Hd0). apply (names_not_letters _ _ _ Hok); auto.
  - apply (value_not_letter _ _ _ Hok); auto.
Qed.

Lemma dim_columns_are_names : dim_columns_of tds cols = names.
Proof.
  unfold dim_columns_of. rewrite labels_of_cols, filter_app. simpl. rewrite is_name_value, app_nil_r.
  assert (G : forall l, incl l tds -> filter (is_name tds) (map td_name l) = map td_name l).
  { induction l as [|d l IH]; intros Hi; simpl; auto. rewrite is_name_name by (apply Hi; left; auto). f_equal. apply IH.
    intros x Hx. apply Hi. right. exact Hx. }
  apply G. intros x Hx. exact Hx.
Qed.


(* a name is never mistaken for an item *)
Lemma same_items_name_first d d' es : In d tds -> In d' tds -> same_items (name_ent d :: es) d' = false.
Proof.
  intros Hd Hd'. unfold same_items. cbn [map]. unfold coerce at 1. destruct (td_ty d'); cbn [name_ent e_int e_str e_raw all_some].
  - reflexivity.
  - destruct (all_some (map (coerce TStr) es)); [|reflexivity]. cbn [forallb].
    replace (memb (td_name d) (ditems (td d'))) with false; [reflexivity|].
    symmetry. apply memb_false. apply (names_not_items _ _ _ Hok); auto.
  - destruct (all_some (map (coerce TNone) es)); [|reflexivity]. cbn [forallb].
    replace (memb (td_name d) (ditems (td d'))) with false; [reflexivity|].
    symmetry. apply memb_false. apply (names_not_items _ _ _ Hok); auto.
Qed.

Lemma first_row_silent : first_row_fires tds cols = false.
Proof.
  unfold first_row_fires, long_cols. destruct tds as [|d0 l] eqn:E.
  - reflexivity.
  - cbn [length seq combine map app dim_column fst snd].
    destruct (existsb _ (d0 :: l)) eqn:Ex; [|reflexivity]. apply existsb_exists in Ex. destruct Ex as (d' & Hd' & Hs).
    rewrite <- E in *. rewrite (same_items_name_first d0 d') in Hs; [discriminate | rewrite E; left; reflexivity | exact Hd'].
Qed.

Lemma others_are_value :
  filter (fun c : ent * list ent => negb (memb (e_raw (fst c)) names)) cols = [value_column vlab venc rows].
Proof.
  unfold long_cols. set (P := fun c : ent * list ent => negb (memb (e_raw (fst c)) names)).
  rewrite filter_app.
  assert (F1 : filter P (map (fun jd => dim_column rows (fst jd) (snd jd)) (combine (seq 0 (length tds)) tds)) = []).
  { apply (proj2 (C01Proofs.filter_nil_iff_gen _ _)). intros c Hc. apply in_map_iff in Hc. destruct Hc as ([j d] & <- & Hjd).
    unfold P. apply negb_false_iff, memb_In. cbn [dim_column fst name_ent e_raw]. apply in_map. apply in_combine_r in Hjd. exact Hjd. }
  match goal with |- ?X ++ _ = _ => replace X with (@nil column) by (symmetry; exact F1) end.
  cbn [filter app]. unfold P at 1. cbn [value_column fst].
  replace (memb (e_raw vlab) names) with false; [reflexivity|]. symmetry. apply memb_false. intros Hc.
  apply in_map_iff in Hc. destruct Hc as (d & E & Hd). apply (value_not_name _ _ _ Hok d Hd). symmetry. exact E.
Qed.

(* by-items recognition leaves the named table alone *)
Lemma by_items_step_id k : by_items_step true tds (cols, names) k = (cols, names).
Proof.
  unfold by_items_step. destruct (nth_error cols k) as [[lab es]|] eqn:E; [|reflexivity].
  destruct (memb (e_raw lab) names) eqn:Em; [reflexivity|].
  assert (Hn : find (fun d => negb (true && memb (td_name d) names) && same_items (uniq [] es) d) tds = None).
  { destruct (find _ tds) as [d|] eqn:Ef; [|reflexivity]. apply find_some in Ef. destruct Ef as [Hd Hf].
    assert (Hm : memb (td_name d) names = true) by (apply memb_In; apply in_map; exact Hd).
    rewrite Hm in Hf. discriminate. }
  rewrite Hn. reflexivity.
Qed.

Lemma by_items_id : by_items true tds cols names = (cols, names).
Proof.
  unfold by_items. cbv zeta.
  pose proof others_are_value as Ho.
  rewrite Ho.
  assert (Hex : existsb (fun d => negb (memb (td_name d) names) && same_items (map fst [value_column vlab venc rows]) d) tds = false).
  { destruct (existsb _ tds) eqn:E; [|reflexivity]. apply existsb_exists in E. destruct E as (d & Hd & E).
    replace (memb (td_name d) names) with true in E by (symmetry; apply memb_In; apply in_map; exact Hd). discriminate. }
  rewrite Hex. cbn [andb].
  generalize (seq 0 (length cols)). intros ks. induction ks as [|k ks IH]; cbn [fold_left]; [reflexivity|].
  rewrite by_items_step_id. exact IH.
Qed.

Lemma value_format_long : value_format tds cols names = Ok (FLong (e_raw vlab)).
Proof.
  unfold value_format. cbv zeta.
  pose proof others_are_value as Ho.
  rewrite Ho. cbn [map fst value_column].
  assert (Hn : find (same_items [vlab]) tds = None).
  { destruct (find _ tds) as [d|] eqn:Ef; [|reflexivity]. apply find_some in Ef. destruct Ef as [Hd Hf].
    rewrite (value_label_no_items _ _ _ Hok d Hd) in Hf. discriminate. }
  rewrite Hn. reflexivity.
Qed.


(* ---- the logical rows of the named long table ---- *)
Hypothesis Hlen : forall r, In r rows -> length (fst r) = length tds.

Lemma find_app_none {A} (f : A -> bool) l1 l2 : (forall x, In x l1 -> f x = false) -> find f (l1 ++ l2) = find f l2.
Proof. induction l1 as [|a l IH]; simpl; intros H; auto. rewrite H by (left; auto). apply IH. intros; apply H; right; auto. Qed.

Lemma column_of_value : column_of cols (e_raw vlab) = Some (snd (value_column vlab venc rows)).
Proof.
  unfold column_of, long_cols. rewrite find_app_none.
  - cbn [find value_column fst]. rewrite Nat.eqb_refl. reflexivity.
  - intros c Hc. apply in_map_iff in Hc. destruct Hc as ([j d] & <- & Hjd). cbn [dim_column fst name_ent e_raw].
    apply Nat.eqb_neq. intros E. apply in_combine_r in Hjd. apply (value_not_name _ _ _ Hok d Hjd). symmetry. exact E.
Qed.

Lemma column_of_dim j d : nth_error tds j = Some d -> column_of cols (td_name d) = Some (snd (dim_column rows j d)).
Proof.
  intros Hj. unfold column_of, long_cols.
  pose proof (names_distinct _ _ _ Hok) as Hnd.
  assert (G : forall l s k, NoDup (map td_name l) -> nth_error l k = Some d ->
              find (fun c : ent * list ent => Nat.eqb (e_raw (fst c)) (td_name d))
                   (map (fun jd => dim_column rows (fst jd) (snd jd)) (combine (seq s (length l)) l) ++ [value_column vlab venc rows])
              = Some (dim_column rows (s + k) d)).
  { induction l as [|d0 l IH]; intros s k Hn Hk; [destruct k; discriminate|].
    cbn [length seq combine map app find dim_column fst snd name_ent e_raw]. inversion Hn as [|? ? Hn0 Hn']; subst.
    destruct k as [|k]; simpl in Hk.
    - injection Hk as ->. rewrite Nat.eqb_refl. rewrite Nat.add_0_r. reflexivity.
    - destruct (Nat.eqb_spec (td_name d0) (td_name d)) as [E|_].
      + exfalso. apply Hn0. rewrite E. apply in_map. apply (nth_error_In _ _ Hk).
      + replace (s + S k) with (S s + k) by lia. apply IH; auto. }
  rewrite (G tds 0 j Hnd Hj). reflexivity.
Qed.

Lemma nrows_cols : nrows cols = length rows.
Proof.
  unfold nrows, long_cols. destruct tds as [|d l]; cbn [length seq combine map app dim_column value_column snd]; apply map_length.
Qed.

Lemma mapM_by_position {A B} (f : A -> res B) (g : nat -> B) (l : list A) s :
  (forall k a, nth_error l k = Some a -> f a = Ok (g (s + k))) -> mapM f l = Ok (map g (seq s (length l))).
Proof.
  revert s. induction l as [|a l IH]; intros s H; [reflexivity|]. cbn [mapM length seq map].
  rewrite (H 0 a eq_refl), Nat.add_0_r. cbn [bind]. rewrite (IH (S s)).
  - reflexivity.
  - intros k x Hk. replace (S s + k) with (s + S k) by lia. apply H. exact Hk.
Qed.

Lemma mapM_seq_nth {A B} (f : nat -> res B) (g : A -> B) (l : list A) s :
  (forall i a, nth_error l i = Some a -> f (s + i) = Ok (g a)) -> mapM f (seq s (length l)) = Ok (map g l).
Proof.
  revert s. induction l as [|a l IH]; intros s H; [reflexivity|]. cbn [length seq mapM map].
  pose proof (H 0 a eq_refl) as H0. rewrite Nat.add_0_r in H0. rewrite H0. cbn [bind]. rewrite (IH (S s)).
  - reflexivity.
  - intros i x Hi. replace (S s + i) with (s + S i) by lia. apply H. exact Hi.
Qed.

Lemma labels_row i r : nth_error rows i = Some r -> mapM (fun d => label_at cols names d i) tds = Ok (fst r).
Proof.
  intros Hi. pose proof (Hlen r (nth_error_In _ _ Hi)) as Hl.
  rewrite (mapM_by_position _ (fun j => nth j (fst r) 0) tds 0).
  - f_equal. rewrite <- Hl. symmetry. apply (list_as_nth (fst r) 0).
  - intros j d Hj. cbn [Nat.add]. unfold label_at.
    replace (memb (td_name d) names) with true by (symmetry; apply memb_In; apply in_map; apply (nth_error_In _ _ Hj)).
    rewrite (column_of_dim j d Hj). cbn [dim_column snd]. rewrite nth_error_map, Hi. cbn [option_map].
    unfold item_ent, coerce. destruct (td_ty d); reflexivity.
Qed.

Lemma long_rows_named : long_rows tds cols names (e_raw vlab) = Ok (map (fun r => mk_row Qc (fst r) (Some (snd r))) rows).
Proof.
  unfold long_rows. rewrite column_of_value. cbn [value_column snd]. rewrite nrows_cols.
  apply (mapM_seq_nth _ (fun r : lrow => mk_row Qc (fst r) (Some (snd r))) rows 0).
  intros i r Hi. cbn [Nat.add]. rewrite (labels_row i r Hi). cbn [bind].
  unfold value_at. rewrite nth_error_map, Hi. cbn [option_map]. rewrite (values_numeric _ _ _ Hok). reflexivity.
Qed.

End P.

Lemma labels_of_length ds idx : length idx = length ds -> length (labels_of ds idx) = length ds.
Proof.
  unfold labels_of. revert idx. induction ds as [|d ds IH]; intros [|i idx] H; simpl in *; try discriminate; auto.
Qed.

(* the table of to_df(index=False) is read back into the identical array, whatever its values *)
Theorem detect_roundtrip_long (tds : list tdim) (vlab : ent) (venc : Qc -> ent) (a : fQ) (lo hi : Z) :
  labels_ok tds vlab venc -> adims a = map td tds ->
  items_unique (map td tds) -> length (avals a) = size (dshape (map td tds)) ->
  convert true lo hi tds false false (long_table tds vlab venc a) = OValues (avals a).
Proof.
  intros Hok Hd Hu Hl. unfold convert, long_table. cbn [reset_index t_levels t_cols].
  set (rows := array_rows (map td tds) (avals a)).
  rewrite (rename_letters_id tds vlab venc Hok rows).
  rewrite (dim_columns_are_names tds vlab venc Hok rows).
  rewrite (first_row_silent tds vlab venc Hok rows).
  rewrite (by_items_id tds vlab venc Hok rows).
  rewrite (value_format_long tds vlab venc Hok rows).
  assert (Hlen : forall r, In r rows -> length (fst r) = length tds).
  { intros r Hr. unfold rows, array_rows in Hr. apply in_map_iff in Hr. destruct Hr as (idx & <- & Hi). cbn [fst].
    apply all_idx_in in Hi. apply Forall2_len in Hi. rewrite labels_of_length; [apply map_length|].
    rewrite Hi. unfold dshape. rewrite map_length. reflexivity. }
  rewrite (long_rows_named tds vlab venc Hok rows Hlen).
  assert (Er : map (fun r : list nat * Qc => mk_row Qc (fst r) (Some (snd r))) rows
               = to_rows Qc QO (fun x => Qc_eqb x QO) false (mk_farr (map td tds) (avals a))).
  { unfold rows, array_rows, to_rows. cbn [adims avals andb negb]. rewrite map_map.
    rewrite (filter_true (all_idx (dshape (map td tds)))). reflexivity. }
  rewrite Er.
  pose proof (roundtrip_long Qc QO (fun x => Qc_eqb x QO) (mk_farr (map td tds) (avals a)) Hu Hl) as RT.
  cbn [adims avals] in RT. rewrite RT. reflexivity.
Qed.

(* before the repair: counts 0, 1, 2 over the ages 0, 1, 2 (labels: 10 = "age", 11 = "a", 12 = "value") *)
Definition ex_age : tdim := mk_tdim (mk_dim 97 0 [0; 1; 2]) 10 11 TInt.
Definition ex_vlab : ent := mk_ent 12 None 12 VBad.
Definition ex_venc (q : Qc) : ent :=
  (* the cell 2.0 is the label 2 under Python's equality, and int(2.0) = 2 *)
  let n := Z.to_nat (Qnum (this q)) in mk_ent n (Some n) (100 + n) (VNum q).
Definition ex_array : fQ := mk_farr [td ex_age] [Q2Qc 2; Q2Qc 0; Q2Qc 1].

Lemma value_column_taken_for_dimension_before_fix :
  convert false 1700 2300 [ex_age] false false (long_table [ex_age] ex_vlab ex_venc ex_array) = ORefused
  /\ convert true 1700 2300 [ex_age] false false (long_table [ex_age] ex_vlab ex_venc ex_array) = OValues (avals ex_array).
Proof. split; vm_compute; reflexivity. Qed.

(* to_df() with its default index=True: the dimensions are the (named) levels of the index, the value column is
   the only column.  Resetting the index gives exactly the long table, for 1 or more dimensions. *)
Definition index_table (tds : list tdim) (vlab : ent) (venc : Qc -> ent) (reset_label : ent) (a : fQ) : table :=
  let rows := array_rows (map td tds) (avals a) in
  mk_table (map (fun jd => mk_level (Some (name_ent (snd jd))) (snd (dim_column rows (fst jd) (snd jd))) reset_label)
                (combine (seq 0 (length tds)) tds))
           None [value_column vlab venc rows].

Lemma reset_index_table tds vlab venc rl a lo hi : tds <> [] ->
  reset_index lo hi (index_table tds vlab venc rl a) = reset_index lo hi (long_table tds vlab venc a).
Proof.
  intros Hne. unfold index_table, long_table, long_cols. cbn [reset_index t_levels t_cols t_int_range].
  set (rows := array_rows (map td tds) (avals a)).
  assert (E : map level_column (map (fun jd => mk_level (Some (name_ent (snd jd))) (snd (dim_column rows (fst jd) (snd jd))) rl)
                                    (combine (seq 0 (length tds)) tds))
              = map (fun jd => dim_column rows (fst jd) (snd jd)) (combine (seq 0 (length tds)) tds)).
  { rewrite map_map. apply map_ext. intros [j d]. reflexivity. }
  destruct tds as [|d0 [|d1 l]]; [contradiction| |].
  - cbn [length seq combine map]. cbn [lv_name level_column lv_entries dim_column fst snd app]. reflexivity.
  - rewrite <- E. remember (combine (seq 0 (length (d0 :: d1 :: l))) (d0 :: d1 :: l)) as cs eqn:Ecs.
    destruct cs as [|c0 [|c1 cs]]; [discriminate | discriminate |]. reflexivity.
Qed.

Theorem detect_roundtrip_index (tds : list tdim) (vlab : ent) (venc : Qc -> ent) (rl : ent) (a : fQ) (lo hi : Z) :
  tds <> [] -> labels_ok tds vlab venc -> adims a = map td tds ->
  items_unique (map td tds) -> length (avals a) = size (dshape (map td tds)) ->
  convert true lo hi tds false false (index_table tds vlab venc rl a) = OValues (avals a).
Proof.
  intros Hne Hok Hd Hu Hl. rewrite <- (detect_roundtrip_long tds vlab venc a lo hi Hok Hd Hu Hl).
  unfold convert. rewrite (reset_index_table tds vlab venc rl a lo hi Hne). reflexivity.
Qed.
