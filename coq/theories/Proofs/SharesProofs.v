(* C07: get_shares_over divides each entry by the total over the given dimensions (by label); over a
   field the shares add up to one over those dimensions wherever that total is non-zero, and
   multiplying back restores the array. *)
From Coq Require Import List Arith Lia Ring_theory Field_theory Ring Field Permutation Bool.
Import ListNotations.
From Flodym Require Import Base.ND Base.Env Np.Einsum Model.Dims Model.Array Proofs.ArrayLemmas Proofs.C07Proofs
  Proofs.C14Proofs Proofs.C01Proofs Proofs.C04Proofs Proofs.SumProofs.

Section P.
Variable R : Type.
Variables (rO rI : R) (radd rmul rsub : R -> R -> R) (ropp : R -> R).
Variable Rth : ring_theory rO rI radd rmul rsub ropp eq.
Add Ring RringSh : Rth.
Notation sum := (sum rO radd).
Notation sum_env := (sum_env rO radd).
Notation farr := (farr R).
Notation den_nd := (den_nd R rO).
Notation den := (den R rO).
Notation wf := (wf R).
Notation lsizes := (lsizes R).
Notation "x + y" := (radd x y) : rs. Notation "x * y" := (rmul x y) : rs.
Local Open Scope rs.

(* the total a share is taken of: the sum over all labels of the dimensions in [ls] *)
Definition share_total (a : farr) (ls : list letter) (e : env) : R :=
  sum_env (sized (lsizes a) (filter (fun l => memb l ls) (aletters R a))) (fun e' => den a (e' ++ e)).

Lemma map_fst_combine {A B} (l : list A) (l' : list B) : length l = length l' -> map fst (combine l l') = l.
Proof. revert l'. induction l as [|a l IH]; intros [|b l'] H; simpl in *; try discriminate; auto. f_equal. apply IH. lia. Qed.

Lemma idx_in_range (a : farr) e : NoDup (aletters R a) -> in_range (lsizes a) e (aletters R a) ->
  Forall2 lt (map (lookup e) (aletters R a)) (dshape (adims a)).
Proof.
  intros Hn He. unfold in_range, ArrayLemmas.lsizes in He. unfold aletters in *.
  induction (adims a) as [|d ds IH]; simpl; constructor.
  - specialize (He (dletter d) (or_introl eq_refl)). simpl in He. rewrite Nat.eqb_refl in He. exact He.
  - inversion Hn as [|? ? Hne Hn']; subst. apply IH; auto. intros l Hl0.
    specialize (He l (or_intror Hl0)). simpl in He.
    destruct (Nat.eqb_spec (dletter d) l) as [E|E]; [subst; contradiction | exact He].
Qed.

Lemma den_full ds c e : NoDup (letters ds) -> in_range (combine (letters ds) (dshape ds)) e (letters ds) ->
  den (full R ds c) e = c.
Proof.
  intros Hn He. unfold ArrayLemmas.den, Einsum.den_nd, a_nd, full, nd_full; simpl.
  apply (get_tab R rO). apply (idx_in_range (mk_farr ds []) e); auto.
Qed.

Lemma construct_wf ds (v : nd R) r : NoDup (letters ds) -> construct R ds v = Ok r -> wf r.
Proof.
  intros Hn H. unfold construct in H.
  destruct (shape_eqb (shp v) (dshape ds) && Nat.eqb (length (dat v)) (size (shp v))) eqn:E; [|discriminate].
  injection H as <-. apply andb_true_iff in E. destruct E as [E1 E2]. apply Nat.eqb_eq in E2.
  unfold shape_eqb in E1. destruct (list_eq_dec Nat.eq_dec (shp v) (dshape ds)) as [E1'|]; [|discriminate].
  split; [exact Hn|]. simpl. rewrite E2, E1'. reflexivity.
Qed.

Lemma sum_over_wf (a r : farr) xs : wf a -> sum_over R rO rI radd rmul a xs = Ok r -> wf r.
Proof.
  intros [Hn _] H. unfold sum_over in H.
  destruct (tuple_to_letters R a xs) as [so|]; [|discriminate]. cbn [bind] in H.
  destruct (get_subset (adims a) _) as [ds|] eqn:Eg; [|discriminate]. cbn [bind] in H.
  destruct (tuple_to_letters R a (map ALetter so)); [|discriminate]. cbn [bind] in H.
  destruct (sum_values_to R rO rI radd rmul a _); [|discriminate]. cbn [bind] in H.
  eapply construct_wf; [|exact H]. eapply get_subset_filter_unique; [exact Hn | exact Eg].
Qed.

Lemma mul_like_same_dims (g : R -> R) (x y r : farr) e :
  wf x -> wf y -> incl (adims y) (adims x) ->
  mul_like R rO rI radd rmul g x y = Ok r -> in_range (lsizes x) e (aletters R x) ->
  in_range (lsizes y) e (aletters R y) ->
  adims r = adims x /\ den r e = den x e * g (den y e).
Proof.
  intros Hwx Hwy Hinc Hm Hr Hry. pose proof Hwx as [Hnx Hlx]. pose proof Hwy as [Hny Hly].
  assert (Hf : filter (fun d => negb (memb (dletter d) (aletters R x))) (adims y) = []).
  { apply (proj2 (filter_nil_iff_gen _ _)). intros d Hd. apply negb_false_iff, memb_In.
    unfold aletters, letters. apply in_map. apply Hinc. exact Hd. }
  assert (Hd : adims r = adims x).
  { unfold mul_like in Hm. destruct (union_with (adims x) (adims y)) as [ds|] eqn:Eu; [|discriminate]. cbn [bind] in Hm.
    destruct (construct_ok_gen R _ _ _ Hm) as (Hdr & _ & _). rewrite Hdr.
    rewrite (union_spec (adims x) (adims y) Hnx Hny) in Eu. injection Eu as <-.
    unfold aletters in Hf. rewrite Hf. apply app_nil_r. }
  destruct (mul_spec R rO rI radd rmul rsub ropp Rth g x y r e Hnx Hny Hm) as [_ Hv].
  - intros l Hl. unfold aletters in Hl. rewrite Hd in Hl. unfold sizes. simpl. rewrite lookup_app.
    rewrite map_fst_combine by (apply letters_dshape_len).
    replace (memb l (aletters R x)) with true by (symmetry; apply memb_In; exact Hl).
    apply Hr. exact Hl.
  - split; [exact Hd|]. rewrite Hv. f_equal. apply (den_map R rO); auto.
Qed.

Theorem shares_spec (inv : R -> R) (a r : farr) ls e :
  wf a -> get_shares_over R rO rI radd rmul inv a ls = Ok r -> in_range (lsizes a) e (aletters R a) ->
  adims r = adims a /\ den r e = den a e * inv (share_total a ls e).
Proof.
  intros Hwf Hg Hr. pose proof Hwf as [Hn Hlen]. unfold get_shares_over in Hg.
  destruct (forallb (fun l => memb l (aletters R a)) ls) eqn:Els; [|discriminate].
  destruct (forallb (fun l => memb l ls) (aletters R a)) eqn:Eall.
  - (* every dimension: divide by the grand total *)
    set (y := full R (adims a) (sum_values R rO radd a)) in *.
    assert (Hwy : wf y). { split; [exact Hn|]. unfold y, full, nd_full; simpl. apply tab_length. }
    destruct (mul_like_same_dims inv a y r e Hwf Hwy) as [Hd Hv]; auto.
    { intros d Hd. exact Hd. }
    split; [exact Hd|]. rewrite Hv. f_equal. f_equal.
    unfold y. rewrite den_full by auto. unfold sum_values.
    rewrite (sum_avals_env R rO radd a Hwf).
    unfold share_total.
    assert (Ef : filter (fun l => memb l ls) (aletters R a) = aletters R a).
    { rewrite forallb_forall in Eall. clear -Eall. induction (aletters R a) as [|l t IH]; simpl; auto.
      rewrite (Eall l (or_introl eq_refl)). f_equal. apply IH. intros x Hx. apply Eall. right; exact Hx. }
    rewrite Ef, (sized_all R a Hwf).
    apply sum_env_ext_in. intros e' He'. apply den_ext. intros l Hl. rewrite lookup_app.
    rewrite (all_env_fst _ _ He'). unfold ArrayLemmas.lsizes. rewrite map_fst_combine by (apply letters_dshape_len).
    replace (memb l (aletters R a)) with true by (symmetry; apply memb_In; exact Hl). reflexivity.
  - (* some dimensions: divide by the marginal *)
    destruct (sum_over R rO rI radd rmul a (map ALetter ls)) as [so|] eqn:Eso; [|discriminate]. cbn [bind] in Hg.
    assert (Ht : tuple_to_letters R a (map ALetter ls) = Ok ls).
    { apply tuple_letters_ok. apply forallb_memb_incl. exact Els. }
    pose proof (sum_over_wf a so _ Hwf Eso) as Hwso.
    assert (Hdso : adims so = filter (fun d => negb (memb (dletter d) ls)) (adims a)).
    { unfold sum_over in Eso. rewrite Ht in Eso. cbn [bind] in Eso.
      assert (Eg : get_subset (adims a) (map KLetter (filter (fun l : nat => negb (memb l ls)) (aletters R a)))
                   = Ok (filter (fun d => negb (memb (dletter d) ls)) (adims a))).
      { apply (get_subset_filter (adims a) (fun l => negb (memb l ls)) Hn). }
      rewrite Eg in Eso. cbn [bind] in Eso.
      destruct (tuple_to_letters R a (map ALetter ls)); [|discriminate]. cbn [bind] in Eso.
      destruct (sum_values_to R rO rI radd rmul a _); [|discriminate]. cbn [bind] in Eso.
      destruct (construct_ok_gen R _ _ _ Eso) as (Hd & _ & _). exact Hd. }
    assert (Hinc : incl (adims so) (adims a)).
    { rewrite Hdso. intros d Hd. apply filter_In in Hd. tauto. }
    assert (Hrso : in_range (lsizes a) e (aletters R so)).
    { intros l Hl. apply Hr. unfold aletters, letters in *. apply in_map_iff in Hl. destruct Hl as (d & <- & Hd).
      apply in_map. apply Hinc. exact Hd. }
    assert (Hrso' : in_range (lsizes so) e (aletters R so)).
    { intros l Hl. specialize (Hrso l Hl).
      unfold aletters, letters in Hl. apply in_map_iff in Hl. destruct Hl as (d & <- & Hd).
      destruct Hwso as [Hnso _].
      unfold ArrayLemmas.lsizes, aletters in *.
      rewrite (lookup_lsizes (adims so) d Hnso Hd).
      rewrite (lookup_lsizes (adims a) d Hn (Hinc d Hd)) in Hrso. exact Hrso. }
    destruct (sum_over_spec R rO rI radd rmul rsub ropp Rth a so (map ALetter ls) ls e Hwf Ht Eso Hrso) as [_ Hvso].
    destruct (mul_like_same_dims inv a so r e Hwf Hwso Hinc Hg Hr Hrso') as [Hd Hv].
    split; [exact Hd|]. rewrite Hv, Hvso. reflexivity.
Qed.

(* dimensions that are not in the array are refused *)
Theorem shares_refuses_unknown (inv : R -> R) (a : farr) ls l :
  In l ls -> ~ In l (aletters R a) -> get_shares_over R rO rI radd rmul inv a ls = Err.
Proof.
  intros Hin Hnot. unfold get_shares_over.
  destruct (forallb (fun l0 => memb l0 (aletters R a)) ls) eqn:E; [|reflexivity].
  rewrite forallb_forall in E. specialize (E l Hin). apply memb_In in E. contradiction.
Qed.

(* the total does not depend on the labels of the dimensions it sums over *)
Lemma share_total_indep (a : farr) ls (e e' : env) :
  map fst e' = filter (fun l => memb l ls) (aletters R a) ->
  share_total a ls (e' ++ e) = share_total a ls e.
Proof.
  intros Hk. unfold share_total. apply sum_env_ext_in. intros e'' He''. apply den_ext. intros l Hl.
  rewrite !lookup_app. rewrite (all_env_fst _ _ He''), sized_fst. rewrite Hk.
  destruct (memb l (filter (fun l0 => memb l0 ls) (aletters R a))); reflexivity.
Qed.

End P.

(* ---- over a field ---------------------------------------------------------------------------- *)
Section F.
Variable F : Type.
Variables (fO fI : F) (fadd fmul fsub : F -> F -> F) (fopp : F -> F) (fdiv : F -> F -> F) (finv : F -> F).
Variable Fth : field_theory fO fI fadd fmul fsub fopp fdiv finv eq.
Add Field FfieldSh : Fth.
Notation Rth := (F_R Fth).
Notation sum_env := (sum_env fO fadd).
Notation farr := (farr F).
Notation den := (den F fO).
Notation wf := (wf F).
Notation lsizes := (lsizes F).
Notation "x + y" := (fadd x y) : rs. Notation "x * y" := (fmul x y) : rs.
Local Open Scope rs.

(* multiplying the shares by the total restores the array *)
Theorem shares_mul_back (a r : farr) ls e :
  wf a -> get_shares_over F fO fI fadd fmul finv a ls = Ok r -> in_range (lsizes a) e (aletters F a) ->
  share_total F fO fadd a ls e <> fO ->
  den r e * share_total F fO fadd a ls e = den a e.
Proof.
  intros Hwf Hg Hr Hnz.
  destruct (shares_spec F fO fI fadd fmul fsub fopp Rth finv a r ls e Hwf Hg Hr) as [_ Hv].
  rewrite Hv. field. exact Hnz.
Qed.

(* the shares add up to one over the dimensions they are taken over *)
Theorem shares_sum_to_one (a r : farr) ls e :
  wf a -> get_shares_over F fO fI fadd fmul finv a ls = Ok r -> in_range (lsizes a) e (aletters F a) ->
  share_total F fO fadd a ls e <> fO ->
  share_total F fO fadd r ls e = fI.
Proof.
  intros Hwf Hg Hr Hnz. pose proof Hwf as [Hn _].
  destruct (shares_spec F fO fI fadd fmul fsub fopp Rth finv a r ls e Hwf Hg Hr) as [Hd _].
  unfold share_total at 1. unfold ArrayLemmas.lsizes, aletters. rewrite Hd.
  fold (aletters F a). fold (lsizes a).
  set (L := sized (lsizes a) (filter (fun l => memb l ls) (aletters F a))).
  rewrite (sum_env_ext_in F fO fadd L _ (fun e' => den a (e' ++ e) * finv (share_total F fO fadd a ls e))).
  - rewrite (sum_env_scal_r F fO fI fadd fmul fsub fopp Rth).
    change (sum_env L (fun e0 : env => den a (e0 ++ e))) with (share_total F fO fadd a ls e). field. exact Hnz.
  - intros e' He'.
    assert (Hk : map fst e' = filter (fun l => memb l ls) (aletters F a)).
    { rewrite (all_env_fst _ _ He'). apply sized_fst. }
    assert (Hr' : in_range (lsizes a) (e' ++ e) (aletters F a)).
    { intros l Hl. rewrite lookup_app, Hk.
      destruct (memb l (filter (fun l0 => memb l0 ls) (aletters F a))) eqn:Em; [|apply Hr; exact Hl].
      apply memb_In in Em. pose proof (all_env_lt L e' l He') as Hlt. unfold L in Hlt. rewrite sized_fst in Hlt.
      specialize (Hlt Em). unfold sized in Hlt.
      assert (El : lookup (map (fun l0 => (l0, lookup (lsizes a) l0)) (filter (fun l0 => memb l0 ls) (aletters F a))) l = lookup (lsizes a) l).
      { clear -Em. induction (filter (fun l0 => memb l0 ls) (aletters F a)) as [|x t IH]; [contradiction|]. simpl.
        destruct (Nat.eqb_spec x l) as [->|Hne]; [reflexivity|]. apply IH. destruct Em; [contradiction | auto]. }
      rewrite El in Hlt. exact Hlt. }
    destruct (shares_spec F fO fI fadd fmul fsub fopp Rth finv a r ls (e' ++ e) Hwf Hg Hr') as [_ Hv].
    rewrite Hv. rewrite (share_total_indep F fO fadd a ls e e' Hk). reflexivity.
Qed.

End F.
