(* C14: symmetric difference is the combination of the two differences: the left set's dimensions that are not in the right set,
   in the left set's order, followed by the right set's dimensions that are not in the left set, in the right set's order. *)
From Coq Require Import List Arith Bool.
Import ListNotations.
From Flodym Require Import Base.Env Model.Dims Proofs.C14Proofs.

Lemma filter_all_true {A} (f : A -> bool) l : (forall a, In a l -> f a = true) -> filter f l = l.
Proof.
  induction l as [|a l IH]; intros H; simpl; auto.
  rewrite (H a (or_introl eq_refl)). f_equal. apply IH. intros b Hb. apply H. right. exact Hb.
Qed.

Theorem xor_spec x y : NoDup (letters x) -> NoDup (letters y) ->
  xor_with x y = Ok (filter (fun d => negb (memb (dletter d) (letters y))) x
                     ++ filter (fun d => negb (memb (dletter d) (letters x))) y).
Proof.
  intros Hx Hy. unfold xor_with.
  rewrite (difference_spec x y Hx), (difference_spec y x Hy). cbn [bind].
  set (a := filter (fun d => negb (memb (dletter d) (letters y))) x).
  set (b := filter (fun d => negb (memb (dletter d) (letters x))) y).
  rewrite (union_spec a b) by (apply NoDup_letters_filter; assumption).
  f_equal. f_equal. apply filter_all_true.
  intros d Hd. unfold b in Hd. apply filter_In in Hd. destruct Hd as [_ Hd].
  apply negb_true_iff in Hd. apply negb_true_iff. apply memb_false. apply memb_false in Hd.
  intros Hin. apply Hd. unfold a, letters in Hin. apply in_map_iff in Hin. destruct Hin as (e & E & He).
  apply filter_In in He. rewrite <- E. unfold letters. apply in_map. tauto.
Qed.

Lemma filter_all_false {A} (f : A -> bool) l : (forall a, In a l -> f a = false) -> filter f l = [].
Proof.
  induction l as [|a l IH]; intros H; simpl; auto.
  rewrite (H a (or_introl eq_refl)). apply IH. intros b Hb. apply H. right. exact Hb.
Qed.

(* '+' on sets without a common letter is the union *)
Theorem add_disjoint_is_union x y : NoDup (letters x) ->
  (forall d, In d x -> ~ In (dletter d) (letters y)) -> add_sets x y = union_with x y.
Proof.
  intros Hx Hd. unfold add_sets. rewrite (intersect_spec x y Hx). cbn [bind].
  rewrite filter_all_false; [reflexivity|].
  intros d Hin. apply memb_false. apply Hd. exact Hin.
Qed.
