(* C01: label-level specifications of the arithmetic operators (generic commutative ring). *)
From Coq Require Import List Arith Lia Ring_theory Ring Permutation Bool.
Import ListNotations.
From Flodym Require Import Base.ND Base.Env Np.Einsum Model.Dims Model.Array Proofs.ArrayLemmas Proofs.C07Proofs Proofs.C14Proofs.

Lemma filter_nil_iff_gen {A} (f : A -> bool) l : filter f l = [] <-> forall x, In x l -> f x = false.
Proof.
  induction l as [|a l IH]; simpl; [split; auto; intros _ x []|].
  destruct (f a) eqn:E; split.
  - discriminate. - intros H. specialize (H a (or_introl eq_refl)). congruence.
  - intros H x [<-|Hx]; auto. apply IH; auto.
  - intros H. apply IH. intros x Hx. apply H. right; auto.
Qed.

Section P.
Variable R : Type.
Variables (rO rI : R) (radd rmul rsub : R -> R -> R) (ropp : R -> R).
Variable Rth : ring_theory rO rI radd rmul rsub ropp eq.
Add Ring RringC1 : Rth.
Notation sum_env := (sum_env rO radd).
Notation get := (get rO).
Notation farr := (farr R).
Notation einsum := (einsum R rO rI radd rmul).
Notation den_nd := (den_nd R rO).
Notation den := (den R rO).
Notation wf := (wf R).
Notation lsizes := (lsizes R).
Notation "x + y" := (radd x y) : rs. Notation "x * y" := (rmul x y) : rs.

Lemma construct_ok_gen ds (v : nd R) a :
  construct R ds v = Ok a -> adims a = ds /\ avals a = dat v /\ shp v = dshape ds.
Proof.
  unfold construct. destruct (shape_eqb _ _ && _) eqn:E; [|discriminate].
  intros H; injection H as <-. simpl. apply andb_true_iff in E. destruct E as [E1 _].
  unfold shape_eqb in E1. destruct (list_eq_dec Nat.eq_dec (shp v) (dshape ds)); [auto | discriminate].
Qed.

(* x * y and x / y (g = identity, resp. reciprocal): result over the union of the dimensions, x's
   first then y's new ones; the entry under every label combination is the product of the two
   entries carrying those labels *)
Theorem mul_spec (g : R -> R) (x y r : farr) e :
  NoDup (aletters R x) -> NoDup (aletters R y) ->
  mul_like R rO rI radd rmul g x y = Ok r ->
  (forall l, In l (aletters R r) ->
     lookup e l < lookup (sizes R [(aletters R x, a_nd R x); (aletters R y, mk_nd (dshape (adims y)) (map g (avals y)))]) l) ->
  adims r = adims x ++ filter (fun d => negb (memb (dletter d) (aletters R x))) (adims y)
  /\ den r e = (den x e * den_nd (aletters R y) (mk_nd (dshape (adims y)) (map g (avals y))) e)%rs.
Proof.
  intros Hx Hy Hm Hr. unfold mul_like in Hm.
  rewrite (union_spec (adims x) (adims y) Hx Hy) in Hm. simpl in Hm.
  apply construct_ok_gen in Hm. destruct Hm as (Hd & Hv & Hs).
  split; [exact Hd|].
  set (ds := adims x ++ filter (fun d => negb (memb (dletter d) (letters (adims x)))) (adims y)) in *.
  set (ops := [(aletters R x, a_nd R x); (aletters R y, mk_nd (dshape (adims y)) (map g (avals y)))]) in *.
  unfold ArrayLemmas.den at 1. unfold Einsum.den_nd at 1. unfold a_nd; simpl.
  rewrite Hv. unfold aletters. rewrite Hd. rewrite <- Hs.
  change (den_nd (letters ds) (einsum ops (letters ds)) e = (den x e * den_nd (aletters R y) (snd (nth 1 ops (nil, a_nd R x))) e)%rs).
  rewrite einsum_den.
  - assert (Es : summed R ops (letters ds) = []).
    { unfold summed. assert (F : filter (fun l => negb (memb l (letters ds))) (flat_map fst ops) = []).
      { apply (proj2 (filter_nil_iff_gen _ _)). intros l Hl. apply negb_false_iff, memb_In.
        unfold ops in Hl. simpl in Hl. rewrite app_nil_r in Hl. unfold ds. rewrite letters_app.
        apply in_app_or in Hl. apply in_or_app. destruct Hl as [Hl|Hl]; [left; exact Hl|].
        destruct (in_dec Nat.eq_dec l (letters (adims x))) as [Hi|Hi]; [left; exact Hi | right].
        unfold aletters, letters in Hl. apply in_map_iff in Hl. destruct Hl as (d & <- & Hd').
        unfold letters. apply in_map. apply filter_In. split; auto. apply negb_true_iff, memb_false. exact Hi. }
      rewrite F. reflexivity. }
    rewrite Es. simpl. rewrite (sum_env_nil R rO rI radd rmul rsub ropp Rth). simpl.
    unfold ops. rewrite (term_pair R rO rI radd rmul rsub ropp Rth). reflexivity.
  - intros l Hl. apply Hr. unfold aletters. rewrite Hd. exact Hl.
Qed.

(* x + y, x - y, minimum, maximum (any elementwise f): result over the common dimensions in x's
   order; each operand is first summed over its other dimensions, by label *)
Theorem binop_common_spec (f : R -> R -> R) (x y r : farr) e :
  wf x -> wf y -> binop_common R rO rI radd rmul f x y = Ok r ->
  in_range (lsizes x) e (aletters R r) -> in_range (lsizes y) e (aletters R r) ->
  adims r = filter (fun d => memb (dletter d) (aletters R y)) (adims x)
  /\ den r e = f (sum_env (sized (lsizes x) (others R x (aletters R r))) (fun e' => den x (e' ++ e)))
                 (sum_env (sized (lsizes y) (others R y (aletters R r))) (fun e' => den y (e' ++ e))).
Proof.
  intros Hwx Hwy Hb Hrx Hry. unfold binop_common in Hb.
  destruct Hwx as [Hx Hlx]. destruct Hwy as [Hy Hly].
  rewrite (intersect_spec (adims x) (adims y) Hx) in Hb. simpl in Hb.
  set (ds := filter (fun d => memb (dletter d) (letters (adims y))) (adims x)) in *.
  destruct (sum_values_to R rO rI radd rmul x (letters ds)) as [vx|] eqn:Ex; simpl in Hb; [|discriminate].
  destruct (sum_values_to R rO rI radd rmul y (letters ds)) as [vy|] eqn:Ey; simpl in Hb; [|discriminate].
  destruct (shape_eqb (shp vx) (shp vy)) eqn:Esh; [|discriminate].
  apply construct_ok_gen in Hb. destruct Hb as (Hd & Hv & Hs). simpl in Hv, Hs.
  split; [exact Hd|].
  assert (Hal : aletters R r = letters ds) by (unfold aletters; rewrite Hd; reflexivity).
  rewrite Hal in *.
  rewrite <- (sum_values_to_den R rO rI radd rmul rsub ropp Rth x (letters ds) vx e (conj Hx Hlx) Ex Hrx).
  rewrite <- (sum_values_to_den R rO rI radd rmul rsub ropp Rth y (letters ds) vy e (conj Hy Hly) Ey Hry).
  unfold ArrayLemmas.den, Einsum.den_nd. unfold a_nd; simpl. rewrite Hv, Hd, <- Hs.
  unfold shape_eqb in Esh. destruct (list_eq_dec Nat.eq_dec (shp vx) (shp vy)) as [Eq|]; [|discriminate].
  rewrite <- Eq.
  (* both summed arrays are tables over the same shape; the index is in range *)
  assert (Hidx : Forall2 lt (map (lookup e) (letters ds)) (shp vx)).
  { rewrite (sum_values_to_shp R rO rI radd rmul x (letters ds) vx Ex).
    clear -Hrx. induction (letters ds) as [|l ls IH]; simpl; constructor.
    - apply Hrx. left; auto. - apply IH. intros k Hk. apply Hrx. right; auto. }
  assert (Hlvx : length (dat vx) = size (shp vx)).
  { unfold sum_values_to in Ex. destruct (_ && _); [|discriminate]. injection Ex as <-. simpl. apply tab_length. }
  assert (Hlvy : length (dat vy) = size (shp vy)).
  { unfold sum_values_to in Ey. destruct (_ && _); [|discriminate]. injection Ey as <-. simpl. apply tab_length. }
  destruct (nth_all_idx (shp vx) _ Hidx) as [_ Hrv].
  unfold ND.get. rewrite ?Hal. apply nth_map2; [rewrite Hlvx | rewrite Hlvy, <- Eq]; exact Hrv.
Qed.

End P.

Section Pow.
Variable R : Type.
Variables (rO rI : R) (radd rmul : R -> R -> R).

(* x ** y requires y's dimensions to be among x's, and keeps x's dimensions *)
Theorem pow_rejects (p : R -> R -> R) (x y : farr R) l :
  In l (aletters R y) -> ~ In l (aletters R x) -> pow_like R rO rI radd rmul p x y = Err.
Proof.
  intros Hy Hx. unfold pow_like.
  destruct (forallb (fun l0 => memb l0 (aletters R x)) (aletters R y)) eqn:E; auto.
  rewrite forallb_forall in E. apply E in Hy. apply memb_In in Hy. contradiction.
Qed.

Theorem pow_keeps_dims (p : R -> R -> R) (x y r : farr R) :
  pow_like R rO rI radd rmul p x y = Ok r -> adims r = adims x.
Proof.
  unfold pow_like. destruct (forallb _ _); [|discriminate].
  destruct (cast_to R rO rI radd rmul y (adims x)); simpl; [|discriminate].
  unfold construct. destruct (_ && _); [|discriminate]. intros H; injection H as <-. reflexivity.
Qed.

(* unary minus, abs, sign: entry by entry, same dimensions *)
Theorem amap_spec (f : R -> R) (x : farr R) : adims (amap R f x) = adims x /\ avals (amap R f x) = map f (avals x).
Proof. split; reflexivity. Qed.
End Pow.
