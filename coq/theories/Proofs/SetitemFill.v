(* C05: target[{...}] = number for EVERY well-formed dict key -- single items, subset Dimensions and LISTS of items in any
   combination, the lists and subsets in any order and naming an item as often as they like: the number fills exactly the
   addressed region (the entries whose label in every keyed dimension is the single item / among the subset's / list's
   items), and every other entry keeps its value.  No hypothesis on repetitions: writing the same number twice is harmless. *)
From Coq Require Import List Arith Lia Bool Ring_theory.
Import ListNotations.
From Flodym Require Import Base.ND Base.Env Np.Einsum Np.Index Model.Dims Model.Array Model.SubArray
  Proofs.ArrayLemmas Proofs.C14Proofs Proofs.CumsumProofs Proofs.IndexProofs Proofs.OrthoIndex Proofs.HandlerProofs
  Proofs.GetitemSpec Proofs.SetIndexProofs Proofs.SetitemSpec.
Local Open Scope nat_scope.

Section S.
Variable R : Type.
Variables (rO rI : R) (radd rmul : R -> R -> R).
Notation farr := (farr R).
Notation den := (den R rO).
Notation wf := (wf R).

(* a position that holds c keeps holding c while c is written anywhere *)
Lemma fold_upd_const_keep {A} (pos : A -> nat) (c : R) (l : list A) : forall (v : list R) k d,
  k < length v -> nth k v d = c ->
  nth k (fold_left (fun acc y => upd R acc (pos y) c) l v) d = c.
Proof.
  induction l as [|y l IH]; intros v k d Hk E; simpl; [exact E|].
  apply IH; [rewrite upd_length; exact Hk|].
  destruct (Nat.eq_dec (pos y) k) as [->|Hne].
  - apply nth_upd_same. exact Hk.
  - rewrite nth_upd_other by (intros E0; apply Hne; symmetry; exact E0). exact E.
Qed.

(* every position that is written at least once holds c in the end, however often it is written *)
Lemma fold_upd_const_hit {A} (pos : A -> nat) (c : R) (l : list A) : forall (v : list R) x d,
  In x l -> pos x < length v ->
  nth (pos x) (fold_left (fun acc y => upd R acc (pos y) c) l v) d = c.
Proof.
  induction l as [|y l IH]; intros v x d Hin Hlt; [contradiction|]. simpl. destruct Hin as [->|Hin].
  - apply fold_upd_const_keep; [rewrite upd_length; exact Hlt | apply nth_upd_same; exact Hlt].
  - apply IH; [exact Hin | rewrite upd_length; exact Hlt].
Qed.

(* the index tuple writes a number: no hypothesis on repeated indices *)
Theorem setindex_fill_any (a : nd R) raw (c : R) :
  length raw = length (shp a) -> Forall2 (fun r m => raw_ok r m = true) raw (shp a) ->
  length (dat a) = size (shp a) ->
  exists w, setindex R rO a (to_sels raw (shp a)) (mk_nd [] [c]) = Ok w /\ shp w = shp a /\ length (dat w) = length (dat a)
    /\ (forall idx, Forall2 lt idx (out_shape raw (shp a)) -> get rO (shp a) (dat w) (pull raw idx) = c)
    /\ (forall src, Forall2 lt src (shp a) ->
          (forall idx, Forall2 lt idx (out_shape raw (shp a)) -> pull raw idx <> src) ->
          get rO (shp a) (dat w) src = get rO (shp a) (dat a) src).
Proof.
  intros Hl Hok Hla.
  destruct (to_sels_orthogonal raw (shp a) Hl Hok) as (p & Hp & Ho & Hs).
  unfold setindex. rewrite Hp. cbv zeta. cbn [shp dat].
  assert (E : match p_osh p with [] => [] | _ :: _ => strip_ones [] (length (p_osh p)) end = @nil nat).
  { destruct (p_osh p); reflexivity. }
  rewrite E. rewrite bcast_to_scalar.
  eexists. split; [reflexivity|]. cbn [shp dat].
  split; [reflexivity|]. split; [apply fold_upd_length|].
  set (pos := fun idx => ravel (shp a) (src_of (to_sels raw (shp a)) p idx)).
  assert (Ec : forall idx, rhs_at R rO [] [c] idx = c).
  { intros idx. unfold rhs_at, get. cbn [length map2 ravel nth]. destruct (skipn (length idx - 0) idx); reflexivity. }
  assert (Efold : forall v, fold_left (fun d idx => upd R d (pos idx) (rhs_at R rO [] [c] idx)) (all_idx (p_osh p)) v
                          = fold_left (fun d idx => upd R d (pos idx) c) (all_idx (p_osh p)) v).
  { intros v. generalize (all_idx (p_osh p)). intros l. revert v. induction l as [|y l IH]; intros v; simpl; auto; try (rewrite Ec; apply IH). }
  split.
  - intros idx Hidx. unfold get.
    assert (Hin : In idx (all_idx (p_osh p))) by (apply all_idx_in; rewrite Ho; exact Hidx).
    assert (Epos : ravel (shp a) (pull raw idx) = pos idx) by (unfold pos; rewrite Hs by exact Hidx; reflexivity).
    rewrite Epos. fold pos. rewrite Efold.
    apply fold_upd_const_hit; [exact Hin|].
    unfold pos. rewrite Hs by exact Hidx. rewrite Hla.
    apply (proj2 (nth_all_idx (shp a) _ (pull_in_range raw (shp a) idx Hl Hok Hidx))).
  - intros src Hsrc Hno. unfold get. fold pos.
    apply (fold_upd_frame R pos (fun idx => rhs_at R rO [] [c] idx)).
    intros idx Hin Epos. apply all_idx_in in Hin. rewrite Ho in Hin. unfold pos in Epos. rewrite (Hs idx Hin) in Epos.
    apply (ravel_inj (shp a)) in Epos; auto; [|apply pull_in_range; auto]. apply (Hno idx Hin). exact Epos.
Qed.

(* every source index in the addressed region is the image of an output index *)
Lemma hits_pull raw : forall sh src,
  length raw = length sh -> Forall2 lt src sh -> hits raw src ->
  exists idx, Forall2 lt idx (out_shape raw sh) /\ pull raw idx = src.
Proof.
  induction raw as [|r raw IH]; intros [|m sh] src Hl Hs Hh; simpl in *; try discriminate.
  - destruct src; [|contradiction]. exists []. split; [constructor | reflexivity].
  - destruct src as [|x src]; [destruct r; contradiction|]. inversion Hs as [|? ? ? ? Hx Hs']; subst.
    injection Hl as Hl. destruct r as [|i|is]; simpl in *.
    + destruct (IH sh src Hl Hs' Hh) as (idx & Hi & Ep). exists (x :: idx). split; [constructor; auto | simpl; rewrite Ep; reflexivity].
    + destruct Hh as [-> Hh]. destruct (IH sh src Hl Hs' Hh) as (idx & Hi & Ep). exists idx. split; [exact Hi | simpl; rewrite Ep; reflexivity].
    + destruct Hh as [Hin Hh]. destruct (IH sh src Hl Hs' Hh) as (idx & Hi & Ep).
      destruct (In_nth is x 0 Hin) as (j & Hj & Ej).
      exists (j :: idx). split; [constructor; auto | simpl; rewrite Ej, Ep; reflexivity].
Qed.

(* target[{...}] = number, any key *)
Theorem setitem_number_fills_region (a a' : farr) kvs (c : R) :
  wf a -> wf_dict (adims a) no_asg kvs ->
  let F := asg_of no_asg kvs in
  setitem R rO rI radd rmul a (KDict kvs) (RNum R c) = Ok a' ->
  adims a' = adims a
  /\ (forall e, (forall d, In d (adims a) -> lookup e (dletter d) < dlen d) -> in_region F (adims a) e -> den a' e = c)
  /\ (forall e, (forall d, In d (adims a) -> lookup e (dletter d) < dlen d) -> ~ in_region F (adims a) e -> den a' e = den a e).
Proof.
  intros Hwa Hw F Hset. pose proof Hwa as [Hn Hlen].
  set (ds := adims a) in *.
  unfold setitem in Hset.
  pose proof (mk_handler_dict ds kvs Hn Hw) as Hh. fold ds in Hset. rewrite Hh in Hset. clear Hh.
  cbn [bind h_dims_out h_sels] in Hset. fold F in Hset.
  set (raw := map (sel_for F) ds) in *.
  assert (Hval : valid_asg F ds) by (apply valid_asg_of; auto; intros d v0 _ E; discriminate).
  assert (Hl : length raw = length (shp (a_nd R a))).
  { unfold raw, a_nd; simpl. unfold dshape. rewrite !map_length. reflexivity. }
  assert (Hok : Forall2 (fun r m => raw_ok r m = true) raw (shp (a_nd R a))) by (apply raw_ok_handler; exact Hval).
  destruct (setindex_fill_any (a_nd R a) raw c Hl Hok Hlen) as (w & Hw' & Hsw & Hlw & Hhit & Hframe).
  change (shp (a_nd R a)) with (dshape ds) in *. rewrite Hw' in Hset. cbn [bind] in Hset.
  injection Hset as <-. cbn [adims]. split; [reflexivity|].
  assert (Hsrc : forall e, (forall d, In d ds -> lookup e (dletter d) < dlen d) -> Forall2 lt (map (lookup e) (letters ds)) (dshape ds)).
  { intros e He. clear -He. induction ds as [|d l IH]; simpl; constructor.
    - apply He. left. reflexivity.
    - apply IH. intros d' Hd'. apply He. right. exact Hd'. }
  split.
  - intros e He Hin.
    unfold ArrayLemmas.den, Einsum.den_nd, a_nd, aletters. cbn [adims avals shp dat]. fold ds.
    destruct (hits_pull raw (dshape ds) (map (lookup e) (letters ds)) Hl (Hsrc e He) Hin) as (idx & Hidx & Ep).
    rewrite <- Ep. apply Hhit. exact Hidx.
  - intros e He Hno.
    unfold ArrayLemmas.den, Einsum.den_nd, a_nd, aletters. cbn [adims avals shp dat]. fold ds.
    apply Hframe; [apply Hsrc; exact He|].
    intros idx Hidx Epull. apply Hno. unfold in_region. fold ds. fold raw. rewrite <- Epull.
    apply (pull_hits raw (dshape ds)); auto.
Qed.

End S.
