(* C20: "The Sankey plotter emits one link per shown flow ... and never shows ... excluded flows": for flows that are not split by a
   dimension, the links are, in order, exactly the shown flows (one each, labelled by the flow). *)
From Coq Require Import List Arith Lia Bool ZArith QArith Qcanon.
Import ListNotations.
From Flodym Require Import Base.ND Base.Env Np.Einsum Model.Dims Model.Array Model.SubArray Model.Instances Model.Export.
Local Open Scope nat_scope.

Lemma links_of_unsplit procs ep slice items_of f ls :
  sf_split f = None -> links_of procs ep slice items_of f = Ok ls -> exists l, ls = [l] /\ sl_label l = sf_name f.
Proof.
  intros Hs H. unfold links_of in H.
  destruct (node_of procs ep (sf_from f)) as [s|]; [|discriminate].
  destruct (node_of procs ep (sf_to f)) as [t|]; [|discriminate].
  destruct (getitem Qc QO (sf_arr f) _) as [fs|]; [|discriminate]. cbn [bind] in H. rewrite Hs in H.
  injection H as <-. eexists. split; reflexivity.
Qed.

Lemma mapM_unsplit_labels procs ep slice items_of (fl : list sflow) r :
  (forall f, In f fl -> sf_split f = None) -> mapM (links_of procs ep slice items_of) fl = Ok r ->
  map sl_label (concat r) = map sf_name fl.
Proof.
  revert r. induction fl as [|f fl IH]; intros r Hs H; cbn [mapM] in H.
  - injection H as <-. reflexivity.
  - destruct (links_of procs ep slice items_of f) as [ls|] eqn:E; [|discriminate]. cbn [bind] in H.
    destruct (mapM (links_of procs ep slice items_of) fl) as [r'|] eqn:E'; [|discriminate]. cbn [bind] in H. injection H as <-.
    destruct (links_of_unsplit procs ep slice items_of f ls (Hs f (or_introl eq_refl)) E) as (l & -> & El).
    cbn [concat app map]. rewrite El. f_equal. apply IH; [intros; apply Hs; right; assumption | reflexivity].
Qed.

Theorem sankey_one_link_per_shown_flow procs ep ef slice items_of flows ls :
  (forall f, In f flows -> sf_split f = None) ->
  sankey_links procs ep ef slice items_of flows = Ok ls ->
  map sl_label ls = map sf_name (filter (flow_is_shown procs ep ef) flows).
Proof.
  intros Hs H. unfold sankey_links in H.
  destruct (mapM (links_of procs ep slice items_of) (filter (flow_is_shown procs ep ef) flows)) as [r|] eqn:E; [|discriminate].
  cbn [bind] in H. injection H as <-.
  apply (mapM_unsplit_labels procs ep slice items_of _ r); [|exact E].
  intros f Hf. apply filter_In in Hf. apply Hs. exact (proj1 Hf).
Qed.
