(* C04: what an operation computes does not depend on the order in which an operand stores its
   dimensions.  Two arrays are "the same labelled array" when they have the same dimensions (as a
   set) and equal denotations on every in-range label environment. *)
From Coq Require Import List Arith Lia Ring_theory Ring Permutation Bool.
Import ListNotations.
From Flodym Require Import Base.ND Base.Env Np.Einsum Model.Dims Model.Array Proofs.ArrayLemmas Proofs.C07Proofs Proofs.C01Proofs.

Section P.
Variable R : Type.
Variables (rO rI : R) (radd rmul rsub : R -> R -> R) (ropp : R -> R).
Variable Rth : ring_theory rO rI radd rmul rsub ropp eq.
Add Ring RringC4 : Rth.
Notation sum_env := (sum_env rO radd).
Notation farr := (farr R).
Notation den_nd := (den_nd R rO).
Notation den := (den R rO).
Notation wf := (wf R).
Notation lsizes := (lsizes R).
Notation "x + y" := (radd x y) : rs. Notation "x * y" := (rmul x y) : rs.

(* label environment within the array's dimension lengths *)
Definition env_ok (x : farr) (e : env) : Prop := in_range (lsizes x) e (aletters R x).

Definition same_arr (x x' : farr) : Prop :=
  Permutation (adims x) (adims x') /\ (forall e, env_ok x e -> den x e = den x' e).

(* size of a letter, read off the dimension list *)
Lemma lookup_lsizes ds d : NoDup (letters ds) -> In d ds ->
  lookup (combine (letters ds) (dshape ds)) (dletter d) = dlen d.
Proof.
  induction ds as [|e ds IH]; simpl; intros Hn Hin; [contradiction|].
  inversion Hn as [|? ? Hne Hn']; subst. destruct Hin as [->|Hin].
  - rewrite Nat.eqb_refl. reflexivity.
  - destruct (Nat.eqb_spec (dletter e) (dletter d)) as [E|E]; [|apply IH; auto].
    exfalso. apply Hne. rewrite E. unfold letters. apply in_map. exact Hin.
Qed.

Lemma lsizes_perm (x x' : farr) l : NoDup (aletters R x) -> Permutation (adims x) (adims x') ->
  In l (aletters R x) -> lookup (lsizes x) l = lookup (lsizes x') l.
Proof.
  intros Hn Hp Hl. unfold aletters, letters in Hl. apply in_map_iff in Hl. destruct Hl as (d & <- & Hd).
  unfold ArrayLemmas.lsizes, aletters. rewrite lookup_lsizes by auto.
  rewrite lookup_lsizes; auto.
  - eapply Permutation_NoDup; [|exact Hn]. unfold aletters, letters. apply Permutation_map. exact Hp.
  - eapply Permutation_in; eauto.
Qed.

(* sum_to / sum_over: the result does not depend on the storage order of the source *)
Theorem sum_values_to_congr (x x' : farr) rs v v' e :
  wf x -> wf x' -> same_arr x x' ->
  sum_values_to R rO rI radd rmul x rs = Ok v -> sum_values_to R rO rI radd rmul x' rs = Ok v' ->
  in_range (lsizes x) e rs -> incl rs (aletters R x) ->
  den_nd rs v e = den_nd rs v' e.
Proof.
  intros Hw Hw' [Hp Hd] Hs Hs' Hr Hinc.
  pose proof Hw as [Hn Hlen]. pose proof Hw' as [Hn' Hlen'].
  assert (Hr' : in_range (lsizes x') e rs).
  { intros l Hl. rewrite <- (lsizes_perm x x' l Hn Hp (Hinc l Hl)). apply Hr; auto. }
  rewrite (sum_values_to_den R rO rI radd rmul rsub ropp Rth x rs v e Hw Hs Hr).
  rewrite (sum_values_to_den R rO rI radd rmul rsub ropp Rth x' rs v' e Hw' Hs' Hr').
  (* the summed letters are the same set, with the same sizes *)
  assert (Hpl : Permutation (aletters R x) (aletters R x')).
  { unfold aletters, letters. apply Permutation_map. exact Hp. }
  assert (Hpo : Permutation (sized (lsizes x) (others R x rs)) (sized (lsizes x') (others R x' rs))).
  { unfold sized. 
    assert (E : map (fun l => (l, lookup (lsizes x') l)) (others R x' rs)
                = map (fun l => (l, lookup (lsizes x) l)) (others R x' rs)).
    { apply map_ext_in. intros l Hl. f_equal. symmetry. apply lsizes_perm; auto.
      unfold ArrayLemmas.others in Hl. apply filter_In in Hl. destruct Hl as [Hl _].
      eapply Permutation_in; [apply Permutation_sym; exact Hpl | exact Hl]. }
    rewrite E. apply Permutation_map. unfold ArrayLemmas.others.
    clear -Hpl. induction Hpl; simpl; auto.
    - destruct (negb (memb x0 rs)); auto.
    - destruct (negb (memb x0 rs)), (negb (memb y rs)); auto. constructor.
    - etransitivity; eauto. }
  rewrite <- (sum_env_perm_keys R rO rI radd rmul rsub ropp Rth _ _ (fun e' => den x' (e' ++ e)) Hpo).
  - apply sum_env_ext_in. intros e' He'. apply Hd.
    (* e' ++ e is in range for every letter of x *)
    intros l Hl. rewrite lookup_app. rewrite (all_env_fst _ _ He'), sized_fst.
    destruct (memb l (others R x rs)) eqn:Em.
    + apply memb_In in Em. pose proof (all_env_lt _ _ l He') as Hlt. rewrite sized_fst in Hlt. specialize (Hlt Em).
      unfold sized in Hlt.
      assert (Es : lookup (map (fun l0 => (l0, lookup (lsizes x) l0)) (others R x rs)) l = lookup (lsizes x) l).
      { clear -Em. induction (others R x rs) as [|k ks IH]; simpl in *; [tauto|].
        destruct (Nat.eqb_spec k l); subst; auto. apply IH. destruct Em; [contradiction | auto]. }
      rewrite Es in Hlt. exact Hlt.
    + apply memb_false in Em. apply Hr. unfold ArrayLemmas.others in Em. rewrite filter_In in Em.
      destruct (memb l rs) eqn:Er; [apply memb_In; auto|]. exfalso. apply Em. split; auto.
  - rewrite sized_fst. unfold ArrayLemmas.others. apply NoDup_filter. exact Hn.
  - apply ext_keys_app_r. apply den_ext_all.
Qed.

(* entrywise maps commute with the denotation (used for x / y = x * (1 / y)) *)
Lemma den_map (g : R -> R) (y : farr) e : wf y -> env_ok y e ->
  den_nd (aletters R y) (mk_nd (dshape (adims y)) (map g (avals y))) e = g (den y e).
Proof.
  intros [Hn Hl] He. unfold ArrayLemmas.den, Einsum.den_nd, a_nd; simpl. unfold ND.get.
  assert (Hidx : Forall2 lt (map (lookup e) (aletters R y)) (dshape (adims y))).
  { unfold env_ok, in_range, ArrayLemmas.lsizes in He. unfold aletters in *.
    clear Hl. induction (adims y) as [|d ds IH]; simpl; constructor.
    - specialize (He (dletter d) (or_introl eq_refl)). simpl in He. rewrite Nat.eqb_refl in He. exact He.
    - inversion Hn as [|? ? Hne Hn']; subst. apply IH; auto. intros l Hl0.
      specialize (He l (or_intror Hl0)). simpl in He.
      destruct (Nat.eqb_spec (dletter d) l) as [E|E]; [subst; contradiction | exact He]. }
  destruct (nth_all_idx _ _ Hidx) as [_ Hr].
  erewrite nth_indep with (d' := g rO) by (rewrite map_length, Hl; exact Hr).
  apply map_nth.
Qed.

Lemma filter_perm {A} (f : A -> bool) l l' : Permutation l l' -> Permutation (filter f l) (filter f l').
Proof.
  induction 1; simpl; auto.
  - destruct (f x); auto.
  - destruct (f x), (f y); auto. constructor.
  - etransitivity; eauto.
Qed.

(* x * y and x / y: storage order of either operand is irrelevant *)
Theorem mul_congr (g : R -> R) (x x' y y' r r' : farr) e :
  NoDup (aletters R x) -> NoDup (aletters R x') -> NoDup (aletters R y) -> NoDup (aletters R y') ->
  same_arr x x' -> Permutation (adims y) (adims y') ->
  den_nd (aletters R y) (mk_nd (dshape (adims y)) (map g (avals y))) e
  = den_nd (aletters R y') (mk_nd (dshape (adims y')) (map g (avals y'))) e ->
  env_ok x e ->
  mul_like R rO rI radd rmul g x y = Ok r -> mul_like R rO rI radd rmul g x' y' = Ok r' ->
  (forall l, In l (aletters R r) ->
     lookup e l < lookup (sizes R [(aletters R x, a_nd R x); (aletters R y, mk_nd (dshape (adims y)) (map g (avals y)))]) l) ->
  (forall l, In l (aletters R r') ->
     lookup e l < lookup (sizes R [(aletters R x', a_nd R x'); (aletters R y', mk_nd (dshape (adims y')) (map g (avals y')))]) l) ->
  den r e = den r' e /\ Permutation (adims r) (adims r').
Proof.
  intros Hx Hx' Hy Hy' [Hpx Hdx] Hpy Hdy Hex Hm Hm' Hr Hr'.
  destruct (mul_spec R rO rI radd rmul rsub ropp Rth g x y r e Hx Hy Hm Hr) as [Hd1 He1].
  destruct (mul_spec R rO rI radd rmul rsub ropp Rth g x' y' r' e Hx' Hy' Hm' Hr') as [Hd2 He2].
  split.
  - rewrite He1, He2, Hdy, (Hdx e Hex). reflexivity.
  - rewrite Hd1, Hd2. apply Permutation_app; [exact Hpx|].
    assert (Ef : forall d, negb (memb (dletter d) (aletters R x)) = negb (memb (dletter d) (aletters R x'))).
    { intros d. f_equal. destruct (memb (dletter d) (aletters R x)) eqn:E1, (memb (dletter d) (aletters R x')) eqn:E2; auto.
      - apply memb_In in E1. apply memb_false in E2. exfalso. apply E2.
        eapply Permutation_in; [|exact E1]. unfold aletters, letters. apply Permutation_map. exact Hpx.
      - apply memb_In in E2. apply memb_false in E1. exfalso. apply E1.
        eapply Permutation_in; [|exact E2]. unfold aletters, letters. apply Permutation_map. apply Permutation_sym. exact Hpx. }
    rewrite (filter_ext _ _ Ef). apply filter_perm. exact Hpy.
Qed.

End P.
