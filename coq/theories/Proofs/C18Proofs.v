(* C18: building from definitions — processes numbered in listed order with sysenv first, one
   object per definition in definition order (distinct names), solver / class / lifetime / process /
   dims as defined, refusals. *)
From Coq Require Import List Arith Lia Bool.
Import ListNotations.
From Flodym Require Import Base.ND Base.Env Model.Dims Model.Build.
Local Open Scope nat_scope.

Theorem processes_numbered se names ps :
  make_processes se names = Ok ps -> ps = combine names (seq 0 (length names)) /\ (names <> [] -> hd 0 names = se).
Proof.
  unfold make_processes. destruct names as [|n0 r]; [intros H; injection H as <-; split; [reflexivity | congruence]|].
  destruct (Nat.eqb_spec n0 se); [|discriminate]. intros H; injection H as <-. split; auto.
Qed.

Theorem sysenv_first_or_refused se n0 r : n0 <> se -> make_processes se (n0 :: r) = Err.
Proof. intros H. unfold make_processes. destruct (Nat.eqb_spec n0 se); [contradiction | reflexivity]. Qed.

Section Dict.
Variables (D V : Type).
Variable key : V -> nat.
Variable f : D -> res V.

Lemma dict_set_fresh (l : list V) v : ~ In (key v) (map key l) -> dict_set key l v = l ++ [v].
Proof.
  induction l as [|x l IH]; simpl; intros H; auto.
  destruct (Nat.eqb_spec (key x) (key v)) as [E|E]; [exfalso; apply H; left; auto|].
  rewrite IH; auto.
Qed.

Lemma dict_fold_gen defs acc vs :
  mapM f defs = Ok vs -> NoDup (map key (acc ++ vs)) ->
  fold_left (fun a d => l <- a ;; v <- f d ;; Ok (dict_set key l v)) defs (Ok acc) = Ok (acc ++ vs).
Proof.
  revert acc vs. induction defs as [|d defs IH]; intros acc vs Hm Hn; simpl in *.
  - injection Hm as <-. rewrite app_nil_r. reflexivity.
  - destruct (f d) as [v|] eqn:Ev; simpl in Hm; [|discriminate].
    destruct (mapM f defs) as [vs'|] eqn:Em; simpl in Hm; [|discriminate]. injection Hm as <-.
    simpl. rewrite dict_set_fresh.
    + rewrite (IH (acc ++ [v]) vs' eq_refl); rewrite <- app_assoc; simpl; auto.
    + rewrite map_app in Hn. simpl in Hn. apply NoDup_remove_2 in Hn. intros X. apply Hn. apply in_or_app. left; auto.
Qed.

(* distinct names: exactly one object per definition, in definition order *)
Theorem dict_fold_spec defs vs :
  mapM f defs = Ok vs -> NoDup (map key vs) -> dict_fold key f defs = Ok vs.
Proof. intros Hm Hn. unfold dict_fold. apply (dict_fold_gen defs [] vs Hm Hn). Qed.

Lemma fold_err defs : fold_left (fun a d => l <- a ;; v <- f d ;; Ok (dict_set key l v)) defs (@Err (list V)) = Err.
Proof. induction defs; simpl; auto. Qed.

(* a definition that cannot be built makes the whole construction fail *)
Theorem dict_fold_refuses defs d : In d defs -> f d = Err -> dict_fold key f defs = Err.
Proof.
  unfold dict_fold. generalize (@nil V) as acc. induction defs as [|x defs IH]; intros acc Hin He; [contradiction|].
  simpl. destruct Hin as [->|Hin].
  - rewrite He. simpl. apply fold_err.
  - destruct (f x); simpl; [apply IH; auto | apply fold_err].
Qed.
End Dict.

(* what one flow / stock definition becomes *)
Theorem flow_of_spec procs dims naming fd fo :
  flow_of procs dims naming fd = Ok fo ->
  fo_from fo = fd_from fd /\ fo_to fo = fd_to fd
  /\ fo_name fo = (match fd_override fd with Some n => n | None => naming (fd_from fd) (fd_to fd) end)
  /\ get_subset dims (map KLetter (fd_dims fd)) = Ok (fo_dims fo)
  /\ assoc (fd_from fd) procs <> None /\ assoc (fd_to fd) procs <> None.
Proof.
  unfold flow_of. destruct (assoc (fd_from fd) procs) eqn:E1; [|discriminate].
  destruct (assoc (fd_to fd) procs) eqn:E2; [|discriminate].
  destruct (get_subset dims _) as [ds|] eqn:Eg; simpl; [|discriminate].
  unfold mk_dimset. destruct (nodupb (letters ds)); simpl; [|discriminate].
  intros H; injection H as <-. simpl. repeat split; congruence.
Qed.

Theorem flow_refuses_undefined_process procs dims naming fd :
  assoc (fd_from fd) procs = None \/ assoc (fd_to fd) procs = None -> flow_of procs dims naming fd = Err.
Proof.
  intros [H|H]; unfold flow_of; rewrite H; auto. destruct (assoc (fd_from fd) procs); auto.
Qed.

Theorem stock_of_spec procs dims sd so :
  stock_of true procs dims sd = Ok so ->
  so_name so = sd_name sd /\ so_process so = sd_process sd /\ so_time so = sd_time sd
  /\ so_class so = sd_class sd /\ so_lifetime so = sd_lifetime sd
  /\ (has_solver (sd_class sd) = true -> so_solver so = Some (sd_solver sd))
  /\ (has_solver (sd_class sd) = false -> so_solver so = None)
  /\ get_subset dims (map KLetter (sd_dims sd)) = Ok (so_dims so)
  /\ hd 0 (letters (so_dims so)) = sd_time sd.
Proof.
  unfold stock_of. destruct (get_subset dims _) as [ds|] eqn:Eg; simpl; [|discriminate].
  unfold mk_dimset. destruct (nodupb (letters ds)); simpl; [|discriminate].
  destruct (match sd_process sd with None => Ok tt | Some p => match assoc p procs with Some _ => Ok tt | None => Err end end); simpl; [|discriminate].
  destruct (letters ds) as [|l0 r] eqn:El; [discriminate|].
  destruct (Nat.eqb_spec l0 (sd_time sd)); [|discriminate].
  intros H; injection H as <-. simpl. rewrite El. simpl. repeat split; auto.
  - intros Hc. rewrite Hc. reflexivity.
  - intros Hc. rewrite Hc. reflexivity.
Qed.

Theorem stock_refuses_time_not_first procs dims sd ds l0 r fwd :
  get_subset dims (map KLetter (sd_dims sd)) = Ok ds -> letters ds = l0 :: r -> l0 <> sd_time sd ->
  stock_of fwd procs dims sd = Err.
Proof.
  intros Hg Hl Hn. unfold stock_of. rewrite Hg. simpl. unfold mk_dimset.
  destruct (nodupb (letters ds)); simpl; auto.
  destruct (match sd_process sd with None => Ok tt | Some p => match assoc p procs with Some _ => Ok tt | None => Err end end); simpl; auto.
  rewrite Hl. destruct (Nat.eqb_spec l0 (sd_time sd)); [contradiction | reflexivity].
Qed.

(* definitions that mention an undefined dimension, omit a required lifetime model, supply an
   unused one, or name an unknown solver are refused when the definition is built *)
Theorem definition_refused defined flows stocks params sysenv dims naming pnames fwd :
  definition_ok defined flows stocks params = false -> defined = letters dims ->
  build fwd sysenv dims naming pnames flows stocks params = Err.
Proof. intros H ->. unfold build. rewrite H. reflexivity. Qed.

Theorem stockdef_rules sd :
  stockdef_ok sd = true <->
  sd_solver sd < 2 /\ (needs_lifetime (sd_class sd) = true <-> sd_lifetime sd <> None).
Proof.
  unfold stockdef_ok. rewrite andb_true_iff, Nat.ltb_lt.
  destruct (sd_lifetime sd), (needs_lifetime (sd_class sd)); simpl; split; intros [H1 H2]; split; auto;
    try (split; congruence); try discriminate; try (destruct H2 as [H2 H3]; exfalso; auto; try (apply H3; congruence); fail).
  - destruct H2 as [_ H3]. exfalso. assert (Some n <> None) by congruence. specialize (H3 H). discriminate.
  - destruct H2 as [H3 _]. exfalso. specialize (H3 eq_refl). congruence.
Qed.
