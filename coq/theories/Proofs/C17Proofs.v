(* C17: a lifetime-model object whose cache is cleared by set_prms always serves the table of its
   CURRENT parameters; a recompute therefore equals a computation on a fresh object. *)
From Coq Require Import List Arith Lia Bool.
Import ListNotations.
From Flodym Require Import Model.Lifetime.

Section C.
Variables (Prm Tab : Type).
Variable table : Prm -> Tab.
Notation lm := (lm Prm Tab).

Inductive lop := LSetPrms (p : Prm) | LRead.

Definition lstep (clears : bool) (m : lm) (o : lop) : lm :=
  match o with
  | LSetPrms p => lm_set_prms Prm Tab clears m p
  | LRead => fst (lm_sf Prm Tab table m)
  end.

Definition cache_ok (m : lm) : Prop :=
  lm_cache Prm Tab m = None \/ lm_cache Prm Tab m = Some (table (lm_prm Prm Tab m)).

Lemma cache_ok_new p : cache_ok (lm_new Prm Tab p).
Proof. left. reflexivity. Qed.

Lemma cache_ok_step m o : cache_ok m -> cache_ok (lstep true m o).
Proof.
  intros H. destruct o as [p|]; simpl.
  - left. reflexivity.
  - unfold lm_sf. destruct (lm_cache Prm Tab m) eqn:E; simpl; auto. right. simpl. reflexivity.
Qed.

Theorem cache_inv p0 ops : cache_ok (fold_left (lstep true) ops (lm_new Prm Tab p0)).
Proof.
  assert (G : forall m, cache_ok m -> cache_ok (fold_left (lstep true) ops m)).
  { induction ops as [|o ops IH]; simpl; intros m Hm; auto. apply IH. apply cache_ok_step; auto. }
  apply G. apply cache_ok_new.
Qed.

(* what a read returns after any history = the table of the current parameters *)
Theorem read_is_current p0 ops :
  let m := fold_left (lstep true) ops (lm_new Prm Tab p0) in
  snd (lm_sf Prm Tab table m) = table (lm_prm Prm Tab m).
Proof.
  intros m. pose proof (cache_inv p0 ops) as H. fold m in H. unfold lm_sf.
  destruct H as [H|H]; rewrite H; reflexivity.
Qed.

(* the current parameters are those of the last set_prms (or the initial ones) *)
Fixpoint last_prms (p0 : Prm) (ops : list lop) : Prm :=
  match ops with
  | [] => p0
  | LSetPrms p :: r => last_prms p r
  | LRead :: r => last_prms p0 r
  end.

Lemma prm_after clears m ops :
  lm_prm Prm Tab (fold_left (lstep clears) ops m) = last_prms (lm_prm Prm Tab m) ops.
Proof.
  revert m. induction ops as [|o ops IH]; intros m; simpl; auto. rewrite IH. destruct o; simpl; auto.
  unfold lm_sf. destruct (lm_cache Prm Tab m); reflexivity.
Qed.

(* recompute = fresh object with the current parameters: any function of the table that compute()
   evaluates gives the same result on the used object and on a freshly built one *)
Theorem recompute_fresh {Res} (compute : Tab -> Res) p0 ops :
  let m := fold_left (lstep true) ops (lm_new Prm Tab p0) in
  compute (snd (lm_sf Prm Tab table m))
  = compute (snd (lm_sf Prm Tab table (lm_new Prm Tab (last_prms p0 ops)))).
Proof.
  intros m. subst m. rewrite read_is_current, prm_after. reflexivity.
Qed.

(* calling compute twice in a row changes nothing *)
Theorem compute_idempotent m :
  snd (lm_sf Prm Tab table (fst (lm_sf Prm Tab table m))) = snd (lm_sf Prm Tab table m).
Proof. unfold lm_sf. destruct (lm_cache Prm Tab m) eqn:E; simpl; [rewrite E|]; reflexivity. Qed.

End C.

(* the behaviour before the repair (set_prms keeps the cache) violates it: witness with tables = parameters *)
Lemma recompute_fresh_refuted_before_fix :
  exists (ops : list (lop nat)),
    snd (lm_sf nat nat (fun p => p) (fold_left (lstep nat nat (fun p => p) false) ops (lm_new nat nat 1)))
    <> last_prms nat 1 ops.
Proof. exists [LRead nat; LSetPrms nat 2]. vm_compute. discriminate. Qed.
