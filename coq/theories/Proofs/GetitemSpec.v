(* C06 (reads): the label-level specification of FlodymArray.__getitem__ with a dict key, for every
   array, every well-formed dict (any number of addressed dimensions, single items and subset Dimensions in
   any combination and order) and every label assignment of the result:
     - the read succeeds,
     - the result's dimensions are the array's with single-item selections dropped and subset selections
       replaced, in the array's order,
     - the entry under the labels e is the source entry whose index along each dimension is the label's
       own index (kept), the selected item's index (single) or the index of the subset's e-th item. *)
From Coq Require Import List Arith Lia Bool.
Import ListNotations.
From Flodym Require Import Base.ND Base.Env Np.Einsum Np.Index Model.Dims Model.Array Model.SubArray
  Proofs.ArrayLemmas Proofs.C14Proofs Proofs.CumsumProofs Proofs.OrthoIndex Proofs.HandlerProofs.
Local Open Scope nat_scope.

Definition src_idx (F : asg) (e : env) (d : dim) : nat :=
  match F (dletter d) with
  | None => lookup e (dletter d)
  | Some (ISingle it) => match index_of it (ditems d) with Some i => i | None => 0 end
  | Some (IDim sd) => nth (lookup e (dletter sd)) (ids_of d (ditems sd)) 0
  | Some (IList its) => nth (lookup e (dletter d)) (ids_of d its) 0
  end.
Definition src_env (F : asg) (ds : dimset) (e : env) : env := map (fun d => (dletter d, src_idx F e d)) ds.

Lemma pull_handler F ds e :
  pull (map (sel_for F) ds) (map (lookup e) (letters (flat_map (out_for F) ds))) = map (src_idx F e) ds.
Proof.
  induction ds as [|d ds IH]; simpl; auto.
  unfold sel_for, out_for, src_idx at 1. destruct (F (dletter d)) as [[it|sd|its]|]; simpl; f_equal; exact IH.
Qed.

Lemma lookup_src_env F ds e : NoDup (letters ds) -> map (lookup (src_env F ds e)) (letters ds) = map (src_idx F e) ds.
Proof.
  intros Hn. unfold src_env.
  assert (E : map (fun d => (dletter d, src_idx F e d)) ds = combine (letters ds) (map (src_idx F e) ds)).
  { unfold letters. clear Hn. induction ds as [|d ds IH]; simpl; auto. f_equal. exact IH. }
  rewrite E. apply lookup_combine_map; auto. unfold letters. rewrite !map_length. reflexivity.
Qed.

(* no list selection (reads refuse them) *)
Definition no_lists (F : asg) (ds : dimset) : Prop := forall d its, In d ds -> F (dletter d) <> Some (IList its).

Lemma out_shape_handler F ds : no_lists F ds ->
  out_shape (map (sel_for F) ds) (dshape ds) = dshape (flat_map (out_for F) ds).
Proof.
  intros Hnl. induction ds as [|d ds IH]; simpl; auto.
  assert (IH' : out_shape (map (sel_for F) ds) (dshape ds) = dshape (flat_map (out_for F) ds)).
  { apply IH. intros d' its Hd'. apply Hnl. right. exact Hd'. }
  pose proof (Hnl d) as Hd. unfold sel_for, out_for. destruct (F (dletter d)) as [[it|sd|its]|] eqn:E; simpl.
  - exact IH'.
  - unfold ids_of. rewrite map_length. fold (dlen sd). f_equal. exact IH'.
  - exfalso. apply (Hd its (or_introl eq_refl)). reflexivity.
  - f_equal. exact IH'.
Qed.

(* every assigned selection is valid for its dimension *)
Definition valid_asg (F : asg) (ds : dimset) : Prop :=
  forall d v, In d ds -> F (dletter d) = Some v -> sel_valid ds d v.

Lemma same_letter_same_dim ds d d' : NoDup (letters ds) -> In d ds -> In d' ds -> dletter d' = dletter d -> d' = d.
Proof.
  intros Hn H1 H2 E. pose proof (find_letter_in ds d Hn H1) as F1. pose proof (find_letter_in ds d' Hn H2) as F2.
  rewrite E in F2. congruence.
Qed.

Lemma valid_asg_of ds f kvs : NoDup (letters ds) -> wf_dict ds f kvs -> valid_asg f ds -> valid_asg (asg_of f kvs) ds.
Proof.
  intros Hn Hw. induction Hw as [f|f d v r Hin Hnone Hval Hfr Hw IH]; intros Hv; simpl; auto.
  apply IH. intros d' v' Hd' E. unfold upd_asg in E.
  destruct (Nat.eqb_spec (dletter d') (dletter d)) as [El|Hne].
  - injection E as <-. rewrite (same_letter_same_dim ds d d' Hn Hin Hd' El). exact Hval.
  - apply Hv; auto.
Qed.

Lemma index_of_lt it l i : index_of it l = Some i -> i < length l.
Proof.
  revert i. induction l as [|a l IH]; intros i; simpl; [discriminate|].
  destruct (Nat.eqb a it); [intros H; injection H as <-; lia|].
  destruct (index_of it l) as [j|]; simpl; [|discriminate]. intros H; injection H as <-. specialize (IH j eq_refl). lia.
Qed.

Lemma ids_of_lt d its : incl its (ditems d) -> forallb (fun i => Nat.ltb i (dlen d)) (ids_of d its) = true.
Proof.
  intros H. apply forallb_forall. intros i Hi. unfold ids_of in Hi. apply in_map_iff in Hi. destruct Hi as (it & <- & Hit).
  destruct (index_of_in it (ditems d) (H it Hit)) as [j Ej]. rewrite Ej. apply Nat.ltb_lt. apply (index_of_lt _ _ _ Ej).
Qed.

Lemma raw_ok_handler F ds : valid_asg F ds ->
  Forall2 (fun r m => raw_ok r m = true) (map (sel_for F) ds) (dshape ds).
Proof.
  intros Hv. assert (G : forall sub, incl sub ds -> Forall2 (fun r m => raw_ok r m = true) (map (sel_for F) sub) (dshape sub)).
  { induction sub as [|d sub IH]; intros Hi; simpl; constructor.
    - pose proof (Hv d) as Hd. unfold sel_for. destruct (F (dletter d)) as [[it|sd|its]|] eqn:E; simpl; auto.
      + specialize (Hd _ (Hi d (or_introl eq_refl)) eq_refl). simpl in Hd.
        destruct (index_of_in it (ditems d) Hd) as [j Ej]. rewrite Ej. apply Nat.ltb_lt. apply (index_of_lt _ _ _ Ej).
      + specialize (Hd _ (Hi d (or_introl eq_refl)) eq_refl). simpl in Hd. apply ids_of_lt. exact Hd.
      + specialize (Hd _ (Hi d (or_introl eq_refl)) eq_refl). simpl in Hd. apply ids_of_lt. exact Hd.
    - apply IH. intros x Hx. apply Hi. right. exact Hx. }
  apply G. intros x Hx. exact Hx.
Qed.

Section G.
Variable R : Type.
Variable rO : R.
Notation farr := (farr R).
Notation den := (den R rO).
Notation wf := (wf R).

Theorem getitem_dict_spec (a : farr) kvs :
  wf a -> wf_dict (adims a) no_asg kvs ->
  existsb (fun p => match snd p with IList _ => true | _ => false end) kvs = false ->
  no_lists (asg_of no_asg kvs) (adims a) ->
  let F := asg_of no_asg kvs in
  exists r, getitem R rO a (KDict kvs) = Ok r
    /\ adims r = flat_map (out_for F) (adims a)
    /\ forall e, (forall d, In d (adims r) -> lookup e (dletter d) < dlen d) ->
          den r e = den a (src_env F (adims a) e).
Proof.
  intros [Hn Hlen] Hw Hinv Hnl F. set (ds := adims a) in *.
  unfold getitem, getitem_v.
  pose proof (mk_handler_dict ds kvs Hn Hw) as Hh. unfold mk_handler_of in Hh. fold ds. rewrite Hh. clear Hh. cbn [bind h_invalid h_sels h_dims_out]. rewrite Hinv. fold F.
  set (raw := map (sel_for F) ds).
  assert (Hval : valid_asg F ds).
  { apply valid_asg_of; auto. intros d v _ E. discriminate. }
  assert (Hl : length raw = length (shp (a_nd R a))).
  { unfold raw, a_nd; simpl. unfold dshape. rewrite !map_length. reflexivity. }
  assert (Hok : Forall2 (fun r m => raw_ok r m = true) raw (shp (a_nd R a))) by (apply raw_ok_handler; exact Hval).
  destruct (index_orthogonal R rO (a_nd R a) raw Hl Hok) as (v & Hv & Hshp & Hlv & Hget).
  change (shp (a_nd R a)) with (dshape ds) in *. rewrite Hv. cbn [bind].
  assert (Eshape : shp v = dshape (flat_map (out_for F) ds)).
  { rewrite Hshp. apply out_shape_handler. exact Hnl. }
  unfold construct. rewrite Eshape.
  assert (Es : shape_eqb (dshape (flat_map (out_for F) ds)) (dshape (flat_map (out_for F) ds)) = true).
  { unfold shape_eqb. destruct (list_eq_dec Nat.eq_dec _ _); [reflexivity | contradiction]. }
  rewrite Es. rewrite Hlv, Eshape, Nat.eqb_refl. cbn [andb].
  eexists. split; [reflexivity|]. cbn [adims avals]. split; [reflexivity|].
  intros e He.
  unfold ArrayLemmas.den at 1. unfold Einsum.den_nd, a_nd, aletters. cbn [adims avals shp dat].
  rewrite <- Eshape.
  rewrite Hget.
  - unfold raw. rewrite pull_handler. unfold ArrayLemmas.den, Einsum.den_nd, a_nd, aletters. cbn [shp dat].
    fold ds. rewrite (lookup_src_env F ds e Hn). reflexivity.
  - unfold raw. rewrite out_shape_handler by exact Hnl.
    clear -He. induction (flat_map (out_for F) ds) as [|d l IH]; simpl; constructor.
    + apply He. left. reflexivity.
    + apply IH. intros d' Hd'. apply He. right. exact Hd'.
Qed.

End G.
