(* C11 / C12 on the row-level DataFrame model: refusals, allow_extra as a filter, and the round trip
   import (export a) = a for the long layout. *)
From Coq Require Import List Arith Lia Bool.
Import ListNotations.
From Flodym Require Import Base.ND Base.Env Np.Einsum Np.Index Model.Dims Model.Array Model.DF Proofs.ArrayLemmas.
Local Open Scope nat_scope.

Section P.
Variable R : Type.
Variable rO : R.
Variable is_zero : R -> bool.
Notation row := (row R).
Notation import := (import_rows R rO true 0).      (* the code as it stands: duplicates checked after the extra-row filter, full-width positions *)

(* ---------- C12: refusals under default flags ---------- *)
Theorem refuses_layout_faults ds om um am ae rows : om || um = true -> import ds om um am ae rows = Err.
Proof. intros H. unfold import_rows. rewrite H. reflexivity. Qed.

Theorem refuses_unknown_item ds am rows :
  forallb (fun r => known ds (r_labels R r)) rows = false -> import ds false false am false rows = Err.
Proof. intros H. unfold import_rows. simpl. rewrite H. reflexivity. Qed.

Theorem refuses_duplicate ds am rows :
  has_dup (map (r_labels R) rows) = true -> import ds false false am false rows = Err.
Proof.
  intros H. unfold import_rows. simpl. destruct (forallb _ rows); simpl; auto. rewrite H. reflexivity.
Qed.

Theorem refuses_wrong_row_count ds rows :
  length rows <> size (dshape ds) -> import ds false false false false rows = Err.
Proof.
  intros H. unfold import_rows. simpl. destruct (forallb _ rows); simpl; auto.
  destruct (has_dup _); simpl; auto. apply Nat.eqb_neq in H. rewrite H. reflexivity.
Qed.

Theorem refuses_empty_value ds rows :
  existsb (fun r => match r_value R r with None => true | _ => false end) rows = true ->
  import ds false false false false rows = Err.
Proof.
  intros H. unfold import_rows. simpl. destruct (forallb _ rows); simpl; auto.
  destruct (has_dup _); simpl; auto. destruct (Nat.eqb _ _); simpl; auto. rewrite H. reflexivity.
Qed.

(* allow_extra_values: rows carrying unknown items are ignored and nothing else changes *)
Lemma forallb_filter_self {A} (f : A -> bool) l : forallb f (filter f l) = true.
Proof. induction l as [|a l IH]; simpl; auto. destruct (f a) eqn:E; simpl; auto. rewrite E. auto. Qed.

Lemma filter_idem {A} (f : A -> bool) l : filter f (filter f l) = filter f l.
Proof. induction l as [|a l IH]; simpl; auto. destruct (f a) eqn:E; simpl; auto. rewrite E, IH. reflexivity. Qed.

Theorem allow_extra_is_a_filter ds om um am rows :
  import ds om um am true rows
  = import ds om um am false (filter (fun r => known ds (r_labels R r)) rows).
Proof.
  unfold import_rows. destruct (om || um); auto. simpl.
  rewrite forallb_filter_self. simpl. reflexivity.
Qed.

(* ---------- C11: the long-layout round trip ---------- *)

Lemma upd_app_len (l : list R) x r v : upd R (l ++ x :: r) (length l) v = l ++ v :: r.
Proof. induction l as [|b l IH]; simpl; auto. f_equal. exact IH. Qed.

Lemma fold_upd_seq (g : nat -> R) m (v : list R) : length v = m ->
  fold_left (fun acc k => upd R acc k (g k)) (seq 0 m) v = map g (seq 0 m).
Proof.
  intros Hl.
  assert (G : forall j, j <= m ->
            fold_left (fun acc k => upd R acc k (g k)) (seq 0 j) v = map g (seq 0 j) ++ skipn j v).
  { induction j as [|j IH]; intros Hj; [reflexivity|].
    rewrite !seq_S, fold_left_app, map_app, IH by lia. cbn [fold_left map Nat.add].
    rewrite <- app_assoc. cbn [app].
    assert (Hs : exists x r, skipn j v = x :: r /\ skipn (S j) v = r).
    { clear IH. revert j Hj Hl. generalize m. induction v as [|a v IHv]; intros m0 j Hj Hl0; simpl in *; [lia|].
      destruct j as [|j]; [exists a, v; auto|]. destruct m0; [lia|]. apply (IHv m0 j); lia. }
    destruct Hs as (x & r & E1 & E2). rewrite E1, E2.
    assert (Hlen : length (map g (seq 0 j)) = j) by (rewrite map_length, seq_length; auto).
    rewrite <- Hlen at 2. apply upd_app_len. }
  rewrite (G m) by lia. rewrite skipn_all2 by lia. apply app_nil_r.
Qed.

Lemma ravel_nth_all_idx sh k : k < size sh -> ravel sh (nth k (all_idx sh) []) = k.
Proof.
  revert k. induction sh as [|n sh IH]; intros k Hk; simpl in *.
  - destruct k; [reflexivity | lia].
  - fold (size sh) in *. set (m := size sh) in *.
    assert (Hm : 0 < m) by (destruct m; [nia | lia]).
    pose proof (Nat.div_mod k m ltac:(lia)) as Hdm.
    assert (Hq : k / m < n) by (apply Nat.div_lt_upper_bound; lia).
    pose proof (Nat.mod_upper_bound k m ltac:(lia)) as Hr.
    replace k with (k / m * m + k mod m) at 1 by lia.
    rewrite nth_flat_map_chunks with (m := m); auto.
    2:{ intros; rewrite map_length; apply all_idx_length. }
    simpl. erewrite nth_indep with (d' := (k / m) :: []) by (rewrite map_length, all_idx_length; auto).
    rewrite map_nth. rewrite IH by auto. lia.
Qed.

Lemma list_as_nth {A} (l : list A) d : l = map (fun k => nth k l d) (seq 0 (length l)).
Proof.
  induction l as [|a l IH]; simpl; auto. f_equal. rewrite <- seq_shift, map_map. exact IH.
Qed.

(* writing every multi-index once, in any value function f, yields the table of f *)
Lemma fold_upd_all_idx sh (f : list nat -> R) (v : list R) : length v = size sh ->
  fold_left (fun acc idx => upd R acc (ravel sh idx) (f idx)) (all_idx sh) v = tab sh f.
Proof.
  intros Hl. unfold tab.
  rewrite (list_as_nth (all_idx sh) []) at 1 2. rewrite all_idx_length.
  rewrite map_map.
  assert (E : forall (l : list nat) acc, (forall k, In k l -> k < size sh) ->
            fold_left (fun acc idx => upd R acc (ravel sh idx) (f idx)) (map (fun k => nth k (all_idx sh) []) l) acc
            = fold_left (fun acc k => upd R acc k (f (nth k (all_idx sh) []))) l acc).
  { induction l as [|k l IH]; intros acc Hin; simpl; auto.
    rewrite ravel_nth_all_idx by (apply Hin; left; auto). apply IH. intros; apply Hin; right; auto. }
  rewrite E by (intros k Hk; apply in_seq in Hk; lia).
  apply fold_upd_seq. exact Hl.
Qed.

(* ---- the round trip ---- *)
Definition items_unique (ds : dimset) : Prop := Forall (fun d => NoDup (ditems d)) ds.

Lemma index_of_nth items i : NoDup items -> i < length items -> index_of (nth i items 0) items = Some i.
Proof.
  revert i. induction items as [|a l IH]; intros i Hn Hi; simpl in *; [lia|].
  inversion Hn as [|? ? Ha Hn']; subst. destruct i as [|i].
  - rewrite Nat.eqb_refl. reflexivity.
  - destruct (Nat.eqb_spec a (nth i l 0)) as [E|E].
    + exfalso. apply Ha. rewrite E. apply nth_In. lia.
    + rewrite IH by (auto; lia). reflexivity.
Qed.

Lemma positions_labels ds idx : items_unique ds -> Forall2 lt idx (dshape ds) ->
  positions ds (labels_of ds idx) = idx.
Proof.
  intros Hu. revert idx. induction Hu as [|d ds Hd Hu IH]; intros idx H.
  - inversion H. reflexivity.
  - simpl in H. inversion H as [|i n idx' sh' Hi H']; subst.
    unfold positions, labels_of in *. cbn [map2]. rewrite index_of_nth by auto. f_equal. apply IH. exact H'.
Qed.

Lemma known_labels ds idx : Forall2 lt idx (dshape ds) -> known ds (labels_of ds idx) = true.
Proof.
  intros H. unfold known. apply andb_true_iff. split.
  - apply Nat.eqb_eq. revert idx H. induction ds as [|d ds IH]; intros idx H; simpl in *; inversion H; subst; simpl; auto.
  - revert idx H. induction ds as [|d ds IH]; intros idx H; simpl in *; inversion H as [|i n idx' sh' Hi H']; subst; simpl; auto.
    apply andb_true_iff. split; [apply memb_In; apply nth_In; exact Hi | apply IH; exact H'].
Qed.

Lemma labels_eqb_eq a b : labels_eqb a b = true <-> a = b.
Proof.
  revert b. induction a as [|x a IH]; intros [|y b]; simpl; split; try discriminate; auto.
  - rewrite andb_true_iff, Nat.eqb_eq, IH. intros [-> ->]. reflexivity.
  - intros H. injection H as -> ->. rewrite Nat.eqb_refl. apply IH. reflexivity.
Qed.

Lemma has_dup_NoDup ls : NoDup ls -> has_dup ls = false.
Proof.
  induction 1 as [|a l Ha Hn IH]; simpl; auto. rewrite IH, orb_false_r.
  destruct (existsb (labels_eqb a) l) eqn:E; auto. exfalso.
  apply existsb_exists in E. destruct E as (b & Hb & Eb). apply labels_eqb_eq in Eb. subst. contradiction.
Qed.

Lemma labels_injective ds i j : items_unique ds -> Forall2 lt i (dshape ds) -> Forall2 lt j (dshape ds) ->
  labels_of ds i = labels_of ds j -> i = j.
Proof.
  intros Hu Hi Hj E. rewrite <- (positions_labels ds i Hu Hi), <- (positions_labels ds j Hu Hj). rewrite E. reflexivity.
Qed.

Lemma NoDup_map_inj_in {A B} (f : A -> B) l :
  (forall a b, In a l -> In b l -> f a = f b -> a = b) -> NoDup l -> NoDup (map f l).
Proof.
  intros Hf Hn. induction Hn as [|a l Ha Hn IH]; simpl; constructor.
  - intros H. apply in_map_iff in H. destruct H as (b & E & Hb).
    assert (b = a) by (apply Hf; [right; auto | left; auto | auto]). subst. contradiction.
  - apply IH. intros x y Hx Hy. apply Hf; right; auto.
Qed.

Lemma filter_true {A} (l : list A) : filter (fun _ => true) l = l.
Proof. induction l; simpl; congruence. Qed.

Lemma wrap0 len i : i < len -> wrap_index 0 len i = Some i.
Proof. intros H. unfold wrap_index. simpl. apply Nat.ltb_lt in H. rewrite H. reflexivity. Qed.

Lemma mapM_wrap sh idx : Forall2 lt idx sh ->
  mapM (fun p => match wrap_index 0 (fst p) (snd p) with Some i => Ok i | None => Err end) (combine sh idx) = Ok idx.
Proof.
  intros H. induction H as [|i n idx sh Hi H IH]; simpl; auto. rewrite wrap0 by auto. simpl. rewrite IH. reflexivity.
Qed.

Theorem roundtrip_long (a : farr R) :
  items_unique (adims a) -> length (avals a) = size (dshape (adims a)) ->
  import (adims a) false false false false (to_rows R rO is_zero false a) = Ok (avals a).
Proof.
  intros Hu Hl. set (ds := adims a). set (sh := dshape ds).
  unfold to_rows. fold ds sh. cbn [andb negb]. rewrite filter_true.
  set (mk := fun idx => mk_row R (labels_of ds idx) (Some (get rO sh (avals a) idx))).
  unfold import_rows. cbn [orb negb andb].
  assert (Hk : forallb (fun r => known ds (r_labels R r)) (map mk (all_idx sh)) = true).
  { apply forallb_forall. intros r Hr. apply in_map_iff in Hr. destruct Hr as (idx & <- & Hidx).
    simpl. apply known_labels. apply all_idx_in. exact Hidx. }
  rewrite Hk. cbn [negb andb].
  assert (Hd : has_dup (map (r_labels R) (map mk (all_idx sh))) = false).
  { apply has_dup_NoDup. rewrite map_map. simpl. apply NoDup_map_inj_in; [|apply all_idx_NoDup].
    intros i j Hi Hj. apply labels_injective; auto; apply all_idx_in; auto. }
  rewrite Hd. rewrite map_length, all_idx_length, Nat.eqb_refl. cbn [negb andb].
  assert (Hv : existsb (fun r => match r_value R r with None => true | _ => false end) (map mk (all_idx sh)) = false).
  { clear. induction (all_idx sh); simpl; auto. }
  rewrite Hv.
  (* the placement loop *)
  assert (E : forall (l : list (list nat)) acc, (forall idx, In idx l -> Forall2 lt idx sh) ->
            fold_left (fun acc r => v <- acc ;;
                         match mapM (fun p => match wrap_index 0 (fst p) (snd p) with Some i => Ok i | None => Err end)
                                    (combine sh (positions ds (r_labels R r))) with
                         | Ok pos => Ok (upd R v (ravel sh pos) (match r_value R r with Some x => x | None => rO end))
                         | Err => Err end) (map mk l) (Ok acc)
            = Ok (fold_left (fun acc idx => upd R acc (ravel sh idx) (get rO sh (avals a) idx)) l acc)).
  { induction l as [|idx l IH]; intros acc Hin; simpl; auto.
    rewrite positions_labels by (auto; apply Hin; left; auto).
    rewrite mapM_wrap by (apply Hin; left; auto). apply IH. intros; apply Hin; right; auto. }
  rewrite E by (intros idx Hidx; apply all_idx_in; exact Hidx).
  rewrite fold_upd_all_idx by apply tab_length. f_equal. apply tab_get. exact Hl.
Qed.

(* to_df lists every entry exactly once, under its true labels (dense), resp. exactly the non-zero ones (sparse) *)
Theorem to_rows_spec sparse (a : farr R) :
  to_rows R rO is_zero sparse a
  = map (fun idx => mk_row R (labels_of (adims a) idx) (Some (get rO (dshape (adims a)) (avals a) idx)))
        (filter (fun idx => negb (sparse && is_zero (get rO (dshape (adims a)) (avals a) idx))) (all_idx (dshape (adims a)))).
Proof. reflexivity. Qed.

End P.
