(* Denotation of labelled arrays and the basic facts shared by the proofs of C01/C04/C05/C07. *)
From Coq Require Import List Arith Lia Ring_theory Ring Permutation Bool.
Import ListNotations.
From Flodym Require Import Base.ND Base.Env Np.Einsum Model.Dims Model.Array.

Section L.
Variable R : Type.
Variables (rO rI : R) (radd rmul rsub : R -> R -> R) (ropp : R -> R).
Variable Rth : ring_theory rO rI radd rmul rsub ropp eq.
Add Ring RringL : Rth.
Notation sum := (sum rO radd).
Notation sum_env := (sum_env rO radd).
Notation get := (get rO).
Notation farr := (farr R).
Notation einsum := (einsum R rO rI radd rmul).
Notation den_nd := (den_nd R rO).
Notation "x + y" := (radd x y) : rs. Notation "x * y" := (rmul x y) : rs.

Definition wf (a : farr) : Prop :=
  NoDup (aletters R a) /\ length (avals a) = size (dshape (adims a)).

Definition lsizes (a : farr) : env := combine (aletters R a) (dshape (adims a)).

(* the meaning of an array: a function of label environments *)
Definition den (a : farr) (e : env) : R := den_nd (aletters R a) (a_nd R a) e.

Definition in_range (sz e : env) (ls : list letter) : Prop :=
  forall l, In l ls -> lookup e l < lookup sz l.

Lemma den_ext a e e' : (forall l, In l (aletters R a) -> lookup e l = lookup e' l) -> den a e = den a e'.
Proof. apply den_nd_ext. Qed.

Lemma den_ext_all a : ext (den a).
Proof. intros e e' H. apply den_ext. auto. Qed.

Lemma nodupb_NoDup l : nodupb l = true <-> NoDup l.
Proof.
  induction l as [|a l IH]; simpl.
  - split; auto. constructor.
  - rewrite andb_true_iff, negb_true_iff, memb_false, IH. split.
    + intros [H1 H2]. constructor; auto.
    + intros H. inversion H; auto.
Qed.

Lemma forallb_memb_incl ls rs : forallb (fun l => memb l ls) rs = true <-> incl rs ls.
Proof.
  rewrite forallb_forall. unfold incl. split; intros H l Hl.
  - apply memb_In. auto. - apply memb_In. auto.
Qed.

Lemma term_single ls a e : term R rO rI rmul [(ls, a)] e = den_nd ls a e.
Proof. unfold term; simpl. ring. Qed.

Lemma term_pair l1 a1 l2 a2 e :
  term R rO rI rmul [(l1, a1); (l2, a2)] e = (den_nd l1 a1 e * den_nd l2 a2 e)%rs.
Proof. unfold term; simpl. ring. Qed.

Lemma sizes_single ls (a : nd R) : sizes R [(ls, a)] = combine ls (shp a).
Proof. unfold sizes; simpl. apply app_nil_r. Qed.

Lemma NoDup_filter {A} (f : A -> bool) l : NoDup l -> NoDup (filter f l).
Proof.
  induction 1 as [|a l Hn Hd IH]; simpl; [constructor|].
  destruct (f a); auto. constructor; auto. rewrite filter_In. tauto.
Qed.

Lemma summed_single ls (a : nd R) rs : NoDup ls ->
  summed R [(ls, a)] rs = filter (fun l => negb (memb l rs)) ls.
Proof.
  intros Hnd. unfold summed; simpl. rewrite app_nil_r.
  apply nodup_fixed_point. apply NoDup_filter; auto.
Qed.

(* ---- sum_values_to : the marginal by label -------------------------------------------------- *)

Definition others (a : farr) (rs : list letter) : list letter :=
  filter (fun l => negb (memb l rs)) (aletters R a).

Theorem sum_values_to_den a rs v e :
  wf a -> sum_values_to R rO rI radd rmul a rs = Ok v -> in_range (lsizes a) e rs ->
  den_nd rs v e = sum_env (sized (lsizes a) (others a rs)) (fun e' => den a (e' ++ e)).
Proof.
  intros [Hnd Hlen] Hs Hr. unfold sum_values_to in Hs.
  destruct (forallb (fun l => memb l (aletters R a)) rs && nodupb rs) eqn:E; [|discriminate].
  injection Hs as <-.
  rewrite einsum_den; auto.
  - rewrite sizes_single, summed_single by auto. simpl.
    apply sum_env_ext. intros e'. apply term_single.
  - rewrite sizes_single. exact Hr.
Qed.

Lemma sum_values_to_shp a rs v :
  sum_values_to R rO rI radd rmul a rs = Ok v -> shp v = map (lookup (lsizes a)) rs.
Proof.
  unfold sum_values_to. destruct (_ && _); [|discriminate]. intros H; injection H as <-.
  rewrite einsum_shp, sizes_single. reflexivity.
Qed.

End L.
