(* C19 / C20: file names, one file per flow, Sankey link assembly. *)
From Coq Require Import List Arith Lia Bool ZArith QArith Qcanon.
Import ListNotations.
From Flodym Require Import Base.ND Base.Env Np.Einsum Np.Index Model.Dims Model.Array Model.SubArray Model.Instances Model.Export.
Local Open Scope nat_scope.

(* one CSV file per flow when the sanitised names are distinct *)
Lemma app_suffix_inj (a b s : list nat) : a ++ s = b ++ s -> a = b.
Proof. apply app_inv_tail. Qed.

Theorem one_file_per_flow names :
  NoDup (map sanitize names) -> NoDup (flow_files names) /\ length (flow_files names) = length names.
Proof.
  intros H. unfold flow_files. split; [|apply map_length].
  rewrite <- (map_map sanitize (fun s => s ++ csv_suffix)).
  apply FinFun.Injective_map_NoDup; auto. intros a b. apply app_suffix_inj.
Qed.

(* excluded flows and flows touching an excluded process produce no link *)
Theorem hidden_flow_has_no_link procs ep ef slice items_of flows f ls :
  sankey_links procs ep ef slice items_of flows = Ok ls -> flow_is_shown procs ep ef f = false ->
  ~ In f (filter (flow_is_shown procs ep ef) flows).
Proof. intros _ Hs Hin. apply filter_In in Hin. destruct Hin as [_ Hin]. congruence. Qed.

Lemma mapM_in {A B} (f : A -> res B) l rs x : mapM f l = Ok rs -> In x l -> exists r, In r rs /\ f x = Ok r.
Proof.
  revert rs. induction l as [|a l IH]; intros rs H Hin; [contradiction|]. simpl in H.
  destruct (f a) as [b|] eqn:E; simpl in H; [|discriminate].
  destruct (mapM f l) as [bs|] eqn:E'; simpl in H; [|discriminate]. injection H as <-.
  destruct Hin as [->|Hin]; [exists b; split; [left; auto | auto]|].
  destruct (IH bs eq_refl Hin) as (r & Hr & Er). exists r. split; [right; auto | auto].
Qed.

(* every link of a flow runs from the node of its source process to the node of its target process;
   an unsplit flow yields exactly one link, carrying the total of the sliced flow *)
Theorem links_of_spec procs ep slice items_of f ls :
  links_of procs ep slice items_of f = Ok ls ->
  (forall l, In l ls -> node_of procs ep (sf_from f) = Some (sl_source l) /\ node_of procs ep (sf_to f) = Some (sl_target l))
  /\ (sf_split f = None -> exists fs,
        getitem Qc QO (sf_arr f) (KDict (map (fun kv => (KLetter (fst kv), ISingle (snd kv)))
                                          (filter (fun kv => memb (fst kv) (aletters Qc (sf_arr f))) slice))) = Ok fs
        /\ ls = [mk_slink (match node_of procs ep (sf_from f) with Some s => s | None => 0 end)
                          (match node_of procs ep (sf_to f) with Some t => t | None => 0 end) (sf_name f) (sum_all fs)]).
Proof.
  unfold links_of. destruct (node_of procs ep (sf_from f)) as [s|]; [|discriminate].
  destruct (node_of procs ep (sf_to f)) as [t|]; [|discriminate].
  destruct (getitem Qc QO (sf_arr f) _) as [fs|] eqn:Eg; simpl; [|discriminate].
  destruct (sf_split f) as [l|].
  - destruct (sum_values_to Qc QO QI Qcplus Qcmult fs [l]) as [v|]; simpl; [|discriminate].
    intros H; injection H as <-. split; [|discriminate].
    intros lk Hin. apply in_map_iff in Hin. destruct Hin as (iv & <- & _). simpl. auto.
  - intros H; injection H as <-. split.
    + intros lk [<-|[]]. simpl. auto.
    + intros _. exists fs. split; reflexivity.
Qed.

(* the node of a process is its position among the shown processes *)
Lemma index_of_nth_error l (ls : list nat) i : index_of l ls = Some i -> nth_error ls i = Some l.
Proof.
  revert i. induction ls as [|a ls IH]; simpl; intros i H; [discriminate|].
  destruct (Nat.eqb_spec a l); [injection H as <-; subst; reflexivity|].
  destruct (index_of l ls) as [j|]; simpl in H; [|discriminate]. injection H as <-. simpl. apply IH. reflexivity.
Qed.

Theorem node_is_position_among_shown procs ep pid i :
  node_of procs ep pid = Some i -> nth_error (map snd (shown_processes procs ep)) i = Some pid.
Proof. apply index_of_nth_error. Qed.

Theorem excluded_process_is_not_a_node procs ep p : In p (shown_processes procs ep) -> ~ In (fst p) ep.
Proof. intros H. unfold shown_processes in H. apply filter_In in H. destruct H as [_ H]. apply negb_true_iff, memb_false in H. exact H. Qed.

(* one CSV file per exported stock quantity when the sanitised stock names are distinct *)
Definition quantity_tags (with_in_out : bool) : list (list nat) :=
  [ [115;116;111;99;107] ] ++ (if with_in_out then [ [105;110;102;108;111;119]; [111;117;116;102;108;111;119] ] else []).

Lemma stock_file_inj s1 s2 k1 k2 : In k1 (quantity_tags true) -> In k2 (quantity_tags true) ->
  s1 ++ [95] ++ k1 ++ csv_suffix = s2 ++ [95] ++ k2 ++ csv_suffix -> s1 = s2 /\ k1 = k2.
Proof.
  intros H1 H2 E. apply (f_equal (@rev nat)) in E. rewrite !rev_app_distr in E.
  simpl in H1, H2.
  destruct H1 as [<-|[<-|[<-|[]]]], H2 as [<-|[<-|[<-|[]]]]; simpl in E; try discriminate;
    (injection E as E; apply (f_equal (@rev nat)) in E; rewrite !rev_involutive in E; split; [exact E | reflexivity]).
Qed.

Theorem one_file_per_stock_quantity b names :
  NoDup (map sanitize names) ->
  NoDup (stock_files b names) /\ length (stock_files b names) = (if b then 3 else 1) * length names.
Proof.
  intros H. unfold stock_files. fold (quantity_tags b).
  assert (Tn : NoDup (quantity_tags b)).
  { destruct b; simpl; repeat constructor; simpl; intuition discriminate. }
  assert (T : forall k, In k (quantity_tags b) -> In k (quantity_tags true)).
  { intros k Hk. destruct b; [exact Hk|]. simpl in Hk. destruct Hk as [<-|[]]. left. reflexivity. }
  assert (Tl : length (quantity_tags b) = if b then 3 else 1) by (destruct b; reflexivity).
  set (tags := quantity_tags b) in *. clearbody tags. split.
  - induction names as [|n names IH]; cbn [flat_map]; [constructor|].
    cbn [map] in H. inversion H as [|? ? Hn Hd]; subst.
    apply NoDup_app_intro.
    + apply FinFun.Injective_map_NoDup; [|exact Tn].
      intros a c E. apply app_inv_head in E. apply app_inv_head in E. apply app_inv_tail in E. exact E.
    + apply IH. exact Hd.
    + intros f Hf1 Hf2. apply in_map_iff in Hf1. destruct Hf1 as (k1 & <- & Hk1).
      apply in_flat_map in Hf2. destruct Hf2 as (n' & Hn' & Hf2). apply in_map_iff in Hf2. destruct Hf2 as (k2 & E & Hk2).
      destruct (stock_file_inj _ _ _ _ (T _ Hk2) (T _ Hk1) E) as [Es _].
      apply Hn. rewrite <- Es. apply in_map. exact Hn'.
  - clear H. induction names as [|n names IH]; cbn [flat_map length]; [lia|].
    rewrite app_length, map_length, IH, Tl. destruct b; lia.
Qed.
