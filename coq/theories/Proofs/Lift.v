(* Transport along a homomorphism h : A -> B (h 0 = 0, h 1 = 1, h (a+b) = h a + h b, h (ab) = h a h b):
   the numpy and array models commute with mapping h over the entries.  Used with h = Some : Qc -> option Qc
   to carry the ring theorems to the NaN-aware scalars of the system model (which are not a ring). *)
From Coq Require Import List Arith Lia Bool.
Import ListNotations.
From Flodym Require Import Base.ND Base.Env Np.Einsum Model.Dims Model.Array.

Section H.
Variables A B : Type.
Variables (aO aI : A) (aadd amul : A -> A -> A).
Variables (bO bI : B) (badd bmul : B -> B -> B).
Variable h : A -> B.
Hypothesis hO : h aO = bO.
Hypothesis hI : h aI = bI.
Hypothesis hadd : forall x y, h (aadd x y) = badd (h x) (h y).
Hypothesis hmul : forall x y, h (amul x y) = bmul (h x) (h y).

Definition nd_lift (a : nd A) : nd B := mk_nd (shp a) (map h (dat a)).
Definition lift (a : farr A) : farr B := mk_farr (adims a) (map h (avals a)).
Definition ops_lift (ops : list (operand A)) : list (operand B) := map (fun o => (fst o, nd_lift (snd o))) ops.

Lemma sum_hom l : sum bO badd (map h l) = h (sum aO aadd l).
Proof. induction l as [|x l IH]; simpl; [symmetry; exact hO|]. rewrite IH, hadd. reflexivity. Qed.

Lemma prod_hom l : prod bI bmul (map h l) = h (prod aI amul l).
Proof. induction l as [|x l IH]; simpl; [symmetry; exact hI|]. rewrite IH, hmul. reflexivity. Qed.

Lemma get_hom sh v idx : get bO sh (map h v) idx = h (get aO sh v idx).
Proof. unfold get. rewrite <- hO. apply map_nth. Qed.

Lemma den_nd_hom ls a e : den_nd B bO ls (nd_lift a) e = h (den_nd A aO ls a e).
Proof. unfold den_nd, nd_lift; simpl. apply get_hom. Qed.

Lemma term_hom ops e : term B bO bI bmul (ops_lift ops) e = h (term A aO aI amul ops e).
Proof.
  unfold term, ops_lift. rewrite map_map. simpl.
  rewrite <- prod_hom, map_map. f_equal. apply map_ext. intros o. apply den_nd_hom.
Qed.

Lemma sum_env_hom L g : sum_env bO badd L (fun e => h (g e)) = h (sum_env aO aadd L g).
Proof. unfold sum_env. rewrite <- sum_hom, map_map. reflexivity. Qed.

Lemma sizes_lift ops : sizes B (ops_lift ops) = sizes A ops.
Proof. unfold sizes, ops_lift. induction ops as [|o ops IH]; simpl; auto. rewrite IH. reflexivity. Qed.

Lemma summed_lift ops out : summed B (ops_lift ops) out = summed A ops out.
Proof.
  unfold summed, ops_lift. f_equal. f_equal. induction ops as [|o ops IH]; simpl; auto. rewrite IH. reflexivity.
Qed.

Lemma tab_hom sh (f : list nat -> A) : tab sh (fun idx => h (f idx)) = map h (tab sh f).
Proof. unfold tab. rewrite map_map. reflexivity. Qed.

Theorem einsum_hom ops out :
  einsum B bO bI badd bmul (ops_lift ops) out = nd_lift (einsum A aO aI aadd amul ops out).
Proof.
  unfold einsum, nd_lift. simpl. rewrite sizes_lift, summed_lift. f_equal.
  rewrite <- tab_hom. apply tab_ext. intros idx _.
  rewrite <- sum_env_hom. apply sum_env_ext. intros e. apply term_hom.
Qed.

Lemma a_nd_lift a : a_nd B (lift a) = nd_lift (a_nd A a).
Proof. reflexivity. Qed.

Definition res_map {X Y} (f : X -> Y) (r : res X) : res Y := match r with Ok x => Ok (f x) | Err => Err end.

Lemma sum_values_to_hom a rs :
  sum_values_to B bO bI badd bmul (lift a) rs = res_map nd_lift (sum_values_to A aO aI aadd amul a rs).
Proof.
  unfold sum_values_to. change (aletters B (lift a)) with (aletters A a).
  destruct (forallb (fun l => memb l (aletters A a)) rs && nodupb rs); [|reflexivity].
  simpl. f_equal. rewrite a_nd_lift. apply (einsum_hom [(aletters A a, a_nd A a)] rs).
Qed.

Lemma construct_hom ds (v : nd A) : construct B ds (nd_lift v) = res_map lift (construct A ds v).
Proof.
  unfold construct, nd_lift; simpl. rewrite map_length.
  destruct (shape_eqb (shp v) (dshape ds) && Nat.eqb (length (dat v)) (size (shp v))); reflexivity.
Qed.

Lemma map2_hom (f : A -> A -> A) (f' : B -> B -> B) (Hf : forall x y, h (f x y) = f' (h x) (h y)) l1 l2 :
  map2 f' (map h l1) (map h l2) = map h (map2 f l1 l2).
Proof. revert l2. induction l1 as [|a l1 IH]; intros [|b l2]; simpl; auto. rewrite IH, Hf. reflexivity. Qed.

Theorem binop_common_hom (f : A -> A -> A) (f' : B -> B -> B) (Hf : forall x y, h (f x y) = f' (h x) (h y)) x y :
  binop_common B bO bI badd bmul f' (lift x) (lift y) = res_map lift (binop_common A aO aI aadd amul f x y).
Proof.
  unfold binop_common. change (adims (lift x)) with (adims x). change (adims (lift y)) with (adims y).
  destruct (intersect_with (adims x) (adims y)) as [ds|]; [|reflexivity]. cbn [bind].
  rewrite !sum_values_to_hom.
  destruct (sum_values_to A aO aI aadd amul x (letters ds)) as [vx|]; [|reflexivity]. cbn [bind res_map].
  destruct (sum_values_to A aO aI aadd amul y (letters ds)) as [vy|]; [|reflexivity]. cbn [bind res_map].
  change (shp (nd_lift vx)) with (shp vx). change (shp (nd_lift vy)) with (shp vy).
  destruct (shape_eqb (shp vx) (shp vy)); [|reflexivity].
  rewrite <- construct_hom. f_equal. unfold nd_map2, nd_lift; simpl. f_equal. apply map2_hom. exact Hf.
Qed.

Lemma full_hom ds c : full B ds (h c) = lift (full A ds c).
Proof. unfold full, lift, nd_full; simpl. f_equal. apply (tab_hom (dshape ds) (fun _ => c)). Qed.

Lemma amap_hom (f : A -> A) (f' : B -> B) (Hf : forall x, h (f x) = f' (h x)) a : amap B f' (lift a) = lift (amap A f a).
Proof. unfold amap, lift; simpl. f_equal. rewrite !map_map. apply map_ext. intros x. symmetry. apply Hf. Qed.

End H.
