(* C05 (writes): the label-level specification of target[{...}] = source for a FlodymArray source, for every
   target, every well-formed dict key (single items and subset Dimensions in any combination and order) and
   every source whose dimensions include the region's:
     - the target keeps its dimensions,
     - the entry addressed by the region labels e becomes the source summed over all labels of the dimensions
       the region does not have (matched BY LABEL, whatever the source's storage order),
     - every entry that is not addressed keeps its value. *)
From Coq Require Import List Arith Lia Bool Ring_theory.
Import ListNotations.
From Flodym Require Import Base.ND Base.Env Np.Einsum Np.Index Model.Dims Model.Array Model.SubArray
  Proofs.ArrayLemmas Proofs.C14Proofs Proofs.CumsumProofs Proofs.IndexProofs Proofs.OrthoIndex Proofs.HandlerProofs
  Proofs.GetitemSpec Proofs.SetIndexProofs.
Local Open Scope nat_scope.

Lemma index_of_inj it1 it2 l i : index_of it1 l = Some i -> index_of it2 l = Some i -> it1 = it2.
Proof.
  revert i. induction l as [|a l IH]; intros i H1 H2; simpl in *; [discriminate|].
  destruct (Nat.eqb_spec a it1) as [E1|N1], (Nat.eqb_spec a it2) as [E2|N2].
  - congruence.
  - injection H1 as <-. destruct (index_of it2 l); simpl in H2; discriminate.
  - injection H2 as <-. destruct (index_of it1 l); simpl in H1; discriminate.
  - destruct (index_of it1 l) as [j1|] eqn:J1; simpl in H1; [|discriminate].
    destruct (index_of it2 l) as [j2|] eqn:J2; simpl in H2; [|discriminate].
    injection H1 as <-. injection H2 as E. apply (IH j1); congruence.
Qed.

Lemma ids_of_nodup d its : NoDup its -> incl its (ditems d) -> NoDup (ids_of d its).
Proof.
  intros Hn Hi. unfold ids_of. apply NoDup_map_inj_in; [|exact Hn].
  intros x y Hx Hy E.
  destruct (index_of_in x (ditems d) (Hi x Hx)) as [i Ei]. destruct (index_of_in y (ditems d) (Hi y Hy)) as [j Ej].
  rewrite Ei, Ej in E. subst j. apply (index_of_inj x y (ditems d) i); assumption.
Qed.

(* the items of every selected subset / list are pairwise different *)
Definition distinct_items (F : asg) (ds : dimset) : Prop :=
  forall d, In d ds -> match F (dletter d) with
                       | Some (IDim sd) => NoDup (ditems sd)
                       | Some (IList its) => NoDup its
                       | _ => True
                       end.

Lemma raw_nodup_handler F ds : valid_asg F ds -> distinct_items F ds -> Forall raw_nodup (map (sel_for F) ds).
Proof.
  intros Hv Hd. apply Forall_forall. intros r Hr. apply in_map_iff in Hr. destruct Hr as (d & <- & Hin).
  specialize (Hd d Hin). pose proof (Hv d) as Hvd. unfold sel_for. destruct (F (dletter d)) as [[it|sd|its]|] eqn:E; simpl; auto.
  - apply ids_of_nodup; auto. apply (Hvd _ Hin eq_refl).
  - apply ids_of_nodup; auto. apply (Hvd _ Hin eq_refl).
Qed.

(* a source index lies in the addressed region *)
Fixpoint hits (raw : list rawid) (src : list nat) : Prop :=
  match raw, src with
  | [], [] => True
  | RAll :: r, _ :: s => hits r s
  | RInt i :: r, x :: s => x = i /\ hits r s
  | RList is :: r, x :: s => In x is /\ hits r s
  | _, _ => False
  end.

Lemma pull_hits raw : forall sh idx, length raw = length sh -> Forall2 lt idx (out_shape raw sh) -> hits raw (pull raw idx).
Proof.
  induction raw as [|r raw IH]; intros [|m sh] idx Hl Hi; simpl in *; try discriminate; auto.
  destruct r as [|i|is]; simpl in *.
  - inversion Hi; subst. apply (IH sh); auto.
  - split; [reflexivity | apply (IH sh); auto].
  - inversion Hi as [|x ? rest ? Hx Hrest]; subst. split; [apply nth_In; exact Hx | apply (IH sh); auto].
Qed.

(* the labels e (one per dimension of the target) address an entry of the region selected by F *)
Definition in_region (F : asg) (ds : dimset) (e : env) : Prop :=
  hits (map (sel_for F) ds) (map (lookup e) (letters ds)).

Section S.
Variable R : Type.
Variables (rO rI : R) (radd rmul rsub : R -> R -> R) (ropp : R -> R).
Variable Rth : ring_theory rO rI radd rmul rsub ropp eq.
Notation farr := (farr R).
Notation den := (den R rO).
Notation wf := (wf R).
Notation lsizes := (lsizes R).
Notation sum_env := (sum_env rO radd).

Theorem setitem_dict_spec (a y a' : farr) kvs :
  wf a -> wf y -> wf_dict (adims a) no_asg kvs ->
  let F := asg_of no_asg kvs in
  let dout := flat_map (out_for F) (adims a) in
  no_lists F (adims a) -> distinct_items F (adims a) ->
  (forall d, In d dout -> lookup (lsizes y) (dletter d) = dlen d) ->
  setitem R rO rI radd rmul a (KDict kvs) (RArr R y) = Ok a' ->
  adims a' = adims a
  /\ (forall e, (forall d, In d dout -> lookup e (dletter d) < dlen d) ->
        den a' (src_env F (adims a) e)
        = sum_env (sized (lsizes y) (others R y (letters dout))) (fun e' => den y (e' ++ e)))
  /\ (forall e, (forall d, In d (adims a) -> lookup e (dletter d) < dlen d) ->
        ~ in_region F (adims a) e -> den a' e = den a e).
Proof.
  intros Hwa Hwy Hw F dout Hnl Hdi Hcomp Hset. pose proof Hwa as [Hn Hlen].
  set (ds := adims a) in *.
  unfold setitem in Hset.
  pose proof (mk_handler_dict ds kvs Hn Hw) as Hh. fold ds in Hset. rewrite Hh in Hset. clear Hh.
  cbn [bind h_dims_out h_sels] in Hset. fold F in Hset. fold dout in Hset.
  destruct (sum_values_to R rO rI radd rmul y (letters dout)) as [v|] eqn:Ev; [|discriminate]. cbn [bind] in Hset.
  set (raw := map (sel_for F) ds) in *.
  assert (Hval : valid_asg F ds) by (apply valid_asg_of; auto; intros d v0 _ E; discriminate).
  assert (Hl : length raw = length (shp (a_nd R a))).
  { unfold raw, a_nd; simpl. unfold dshape. rewrite !map_length. reflexivity. }
  assert (Hok : Forall2 (fun r m => raw_ok r m = true) raw (shp (a_nd R a))) by (apply raw_ok_handler; exact Hval).
  assert (Hnd : Forall raw_nodup raw) by (apply raw_nodup_handler; auto).
  assert (Hshape : shp v = out_shape raw (shp (a_nd R a))).
  { rewrite (sum_values_to_shp R rO rI radd rmul y (letters dout) v Ev).
    change (shp (a_nd R a)) with (dshape ds). unfold raw. rewrite out_shape_handler by exact Hnl. fold dout.
    unfold letters, dshape. rewrite map_map. apply map_ext_in. intros d Hd. apply Hcomp. exact Hd. }
  destruct (setindex_orthogonal R rO (a_nd R a) v raw Hl Hok Hnd Hlen Hshape) as (w & Hw' & Hsw & Hlw & Hhit & Hframe).
  change (shp (a_nd R a)) with (dshape ds) in *. fold raw in Hset. rewrite Hw' in Hset. cbn [bind] in Hset.
  injection Hset as <-. cbn [adims]. split; [reflexivity|].
  assert (Eout : out_shape raw (dshape ds) = dshape dout) by (unfold raw; apply out_shape_handler; exact Hnl).
  assert (Hrange : forall e, (forall d, In d dout -> lookup e (dletter d) < dlen d) ->
                   Forall2 lt (map (lookup e) (letters dout)) (out_shape raw (dshape ds))).
  { intros e He. rewrite Eout. clear -He. induction dout as [|d l IH]; simpl; constructor.
    - apply He. left. reflexivity.
    - apply IH. intros d' Hd'. apply He. right. exact Hd'. }
  split.
  - intros e He.
    unfold ArrayLemmas.den at 1. unfold Einsum.den_nd, a_nd, aletters. cbn [adims avals shp dat]. fold ds.
    rewrite (lookup_src_env F ds e Hn). rewrite <- (pull_handler F ds e). fold raw. fold dout.
    change (dat (a_nd R a)) with (avals a) in *.
    rewrite (Hhit _ (Hrange e He)).
    change (get rO (shp v) (dat v) (map (lookup e) (letters dout))) with (den_nd R rO (letters dout) v e).
    apply (sum_values_to_den R rO rI radd rmul rsub ropp Rth y (letters dout) v e Hwy Ev).
    intros l Hl0. unfold letters in Hl0. apply in_map_iff in Hl0. destruct Hl0 as (d & <- & Hd).
    rewrite (Hcomp d Hd). apply He. exact Hd.
  - intros e He Hno.
    unfold ArrayLemmas.den, Einsum.den_nd, a_nd, aletters. cbn [adims avals shp dat]. fold ds.
    apply Hframe.
    + clear -He. induction ds as [|d l IH]; simpl; constructor.
      * apply He. left. reflexivity.
      * apply IH. intros d' Hd'. apply He. right. exact Hd'.
    + intros idx Hidx Epull. apply Hno. unfold in_region. fold ds. fold raw. rewrite <- Epull.
      apply (pull_hits raw (dshape ds)); auto.
Qed.


(* target[{...}] = number : the number fills the addressed region, nothing else changes *)
Theorem setitem_number_fills (a a' : farr) kvs (c : R) :
  wf a -> wf_dict (adims a) no_asg kvs ->
  let F := asg_of no_asg kvs in
  let dout := flat_map (out_for F) (adims a) in
  no_lists F (adims a) -> distinct_items F (adims a) ->
  setitem R rO rI radd rmul a (KDict kvs) (RNum R c) = Ok a' ->
  adims a' = adims a
  /\ (forall e, (forall d, In d dout -> lookup e (dletter d) < dlen d) -> den a' (src_env F (adims a) e) = c)
  /\ (forall e, (forall d, In d (adims a) -> lookup e (dletter d) < dlen d) ->
        ~ in_region F (adims a) e -> den a' e = den a e).
Proof.
  intros Hwa Hw F dout Hnl Hdi Hset. pose proof Hwa as [Hn Hlen].
  set (ds := adims a) in *.
  unfold setitem in Hset.
  pose proof (mk_handler_dict ds kvs Hn Hw) as Hh. fold ds in Hset. rewrite Hh in Hset. clear Hh.
  cbn [bind h_dims_out h_sels] in Hset. fold F in Hset.
  set (raw := map (sel_for F) ds) in *.
  assert (Hval : valid_asg F ds) by (apply valid_asg_of; auto; intros d v0 _ E; discriminate).
  assert (Hl : length raw = length (shp (a_nd R a))).
  { unfold raw, a_nd; simpl. unfold dshape. rewrite !map_length. reflexivity. }
  assert (Hok : Forall2 (fun r m => raw_ok r m = true) raw (shp (a_nd R a))) by (apply raw_ok_handler; exact Hval).
  assert (Hnd : Forall raw_nodup raw) by (apply raw_nodup_handler; auto).
  destruct (setindex_fill R rO (a_nd R a) raw c Hl Hok Hnd Hlen) as (w & Hw' & Hsw & Hlw & Hhit & Hframe).
  change (shp (a_nd R a)) with (dshape ds) in *. rewrite Hw' in Hset. cbn [bind] in Hset.
  injection Hset as <-. cbn [adims]. split; [reflexivity|].
  assert (Eout : out_shape raw (dshape ds) = dshape dout) by (unfold raw; apply out_shape_handler; exact Hnl).
  split.
  - intros e He.
    unfold ArrayLemmas.den. unfold Einsum.den_nd, a_nd, aletters. cbn [adims avals shp dat]. fold ds.
    rewrite (lookup_src_env F ds e Hn). rewrite <- (pull_handler F ds e). fold raw. fold dout.
    apply Hhit. rewrite Eout. clear -He. induction dout as [|d l IH]; simpl; constructor.
    + apply He. left. reflexivity.
    + apply IH. intros d' Hd'. apply He. right. exact Hd'.
  - intros e He Hno.
    unfold ArrayLemmas.den, Einsum.den_nd, a_nd, aletters. cbn [adims avals shp dat]. fold ds.
    apply Hframe.
    + clear -He. induction ds as [|d l IH]; simpl; constructor.
      * apply He. left. reflexivity.
      * apply IH. intros d' Hd'. apply He. right. exact Hd'.
    + intros idx Hidx Epull. apply Hno. unfold in_region. fold ds. fold raw. rewrite <- Epull.
      apply (pull_hits raw (dshape ds)); auto.
Qed.

(* whole-array assignment is the dict key without entries *)
Lemma setitem_ellipsis_is_empty_dict (a y : farr) :
  setitem R rO rI radd rmul a KEllipsis (RArr R y) = setitem R rO rI radd rmul a (KDict []) (RArr R y).
Proof. reflexivity. Qed.

(* a source that lacks a dimension of the addressed region is refused *)
Theorem setitem_missing_dim_refused (a y : farr) kvs l :
  wf a -> wf_dict (adims a) no_asg kvs ->
  In l (letters (flat_map (out_for (asg_of no_asg kvs)) (adims a))) -> ~ In l (aletters R y) ->
  setitem R rO rI radd rmul a (KDict kvs) (RArr R y) = Err.
Proof.
  intros [Hn _] Hw Hin Hnot. unfold setitem.
  rewrite (mk_handler_dict (adims a) kvs Hn Hw). cbn [bind h_dims_out h_sels].
  unfold sum_values_to.
  destruct (forallb (fun l0 => memb l0 (aletters R y)) (letters (flat_map (out_for (asg_of no_asg kvs)) (adims a)))) eqn:E.
  - rewrite forallb_forall in E. specialize (E l Hin). apply memb_In in E. contradiction.
  - reflexivity.
Qed.

End S.
