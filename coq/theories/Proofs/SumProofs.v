(* C07: sum_to / sum_over at the level of FlodymArray: how dimension arguments (letters, names,
   Dimension objects) are resolved, the dimensions of the result (requested order for sum_to, the
   array's order for sum_over), and the value under each label assignment. *)
From Coq Require Import List Arith Lia Ring_theory Ring Permutation Bool.
Import ListNotations.
From Flodym Require Import Base.ND Base.Env Np.Einsum Model.Dims Model.Array Proofs.ArrayLemmas Proofs.C07Proofs Proofs.C14Proofs Proofs.C01Proofs.

(* ---- resolution of dimension arguments ------------------------------------------------------- *)
Section Resolve.
Variable R : Type.
Notation farr := (farr R).

Lemma find_letter_none ds l : ~ In l (letters ds) -> find_letter ds l = None.
Proof.
  induction ds as [|d ds IH]; simpl; intros H; auto.
  destruct (Nat.eqb_spec (dletter d) l) as [E|_]; [exfalso; apply H; left; exact E|].
  apply IH. intros Hin. apply H. right. exact Hin.
Qed.

Lemma find_name_none ds n : ~ In n (names ds) -> find_name ds n = None.
Proof.
  induction ds as [|d ds IH]; simpl; intros H; auto.
  rewrite IH by (intros Hin; apply H; right; exact Hin).
  destruct (Nat.eqb_spec (dname d) n) as [E|_]; [exfalso; apply H; left; exact E | reflexivity].
Qed.

Lemma find_name_in ds d : NoDup (names ds) -> In d ds -> find_name ds (dname d) = Some d.
Proof.
  induction ds as [|e ds IH]; simpl; intros Hn Hin; [contradiction|].
  inversion Hn as [|? ? Hne Hn']; subst. destruct Hin as [->|Hin].
  - rewrite find_name_none by exact Hne. rewrite Nat.eqb_refl. reflexivity.
  - rewrite IH; auto.
Qed.

(* an argument denotes a dimension of the array *)
Definition denotes (x : dimarg) (d : dim) : Prop :=
  match x with ALetter l => l = dletter d | AName n => n = dname d | ADim d' => dletter d' = dletter d end.

Theorem get_dim_letter_denotes (a : farr) x d :
  NoDup (aletters R a) -> NoDup (names (adims a)) -> In d (adims a) -> denotes x d ->
  get_dim_letter R a x = Ok (dletter d).
Proof.
  intros Hl Hn Hin Hx. destruct x as [l|n|d']; simpl in *.
  - subst. rewrite find_letter_in; auto.
  - subst. rewrite find_name_in; auto.
  - rewrite Hx. reflexivity.
Qed.

(* letters, names and Dimension objects are accepted alike *)
Theorem tuple_to_letters_alike (a : farr) xs ds :
  NoDup (aletters R a) -> NoDup (names (adims a)) -> incl ds (adims a) -> Forall2 denotes xs ds ->
  tuple_to_letters R a xs = Ok (letters ds).
Proof.
  intros Hl Hn Hin H. unfold tuple_to_letters. induction H as [|x d xs ds Hx H IH]; simpl; auto.
  rewrite (get_dim_letter_denotes a x d); auto; [|apply Hin; left; auto]. simpl.
  rewrite IH by (intros y Hy; apply Hin; right; auto). reflexivity.
Qed.

(* unknown letters and names are rejected *)
Theorem get_dim_letter_unknown_letter (a : farr) l : ~ In l (aletters R a) -> get_dim_letter R a (ALetter l) = Err.
Proof. intros H. simpl. rewrite find_letter_none; auto. Qed.

Theorem get_dim_letter_unknown_name (a : farr) n : ~ In n (names (adims a)) -> get_dim_letter R a (AName n) = Err.
Proof. intros H. simpl. rewrite find_name_none; auto. Qed.

Lemma mapM_err {A B} (f : A -> res B) l x : In x l -> f x = Err -> mapM f l = Err.
Proof.
  induction l as [|a l IH]; intros Hin Hx; [contradiction|]. simpl.
  destruct Hin as [->|Hin]; [rewrite Hx; reflexivity|].
  destruct (f a); simpl; auto. rewrite IH; auto.
Qed.

Theorem tuple_to_letters_unknown (a : farr) xs x :
  In x xs -> get_dim_letter R a x = Err -> tuple_to_letters R a xs = Err.
Proof. intros. unfold tuple_to_letters. eapply mapM_err; eauto. Qed.

(* every resolved letter that came from a letter or a name is a letter of the array *)
Lemma tuple_letters_ok (a : farr) ls : incl ls (aletters R a) -> tuple_to_letters R a (map ALetter ls) = Ok ls.
Proof.
  intros H. unfold tuple_to_letters. apply mapM_map_id. intros l Hl. simpl.
  specialize (H l Hl). unfold aletters, letters in H. apply in_map_iff in H. destruct H as (d & <- & Hd).
  destruct (find_letter (adims a) (dletter d)) as [d'|] eqn:E.
  - apply find_letter_letter in E. rewrite E. reflexivity.
  - exfalso. clear -E Hd. induction (adims a) as [|e ds IH]; [contradiction|]. simpl in E.
    destruct (Nat.eqb_spec (dletter e) (dletter d)) as [|Hne]; [discriminate|].
    destruct Hd as [->|Hd]; [congruence | auto].
Qed.

Lemma tuple_letters_inv (a : farr) ls r : tuple_to_letters R a (map ALetter ls) = Ok r -> r = ls /\ incl ls (aletters R a).
Proof.
  unfold tuple_to_letters. revert r. induction ls as [|l ls IH]; simpl; intros r H.
  - injection H as <-. split; [reflexivity | intros x Hx; inversion Hx].
  - destruct (find_letter (adims a) l) as [d|] eqn:E; simpl in H; [|discriminate].
    destruct (mapM (get_dim_letter R a) (map ALetter ls)) as [r'|] eqn:E'; simpl in H; [|discriminate].
    injection H as <-. destruct (IH r' eq_refl) as [-> Hi].
    pose proof (find_letter_letter _ _ _ E) as El. rewrite El. split; [reflexivity|].
    intros x [<-|Hx]; [|apply Hi; exact Hx].
    unfold aletters, letters. clear -E. induction (adims a) as [|e ds IH]; [discriminate|]. simpl in E. simpl.
    destruct (Nat.eqb_spec (dletter e) l) as [<-|_]; [left; reflexivity | right; apply IH; exact E].
Qed.
End Resolve.

(* ---- sum_to and sum_over --------------------------------------------------------------------- *)
Section P.
Variable R : Type.
Variables (rO rI : R) (radd rmul rsub : R -> R -> R) (ropp : R -> R).
Variable Rth : ring_theory rO rI radd rmul rsub ropp eq.
Add Ring RringSum : Rth.
Notation sum_env := (sum_env rO radd).
Notation farr := (farr R).
Notation den_nd := (den_nd R rO).
Notation den := (den R rO).
Notation wf := (wf R).
Notation lsizes := (lsizes R).
Notation others := (others R).

Lemma letters_filter (f : letter -> bool) ds : letters (filter (fun d => f (dletter d)) ds) = filter f (letters ds).
Proof.
  unfold letters. induction ds as [|d ds IH]; simpl; auto.
  destruct (f (dletter d)); simpl; rewrite IH; reflexivity.
Qed.

Lemma den_construct ds (v : nd R) r e : construct R ds v = Ok r -> den r e = den_nd (letters ds) v e.
Proof.
  intros H. destruct (construct_ok_gen R ds v r H) as (Hd & Hv & Hs).
  unfold ArrayLemmas.den, a_nd, aletters. rewrite Hd, Hv, <- Hs. destruct v; reflexivity.
Qed.

(* sum_to: the result carries the requested dimensions in the requested order, and each entry is the
   sum of the source over all labels of the other dimensions *)
Theorem sum_to_spec (a r : farr) xs rs e :
  wf a -> tuple_to_letters R a xs = Ok rs -> sum_to R rO rI radd rmul a xs = Ok r ->
  in_range (lsizes a) e rs ->
  Forall2 (fun l d => find_letter (adims a) l = Some d) rs (adims r)
  /\ aletters R r = rs
  /\ den r e = sum_env (sized (lsizes a) (others a rs)) (fun e' => den a (e' ++ e)).
Proof.
  intros Hwf Ht Hs Hr. unfold sum_to in Hs. rewrite Ht in Hs. cbn [bind] in Hs.
  destruct (get_subset (adims a) (map KLetter rs)) as [ds|] eqn:Eg; [|discriminate]. cbn [bind] in Hs.
  destruct (sum_values_to R rO rI radd rmul a rs) as [v|] eqn:Ev; [|discriminate]. cbn [bind] in Hs.
  destruct (construct_ok_gen R ds v r Hs) as (Hd & _ & _).
  assert (Hl : letters ds = rs).
  { rewrite (get_subset_letters (adims a) (map KLetter rs) ds); auto.
    - rewrite map_map. simpl. apply map_id.
    - clear. induction rs; simpl; auto. }
  split; [|split].
  - rewrite Hd. pose proof (get_subset_order _ _ _ Eg) as F. clear -F.
    remember (map KLetter rs) as ks eqn:Ek. revert rs Ek. induction F as [|k d ks ds Hk F IH]; intros [|l rs] Ek; simpl in Ek; try discriminate; constructor.
    + injection Ek as -> _. exact Hk.
    + apply IH. injection Ek as _ ->. reflexivity.
  - unfold aletters. rewrite Hd. exact Hl.
  - rewrite (den_construct ds v r e Hs), Hl.
    apply (sum_values_to_den R rO rI radd rmul rsub ropp Rth); auto.
Qed.

(* sum_over: the named dimensions are summed away, the others stay in the array's order *)
Theorem sum_over_spec (a r : farr) xs so e :
  wf a -> tuple_to_letters R a xs = Ok so -> sum_over R rO rI radd rmul a xs = Ok r ->
  in_range (lsizes a) e (aletters R r) ->
  adims r = filter (fun d => negb (memb (dletter d) so)) (adims a)
  /\ den r e = sum_env (sized (lsizes a) (filter (fun l => memb l so) (aletters R a))) (fun e' => den a (e' ++ e)).
Proof.
  intros Hwf Ht Hs Hr. pose proof Hwf as [Hnd _]. unfold sum_over in Hs. rewrite Ht in Hs. cbn [bind] in Hs.
  assert (Eg : get_subset (adims a) (map KLetter (filter (fun l : nat => negb (memb l so)) (aletters R a)))
               = Ok (filter (fun d => negb (memb (dletter d) so)) (adims a))).
  { apply (get_subset_filter (adims a) (fun l => negb (memb l so)) Hnd). }
  rewrite Eg in Hs. cbn [bind] in Hs.
  destruct (tuple_to_letters R a (map ALetter so)) as [so'|] eqn:Et2; [|discriminate]. cbn [bind] in Hs.
  destruct (tuple_letters_inv R a so so' Et2) as [-> Hinc].
  set (rs := filter (fun l => negb (memb l so)) (aletters R a)) in *.
  destruct (sum_values_to R rO rI radd rmul a rs) as [v|] eqn:Ev; [|discriminate]. cbn [bind] in Hs.
  destruct (construct_ok_gen R _ v r Hs) as (Hd & _ & _).
  assert (Hl : letters (filter (fun d => negb (memb (dletter d) so)) (adims a)) = rs).
  { unfold rs, aletters. apply (letters_filter (fun l => negb (memb l so))). }
  split; [exact Hd|].
  rewrite (den_construct _ v r e Hs), Hl.
  rewrite (sum_values_to_den R rO rI radd rmul rsub ropp Rth a rs v e Hwf Ev).
  - f_equal. f_equal. unfold ArrayLemmas.others, rs. apply filter_ext_in. intros l Hin.
    destruct (memb l so) eqn:Em.
    + destruct (memb l (filter (fun l0 => negb (memb l0 so)) (aletters R a))) eqn:E2; auto.
      apply memb_In, filter_In in E2. destruct E2 as [_ E2]. rewrite Em in E2. discriminate.
    + apply negb_false_iff, memb_In, filter_In. split; auto. rewrite Em. reflexivity.
  - unfold aletters in Hr. rewrite Hd, Hl in Hr. exact Hr.
Qed.

End P.
