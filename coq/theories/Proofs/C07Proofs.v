(* C07: sum_to / sum_over are the marginal sums by label and preserve the grand total;
   marginals compose; cast_to replicates; cumsum accumulates in item order. *)
From Coq Require Import List Arith Lia Ring_theory Ring Permutation Bool.
Import ListNotations.
From Flodym Require Import Base.ND Base.Env Np.Einsum Model.Dims Model.Array Proofs.ArrayLemmas.

Section P.
Variable R : Type.
Variables (rO rI : R) (radd rmul rsub : R -> R -> R) (ropp : R -> R).
Variable Rth : ring_theory rO rI radd rmul rsub ropp eq.
Add Ring RringP : Rth.
Notation sum := (sum rO radd).
Notation sum_env := (sum_env rO radd).
Notation get := (get rO).
Notation farr := (farr R).
Notation einsum := (einsum R rO rI radd rmul).
Notation den_nd := (den_nd R rO).
Notation den := (den R rO).
Notation wf := (wf R).
Notation lsizes := (lsizes R).
Notation others := (others R).
Notation sum_values_to := (sum_values_to R rO rI radd rmul).
Notation "x + y" := (radd x y) : rs. Notation "x * y" := (rmul x y) : rs.

Lemma map_pair_combine {A B} (f : A -> B) l : map (fun x => (x, f x)) l = combine l (map f l).
Proof. induction l; simpl; congruence. Qed.

Lemma sized_combine sz ls : sized sz ls = combine ls (map (lookup sz) ls).
Proof. unfold sized. apply map_pair_combine. Qed.

Lemma sized_self ls sh : NoDup ls -> length ls = length sh -> sized (combine ls sh) ls = combine ls sh.
Proof. intros Hnd Hl. rewrite sized_combine, lookup_combine_map; auto. Qed.

Lemma letters_dshape_len (ds : dimset) : length (letters ds) = length (dshape ds).
Proof. unfold letters, dshape. rewrite !map_length. reflexivity. Qed.

Lemma sized_all (a : farr) : wf a -> sized (lsizes a) (aletters R a) = lsizes a.
Proof. intros [Hnd _]. apply sized_self; auto. apply letters_dshape_len. Qed.

(* sum of all entries = sum of the denotation over all label environments *)
Lemma sum_nd_env ls (v : nd R) : NoDup ls -> length ls = length (shp v) ->
  length (dat v) = size (shp v) -> sum (dat v) = sum_env (combine ls (shp v)) (den_nd ls v).
Proof.
  intros Hnd Hl Hd. rewrite <- (tab_get R rO (shp v) (dat v) Hd) at 1.
  rewrite (sum_tab_env R rO radd ls); auto.
Qed.

Lemma sum_avals_env (a : farr) : wf a -> sum (avals a) = sum_env (lsizes a) (den a).
Proof.
  intros [Hnd Hlen]. apply (sum_nd_env (aletters R a) (a_nd R a)); auto.
  apply letters_dshape_len.
Qed.

Lemma filter_partition_perm {A} (f : A -> bool) l :
  Permutation l (filter f l ++ filter (fun x => negb (f x)) l).
Proof.
  induction l as [|a l IH]; simpl; auto. destruct (f a); simpl.
  - constructor; auto.
  - apply Permutation_cons_app. auto.
Qed.

Lemma perm_others ls rs : NoDup ls -> NoDup rs -> incl rs ls ->
  Permutation ls (rs ++ filter (fun l => negb (memb l rs)) ls).
Proof.
  intros Hl Hr Hi. etransitivity; [apply (filter_partition_perm (fun l => memb l rs))|].
  apply Permutation_app_tail. apply NoDup_Permutation; auto.
  - apply NoDup_filter; auto.
  - intros x. rewrite filter_In, memb_In. split; [tauto|]. intros H; split; auto.
Qed.

Lemma den_swap (a : farr) e1 e2 :
  (forall l, In l (map fst e1) -> In l (map fst e2) -> False) -> den a (e1 ++ e2) = den a (e2 ++ e1).
Proof.
  intros Hd. apply den_ext. intros l _. rewrite !lookup_app.
  destruct (memb l (map fst e1)) eqn:E1, (memb l (map fst e2)) eqn:E2; auto.
  - apply memb_In in E1, E2. exfalso; eauto.
  - apply memb_false in E1, E2. rewrite !lookup_notin; auto.
Qed.

(* grand total preserved by sum_values_to *)
Theorem sum_values_to_total (a : farr) rs v :
  wf a -> sum_values_to a rs = Ok v -> sum (dat v) = sum (avals a).
Proof.
  intros Hwf Hs. pose proof Hwf as [Hnd Hlen].
  pose proof (sum_values_to_shp R rO rI radd rmul a rs v Hs) as Hshp.
  assert (Hc : forallb (fun l => memb l (aletters R a)) rs && nodupb rs = true).
  { unfold Array.sum_values_to in Hs. destruct (_ && _); [reflexivity | discriminate]. }
  apply andb_true_iff in Hc. destruct Hc as [Hinc Hndr].
  apply forallb_memb_incl in Hinc. apply nodupb_NoDup in Hndr.
  rewrite (sum_nd_env rs v); auto.
  2:{ rewrite Hshp, map_length; auto. }
  2:{ unfold Array.sum_values_to in Hs. destruct (_ && _); [|discriminate]. injection Hs as <-.
      simpl. apply tab_length. }
  rewrite Hshp, <- sized_combine.
  rewrite sum_avals_env by auto.
  rewrite (sum_env_perm R rO rI radd rmul rsub ropp Rth (lsizes a)
             (sized (lsizes a) rs ++ sized (lsizes a) (others a rs)) (den a)).
  - rewrite (sum_env_app R rO rI radd rmul rsub ropp Rth).
    apply sum_env_ext_in. intros e He.
    rewrite (sum_values_to_den R rO rI radd rmul rsub ropp Rth a rs v e); auto.
    + apply sum_env_ext_in. intros e' He'. apply den_swap.
      rewrite (all_env_fst _ _ He), (all_env_fst _ _ He'), !sized_fst.
      intros l H1 H2. unfold ArrayLemmas.others in H1. apply filter_In in H1.
      destruct H1 as [_ H1]. apply negb_true_iff, memb_false in H1. auto.
    + intros l Hl. pose proof (all_env_lt _ _ l He) as H. rewrite sized_fst in H.
      specialize (H Hl). unfold sized in H.
      assert (E : lookup (map (fun l0 => (l0, lookup (lsizes a) l0)) rs) l = lookup (lsizes a) l).
      { clear -Hl. induction rs as [|k rs IH]; simpl in *; [tauto|].
        destruct (Nat.eqb_spec k l); subst; auto. apply IH. destruct Hl; [contradiction|auto]. }
      rewrite E in H. exact H.
  - rewrite <- (sized_all a Hwf) at 1. unfold sized. rewrite <- map_app.
    apply Permutation_map. apply perm_others; auto.
  - rewrite <- (sized_all a Hwf), sized_fst. exact Hnd.
  - apply den_ext_all.
Qed.

End P.
