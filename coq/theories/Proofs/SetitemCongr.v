(* C04 / C05: target[{...}] = source does not depend on the order in which the SOURCE stores its dimensions.
   For two sources that are the same labelled array (same dimensions as a set, equal entries under equal labels),
   the two results have the same dimensions, agree on every addressed entry and agree on every entry that is
   not addressed.  The marginal the assignment takes of the source (the sum over the labels of the dimensions
   the region does not have) is independent of the source's storage order: [marginal_congr]. *)
From Coq Require Import List Arith Lia Bool Ring_theory Permutation.
Import ListNotations.
From Flodym Require Import Base.ND Base.Env Np.Einsum Np.Index Model.Dims Model.Array Model.SubArray
  Proofs.ArrayLemmas Proofs.C07Proofs Proofs.C01Proofs Proofs.C04Proofs Proofs.HandlerProofs Proofs.GetitemSpec Proofs.SetitemSpec
  Proofs.GetitemCongr.
Local Open Scope nat_scope.

Section S.
Variable R : Type.
Variables (rO rI : R) (radd rmul rsub : R -> R -> R) (ropp : R -> R).
Variable Rth : ring_theory rO rI radd rmul rsub ropp eq.
Notation farr := (farr R).
Notation den := (den R rO).
Notation wf := (wf R).
Notation lsizes := (lsizes R).
Notation sum_env := (sum_env rO radd).
Notation same_arr := (same_arr R rO).

(* the marginal over "all other dimensions" of the same labelled array stored in two orders *)
Lemma marginal_congr (x x' : farr) rs e :
  wf x -> wf x' -> same_arr x x' -> in_range (lsizes x) e rs ->
  sum_env (sized (lsizes x) (others R x rs)) (fun e' => den x (e' ++ e))
  = sum_env (sized (lsizes x') (others R x' rs)) (fun e' => den x' (e' ++ e)).
Proof.
  intros Hw Hw' [Hp Hd] Hr.
  pose proof Hw as [Hn Hlen]. pose proof Hw' as [Hn' Hlen'].
  assert (Hpl : Permutation (aletters R x) (aletters R x')).
  { unfold aletters, letters. apply Permutation_map. exact Hp. }
  assert (Hpo : Permutation (sized (lsizes x) (others R x rs)) (sized (lsizes x') (others R x' rs))).
  { unfold sized.
    assert (E : map (fun l => (l, lookup (lsizes x') l)) (others R x' rs)
                = map (fun l => (l, lookup (lsizes x) l)) (others R x' rs)).
    { apply map_ext_in. intros l Hl. f_equal. symmetry. apply (lsizes_perm R); auto.
      unfold ArrayLemmas.others in Hl. apply filter_In in Hl. destruct Hl as [Hl _].
      eapply Permutation_in; [apply Permutation_sym; exact Hpl | exact Hl]. }
    rewrite E. apply Permutation_map. unfold ArrayLemmas.others.
    clear -Hpl. induction Hpl; simpl; auto.
    - destruct (negb (memb x0 rs)); auto.
    - destruct (negb (memb x0 rs)), (negb (memb y rs)); auto. constructor.
    - etransitivity; eauto. }
  rewrite <- (sum_env_perm_keys R rO rI radd rmul rsub ropp Rth _ _ (fun e' => den x' (e' ++ e)) Hpo).
  - apply sum_env_ext_in. intros e' He'. apply Hd.
    intros l Hl. rewrite lookup_app. rewrite (all_env_fst _ _ He'), sized_fst.
    destruct (memb l (others R x rs)) eqn:Em.
    + apply memb_In in Em. pose proof (all_env_lt _ _ l He') as Hlt. rewrite sized_fst in Hlt. specialize (Hlt Em).
      unfold sized in Hlt.
      assert (Es : lookup (map (fun l0 => (l0, lookup (lsizes x) l0)) (others R x rs)) l = lookup (lsizes x) l).
      { clear -Em. induction (others R x rs) as [|k ks IH]; simpl in *; [tauto|].
        destruct (Nat.eqb_spec k l); subst; auto. apply IH. destruct Em; [contradiction | auto]. }
      rewrite Es in Hlt. exact Hlt.
    + apply memb_false in Em. apply Hr. unfold ArrayLemmas.others in Em. rewrite filter_In in Em.
      destruct (memb l rs) eqn:Er; [apply memb_In; auto|]. exfalso. apply Em. split; auto.
  - rewrite sized_fst. unfold ArrayLemmas.others. apply NoDup_filter. exact Hn.
  - apply ext_keys_app_r. apply den_ext_all.
Qed.

(* target[{...}] = y  and  target[{...}] = y'  for the same labelled source stored in two orders *)
Theorem setitem_source_congr (a y y' a1 a2 : farr) kvs :
  wf a -> wf y -> wf y' -> same_arr y y' -> wf_dict (adims a) no_asg kvs ->
  let F := asg_of no_asg kvs in
  let dout := flat_map (out_for F) (adims a) in
  no_lists F (adims a) -> distinct_items F (adims a) ->
  (forall d, In d dout -> lookup (lsizes y) (dletter d) = dlen d) ->
  (forall d, In d dout -> lookup (lsizes y') (dletter d) = dlen d) ->
  setitem R rO rI radd rmul a (KDict kvs) (RArr R y) = Ok a1 ->
  setitem R rO rI radd rmul a (KDict kvs) (RArr R y') = Ok a2 ->
  adims a1 = adims a2
  /\ (forall e, (forall d, In d dout -> lookup e (dletter d) < dlen d) ->
        den a1 (src_env F (adims a) e) = den a2 (src_env F (adims a) e))
  /\ (forall e, (forall d, In d (adims a) -> lookup e (dletter d) < dlen d) ->
        ~ in_region F (adims a) e -> den a1 e = den a2 e).
Proof.
  intros Hwa Hwy Hwy' Hs Hw F dout Hnl Hdi Hc Hc' H1 H2.
  destruct (setitem_dict_spec R rO rI radd rmul rsub ropp Rth a y a1 kvs Hwa Hwy Hw Hnl Hdi Hc H1) as (D1 & A1 & N1).
  destruct (setitem_dict_spec R rO rI radd rmul rsub ropp Rth a y' a2 kvs Hwa Hwy' Hw Hnl Hdi Hc' H2) as (D2 & A2 & N2).
  split; [congruence|]. split.
  - intros e He. fold F in A1, A2. fold dout in A1, A2. rewrite (A1 e He), (A2 e He).
    apply marginal_congr; auto.
    intros l Hl. unfold letters in Hl. apply in_map_iff in Hl. destruct Hl as (d & <- & Hd).
    rewrite (Hc d Hd). apply He. exact Hd.
  - intros e He Hout. rewrite (N1 e He Hout), (N2 e He Hout). reflexivity.
Qed.

(* ---- the TARGET stored in two orders ---- *)
Definition hit1 (r : rawid) (x : nat) : Prop :=
  match r with RAll => True | RInt i => x = i | RList is => In x is end.

Lemma in_region_forall F ds e :
  in_region F ds e <-> Forall (fun d => hit1 (sel_for F d) (lookup e (dletter d))) ds.
Proof.
  unfold in_region. induction ds as [|d ds IH]; simpl; [split; auto|].
  destruct (sel_for F d) as [|i|is] eqn:E; simpl; split.
  - intros H. constructor; [rewrite E; exact I | apply IH; exact H].
  - intros H. inversion H; subst. apply IH. assumption.
  - intros [H1 H2]. constructor; [rewrite E; exact H1 | apply IH; exact H2].
  - intros H. inversion H as [|? ? H1 H2]; subst. rewrite E in H1. split; [exact H1 | apply IH; exact H2].
  - intros [H1 H2]. constructor; [rewrite E; exact H1 | apply IH; exact H2].
  - intros H. inversion H as [|? ? H1 H2]; subst. rewrite E in H1. split; [exact H1 | apply IH; exact H2].
Qed.

Lemma in_region_perm F ds ds' e : Permutation ds ds' -> in_region F ds e -> in_region F ds' e.
Proof.
  intros HP H. apply in_region_forall. apply in_region_forall in H.
  rewrite Forall_forall in *. intros d Hd. apply H. eapply Permutation_in; [symmetry; exact HP | exact Hd].
Qed.

Lemma distinct_items_perm F ds ds' : Permutation ds ds' -> distinct_items F ds -> distinct_items F ds'.
Proof. intros HP H d Hd. apply H. eapply Permutation_in; [symmetry; exact HP | exact Hd]. Qed.

Lemma memb_perm l xs ys : Permutation xs ys -> memb l xs = memb l ys.
Proof.
  intros HP. destruct (memb l xs) eqn:E1, (memb l ys) eqn:E2; auto.
  - apply memb_In in E1. apply memb_false in E2. exfalso. apply E2. eapply Permutation_in; eauto.
  - apply memb_In in E2. apply memb_false in E1. exfalso. apply E1. eapply Permutation_in; [symmetry; exact HP | exact E2].
Qed.

(* a[{...}] = y  and  a'[{...}] = y  for the same labelled target stored in two orders: the results are again the same
   labelled array -- same dimensions as a set, the same value at every addressed entry, the same (old) value elsewhere *)
Theorem setitem_target_congr (a a' y a1 a2 : farr) kvs :
  wf a -> wf a' -> same_arr a a' -> wf y -> wf_dict (adims a) no_asg kvs ->
  let F := asg_of no_asg kvs in
  let dout := flat_map (out_for F) (adims a) in
  no_lists F (adims a) -> distinct_items F (adims a) ->
  (forall d, In d dout -> lookup (lsizes y) (dletter d) = dlen d) ->
  setitem R rO rI radd rmul a (KDict kvs) (RArr R y) = Ok a1 ->
  setitem R rO rI radd rmul a' (KDict kvs) (RArr R y) = Ok a2 ->
  Permutation (adims a1) (adims a2)
  /\ (forall e, (forall d, In d dout -> lookup e (dletter d) < dlen d) ->
        den a1 (src_env F (adims a) e) = den a2 (src_env F (adims a') e))
  /\ (forall e, (forall d, In d (adims a) -> lookup e (dletter d) < dlen d) ->
        ~ in_region F (adims a) e -> den a1 e = den a2 e).
Proof.
  intros Hwa Hwa' [HP Hsame] Hwy Hw F dout Hnl Hdi Hc H1 H2.
  pose proof Hwa as [Hn _].
  set (dout' := flat_map (out_for F) (adims a')).
  assert (HPo : Permutation dout dout') by (apply flat_map_perm; exact HP).
  assert (Hc' : forall d, In d dout' -> lookup (lsizes y) (dletter d) = dlen d).
  { intros d Hd. apply Hc. eapply Permutation_in; [symmetry; exact HPo | exact Hd]. }
  destruct (setitem_dict_spec R rO rI radd rmul rsub ropp Rth a y a1 kvs Hwa Hwy Hw Hnl Hdi Hc H1) as (D1 & A1 & N1).
  destruct (setitem_dict_spec R rO rI radd rmul rsub ropp Rth a' y a2 kvs Hwa' Hwy (wf_dict_perm _ _ _ _ HP Hw)
              (no_lists_perm _ _ _ HP Hnl) (distinct_items_perm _ _ _ HP Hdi) Hc' H2) as (D2 & A2 & N2).
  split; [rewrite D1, D2; exact HP|]. split.
  - intros e He. fold F in A1, A2. fold dout in A1. fold dout' in A2. rewrite (A1 e He).
    rewrite (A2 e) by (intros d Hd; apply He; eapply Permutation_in; [symmetry; exact HPo | exact Hd]).
    assert (Eo : others R y (letters dout) = others R y (letters dout')).
    { unfold ArrayLemmas.others. apply filter_ext. intros l. f_equal. apply memb_perm.
      unfold letters. apply Permutation_map. exact HPo. }
    rewrite Eo. reflexivity.
  - intros e He Hout. rewrite (N1 e He Hout).
    rewrite (N2 e).
    + apply Hsame. intros l Hl. unfold aletters, letters in Hl. apply in_map_iff in Hl. destruct Hl as (d & <- & Hd).
      unfold ArrayLemmas.lsizes, aletters. rewrite (lookup_lsizes (adims a) d Hn Hd). apply He. exact Hd.
    + intros d Hd. apply He. eapply Permutation_in; [symmetry; exact HP | exact Hd].
    + intros Hin. apply Hout. apply (in_region_perm F (adims a') (adims a) e); [symmetry; exact HP | exact Hin].
Qed.

End S.
