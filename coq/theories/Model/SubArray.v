(* Executable model of flodym.SubArrayHandler and FlodymArray.__getitem__/__setitem__/set_values. *)
From Coq Require Import List Arith Lia Bool.
Import ListNotations.
From Flodym Require Import Base.ND Base.Env Np.Einsum Np.Index Model.Dims Model.Array.

Inductive isel := ISingle (it : nat) | IDim (d : dim) | IList (its : list nat).
Inductive keyform :=
| KEllipsis
| KDict (kvs : list (key * isel))
| KTuple (its : list nat)
| KBare (it : nat)
| KSlice.                                   (* a numpy-style slice object *)

(* _get_key_single_item: the unique dimension holding the item *)
Definition key_of_item (ds : dimset) (it : nat) : res letter :=
  match filter (fun d => memb it (ditems d)) ds with [d] => Ok (dletter d) | _ => Err end.

(* _to_dict_tuple: group by dimension, keys in order of first occurrence *)
Fixpoint add_item (acc : list (letter * list nat)) (l : letter) (it : nat) : list (letter * list nat) :=
  match acc with
  | [] => [(l, [it])]
  | (k, v) :: r => if Nat.eqb k l then (k, v ++ [it]) :: r else (k, v) :: add_item r l it
  end.
Fixpoint to_dict_tuple (ds : dimset) (its : list nat) (acc : list (letter * list nat))
  : res (list (letter * list nat)) :=
  match its with
  | [] => Ok acc
  | it :: r => l <- key_of_item ds it ;; to_dict_tuple ds r (add_item acc l it)
  end.

Definition def_dict (ds : dimset) (k : keyform) : res (list (key * isel)) :=
  match k with
  | KEllipsis => Ok []
  | KDict kvs => Ok kvs
  | KTuple its =>
      g <- to_dict_tuple ds its [] ;;
      Ok (map (fun p => (KLetter (fst p), match snd p with [it] => ISingle it | l => IList l end)) g)
  | KBare it => l <- key_of_item ds it ;; Ok [(KLetter l, ISingle it)]
  | KSlice => Err
  end.

(* DimensionSet.replace / drop, in place on dims_out *)
Fixpoint replace_nth {A} (l : list A) (n : nat) (x : A) : list A :=
  match l, n with [], _ => [] | _ :: t, 0 => x :: t | a :: t, S m => a :: replace_nth t m x end.
Fixpoint remove_nth {A} (l : list A) (n : nat) : list A :=
  match l, n with [], _ => [] | _ :: t, 0 => t | a :: t, S m => a :: remove_nth t m end.

Definition ds_replace (ds : dimset) (k : key) (d : dim) : res dimset :=
  if memb (dletter d) (letters ds) then Err
  else match ds_index ds k with Some n => Ok (replace_nth ds n d) | None => Err end.
Definition ds_drop (ds : dimset) (k : key) : res dimset :=
  match ds_index ds k with Some n => Ok (remove_nth ds n) | None => Err end.

Fixpoint init_dims_out (ds : dimset) (dd : list (key * isel)) : res dimset :=
  match dd with
  | [] => Ok ds
  | (k, IDim d) :: r => ds' <- ds_replace ds k d ;; init_dims_out ds' r
  | (k, ISingle _) :: r => ds' <- ds_drop ds k ;; init_dims_out ds' r
  | (k, IList _) :: r => init_dims_out ds r
  end.

(* raw per-axis ids before the mesh conversion *)
Inductive rawid := RAll | RInt (i : nat) | RList (is : list nat).

Definition item_ids (d : dim) (its : list nat) : res (list nat) :=
  mapM (fun it => match index_of it (ditems d) with Some i => Ok i | None => Err end) its.

Definition ids_single_dim (ds : dimset) (k : key) (v : isel) : res (nat * rawid) :=
  match find_key ds k, ds_index ds k with
  | Some d, Some pos =>
      match v with
      | IDim sd =>
          if forallb (fun it => memb it (ditems d)) (ditems sd)
          then is <- item_ids d (ditems sd) ;; Ok (pos, RList is) else Err
      | IList its => is <- item_ids d its ;; Ok (pos, RList is)
      | ISingle it => match index_of it (ditems d) with Some i => Ok (pos, RInt i) | None => Err end
      end
  | _, _ => Err
  end.

Fixpoint init_ids (ds : dimset) (dd : list (key * isel)) (acc : list rawid) : res (list rawid) :=
  match dd with
  | [] => Ok acc
  | (k, v) :: r => pr <- ids_single_dim ds k v ;; init_ids ds r (replace_nth acc (fst pr) (snd pr))
  end.

Definition is_rlist (r : rawid) : bool := match r with RList _ => true | _ => false end.

(* shape of the k-th of n open-mesh arrays: 1 everywhere except its own length at position k *)
Definition mesh_shape (n k m : nat) : list nat := map (fun j => if Nat.eqb j k then m else 1) (seq 0 n).

(* _convert_lists_to_meshgrid *)
Fixpoint to_sels_mesh (raw : list rawid) (sh : list nat) (n k : nat) : list sel :=
  match raw, sh with
  | RAll :: r, m :: sh' => SArr (mesh_shape n k m) (seq 0 m) :: to_sels_mesh r sh' n (S k)
  | RList is :: r, _ :: sh' => SArr (mesh_shape n k (length is)) is :: to_sels_mesh r sh' n (S k)
  | RInt i :: r, _ :: sh' => SInt i :: to_sels_mesh r sh' n k
  | _, _ => []
  end.
Definition to_sels_plain (raw : list rawid) : list sel :=
  map (fun r => match r with RAll => SAll | RInt i => SInt i | RList is => SArr [length is] is end) raw.

(* [fixed = false] is the rule before the repair "fix: convert index lists to an open mesh also
   when one list meets a single-item index" (conversion only for more than one list); the code as
   it stands is [fixed = true].  See Refuted/C06.v. *)
Definition to_sels_v (fixed : bool) (raw : list rawid) (sh : list nat) : list sel :=
  let nl := length (filter is_rlist raw) in
  let has_int := existsb (fun r => match r with RInt _ => true | _ => false end) raw in
  if Nat.ltb 1 nl || (fixed && Nat.eqb nl 1 && has_int)
  then let n := length (filter (fun r => match r with RInt _ => false | _ => true end) raw) in
       to_sels_mesh raw sh n 0
  else to_sels_plain raw.

Definition to_sels := to_sels_v true.

Record handler := mk_handler { h_dims_out : dimset; h_sels : list sel; h_invalid : bool }.

Definition mk_handler_of_v (fixed : bool) (ds : dimset) (k : keyform) : res handler :=
  dd <- def_dict ds k ;;
  dout <- init_dims_out ds dd ;;
  raw <- init_ids ds dd (map (fun _ => RAll) ds) ;;
  Ok (mk_handler dout (to_sels_v fixed raw (dshape ds))
        (existsb (fun p => match snd p with IList _ => true | _ => false end) dd)).
Definition mk_handler_of := mk_handler_of_v true.

Section S.
Variable R : Type.
Variables (rO rI : R) (radd rmul : R -> R -> R).
Notation farr := (farr R).
Notation nd := (nd R).

Definition getitem_v (fixed : bool) (a : farr) (k : keyform) : res farr :=
  h <- mk_handler_of_v fixed (adims a) k ;;
  if h_invalid h then Err
  else v <- index R rO (a_nd R a) (h_sels h) ;; construct R (h_dims_out h) v.
Definition getitem := getitem_v true.

Inductive rhsform := RArr (y : farr) | RNum (c : R) | RNd (v : nd).

(* set_values (as repaired: check first, then assign) *)
Definition set_values (a : farr) (r : rhsform) : res farr :=
  match r with
  | RNd v => construct R (adims a) v
  | RNum c => Ok (full R (adims a) c)
  | RArr _ => Err
  end.

Definition setitem (a : farr) (k : keyform) (r : rhsform) : res farr :=
  h <- mk_handler_of (adims a) k ;;
  match r, k with
  | RArr y, _ =>
      v <- sum_values_to R rO rI radd rmul y (letters (h_dims_out h)) ;;
      w <- setindex R rO (a_nd R a) (h_sels h) v ;; Ok (mk_farr (adims a) (dat w))
  | _, KEllipsis => set_values a r
  | RNum c, _ => w <- setindex R rO (a_nd R a) (h_sels h) (mk_nd [] [c]) ;; Ok (mk_farr (adims a) (dat w))
  | RNd v, _ => w <- setindex R rO (a_nd R a) (h_sels h) v ;; Ok (mk_farr (adims a) (dat w))
  end.

End S.
