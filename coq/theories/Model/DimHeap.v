(* Stateful model of DimensionSet objects: a heap of Python list cells (dim_list) and objects
   pointing to them; out-of-place operations allocate a new cell, in-place ones mutate the
   receiver's cell.  [get_subset_copies = false] is the behaviour before the repair of
   get_subset() without arguments (pydantic's shallow model_copy shares the list). *)
From Coq Require Import List Arith Lia Bool ZArith.
Import ListNotations.
From Flodym Require Import Base.ND Base.Env Model.Dims Model.SubArray.
Local Open Scope nat_scope.

Record dheap := mk_dheap { cells : list dimset; objs : list nat }.
Definition empty_dheap : dheap := mk_dheap [] [].

Definition cell_of (h : dheap) (i : nat) : option dimset :=
  match nth_error (objs h) i with Some c => nth_error (cells h) c | None => None end.

Definition new_obj (h : dheap) (ds : dimset) : dheap :=
  mk_dheap (cells h ++ [ds]) (objs h ++ [length (cells h)]).

Fixpoint upd_nth {A} (l : list A) (k : nat) (v : A) : list A :=
  match l, k with [], _ => [] | _ :: t, 0 => v :: t | a :: t, S j => a :: upd_nth t j v end.

Definition set_cell (h : dheap) (i : nat) (ds : dimset) : dheap :=
  match nth_error (objs h) i with
  | Some c => mk_dheap (upd_nth (cells h) c ds) (objs h)
  | None => h
  end.

(* Python list.insert(index, x) *)
Definition py_insert_pos (len : nat) (z : Z) : nat :=
  if (z <? 0)%Z then Z.to_nat (Z.max 0 (Z.of_nat len + z)) else Nat.min len (Z.to_nat z).
Fixpoint insert_at {A} (l : list A) (n : nat) (x : A) : list A :=
  match n, l with 0, _ => x :: l | S m, a :: t => a :: insert_at t m x | S _, [] => [x] end.

Inductive dop :=
| DNew (ds : list dim)
| DUnion (i j : nat) | DInter (i j : nat) | DDiff (i j : nat) | DXor (i j : nat) | DAdd (i j : nat)
| DSubset (i : nat) (ks : option (list key))
| DCopy (i : nat)
| DArrayOf (i : nat)                                  (* FlodymArray(dims = obj i).dims *)
| DAppend (i : nat) (d : dim) (inplace : bool)
| DPrepend (i : nat) (d : dim) (inplace : bool)
| DInsert (i : nat) (pos : Z) (d : dim) (inplace : bool)
| DDrop (i : nat) (k : key) (inplace : bool)
| DReplace (i : nat) (k : key) (d : dim) (inplace : bool)
| DExpand (i : nat) (ds : list dim) (inplace : bool).

Inductive doutcome := DDone | DRaised.

Definition check_additional (ds : dimset) (d : dim) : bool := negb (memb (dletter d) (letters ds)).

Definition dstep (get_subset_copies : bool) (h : dheap) (o : dop) : dheap * doutcome :=
  let ret (r : res dimset) := match r with Ok ds => (new_obj h ds, DDone) | Err => (h, DRaised) end in
  let bin (f : dimset -> dimset -> res dimset) (i j : nat) :=
      match cell_of h i, cell_of h j with Some x, Some y => ret (f x y) | _, _ => (h, DRaised) end in
  let upd (i : nat) (inplace : bool) (r : res dimset) :=
      match r with
      | Ok ds => if inplace then (set_cell h i ds, DDone) else (new_obj h ds, DDone)
      | Err => (h, DRaised)
      end in
  match o with
  | DNew ds => ret (mk_dimset ds)
  | DUnion i j => bin union_with i j
  | DInter i j => bin intersect_with i j
  | DDiff i j => bin difference_with i j
  | DXor i j => bin xor_with i j
  | DAdd i j => bin add_sets i j
  | DSubset i None =>
      match nth_error (objs h) i with
      | Some c => if get_subset_copies
                  then match nth_error (cells h) c with Some ds => (new_obj h ds, DDone) | None => (h, DRaised) end
                  else (mk_dheap (cells h) (objs h ++ [c]), DDone)         (* shares the list *)
      | None => (h, DRaised)
      end
  | DSubset i (Some ks) => match cell_of h i with Some x => ret (get_subset x ks) | None => (h, DRaised) end
  | DCopy i => match cell_of h i with Some x => ret (Ok x) | None => (h, DRaised) end
  | DArrayOf i =>
      (* pydantic re-runs the "after" validators of a model instance that is passed as a field value:
         the set handed to FlodymArray(dims=...) gets its own list re-copied (and its letters re-checked),
         then the array stores a further copy *)
      match cell_of h i with
      | Some x => if nodupb (letters x)
                  then let h1 := mk_dheap (cells h ++ [x]) (upd_nth (objs h) i (length (cells h))) in
                       (new_obj h1 x, DDone)
                  else (h, DRaised)
      | None => (h, DRaised) end
  | DAppend i d ip =>
      match cell_of h i with
      | Some x => if check_additional x d then upd i ip (if ip then Ok (x ++ [d]) else add_sets x [d]) else (h, DRaised)
      | None => (h, DRaised) end
  | DPrepend i d ip =>
      match cell_of h i with
      | Some x => if check_additional x d then upd i ip (if ip then Ok (d :: x) else add_sets [d] x) else (h, DRaised)
      | None => (h, DRaised) end
  | DInsert i pos d ip =>
      match cell_of h i with
      | Some x => if check_additional x d
                  then upd i ip (let l := insert_at x (py_insert_pos (length x) pos) d in if ip then Ok l else mk_dimset l)
                  else (h, DRaised)
      | None => (h, DRaised) end
  | DDrop i k ip =>
      match cell_of h i with
      | Some x => upd i ip (match ds_drop x k with Ok l => if ip then Ok l else mk_dimset l | Err => Err end)
      | None => (h, DRaised) end
  | DReplace i k d ip =>
      match cell_of h i with
      | Some x => upd i ip (match ds_replace x k d with Ok l => if ip then Ok l else mk_dimset l | Err => Err end)
      | None => (h, DRaised) end
  | DExpand i ds ip =>
      match cell_of h i with
      | Some x => if forallb (fun d => negb (memb (dletter d) (letters x))) ds
                  then upd i ip (if ip then Ok (x ++ ds) else mk_dimset (x ++ ds)) else (h, DRaised)
      | None => (h, DRaised) end
  end.

Definition drun (gsc : bool) (ops : list dop) : dheap :=
  fold_left (fun h o => fst (dstep gsc h o)) ops empty_dheap.
