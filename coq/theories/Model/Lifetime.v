(* Executable model of flodym.lifetime_models.LifetimeModel: quadrature points and weights,
   remaining ages, survival table, outflow-probability table, lazily cached tables and set_prms.
   One label combination at a time (parameters vary per cohort).  The distribution's survival
   function is a section variable [S : age -> parameter -> value] (scipy is external code). *)
From Coq Require Import List Arith Lia Bool ZArith QArith Qcanon.
Import ListNotations.
From Flodym Require Import Base.ND Base.Env Np.Einsum Model.Stocks.
From Flodym Require Gen.SourceFacts.
Local Open Scope nat_scope.

Section L.
Variable F : Type.
Variables (fO fI : F) (fadd fmul fsub : F -> F -> F) (fdiv : F -> F -> F).
Variable P : Type.                      (* parameters of one cohort *)
Variable S : F -> P -> F.               (* survival function of the distribution *)
Notation "x + y" := (fadd x y) : rs. Notation "x * y" := (fmul x y) : rs.
Notation "x - y" := (fsub x y) : rs.
Notation sumF := (sum fO fadd).
Notation nthF := (nthF F fO).

(* _remaining_ages(m, eta)[j] = bounds[m+1+j] - (eta * bounds[m+1] + (1 - eta) * bounds[m]) *)
Definition inflow_instant (b : list F) (c : nat) (eta : F) : F :=
  (eta * nthF b (Datatypes.S c) + (fI - eta) * nthF b c)%rs.
Definition age (b : list F) (t c : nat) (eta : F) : F := (nthF b (Datatypes.S t) - inflow_instant b c eta)%rs.

(* compute_survival_factor: sf[t][c] = sum_q w_q * S(age(t, c, eta_q), prm c) for t >= c, else 0 *)
Definition sf_entry (b : list F) (quad : list (F * F)) (prm : nat -> P) (t c : nat) : F :=
  if Nat.ltb t c then fO
  else sumF (map (fun ew => (snd ew * S (age b t c (fst ew)) (prm c))%rs) quad).
Definition sf_table (n : nat) (b : list F) (quad : list (F * F)) (prm : nat -> P) : list (list F) :=
  tabulate n (fun t => tabulate n (fun c => sf_entry b quad prm t c)).

End L.

(* ---- quadrature rule from the generated source facts ---------------------------------------------- *)

Inductive inflow_at := AtStart | AtMiddle | AtEnd.

Definition lookup_tab (tab : list (nat * list Q)) (n : nat) : list Q :=
  match find (fun p => Nat.eqb (fst p) n) tab with Some p => snd p | None => [] end.

(* get_quad_points_and_weights over Q: None = ValueError *)
Definition quad_points_Q (n_pts : nat) (at_ : inflow_at) : option (list (Q * Q)) :=
  if Nat.ltb SourceFacts.n_pts_limit_src n_pts then None
  else if Nat.ltb 1 n_pts then
    Some (combine (map (fun x => Qred ((x + 1) / 2)%Q) (lookup_tab SourceFacts.gl_nodes_src n_pts))
                  (map (fun w => Qred (w / 2)%Q) (lookup_tab SourceFacts.gl_weights_src n_pts)))
  else Some [(match at_ with
              | AtStart => SourceFacts.eta_start_src
              | AtMiddle => SourceFacts.eta_middle_src
              | AtEnd => SourceFacts.eta_end_src end, 1%Q)].

(* ---- a lifetime-model OBJECT with its lazily filled cache ------------------------------------------ *)
(* Parameters and tables are kept abstract (any types); [table] is what compute_survival_factor
   produces for given parameters.  [clears = false] is the code before the repair of set_prms. *)
Section Cache.
Variables (Prm Tab : Type).
Variable table : Prm -> Tab.
Record lm := mk_lm { lm_prm : Prm; lm_cache : option Tab }.
Definition lm_new (p : Prm) : lm := mk_lm p None.
Definition lm_set_prms (clears : bool) (m : lm) (p : Prm) : lm :=
  mk_lm p (if clears then None else lm_cache m).
(* reading .sf : fills the cache on first access *)
Definition lm_sf (m : lm) : lm * Tab :=
  match lm_cache m with
  | Some t => (m, t)
  | None => let t := table (lm_prm m) in (mk_lm (lm_prm m) (Some t), t)
  end.
End Cache.
