(* Model of DataFrameToFlodymDataConverter up to the logical rows: which index levels become columns,
   which columns are dimension columns (by name, by letter, by their items), long or wide format, melting,
   filling in one-item dimensions, type conversion.  The rows it produces are consumed by DF.import_rows.
   Labels and cells are [ent]ries: what pandas holds, seen through the three comparisons the code makes
   (as is, after int(), after str()) and as a number.
   [fixed] = true is the code as it stands (after the repairs "a dimension that already has its column is
   skipped" and "item columns of a wide table are not searched"); false is the behaviour before. *)
From Coq Require Import List Arith Lia Bool ZArith QArith Qcanon.
Import ListNotations.
From Flodym Require Import Base.ND Base.Env Np.Einsum Np.Index Model.Dims Model.Array Model.SubArray Model.Instances Model.DF.
Local Open Scope nat_scope.

Inductive vkind := VNum (q : Qc) | VNaN | VBad.
Record ent := mk_ent { e_raw : nat; e_int : option nat; e_str : nat; e_val : vkind }.

Inductive dty := TInt | TStr | TNone.
Record tdim := mk_tdim { td : dim; td_name : nat; td_letter : nat; td_ty : dty }.

Definition column := (ent * list ent)%type.

(* index levels: name (if any), entries, the label pandas gives the level when it is reset *)
Record level := mk_level { lv_name : option ent; lv_entries : list ent; lv_reset_label : ent }.
Record table := mk_table { t_levels : list level; t_int_range : option (Z * Z); t_cols : list column }.

(* ---- same_items ---------------------------------------------------------------------------------- *)
Definition coerce (ty : dty) (e : ent) : option nat :=
  match ty with TInt => e_int e | TStr => Some (e_str e) | TNone => Some (e_raw e) end.

Fixpoint all_some {A} (l : list (option A)) : option (list A) :=
  match l with
  | [] => Some []
  | Some a :: r => match all_some r with Some r' => Some (a :: r') | None => None end
  | None :: _ => None
  end.

Definition same_items (arr : list ent) (d : tdim) : bool :=
  match all_some (map (coerce (td_ty d)) arr) with
  | None => false
  | Some cs => forallb (fun c => memb c (ditems (td d))) cs && forallb (fun it => memb it cs) (ditems (td d))
  end.

(* ---- 1. _reset_non_default_index ----------------------------------------------------------------- *)
Definition level_column (lv : level) : column :=
  (match lv_name lv with Some n => n | None => lv_reset_label lv end, lv_entries lv).

Definition reset_index (year_lo year_hi : Z) (t : table) : list column :=
  match t_levels t with
  | [] => t_cols t
  | [lv] =>
      match lv_name lv, t_int_range t with
      | Some _, _ => level_column lv :: t_cols t
      | None, None => level_column lv :: t_cols t                       (* not int64 *)
      | None, Some (lo, hi) =>
          if (Z.leb year_lo lo && Z.leb hi year_hi)%bool then level_column lv :: t_cols t else t_cols t
      end
  | lvs => map level_column lvs ++ t_cols t
  end.

(* ---- 2. columns named by a dimension's name or letter --------------------------------------------- *)
Definition name_ent (d : tdim) : ent := mk_ent (td_name d) None (td_name d) VBad.

Definition find_by_letter (ds : list tdim) (c : nat) : option tdim := find (fun d => Nat.eqb (td_letter d) c) ds.
Definition is_name (ds : list tdim) (c : nat) : bool := existsb (fun d => Nat.eqb (td_name d) c) ds.

Definition rename_letters (ds : list tdim) (cols : list column) : list column :=
  map (fun c => match find_by_letter ds (e_raw (fst c)) with Some d => (name_ent d, snd c) | None => c end) cols.

Definition dim_columns_of (ds : list tdim) (cols : list column) : list nat :=
  filter (is_name ds) (map (fun c => e_raw (fst c)) cols).

(* ---- 3. _check_if_first_row_are_items: not modelled beyond "does it fire" -------------------------- *)
Fixpoint uniq (seen : list nat) (l : list ent) : list ent :=
  match l with
  | [] => []
  | e :: r => if memb (e_raw e) seen then uniq seen r else e :: uniq (e_raw e :: seen) r
  end.

Definition first_row_fires (ds : list tdim) (cols : list column) : bool :=
  match cols with
  | [] => false
  | (lab, es) :: _ => existsb (same_items (lab :: uniq [] es)) ds
  end.

(* ---- 4. columns recognised by their items --------------------------------------------------------- *)
Definition by_items_step (fixed : bool) (ds : list tdim) (st : list column * list nat) (k : nat) : list column * list nat :=
  let '(cols, dimcols) := st in
  match nth_error cols k with
  | None => st
  | Some (lab, es) =>
      if memb (e_raw lab) dimcols then st
      else match find (fun d => negb (fixed && memb (td_name d) dimcols) && same_items (uniq [] es) d) ds with
           | Some d => (replace_nth cols k (name_ent d, es), dimcols ++ [td_name d])
           | None => st
           end
  end.

Definition by_items (fixed : bool) (ds : list tdim) (cols : list column) (dimcols : list nat) : list column * list nat :=
  let others := filter (fun c => negb (memb (e_raw (fst c)) dimcols)) cols in
  if fixed && existsb (fun d => negb (memb (td_name d) dimcols) && same_items (map fst others) d) ds
  then (cols, dimcols)
  else fold_left (by_items_step fixed ds) (seq 0 (length cols)) (cols, dimcols).

(* ---- 5. value columns: wide / long ----------------------------------------------------------------- *)
Inductive fmt := FLong (value_col : nat) | FWide (d : tdim).

Definition value_format (ds : list tdim) (cols : list column) (dimcols : list nat) : res fmt :=
  let vcols := filter (fun c => negb (memb (e_raw (fst c)) dimcols)) cols in
  match find (same_items (map fst vcols)) ds with
  | Some d => Ok (FWide d)
  | None => match vcols with [c] => Ok (FLong (e_raw (fst c))) | _ => Err end
  end.

(* ---- 6-8. logical rows ------------------------------------------------------------------------------ *)
Definition column_of (cols : list column) (name : nat) : option (list ent) :=
  option_map snd (find (fun c => Nat.eqb (e_raw (fst c)) name) cols).

(* the label of row i for dimension d: its column's entry, coerced; or the single item *)
Definition label_at (cols : list column) (dimcols : list nat) (d : tdim) (i : nat) : res nat :=
  if memb (td_name d) dimcols then
    match column_of cols (td_name d) with
    | Some es => match nth_error es i with
                 | Some e => match coerce (td_ty d) e with Some c => Ok c | None => Err end
                 | None => Err end
    | None => Err
    end
  else match ditems (td d) with [it] => Ok it | _ => Err end.

Definition value_at (es : list ent) (i : nat) : res (option Qc) :=
  match nth_error es i with
  | Some e => match e_val e with VNum q => Ok (Some q) | VNaN => Ok None | VBad => Err end
  | None => Err
  end.

Definition nrows (cols : list column) : nat := match cols with [] => 0 | c :: _ => length (snd c) end.

Definition long_rows (ds : list tdim) (cols : list column) (dimcols : list nat) (vcol : nat) : res (list (row Qc)) :=
  match column_of cols vcol with
  | None => Err
  | Some ves =>
      mapM (fun i => labs <- mapM (fun d => label_at cols dimcols d i) ds ;;
                     v <- value_at ves i ;; Ok (mk_row Qc labs v))
           (seq 0 (nrows cols))
  end.

(* melt: one block of rows per item of the spread dimension, in item order; the item columns are found by their coerced label *)
Definition wide_rows (ds : list tdim) (cols : list column) (dimcols : list nat) (wd : tdim) : res (list (row Qc)) :=
  blocks <- mapM (fun it =>
      match find (fun c => match coerce (td_ty wd) (fst c) with Some k => Nat.eqb k it | None => false end)
                 (filter (fun c => negb (memb (e_raw (fst c)) dimcols)) cols) with
      | None => Err
      | Some (_, ves) =>
          mapM (fun i => labs <- mapM (fun d => if Nat.eqb (td_name d) (td_name wd) then Ok it else label_at cols dimcols d i) ds ;;
                         v <- value_at ves i ;; Ok (mk_row Qc labs v))
               (seq 0 (nrows cols))
      end) (ditems (td wd)) ;;
  Ok (concat blocks).

Inductive outcome := OValues (v : list Qc) | ORefused | OUnmodelled.

Definition convert (fixed : bool) (year_lo year_hi : Z) (ds : list tdim) (allow_missing allow_extra : bool) (t : table) : outcome :=
  let cols0 := reset_index year_lo year_hi t in
  let cols1 := rename_letters ds cols0 in
  let dimcols1 := dim_columns_of ds cols1 in
  if first_row_fires ds cols1 then OUnmodelled
  else
  let '(cols2, dimcols2) := by_items fixed ds cols1 dimcols1 in
  match value_format ds cols2 dimcols2 with
  | Err => ORefused
  | Ok f =>
      let rows := match f with
                  | FLong v => long_rows ds cols2 dimcols2 v
                  | FWide wd => wide_rows ds cols2 dimcols2 wd
                  end in
      match rows with
      | Err => ORefused
      | Ok rs =>
          match import_rows Qc QO true 0 (map td ds) false false allow_missing allow_extra rs with
          | Ok v => OValues v
          | Err => ORefused
          end
      end
  end.
