(* Executable model of flodym.stocks and of the time-grid part of flodym.lifetime_models, for ONE
   combination of non-time labels (the einsum "c...,tc...->tc..." keeps every non-time index
   separate, so an array over (t, rest) is a family of such columns; the correspondence checks the
   implementation's multi-label results column by column against this model).
   Generic over a field given by its operations. *)
From Coq Require Import List Arith Lia Bool.
Import ListNotations.
From Flodym Require Import Base.ND Base.Env Np.Einsum.

Section M.
Variable F : Type.
Variables (fO fI : F) (fadd fmul fsub : F -> F -> F) (fopp : F -> F) (fdiv : F -> F -> F).
Notation "x + y" := (fadd x y) : rs. Notation "x * y" := (fmul x y) : rs.
Notation "x - y" := (fsub x y) : rs. Notation "x / y" := (fdiv x y) : rs.
Notation sumF := (sum fO fadd).

Definition nthF (l : list F) (i : nat) : F := nth i l fO.
Definition nth2 (m : list (list F)) (i j : nat) : F := nth j (nth i m []) fO.
Definition tabulate {A} (n : nat) (f : nat -> A) : list A := map f (seq 0 n).
Definition two : F := (fI + fI)%rs.

(* ---- UnevenTimeDim: interval bounds at the midpoints, first/last interval mirror the neighbour ---- *)
Definition middles (items : list F) : list F :=
  tabulate (length items - 1) (fun i => ((nthF items i + nthF items (S i)) / two)%rs).
Definition bounds (items : list F) : list F :=
  let m := middles items in
  let k := length m in
  [ (nthF m 0 - (nthF m 1 - nthF m 0))%rs ] ++ m ++ [ (nthF m (k - 1) + (nthF m (k - 1) - nthF m (k - 2)))%rs ].
Definition interval_lengths (items : list F) : list F :=
  let b := bounds items in tabulate (length b - 1) (fun i => (nthF b (S i) - nthF b i)%rs).

(* ---- LifetimeModel.compute_outflow_pdf ------------------------------------------------------------ *)
Definition pdf_entry (sf : list (list F)) (t c : nat) : F :=
  if Nat.ltb t c then fO
  else if Nat.eqb t c then (fI - nth2 sf c c)%rs
  else (nth2 sf (t - 1) c - nth2 sf t c)%rs.
Definition pdf_of (n : nat) (sf : list (list F)) : list (list F) :=
  tabulate n (fun t => tabulate n (fun c => pdf_entry sf t c)).

(* ---- Stock helpers ---------------------------------------------------------------------------------- *)
Definition to_whole_period (dt flow : list F) : list F := map2 fmul flow dt.
Definition to_annual (dt flow : list F) : list F := map2 (fun x d => (x * (fI / d))%rs) flow dt.

Fixpoint cumsum_from (acc : F) (l : list F) : list F :=
  match l with [] => [] | x :: r => (acc + x)%rs :: cumsum_from (acc + x)%rs r end.

(* SimpleFlowDrivenStock.compute *)
Definition simple_stock (dt inflow outflow : list F) : list F :=
  cumsum_from fO (to_whole_period dt (map2 fsub inflow outflow)).

(* cohort table "c,tc->tc" and its row sums *)
Definition cohort_table (n : nat) (x : list F) (tbl : list (list F)) : list (list F) :=
  tabulate n (fun t => tabulate n (fun c => (nthF x c * nth2 tbl t c)%rs)).
Definition row_sums (m : list (list F)) : list F := map sumF m.

Record dsm_out := mk_dsm_out {
  o_stock : list F; o_inflow : list F; o_outflow : list F;
  o_sbc : list (list F); o_obc : list (list F) }.

(* DynamicStockModel._compute_outflow.  [uses_dt = false] is the code before the repair
   (annual inflow times outflow probability, no interval lengths) *)
Definition compute_outflow (uses_dt : bool) (n : nat) (dt inflow : list F) (sf : list (list F))
  : list (list F) * list F :=
  let pdf := pdf_of n sf in
  let obc := if uses_dt
             then map2 (fun row d => map (fun x => (x * (fI / d))%rs) row)
                       (cohort_table n (to_whole_period dt inflow) pdf) dt
             else cohort_table n inflow pdf in
  (obc, row_sums obc).

(* InflowDrivenDSM.compute *)
Definition idsm (uses_dt : bool) (n : nat) (dt inflow : list F) (sf : list (list F)) : dsm_out :=
  let sbc := cohort_table n (to_whole_period dt inflow) sf in
  let '(obc, outflow) := compute_outflow uses_dt n dt inflow sf in
  mk_dsm_out (row_sums sbc) inflow outflow sbc obc.

(* StockDrivenDSM._compute_inflow_manual: row-by-row forward substitution (whole-period inflow) *)
Fixpoint fsolve (n : nat) (sf : list (list F)) (stock : list F) : list F :=
  match n with
  | 0 => []
  | S m =>
      let xs := fsolve m sf stock in
      xs ++ [ ((nthF stock m - sumF (map (fun j => (nth2 sf m j * nthF xs j)%rs) (seq 0 m))) / nth2 sf m m)%rs ]
  end.

Definition sdsm (uses_dt : bool) (n : nat) (dt stock : list F) (sf : list (list F)) : dsm_out :=
  let wp := fsolve n sf stock in
  let inflow := to_annual dt wp in
  let sbc := cohort_table n (if uses_dt then to_whole_period dt inflow else inflow) sf in
  let '(obc, outflow) := compute_outflow uses_dt n dt inflow sf in
  mk_dsm_out stock inflow outflow sbc obc.

(* Stock.get_stock_balance *)
Definition diff_prepend0 (l : list F) : list F :=
  tabulate (length l) (fun t => (nthF l t - (if Nat.eqb t 0 then fO else nthF l (t - 1)))%rs).
Definition stock_balance (uses_dt : bool) (dt stock inflow outflow : list F) : list F :=
  let net := map2 fsub inflow outflow in
  map2 fsub (if uses_dt then to_whole_period dt net else net) (diff_prepend0 stock).

End M.
