(* Executable instance of the generic models: rationals in canonical form (Qc, Leibniz equality,
   a field: Qcrt / Qcft).  What the correspondence runs is this instance of the very definitions
   the generic theorems are about. *)
From Coq Require Import List ZArith QArith Qcanon Bool.
Import ListNotations.
From Flodym Require Import Base.ND Base.Env Np.Einsum Model.Dims Model.Array.

Definition q (n : Z) (d : positive) : Qc := Q2Qc (n # d).
Definition Qc_eqb (a b : Qc) : bool := Qeq_bool (this a) (this b).
Definition Qc_leb (a b : Qc) : bool := Qle_bool (this a) (this b).
Definition Qc_min (a b : Qc) : Qc := if Qc_leb a b then a else b.
Definition Qc_max (a b : Qc) : Qc := if Qc_leb a b then b else a.
Definition Qc_inv (a : Qc) : Qc := Qcinv a.
Definition Qc_abs (a : Qc) : Qc := if Qc_leb 0 a then a else Qcopp a.
Definition Qc_sign (a : Qc) : Qc :=
  if Qc_eqb a 0 then 0%Qc else if Qc_leb 0 a then 1%Qc else Qcopp 1%Qc.
(* x ** y for integral exponents (the exact stream only uses exponents 0..3) *)
Definition Qc_pow (a b : Qc) : Qc :=
  match Qnum (this b), Qden (this b) with
  | Z0, _ => 1%Qc
  | Zpos p, 1%positive => Qcpower a (Pos.to_nat p)
  | Zneg p, 1%positive => Qcinv (Qcpower a (Pos.to_nat p))
  | _, _ => 0%Qc
  end.

Fixpoint list_eqb {A} (eqb : A -> A -> bool) (l1 l2 : list A) : bool :=
  match l1, l2 with
  | [], [] => true
  | a :: l1', b :: l2' => eqb a b && list_eqb eqb l1' l2'
  | _, _ => false
  end.

Definition dims_eqb (a b : dimset) : bool := list_eqb dim_eqb a b.
Definition farr_eqb (a b : farr Qc) : bool :=
  dims_eqb (adims a) (adims b) && list_eqb Qc_eqb (avals a) (avals b).

(* expected values: None = non-finite on the implementation side (not compared) *)
Fixpoint vals_agree (m : list Qc) (o : list (option Qc)) : bool :=
  match m, o with
  | [], [] => true
  | a :: m', b :: o' => (match b with Some b' => Qc_eqb a b' | None => true end) && vals_agree m' o'
  | _, _ => false
  end.

Definition res_agree {A B} (agree : A -> B -> bool) (m : res A) (o : res B) : bool :=
  match m, o with Ok a, Ok b => agree a b | Err, Err => true | _, _ => false end.

Record oarr := mk_oarr { odims : dimset; ovals : list (option Qc) }.
Definition farr_agree (m : farr Qc) (o : oarr) : bool :=
  dims_eqb (adims m) (odims o) && vals_agree (avals m) (ovals o).

Definition fQ := farr Qc.
Definition QO := 0%Qc.
Definition QI := 1%Qc.
