(* Executable model of building an MFA system from definitions: make_processes, make_empty_flows,
   make_empty_stocks, the definition validators, Dimension.from_np.  Names are coded as naturals;
   the documented flow-naming functions are supplied as a table (computed independently by the harness). *)
From Coq Require Import List Arith Lia Bool.
Import ListNotations.
From Flodym Require Import Base.ND Base.Env Model.Dims.
Local Open Scope nat_scope.

(* ---- processes: numbered in listed order; the process with id 0 must be called sysenv ---- *)
Definition make_processes (sysenv : nat) (names : list nat) : res (list (nat * nat)) :=
  match names with
  | [] => Ok []
  | n0 :: _ => if Nat.eqb n0 sysenv then Ok (combine names (seq 0 (length names))) else Err
  end.

Fixpoint assoc (k : nat) (l : list (nat * nat)) : option nat :=
  match l with [] => None | (a, b) :: r => if Nat.eqb a k then Some b else assoc k r end.

(* ---- flows ---- *)
Record flowdef := mk_flowdef { fd_from : nat; fd_to : nat; fd_dims : list letter; fd_override : option nat }.
Record flowobj := mk_flowobj { fo_name : nat; fo_from : nat; fo_to : nat; fo_dims : dimset }.

(* dict insertion: a repeated key keeps its first position and takes the new value *)
Fixpoint dict_set {V} (key : V -> nat) (d : list V) (v : V) : list V :=
  match d with
  | [] => [v]
  | x :: r => if Nat.eqb (key x) (key v) then v :: r else x :: dict_set key r v
  end.

(* build all objects, inserting each under its name (Python dict) *)
Definition dict_fold {D V} (key : V -> nat) (f : D -> res V) (defs : list D) : res (list V) :=
  fold_left (fun acc d => l <- acc ;; v <- f d ;; Ok (dict_set key l v)) defs (Ok []).

Definition flow_of (procs : list (nat * nat)) (dims : dimset) (naming : nat -> nat -> nat) (fd : flowdef) : res flowobj :=
  match assoc (fd_from fd) procs, assoc (fd_to fd) procs with
  | Some _, Some _ =>
      ds <- get_subset dims (map KLetter (fd_dims fd)) ;;
      ds' <- mk_dimset ds ;;
      let nm := match fd_override fd with Some n => n | None => naming (fd_from fd) (fd_to fd) end in
      Ok (mk_flowobj nm (fd_from fd) (fd_to fd) ds')
  | _, _ => Err
  end.

Definition make_empty_flows (procs : list (nat * nat)) (dims : dimset)
           (naming : nat -> nat -> nat) (defs : list flowdef) : res (list flowobj) :=
  dict_fold fo_name (flow_of procs dims naming) defs.

(* ---- stocks ---- *)
Record stockdef := mk_stockdef {
  sd_name : nat; sd_process : option nat; sd_dims : list letter; sd_time : letter;
  sd_class : nat;            (* 0 = SimpleFlowDrivenStock, 1 = InflowDrivenDSM, 2 = StockDrivenDSM,
                                3 = a user's subclass of StockDrivenDSM, 4 = a user's lifetime-based class with a solver field of its own *)
  sd_lifetime : option nat;  (* lifetime model class *)
  sd_solver : nat            (* 0 = manual, 1 = lapack, other = invalid *)
}.
Record stockobj := mk_stockobj {
  so_name : nat; so_process : option nat; so_dims : dimset; so_time : letter;
  so_class : nat; so_lifetime : option nat; so_solver : option nat }.

Definition needs_lifetime (cls : nat) : bool := negb (Nat.eqb cls 0).
(* the classes that have a solver setting: the definition's solver goes to every class that has the field *)
Definition has_solver (cls : nat) : bool := Nat.leb 2 cls.

(* StockDefinition validators *)
Definition stockdef_ok (sd : stockdef) : bool :=
  Nat.ltb (sd_solver sd) 2
  && (match sd_lifetime sd with Some _ => needs_lifetime (sd_class sd) | None => negb (needs_lifetime (sd_class sd)) end).

(* [forwards_solver = false] is the code before the repair: the definition's solver was dropped *)
Definition stock_of (forwards_solver : bool) (procs : list (nat * nat)) (dims : dimset) (sd : stockdef) : res stockobj :=
  ds <- get_subset dims (map KLetter (sd_dims sd)) ;;
  ds' <- mk_dimset ds ;;
  _u <- (match sd_process sd with
         | None => Ok tt
         | Some p => match assoc p procs with Some _ => Ok tt | None => Err end
         end) ;;
  (* Stock validators: time must be the first dimension *)
  match letters ds' with
  | l0 :: _ =>
      if Nat.eqb l0 (sd_time sd)
      then Ok (mk_stockobj (sd_name sd) (sd_process sd) ds' (sd_time sd) (sd_class sd) (sd_lifetime sd)
                 (if has_solver (sd_class sd) then Some (if forwards_solver then sd_solver sd else 0) else None))
      else Err
  | [] => Err
  end.

Definition make_empty_stocks (forwards_solver : bool) (procs : list (nat * nat)) (dims : dimset)
           (defs : list stockdef) : res (list stockobj) :=
  dict_fold so_name (stock_of forwards_solver procs dims) defs.

(* ---- MFADefinition.check_dimension_letters ---- *)
Definition definition_ok (defined : list letter) (flows : list flowdef) (stocks : list stockdef)
           (params : list (nat * list letter)) : bool :=
  forallb (fun fd => forallb (fun l => memb l defined) (fd_dims fd)) flows
  && forallb (fun sd => forallb (fun l => memb l defined) (sd_dims sd) && stockdef_ok sd) stocks
  && forallb (fun p => forallb (fun l => memb l defined) (snd p)) params.

(* ---- Dimension.from_np: one row or one column, optional header, conversion to the declared type ---- *)
Definition from_np (rows cols : nat) (cells : list nat) (convertible : list bool) (name : nat) : res (list nat) :=
  if Nat.ltb 1 rows && Nat.ltb 1 cols then Err
  else match cells, convertible with
       | c0 :: r, b0 :: rb =>
           let (cs, bs) := if Nat.eqb c0 name then (r, rb) else (cells, convertible) in
           if forallb (fun b => b) bs then Ok cs else Err
       | _, _ => Err        (* empty data: data[0] raises *)
       end.

Record sysobs := mk_sysobs { sy_procs : list (nat * nat); sy_flows : list flowobj; sy_stocks : list stockobj }.

Definition build (fwd : bool) (sysenv : nat) (dims : dimset) (naming : nat -> nat -> nat)
           (pnames : list nat) (flows : list flowdef) (stocks : list stockdef) (params : list (nat * list letter))
  : res sysobs :=
  if definition_ok (letters dims) flows stocks params then
    procs <- make_processes sysenv pnames ;;
    fl <- make_empty_flows procs dims naming flows ;;
    st <- make_empty_stocks fwd procs dims stocks ;;
    Ok (mk_sysobs procs fl st)
  else Err.
