(* Pure (value-level) model of flodym.dimensions: Dimension and the out-of-place part of
   DimensionSet.  Names and letters live in different namespaces in flodym (names have >= 2
   characters, letters exactly 1), so a key is tagged.  Items are coded as naturals by the harness. *)
From Coq Require Import List Arith Lia Bool.
Import ListNotations.
From Flodym Require Import Base.ND Base.Env.

Inductive res (A : Type) : Type := Ok (a : A) | Err.
Arguments Ok {A} a.
Arguments Err {A}.

Definition bind {A B} (r : res A) (f : A -> res B) : res B :=
  match r with Ok a => f a | Err => Err end.
Notation "x <- r ;; k" := (bind r (fun x => k)) (at level 61, r at next level, right associativity).

Record dim := mk_dim { dletter : letter; dname : nat; ditems : list nat }.
Definition dimset := list dim.
Definition dlen (d : dim) : nat := length (ditems d).
Definition letters (ds : dimset) : list letter := map dletter ds.
Definition names (ds : dimset) : list nat := map dname ds.
Definition dshape (ds : dimset) : list nat := map dlen ds.
Definition total_size (ds : dimset) : nat := size (dshape ds).

Inductive key := KLetter (l : letter) | KName (n : nat).

Fixpoint find_letter (ds : dimset) (l : letter) : option dim :=
  match ds with [] => None | d :: ds' => if Nat.eqb (dletter d) l then Some d else find_letter ds' l end.
(* _full_mapping is a dict built in list order: a later dimension with the same name wins *)
Fixpoint find_name (ds : dimset) (n : nat) : option dim :=
  match ds with
  | [] => None
  | d :: ds' => match find_name ds' n with Some d' => Some d' | None => if Nat.eqb (dname d) n then Some d else None end
  end.
Definition find_key (ds : dimset) (k : key) : option dim :=
  match k with KLetter l => find_letter ds l | KName n => find_name ds n end.

Definition has_key (ds : dimset) (k : key) : bool :=
  match find_key ds k with Some _ => true | None => false end.

(* DimensionSet(dim_list=...) : validator "unique letters" *)
Fixpoint nodupb (l : list nat) : bool :=
  match l with [] => true | a :: l' => negb (memb a l') && nodupb l' end.
Definition mk_dimset (ds : list dim) : res dimset := if nodupb (letters ds) then Ok ds else Err.

Fixpoint mapM {A B} (f : A -> res B) (l : list A) : res (list B) :=
  match l with [] => Ok [] | a :: l' => b <- f a ;; bs <- mapM f l' ;; Ok (b :: bs) end.

(* get_subset(dims): no validation of the result (model_copy + attribute assignment) *)
Definition get_subset (ds : dimset) (ks : list key) : res dimset :=
  mapM (fun k => match find_key ds k with Some d => Ok d | None => Err end) ks.

Definition expand_by (ds added : dimset) : res dimset :=
  if forallb (fun d => negb (memb (dletter d) (letters ds))) added then mk_dimset (ds ++ added) else Err.

Definition intersect_with (x y : dimset) : res dimset :=
  get_subset x (map KLetter (filter (fun l => memb l (letters y)) (letters x))).
Definition union_with (x y : dimset) : res dimset :=
  expand_by x (filter (fun d => negb (memb (dletter d) (letters x))) y).
Definition difference_with (x y : dimset) : res dimset :=
  get_subset x (map KLetter (filter (fun l => negb (memb l (letters y))) (letters x))).
Definition xor_with (x y : dimset) : res dimset :=
  a <- difference_with x y ;; b <- difference_with y x ;; union_with a b.
Definition add_sets (x y : dimset) : res dimset :=
  i <- intersect_with x y ;; match i with [] => union_with x y | _ => Err end.

Fixpoint index_of (l : nat) (ls : list nat) : option nat :=
  match ls with [] => None | a :: ls' => if Nat.eqb a l then Some 0 else option_map S (index_of l ls') end.

(* DimensionSet.index(key): position of the first dimension object equal to the found one;
   with unique letters this is the position of its letter *)
Definition ds_index (ds : dimset) (k : key) : option nat :=
  match find_key ds k with Some d => index_of (dletter d) (letters ds) | None => None end.

Definition dim_eqb (a b : dim) : bool :=
  Nat.eqb (dletter a) (dletter b) && Nat.eqb (dname a) (dname b)
  && (if list_eq_dec Nat.eq_dec (ditems a) (ditems b) then true else false).
