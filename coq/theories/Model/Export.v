(* Executable models for the export layer:
   - to_valid_file_name on ASCII strings (lists of character codes) and the list of CSV files written,
   - the Sankey link assembly (shown processes, node ids, slicing, totals, per-item split),
   - the array plotter's decomposition into subplots and lines. *)
From Coq Require Import List Arith Lia Bool ZArith QArith Qcanon.
Import ListNotations.
From Flodym Require Import Base.ND Base.Env Np.Einsum Np.Index Model.Dims Model.Array Model.SubArray Model.Instances.
Local Open Scope nat_scope.

(* ---------- to_valid_file_name (ASCII) ---------- *)
Definition is_upper (c : nat) := Nat.leb 65 c && Nat.leb c 90.
Definition lower (c : nat) := if is_upper c then c + 32 else c.
Definition is_word (c : nat) : bool :=      (* \w : letters, digits, underscore *)
  (Nat.leb 48 c && Nat.leb c 57) || (Nat.leb 65 c && Nat.leb c 90) || (Nat.leb 97 c && Nat.leb c 122) || Nat.eqb c 95.
Definition is_space (c : nat) : bool :=     (* \s on ASCII *)
  Nat.eqb c 32 || (Nat.leb 9 c && Nat.leb c 13) || (Nat.leb 28 c && Nat.leb c 31).
Definition is_dash (c : nat) : bool := Nat.eqb c 45.

Fixpoint lstrip (s : list nat) : list nat :=
  match s with c :: r => if is_dash c || Nat.eqb c 95 then lstrip r else s | [] => [] end.
Definition strip (s : list nat) : list nat := rev (lstrip (rev (lstrip s))).

Definition sanitize (s : list nat) : list nat :=
  let s0 := filter (fun c => Nat.ltb c 128) s in                       (* NFKD + encode('ascii','ignore') on ASCII input *)
  let s1 := filter (fun c => is_word c || is_space c || is_dash c) (map lower s0) in
  strip (map (fun c => if is_dash c || is_space c then 95 else c) s1).

(* names of the CSV files (without directory) *)
Definition csv_suffix : list nat := [46; 99; 115; 118].   (* ".csv" *)
Definition flow_files (flow_names : list (list nat)) : list (list nat) :=
  map (fun n => sanitize n ++ csv_suffix) flow_names.
Definition stock_files (with_in_out : bool) (stock_names : list (list nat)) : list (list nat) :=
  flat_map (fun n => map (fun a => sanitize n ++ [95] ++ a ++ csv_suffix)
                         ([ [115;116;111;99;107] ] ++ (if with_in_out then [ [105;110;102;108;111;119]; [111;117;116;102;108;111;119] ] else [])))
           stock_names.

(* ---------- Sankey ---------- *)
Record sflow := mk_sflow { sf_name : nat; sf_from : nat; sf_to : nat; sf_arr : fQ; sf_split : option letter }.
Record slink := mk_slink { sl_source : nat; sl_target : nat; sl_label : nat; sl_value : Qc }.

(* processes are (name, id) in system order; exclude by name *)
Definition shown_processes (procs : list (nat * nat)) (excl : list nat) : list (nat * nat) :=
  filter (fun p => negb (memb (fst p) excl)) procs.
Definition excluded_ids (procs : list (nat * nat)) (excl : list nat) : list nat :=
  map snd (filter (fun p => memb (fst p) excl) procs).
Definition flow_is_shown (procs : list (nat * nat)) (exclp exclf : list nat) (f : sflow) : bool :=
  negb (memb (sf_name f) exclf || memb (sf_from f) (excluded_ids procs exclp) || memb (sf_to f) (excluded_ids procs exclp)).
(* ids_in_sankey: position of the process id among the shown processes *)
Definition node_of (procs : list (nat * nat)) (excl : list nat) (pid : nat) : option nat :=
  index_of pid (map snd (shown_processes procs excl)).

Definition sum_all (a : fQ) : Qc := sum QO Qcplus (avals a).

(* slice_dict: (letter, item) pairs; only the letters the flow has are applied *)
Definition links_of (procs : list (nat * nat)) (exclp : list nat) (slice : list (letter * nat))
           (items_of : letter -> list nat) (f : sflow) : res (list slink) :=
  match node_of procs exclp (sf_from f), node_of procs exclp (sf_to f) with
  | Some s, Some t =>
      let sd := filter (fun kv => memb (fst kv) (aletters Qc (sf_arr f))) slice in
      fs <- getitem Qc QO (sf_arr f) (KDict (map (fun kv => (KLetter (fst kv), ISingle (snd kv))) sd)) ;;
      match sf_split f with
      | None => Ok [mk_slink s t (sf_name f) (sum_all fs)]
      | Some l =>
          v <- sum_values_to Qc QO QI Qcplus Qcmult fs [l] ;;
          Ok (map (fun iv => mk_slink s t (fst iv) (snd iv)) (combine (items_of l) (dat v)))
      end
  | _, _ => Err
  end.

Definition sankey_links (procs : list (nat * nat)) (exclp exclf : list nat) (slice : list (letter * nat))
           (items_of : letter -> list nat) (flows : list sflow) : res (list slink) :=
  r <- mapM (links_of procs exclp slice items_of) (filter (flow_is_shown procs exclp exclf) flows) ;;
  Ok (concat r).

(* ---------- array plotter: one line per (subplot item, line item) ---------- *)
Record pline := mk_pline { pl_sub : option nat; pl_line : option nat; pl_x : list Qc; pl_y : list Qc }.

Definition split_by (a : fQ) (l : option letter) : res (list (option nat * fQ)) :=
  match l with
  | None => Ok [(None, a)]
  | Some l =>
      match find_letter (adims a) l with
      | Some d => mapM (fun it => s <- getitem Qc QO a (KDict [(KLetter l, ISingle it)]) ;; Ok (Some it, s)) (ditems d)
      | None => Err
      end
  end.

(* x: the cast of the x array (or of the intra-line dimension's items) to the array's dims *)
Definition plot_lines (a xa : fQ) (sub line : option letter) : res (list pline) :=
  xc <- cast_to Qc QO QI Qcplus Qcmult xa (adims a) ;;
  sa <- split_by a sub ;; sx <- split_by xc sub ;;
  r <- mapM (fun p =>
         la <- split_by (snd (fst p)) line ;; lx <- split_by (snd (snd p)) line ;;
         Ok (map (fun q => mk_pline (fst (fst p)) (fst (fst q)) (avals (snd (snd q))) (avals (snd (fst q)))) (combine la lx)))
       (combine sa sx) ;;
  Ok (concat r).
