(* Executable model of flodym.FlodymArray: construction, reductions, casts, arithmetic.
   Each function mirrors the Python method of the same name and calls the numpy model. *)
From Coq Require Import List Arith Lia Bool.
Import ListNotations.
From Flodym Require Import Base.ND Base.Env Np.Einsum Model.Dims.

Section A.
Variable R : Type.
Variables (rO rI : R) (radd rmul rsub : R -> R -> R) (ropp : R -> R).
Notation nd := (nd R).
Notation einsum := (einsum R rO rI radd rmul).

Record farr := mk_farr { adims : dimset; avals : list R }.

Definition a_nd (a : farr) : nd := mk_nd (dshape (adims a)) (avals a).
Definition aletters (a : farr) := letters (adims a).

Definition shape_eqb (a b : list nat) : bool := if list_eq_dec Nat.eq_dec a b then true else false.

(* FlodymArray(dims=ds, values=v): the validating constructor (_check_value_format) *)
Definition construct (ds : dimset) (v : nd) : res farr :=
  if shape_eqb (shp v) (dshape ds) && Nat.eqb (length (dat v)) (size (shp v))
  then Ok (mk_farr ds (dat v)) else Err.

Definition full (ds : dimset) (c : R) : farr := mk_farr ds (dat (nd_full R (dshape ds) c)).

(* _get_dim_letter / _tuple_to_letters : letters, names or Dimension objects *)
Inductive dimarg := ALetter (l : letter) | AName (n : nat) | ADim (d : dim).
Definition get_dim_letter (a : farr) (x : dimarg) : res letter :=
  match x with
  | ADim d => Ok (dletter d)
  | ALetter l => match find_letter (adims a) l with Some d => Ok (dletter d) | None => Err end
  | AName n => match find_name (adims a) n with Some d => Ok (dletter d) | None => Err end
  end.
Definition tuple_to_letters (a : farr) (xs : list dimarg) : res (list letter) :=
  mapM (get_dim_letter a) xs.

(* np.einsum("<letters a>-><res>", a.values): numpy refuses output letters that are not input
   letters, and repeated output letters *)
Definition sum_values_to (a : farr) (rs : list letter) : res nd :=
  if forallb (fun l => memb l (aletters a)) rs && nodupb rs
  then Ok (einsum [(aletters a, a_nd a)] rs) else Err.

Definition sum_to (a : farr) (xs : list dimarg) : res farr :=
  rs <- tuple_to_letters a xs ;;
  ds <- get_subset (adims a) (map KLetter rs) ;;
  v <- sum_values_to a rs ;;
  construct ds v.

Definition sum_over (a : farr) (xs : list dimarg) : res farr :=
  so <- tuple_to_letters a xs ;;
  let rs := filter (fun l => negb (memb l so)) (aletters a) in
  ds <- get_subset (adims a) (map KLetter rs) ;;
  (* sum_values_over converts the (already converted) letters once more: a foreign letter that
     came from a Dimension object is rejected here *)
  so' <- tuple_to_letters a (map ALetter so) ;;
  v <- sum_values_to a (filter (fun l => negb (memb l so')) (aletters a)) ;;
  construct ds v.

(* cast_values_to: assert, reorder by einsum, insert new axes, tile *)
Definition cast_values_to (a : farr) (target : dimset) : res nd :=
  if forallb (fun l => memb l (letters target)) (aletters a) then
    let kept := filter (fun l => memb l (aletters a)) (letters target) in
    v <- (if nodupb kept then Ok (einsum [(aletters a, a_nd a)] kept) else Err) ;;
    let sh1 := map (fun d => if memb (dletter d) (aletters a) then lookup (combine (aletters a) (dshape (adims a))) (dletter d) else 1) target in
    let reps := map (fun d => if memb (dletter d) (aletters a) then 1 else dlen d) target in
    Ok (tile R rO (reshape R v sh1) reps)
  else Err.

Definition cast_to (a : farr) (target : dimset) : res farr :=
  v <- cast_values_to a target ;; construct target v.

(* add / sub / minimum / maximum *)
Definition binop_common (f : R -> R -> R) (x y : farr) : res farr :=
  ds <- intersect_with (adims x) (adims y) ;;
  vx <- sum_values_to x (letters ds) ;;
  vy <- sum_values_to y (letters ds) ;;
  if shape_eqb (shp vx) (shp vy) then construct ds (nd_map2 R f vx vy) else Err.

(* mul; div is mul with the reciprocal values *)
Definition mul_like (g : R -> R) (x y : farr) : res farr :=
  ds <- union_with (adims x) (adims y) ;;
  let yv := mk_nd (dshape (adims y)) (map g (avals y)) in
  construct ds (einsum [(aletters x, a_nd x); (aletters y, yv)] (letters ds)).

Definition pow_like (p : R -> R -> R) (x y : farr) : res farr :=
  if forallb (fun l => memb l (aletters x)) (aletters y) then
    yc <- cast_to y (adims x) ;;
    construct (adims x) (mk_nd (dshape (adims x)) (map2 p (avals x) (avals yc)))
  else Err.

Definition amap (f : R -> R) (a : farr) : farr := mk_farr (adims a) (map f (avals a)).

(* get_shares_over *)
Definition sum_values (a : farr) : R := sum rO radd (avals a).
Definition get_shares_over (inv : R -> R) (a : farr) (ls : list letter) : res farr :=
  if forallb (fun l => memb l (aletters a)) ls then
    if forallb (fun l => memb l ls) (aletters a)
    then mul_like inv a (full (adims a) (sum_values a))
    else so <- sum_over a (map ALetter ls) ;; mul_like inv a so
  else Err.

(* cumsum along the dimension with the given letter *)
Definition cumsum (a : farr) (l : letter) : res farr :=
  match index_of l (aletters a) with
  | None => Err
  | Some ax =>
      let sh := dshape (adims a) in
      Ok (mk_farr (adims a)
            (tab sh (fun idx =>
               sum rO radd (map (fun j => get rO sh (avals a) (firstn ax idx ++ j :: skipn (S ax) idx))
                                (seq 0 (S (nth ax idx 0)))))))
  end.

End A.

Arguments mk_farr {R} adims avals.
Arguments adims {R} f.
Arguments avals {R} f.
