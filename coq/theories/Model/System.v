(* Executable model of flodym.MFASystem's checks: _get_mass_balance, _absolute_float_precision,
   check_mass_balance, check_flows.  Scalars are [option Qc]: None stands for NaN (absorbing for
   arithmetic, every comparison false), which is how numpy behaves. *)
From Coq Require Import List Arith Lia Bool ZArith QArith Qcanon.
Import ListNotations.
From Flodym Require Import Base.ND Base.Env Np.Einsum Model.Dims Model.Array Model.Instances.
Local Open Scope nat_scope.

Definition oq := option Qc.
Definition olift2 (f : Qc -> Qc -> Qc) (a b : oq) : oq :=
  match a, b with Some x, Some y => Some (f x y) | _, _ => None end.
Definition oadd := olift2 Qcplus.
Definition osub := olift2 Qcminus.
Definition omul := olift2 Qcmult.
Definition oopp (a : oq) : oq := option_map Qcopp a.
Definition o0 : oq := Some 0%Qc.
Definition o1 : oq := Some 1%Qc.
Definition fO := farr oq.

Definition o_add (x y : fO) : res fO := binop_common oq o0 o1 oadd omul oadd x y.
Definition o_sub (x y : fO) : res fO := binop_common oq o0 o1 oadd omul osub x y.
Definition o_neg (x : fO) : fO := amap oq oopp x.

(* behaviour before / after the three repairs of mfa_system.py; [sys_current] is the code as it stands *)
Record sysvariant := mk_sysvariant {
  nan_fails : bool;            (* a NaN balance is a failure *)
  empty_balance_zero : bool;   (* a process without contributions has the scalar balance 0 *)
  robust_precision : bool      (* default tolerance: no stocks allowed, NaN entries ignored *)
}.
Definition sys_current : sysvariant := mk_sysvariant true true true.
Definition sys_before : sysvariant := mk_sysvariant false false false.

Record flow := mk_flow { f_name : nat; f_from : nat; f_to : nat; f_arr : fO }.
Record stockrec := mk_stockrec { s_proc : option nat; s_inflow : fO; s_outflow : fO; s_stock : fO }.
Record system := mk_system { sy_nproc : nat; sy_flows : list flow; sy_stocks : list stockrec }.
(* processes are 0 .. sy_nproc-1, process 0 is "sysenv" *)

(* contributions per process, in the order the code appends them *)
Definition contributions (s : system) (p : nat) : res (list fO) :=
  let fl := flat_map (fun f => (if Nat.eqb (f_from f) p then [o_neg (f_arr f)] else [])
                               ++ (if Nat.eqb (f_to f) p then [f_arr f] else [])) (sy_flows s) in
  st <- mapM (fun sr =>
        match s_proc sr with
        | None => Ok []
        | Some q =>
            ch <- o_sub (s_inflow sr) (s_outflow sr) ;;
            Ok ((if Nat.eqb q p then [o_neg ch] else []) ++ (if Nat.eqb p 0 then [ch] else []))
        end) (sy_stocks s) ;;
  Ok (fl ++ concat st).

(* Python's sum(parts): 0 + p1 + p2 + ... ; (0 + p1) is p1.__radd__(0) = p1 + full(dims p1, 0).
   [None] = the integer 0 of an empty list (the code then fails on `.values`) *)
Definition py_sum (parts : list fO) : res (option fO) :=
  match parts with
  | [] => Ok None
  | p1 :: r =>
      a0 <- o_add p1 (full oq (adims p1) o0) ;;
      a <- fold_left (fun acc p => a <- acc ;; o_add a p) r (Ok a0) ;;
      Ok (Some a)
  end.

Definition balance_v (vr : sysvariant) (s : system) (p : nat) : res (option fO) :=
  c <- contributions s p ;;
  match c with
  | [] => if empty_balance_zero vr then Ok (Some (mk_farr [] [o0])) else Ok None
  | _ => py_sum c
  end.
Definition balance := balance_v sys_current.

(* numpy.max(|values|): NaN if any entry is NaN.  None of an empty array: numpy raises *)
Definition Qc_absv (a : Qc) : Qc := if Qc_leb 0%Qc a then a else Qcopp a.
Definition np_max_abs (v : list oq) : res oq :=
  match v with
  | [] => Err
  | _ => if existsb (fun x => match x with None => true | _ => false end) v then Ok None
         else Ok (Some (fold_left (fun m x => match x with Some y => Qc_max m (Qc_absv y) | None => m end) v 0%Qc))
  end.

(* Python's builtin max over floats: keeps the first element unless a later one compares greater;
   a NaN in first position therefore wins, a later NaN is ignored.  Err on an empty list. *)
Definition py_gt (a b : oq) : bool :=
  match a, b with Some x, Some y => negb (Qc_leb x y) | _, _ => false end.
Definition py_max (l : list oq) : res oq :=
  match l with [] => Err | a :: r => Ok (fold_left (fun m x => if py_gt x m then x else m) r a) end.

Definition eps64 : Qc := Q2Qc (1 # 4503599627370496).    (* numpy.finfo(float64).eps = 2^-52 *)

(* numpy.nanmax(|values|) over the arrays that are non-empty and not all-NaN; max(..., default=0) *)
Definition nanmax_abs (v : list oq) : option Qc :=
  let fin := flat_map (fun x => match x with Some y => [Qc_absv y] | None => [] end) v in
  match fin with [] => None | a :: r => Some (fold_left Qc_max r a) end.

(* _absolute_float_precision *)
Definition abs_float_precision_v (vr : sysvariant) (s : system) : res oq :=
  if robust_precision vr then
    let ms := flat_map (fun v => match nanmax_abs v with Some m => [m] | None => [] end)
                (map (fun f => avals (f_arr f)) (sy_flows s) ++ map (fun sr => avals (s_stock sr)) (sy_stocks s)) in
    Ok (Some (Qcmult eps64 (fold_left Qc_max ms 0%Qc)))
  else
    mf <- mapM (fun f => np_max_abs (avals (f_arr f))) (sy_flows s) ;;
    ms <- mapM (fun sr => np_max_abs (avals (s_stock sr))) (sy_stocks s) ;;
    a <- py_max mf ;; b <- py_max ms ;;
    m <- py_max [a; b] ;;
    Ok (omul (Some eps64) m).
Definition abs_float_precision := abs_float_precision_v sys_current.

Inductive verdict := VSuccess | VFailed (procs : list nat) | VCrashed.

Definition check_mass_balance_v (vr : sysvariant) (factor : Qc) (s : system) (tol : option Qc) : verdict :=
  let tolr : res oq := match tol with
                       | Some t => Ok (Some t)
                       | None => p <- abs_float_precision_v vr s ;; Ok (omul (Some factor) p)
                       end in
  match tolr with
  | Err => VCrashed
  | Ok t =>
      let per := mapM (fun p => b <- balance_v vr s p ;;
                         match b with
                         | None => Err                       (* process without any contribution *)
                         | Some a => np_max_abs (avals a)
                         end) (seq 0 (sy_nproc s)) in
      match per with
      | Err => VCrashed
      | Ok es =>
          let failed := filter (fun pe => match snd pe with
                                          | None => nan_fails vr
                                          | Some e => match t with Some tv => negb (Qc_leb e tv) | None => nan_fails vr end
                                          end) (combine (seq 0 (sy_nproc s)) es) in
          match failed with [] => VSuccess | _ => VFailed (map fst failed) end
      end
  end.

(* check_flows with raise_error=False: the flows flagged for NaN, then those flagged as negative *)
Inductive fverdict := FResult (nan_flows neg_flows : list nat) | FCrashed.
Definition check_mass_balance := check_mass_balance_v sys_current.

Definition check_flows_v (vr : sysvariant) (factor : Qc) (s : system) (excepted : flow -> bool) : fverdict :=
  let fl := filter (fun f => negb (excepted f)) (sy_flows s) in
  let nanf := filter (fun f => existsb (fun x => match x with None => true | _ => false end) (avals (f_arr f))) fl in
  match abs_float_precision_v vr s with
  | Err => FCrashed
  | Ok p =>
      let t := omul (Some factor) p in
      let negf := filter (fun f => existsb (fun x => match x, t with
                                                     | Some v, Some tv => negb (Qc_leb (Qcopp tv) v)
                                                     | _, _ => false end) (avals (f_arr f))) fl in
      FResult (map f_name nanf) (map f_name negf)
  end.
Definition check_flows := check_flows_v sys_current.
