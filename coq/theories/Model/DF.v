(* Model of the DataFrame <-> FlodymArray conversion at the level of LOGICAL ROWS:
   a table is a list of rows (one item label per array dimension, in the array's dimension order,
   and a value that may be empty/NaN).  to_df produces such rows; the import pipeline
   (_check_missing_dim_columns, _check_if_valid_long_format, _check_data_complete and the placement
   through item->position maps) consumes them.  How pandas recognises a layout (index vs columns,
   names, letters, items, wide form, CSV text) is runtime and exercised by the correspondence. *)
From Coq Require Import List Arith Lia Bool ZArith.
Import ListNotations.
From Flodym Require Import Base.ND Base.Env Np.Einsum Np.Index Model.Dims Model.Array.
Local Open Scope nat_scope.

Section D.
Variable R : Type.
Variable rO : R.
Variable is_zero : R -> bool.

Record row := mk_row { r_labels : list nat; r_value : option R }.

(* ---- export ---- *)
Definition labels_of (ds : dimset) (idx : list nat) : list nat := map2 (fun d i => nth i (ditems d) 0) ds idx.

Definition to_rows (sparse : bool) (a : farr R) : list row :=
  let sh := dshape (adims a) in
  map (fun idx => mk_row (labels_of (adims a) idx) (Some (get rO sh (avals a) idx)))
      (filter (fun idx => negb (sparse && is_zero (get rO sh (avals a) idx))) (all_idx sh)).

(* ---- import ---- *)
Fixpoint labels_eqb (a b : list nat) : bool :=
  match a, b with
  | [], [] => true
  | x :: a', y :: b' => Nat.eqb x y && labels_eqb a' b'
  | _, _ => false
  end.

Fixpoint has_dup (ls : list (list nat)) : bool :=
  match ls with [] => false | a :: r => existsb (labels_eqb a) r || has_dup r end.

Definition known (ds : dimset) (labs : list nat) : bool :=
  Nat.eqb (length labs) (length ds) && forallb (fun p => memb (snd p) (ditems (fst p))) (combine ds labs).

Definition positions (ds : dimset) (labs : list nat) : list nat :=
  map2 (fun d l => match index_of l (ditems d) with Some i => i | None => 0 end) ds labs.

(* numpy astype(int16) of a position *)
Definition wrap_index (width : nat) (len i : nat) : option nat :=
  if Nat.eqb width 0 then (if Nat.ltb i len then Some i else None)     (* width 0 = platform index width: no wrap *)
  else
  (* positions are stored in a signed integer of [width] bits; a wrapped (negative) position counts
     from the end, an out-of-range one is an IndexError *)
  let m := Nat.pow 2 width in
  let half := Nat.pow 2 (width - 1) in
  let r := i mod m in
  if Nat.ltb r half then (if Nat.ltb r len then Some r else None)
  else (let back := m - r in if Nat.leb back len then Some (len - back) else None).

Definition import_rows (dup_check_after_filter : bool) (width : nat)
           (ds : dimset) (omitted_multi unmatched_cols : bool)
           (allow_missing allow_extra : bool) (rows : list row) : res (list R) :=
  if omitted_multi || unmatched_cols then Err
  else
  let dup0 := has_dup (map r_labels rows) in
  if negb dup_check_after_filter && dup0 then Err
  else
  let all_known := forallb (fun r => known ds (r_labels r)) rows in
  if negb allow_extra && negb all_known then Err
  else
  let rows1 := if allow_extra then filter (fun r => known ds (r_labels r)) rows else rows in
  if dup_check_after_filter && has_dup (map r_labels rows1) then Err
  else
  if negb allow_missing && negb (Nat.eqb (length rows1) (size (dshape ds))) then Err
  else if negb allow_missing && existsb (fun r => match r_value r with None => true | _ => false end) rows1 then Err
  else
    let sh := dshape ds in
    (* placement: later rows overwrite earlier ones *)
    fold_left (fun acc r =>
                 v <- acc ;;
                 match mapM (fun p => match wrap_index width (fst p) (snd p) with Some i => Ok i | None => Err end)
                            (combine sh (positions ds (r_labels r))) with
                 | Ok pos => Ok (upd R v (ravel sh pos) (match r_value r with Some x => x | None => rO end))
                 | Err => Err
                 end)
              rows1 (Ok (tab sh (fun _ => rO))).

End D.
