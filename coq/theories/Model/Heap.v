(* Stateful layer: a heap of numpy buffers and FlodymArray objects (dims, shape, buffer id,
   offsets into the buffer — views are pure gathers of offsets), and a step function over the
   alphabet of public operations used by the history properties C13 / C15.
   Variant flags keep the behaviour before a repair available for the Refuted/ lemmas. *)
From Coq Require Import List Arith Lia Bool ZArith QArith Qcanon.
Import ListNotations.
From Flodym Require Import Base.ND Base.Env Np.Einsum Np.Index Model.Dims Model.Array Model.SubArray
  Model.Instances.
From Flodym Require Corr.C01.
Local Open Scope nat_scope.

Record variant := mk_variant {
  getitem_copies : bool;            (* slice reads return an independent array *)
  set_values_checks_first : bool    (* a rejected array does not stay behind *)
}.
Definition current : variant := mk_variant true true.

Record aobj := mk_aobj { a_dims : dimset; a_shape : list nat; a_buf : nat; a_offs : list nat }.
Record heap := mk_heap { bufs : list (list Qc); arrs : list aobj }.
Definition empty_heap : heap := mk_heap [] [].

Definition buf_of (h : heap) (b : nat) : list Qc := nth b (bufs h) [].
Definition vals_of (h : heap) (a : aobj) : list Qc := map (fun o => nth o (buf_of h (a_buf a)) QO) (a_offs a).
Definition as_farr (h : heap) (a : aobj) : fQ := mk_farr (a_dims a) (vals_of h a).

(* the validating constructor on a fresh buffer *)
Definition obj_ok (ds : dimset) (sh : list nat) (n : nat) : bool :=
  shape_eqb sh (dshape ds) && nodupb (letters ds) && Nat.eqb n (size sh).

Definition alloc (h : heap) (ds : dimset) (v : list Qc) : heap :=
  mk_heap (bufs h ++ [v]) (arrs h ++ [mk_aobj ds (dshape ds) (length (bufs h)) (seq 0 (length v))]).

Inductive outcome := Done | Raised.

Definition add_result (h : heap) (r : res fQ) : heap * outcome :=
  match r with
  | Ok a => if obj_ok (adims a) (dshape (adims a)) (length (avals a)) then (alloc h (adims a) (avals a), Done)
            else (h, Raised)
  | Err => (h, Raised)
  end.

(* a view: same buffer, gathered offsets.  A rank-0 result of numpy indexing / einsum is a numpy
   scalar, i.e. a fresh value, never a view *)
Definition add_view (h : heap) (ds : dimset) (b : nat) (offs : nd nat) : heap * outcome :=
  match shp offs with
  | [] => add_result h (construct Qc ds (mk_nd [] (map (fun o => nth o (buf_of h b) QO) (dat offs))))
  | _ =>
  if obj_ok ds (shp offs) (length (dat offs)) then
    (mk_heap (bufs h) (arrs h ++ [mk_aobj ds (shp offs) b (dat offs)]), Done)
  else (h, Raised)
  end.

Fixpoint upd_list {A} (l : list A) (k : nat) (v : A) : list A :=
  match l, k with [], _ => [] | _ :: t, 0 => v :: t | a :: t, S j => a :: upd_list t j v end.

(* write values back through the offsets (in place, visible to every view of the buffer) *)
Definition write_back (h : heap) (a : aobj) (v : list Qc) : heap :=
  let b := fold_left (fun acc p => upd_list acc (fst p) (snd p)) (combine (a_offs a) v) (buf_of h (a_buf a)) in
  mk_heap (upd_list (bufs h) (a_buf a) b) (arrs h).

(* rebind the object's values attribute to a fresh buffer *)
Definition rebind (h : heap) (i : nat) (a : aobj) (v : list Qc) : heap :=
  mk_heap (bufs h ++ [v])
          (upd_list (arrs h) i (mk_aobj (a_dims a) (a_shape a) (length (bufs h)) (seq 0 (length v)))).

Inductive rhs := HArr (j : nat) | HNum (c : Qc) | HNd (v : nd Qc).
Inductive hop :=
| HNew (ds : dimset) (v : nd Qc)
| HCopy (i : nat)
| HFullLike (i : nat) (c : Qc)
| HBin (b : C01.bop) (i : nat) (y : rhs)
| HUn (u : C01.uop) (i : nat) (inplace : bool)   (* -a / abs(a) / a.sign(); a.abs(inplace=True), a.sign(inplace=True) *)
| HSumTo (i : nat) (xs : list dimarg)
| HSumOver (i : nat) (xs : list dimarg)
| HCast (i : nat) (target : dimset)
| HShares (i : nat) (ls : list letter)
| HCumsum (i : nat) (l : letter) (inplace : bool)
| HGet (i : nat) (k : keyform)
| HSet (i : nat) (k : keyform) (r : rhs)
| HSetValues (i : nat) (v : nd Qc)
| HSetValuesArr (i j : nat)              (* a.set_values(b) with b a FlodymArray: always refused *)
| HRawFill (i : nat) (c : Qc).           (* a.values[...] = c : the write-through probe *)

Definition is_basic (s : sel) : bool := match s with SArr _ _ => false | _ => true end.

Definition step (vr : variant) (h : heap) (o : hop) : heap * outcome :=
  let with_obj i (f : aobj -> heap * outcome) :=
      match nth_error (arrs h) i with Some a => f a | None => (h, Raised) end in
  match o with
  | HNew ds v => add_result h (construct Qc ds v)
  | HCopy i => with_obj i (fun a => add_result h (Ok (as_farr h a)))
  | HFullLike i c => with_obj i (fun a => add_result h (Ok (full Qc (a_dims a) c)))
  | HBin b i y => with_obj i (fun a =>
      match y with
      | HArr j => match nth_error (arrs h) j with
                  | Some a2 => add_result h (C01.run_bin b (as_farr h a) (as_farr h a2))
                  | None => (h, Raised) end
      | HNum c => add_result h (C01.run (as_farr h a) (C01.OBin b (C01.ONum c)))
      | HNd _ => (h, Raised)
      end)
  | HUn u i inplace => with_obj i (fun a =>
      match C01.run (as_farr h a) (C01.OUn u) with
      | Ok r => if inplace then (rebind h i a (avals r), Done) else add_result h (Ok r)
      | Err => (h, Raised)
      end)
  | HSumTo i xs => with_obj i (fun a =>
      let fa := as_farr h a in
      match tuple_to_letters Qc fa xs with
      | Ok rs =>
          if Nat.eqb (length rs) (length (a_dims a))
          then (* nothing is summed: numpy's einsum returns a view (possibly with permuted axes) *)
               match get_subset (a_dims a) (map KLetter rs), sum_values_to nat 0 1 Nat.add Nat.mul
                       (mk_farr (a_dims a) (a_offs a)) rs with
               | Ok ds, Ok offs => add_view h ds (a_buf a) offs
               | _, _ => (h, Raised)
               end
          else add_result h (sum_to Qc QO QI Qcplus Qcmult fa xs)
      | Err => (h, Raised)
      end)
  | HSumOver i xs => with_obj i (fun a =>
      let fa := as_farr h a in
      match tuple_to_letters Qc fa xs with
      | Ok [] => match sum_over Qc QO QI Qcplus Qcmult fa xs with
                 | Ok _ => add_view h (a_dims a) (a_buf a) (mk_nd (a_shape a) (a_offs a))
                 | Err => (h, Raised) end
      | _ => add_result h (sum_over Qc QO QI Qcplus Qcmult fa xs)
      end)
  | HCast i t => with_obj i (fun a => add_result h (cast_to Qc QO QI Qcplus Qcmult (as_farr h a) t))
  | HShares i ls => with_obj i (fun a => add_result h (get_shares_over Qc QO QI Qcplus Qcmult Qc_inv (as_farr h a) ls))
  | HCumsum i l inplace => with_obj i (fun a =>
      match cumsum Qc QO Qcplus (as_farr h a) l with
      | Ok r => if inplace then (rebind h i a (avals r), Done) else add_result h (Ok r)
      | Err => (h, Raised)
      end)
  | HGet i k => with_obj i (fun a =>
      if getitem_copies vr then add_result h (getitem Qc QO (as_farr h a) k)
      else match mk_handler_of (a_dims a) k with
           | Ok hd =>
               if h_invalid hd then (h, Raised)
               else if forallb is_basic (h_sels hd)
               then match index nat 0 (mk_nd (a_shape a) (a_offs a)) (h_sels hd) with
                    | Ok offs => add_view h (h_dims_out hd) (a_buf a) offs
                    | Err => (h, Raised) end
               else add_result h (getitem Qc QO (as_farr h a) k)
           | Err => (h, Raised)
           end)
  | HSet i k r => with_obj i (fun a =>
      let pr := match r with
                | HArr j => match nth_error (arrs h) j with Some a2 => Ok (RArr Qc (as_farr h a2)) | None => Err end
                | HNum c => Ok (RNum Qc c)
                | HNd v => Ok (RNd Qc v)
                end in
      match pr with
      | Err => (h, Raised)
      | Ok rf =>
          match setitem Qc QO QI Qcplus Qcmult (as_farr h a) k rf, k, rf with
          | Ok a', KEllipsis, RNd _ _ => (rebind h i a (avals a'), Done)
          | Ok a', _, _ => (write_back h a (avals a'), Done)
          | Err, KEllipsis, RNd _ v =>
              if set_values_checks_first vr then (h, Raised)
              else (* the rejected ndarray stays in the object *)
                   (mk_heap (bufs h ++ [dat v]) (upd_list (arrs h) i (mk_aobj (a_dims a) (shp v) (length (bufs h)) (seq 0 (length (dat v))))), Raised)
          | Err, _, _ => (h, Raised)
          end
      end)
  | HSetValues i v => with_obj i (fun a =>
      match construct Qc (a_dims a) v with
      | Ok a' => (rebind h i a (avals a'), Done)
      | Err => if set_values_checks_first vr then (h, Raised)
               else (mk_heap (bufs h ++ [dat v]) (upd_list (arrs h) i (mk_aobj (a_dims a) (shp v) (length (bufs h)) (seq 0 (length (dat v))))), Raised)
      end)
  | HSetValuesArr i j => (h, Raised)
  | HRawFill i c => with_obj i (fun a => (write_back h a (map (fun _ => c) (a_offs a)), Done))
  end.

Definition run (vr : variant) (ops : list hop) : heap := fold_left (fun h o => fst (step vr h o)) ops empty_heap.

(* the invariant of C13 *)
Definition obj_inv (a : aobj) : Prop :=
  a_shape a = dshape (a_dims a) /\ NoDup (letters (a_dims a)) /\ length (a_offs a) = size (a_shape a).
Definition Inv (h : heap) : Prop := Forall obj_inv (arrs h).

(* sharing relation observed through numpy.shares_memory *)
Definition shares (a b : aobj) : bool :=
  Nat.eqb (a_buf a) (a_buf b) && existsb (fun o => memb o (a_offs b)) (a_offs a).
