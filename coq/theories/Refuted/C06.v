(* History of a finding.  Before the repair, SubArrayHandler converted index lists to an open mesh
   only when there was more than one list.  One single-item selector plus one subset selector,
   separated by a kept dimension, then gives numpy the index (i, :, [..]); numpy moves the
   advanced axes to the front, and when the kept dimension and the subset have equal length the
   result is silently transposed.  Witness: dims (a,b,c) of lengths (2,2,3), key {a: a1, c: (c0,c1)}. *)
From Coq Require Import List ZArith QArith Qcanon Bool.
Import ListNotations.
From Flodym Require Import Base.ND Base.Env Np.Einsum Np.Index Model.Dims Model.Array Model.SubArray
  Model.Instances.
Local Open Scope nat_scope.

Definition da := mk_dim 97 0 [0; 1].
Definition db := mk_dim 98 1 [2; 3].
Definition dc := mk_dim 99 2 [4; 5; 6].
Definition dC := mk_dim 67 3 [4; 5].            (* subset (c0, c1) of c under a fresh letter *)
Definition arr : fQ := mk_farr [da; db; dc] (map (fun z => q z 1) [0; 1; 2; 3; 4; 5; 6; 7; 8; 9; 10; 11]%Z).
Definition key := KDict [(KLetter 97, ISingle 1); (KLetter 99, IDim dC)].

(* expected by label: result over (b, C) with entry (b_i, c_j) = arr (a1, b_i, c_j) = 6 + 3 i + j *)
Definition expected : list Qc := map (fun z => q z 1) [6; 7; 9; 10]%Z.

Definition vals_of (r : res fQ) : list Qc := match r with Ok a => avals a | Err => [] end.

Lemma getitem_spec_refuted_before_fix :
  list_eqb Qc_eqb (vals_of (getitem_v Qc QO false arr key)) expected = false.
Proof. vm_compute. reflexivity. Qed.

Lemma getitem_witness_after_fix :
  list_eqb Qc_eqb (vals_of (getitem_v Qc QO true arr key)) expected = true.
Proof. vm_compute. reflexivity. Qed.
