(* Correspondence entry point for C11 / C12 (and the DataFrame parts of C04 / C19) *)
From Coq Require Import List ZArith QArith Qcanon Bool.
Import ListNotations.
From Flodym Require Export Base.ND Base.Env Np.Einsum Np.Index Model.Dims Model.Array Model.Instances Model.DF Model.Detect.
Local Open Scope nat_scope.

Definition rowQ := row Qc.
Definition current_dup_after_filter : bool := true.
Definition current_width : nat := 0.

Definition importQ := import_rows Qc QO current_dup_after_filter current_width.
Definition to_rowsQ := to_rows Qc QO (fun x => Qc_eqb x QO).

Definition row_agree (m : rowQ) (o : list nat * option Qc) : bool :=
  list_eqb Nat.eqb (r_labels Qc m) (fst o)
  && match r_value Qc m, snd o with Some a, Some b => Qc_eqb a b | _, None => true | None, Some _ => false end.

Fixpoint rows_agree (m : list rowQ) (o : list (list nat * option Qc)) : bool :=
  match m, o with
  | [], [] => true
  | a :: m', b :: o' => row_agree a b && rows_agree m' o'
  | _, _ => false
  end.

Inductive case :=
| CImport (ds : dimset) (omitted_multi unmatched allow_missing allow_extra : bool) (rows : list rowQ)
          (exp : res (list (option Qc)))
| CExport (a : fQ) (sparse : bool) (exp : list (list nat * option Qc))
| CDetect (ds : list tdim) (allow_missing allow_extra : bool) (t : table) (exp : res (list (option Qc)))
| CBoth (a b : case).

(* the layout recognition as it stands: the repairs are in, years 1700 .. 2300 *)
Definition current_detect_fixed : bool := true.
Definition convertQ := convert current_detect_fixed 1700%Z 2300%Z.

Fixpoint check (c : case) : bool :=
  match c with
  | CImport ds om um am ae rows exp => res_agree vals_agree (importQ ds om um am ae rows) exp
  | CExport a sp exp => rows_agree (to_rowsQ sp a) exp
  | CDetect ds am ae t exp =>
      match convertQ ds am ae t, exp with
      | OUnmodelled, _ => true
      | OValues v, Ok w => vals_agree v w
      | ORefused, Err => true
      | _, _ => false
      end
  | CBoth a b => check a && check b
  end.
