(* Correspondence entry point for C20: Sankey links and plotted lines *)
From Coq Require Import List Arith Bool ZArith QArith Qcanon.
Import ListNotations.
From Flodym Require Export Base.ND Base.Env Np.Einsum Np.Index Model.Dims Model.Array Model.SubArray Model.Instances Model.Export.
Local Open Scope nat_scope.

Definition link_eqb (a b : slink) : bool :=
  Nat.eqb (sl_source a) (sl_source b) && Nat.eqb (sl_target a) (sl_target b) && Nat.eqb (sl_label a) (sl_label b)
  && Qc_eqb (sl_value a) (sl_value b).

Definition opt_eqb (a b : option nat) : bool :=
  match a, b with Some x, Some y => Nat.eqb x y | None, None => true | _, _ => false end.
Definition line_eqb (a b : pline) : bool :=
  opt_eqb (pl_sub a) (pl_sub b) && opt_eqb (pl_line a) (pl_line b)
  && list_eqb Qc_eqb (pl_x a) (pl_x b) && list_eqb Qc_eqb (pl_y a) (pl_y b).

Inductive case :=
| CSankey (procs : list (nat * nat)) (exclp exclf : list nat) (slice : list (letter * nat))
          (dims : dimset) (flows : list sflow) (nodes : list nat) (exp : res (list slink))
| CPlot (a xa : fQ) (sub line : option letter) (exp : res (list pline)).

Definition items_of_dims (ds : dimset) (l : letter) : list nat :=
  match find_letter ds l with Some d => ditems d | None => [] end.

Definition check (c : case) : bool :=
  match c with
  | CSankey procs ep ef sl ds fl nodes exp =>
      res_agree (list_eqb link_eqb) (sankey_links procs ep ef sl (items_of_dims ds) fl) exp
      && match exp with Ok _ => list_eqb Nat.eqb (map fst (shown_processes procs ep)) nodes | Err => true end
  | CPlot a xa sub line exp => res_agree (list_eqb line_eqb) (plot_lines a xa sub line) exp
  end.
