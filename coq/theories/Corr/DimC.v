(* Correspondence entry point for C14 *)
From Coq Require Import List ZArith Bool.
Import ListNotations.
From Flodym Require Export Base.ND Base.Env Model.Dims Model.SubArray Model.Instances Model.DimHeap.
Local Open Scope nat_scope.

(* lookups on one object: for each key the observed (index, size), or None if the lookup raised *)
Record dobs := mk_dobs {
  do_ok : bool;
  do_sets : list dimset;                          (* every live object's dimension list *)
  do_share : list (nat * nat);                    (* objects whose dim_list is the same Python list *)
  do_recv : nat;                                  (* object the lookups were made on *)
  do_lookups : list (key * option (nat * nat))
}.

Definition pair_eqb (p r : nat * nat) : bool := Nat.eqb (fst p) (fst r) && Nat.eqb (snd p) (snd r).

Definition share_pairs (h : dheap) : list (nat * nat) :=
  let n := length (objs h) in
  filter (fun p => match nth_error (objs h) (fst p), nth_error (objs h) (snd p) with
                   | Some a, Some b => Nat.eqb a b | _, _ => false end)
         (flat_map (fun i => map (fun j => (i, j)) (seq (S i) (n - S i))) (seq 0 n)).

Definition lookup_model (ds : dimset) (k : key) : option (nat * nat) :=
  match ds_index ds k, find_key ds k with Some i, Some d => Some (i, dlen d) | _, _ => None end.

Definition opt_pair_eqb (a b : option (nat * nat)) : bool :=
  match a, b with Some p, Some r => pair_eqb p r | None, None => true | _, _ => false end.

Definition dobs_agree (h : dheap) (oc : doutcome) (o : dobs) : bool :=
  (match oc with DDone => do_ok o | DRaised => negb (do_ok o) end)
  && list_eqb dims_eqb (map (fun i => match cell_of h i with Some ds => ds | None => [] end) (seq 0 (length (objs h)))) (do_sets o)
  && list_eqb pair_eqb (share_pairs h) (do_share o)
  && match cell_of h (do_recv o) with
     | Some ds => forallb (fun kl => opt_pair_eqb (lookup_model ds (fst kl)) (snd kl)) (do_lookups o)
     | None => match do_lookups o with [] => true | _ => false end
     end.

Fixpoint drun_check (gsc : bool) (h : dheap) (ss : list (dop * dobs)) : bool :=
  match ss with
  | [] => true
  | (o, ob) :: r => let '(h', oc) := dstep gsc h o in dobs_agree h' oc ob && drun_check gsc h' r
  end.

Definition current_gsc : bool := true.
Definition case := list (dop * dobs).
Definition check (c : case) : bool := drun_check current_gsc empty_dheap c.
