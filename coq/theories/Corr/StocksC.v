(* Correspondence entry point for the stock properties C03 / C09 / C10 / C16 (and the compute part
   of C17): the implementation's arrays are split into one column per non-time label combination. *)
From Coq Require Import List ZArith QArith Qcanon Bool.
Import ListNotations.
From Flodym Require Export Base.ND Base.Env Np.Einsum Model.Dims Model.Instances Model.Stocks.
Local Open Scope nat_scope.

Inductive skind := KSimple | KIdsm | KSdsm.

Definition olist := list (option Qc).
Record col := mk_col {
  c_driver : list Qc;            (* inflow (simple, idsm) or stock (sdsm) *)
  c_out_in : list Qc;            (* prescribed outflow (simple only) *)
  c_sf : list (list Qc);         (* survival table of this label combination (DSMs) *)
  c_stock : olist; c_inflow : olist; c_outflow : olist;
  c_sbc : list olist; c_obc : list olist;
  c_balance : olist }.

Record case := mk_case {
  k_kind : skind; k_items : list Qc; k_bounds : olist; k_dt : olist; k_cols : list col }.

Definition current_uses_dt : bool := true.

Definition bounds_Q := bounds Qc QO QI Qcplus Qcminus Qcdiv.
Definition dts_Q := interval_lengths Qc QO QI Qcplus Qcminus Qcdiv.

Fixpoint all2o (m : list (list Qc)) (o : list olist) : bool :=
  match m, o with
  | [], [] => true
  | a :: m', b :: o' => vals_agree a b && all2o m' o'
  | _, _ => false
  end.

Definition check_col (ud : bool) (kd : skind) (n : nat) (dt : list Qc) (c : col) : bool :=
  match kd with
  | KSimple =>
      vals_agree (simple_stock Qc QO Qcplus Qcmult Qcminus dt (c_driver c) (c_out_in c)) (c_stock c)
      && vals_agree (stock_balance Qc QO Qcmult Qcminus ud dt
                       (simple_stock Qc QO Qcplus Qcmult Qcminus dt (c_driver c) (c_out_in c)) (c_driver c) (c_out_in c))
                    (c_balance c)
  | _ =>
      let r := match kd with
               | KIdsm => idsm Qc QO QI Qcplus Qcmult Qcminus Qcdiv ud n dt (c_driver c) (c_sf c)
               | _ => sdsm Qc QO QI Qcplus Qcmult Qcminus Qcdiv ud n dt (c_driver c) (c_sf c)
               end in
      vals_agree (o_stock Qc r) (c_stock c) && vals_agree (o_inflow Qc r) (c_inflow c)
      && vals_agree (o_outflow Qc r) (c_outflow c)
      && all2o (o_sbc Qc r) (c_sbc c) && all2o (o_obc Qc r) (c_obc c)
      && vals_agree (stock_balance Qc QO Qcmult Qcminus ud dt (o_stock Qc r) (o_inflow Qc r) (o_outflow Qc r)) (c_balance c)
  end.

Definition check_v (ud : bool) (c : case) : bool :=
  let dt := dts_Q (k_items c) in
  vals_agree (bounds_Q (k_items c)) (k_bounds c) && vals_agree dt (k_dt c)
  && forallb (check_col ud (k_kind c) (length (k_items c)) dt) (k_cols c).

Definition check (c : case) : bool := check_v current_uses_dt c.
