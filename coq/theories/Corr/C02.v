(* Correspondence entry point for C02 *)
From Coq Require Import List ZArith QArith Qcanon Bool.
Import ListNotations.
From Flodym Require Export Base.ND Base.Env Np.Einsum Model.Dims Model.Array Model.Instances Model.System.
From Flodym Require Gen.SourceFacts.
Local Open Scope nat_scope.

Definition mb_factor : Qc := Q2Qc SourceFacts.mass_balance_tolerance_factor_src.
Definition cf_factor : Qc := Q2Qc SourceFacts.check_flows_tolerance_factor_src.

Definition verdict_eqb (a b : verdict) : bool :=
  match a, b with
  | VSuccess, VSuccess => true
  | VFailed l, VFailed l' => list_eqb Nat.eqb l l'
  | VCrashed, VCrashed => true
  | _, _ => false
  end.
Definition fverdict_eqb (a b : fverdict) : bool :=
  match a, b with
  | FResult n g, FResult n' g' => list_eqb Nat.eqb n n' && list_eqb Nat.eqb g g'
  | FCrashed, FCrashed => true
  | _, _ => false
  end.

(* observed balance of a process: dims and values (None entries = NaN are compared as NaN here) *)
Fixpoint ovals_eqb (m o : list oq) : bool :=
  match m, o with
  | [], [] => true
  | Some a :: m', Some b :: o' => Qc_eqb a b && ovals_eqb m' o'
  | None :: m', None :: o' => ovals_eqb m' o'
  | _, _ => false
  end.
Definition obal_agree (m : res (option fO)) (o : option (dimset * list oq)) : bool :=
  match m, o with
  | Ok (Some a), Some (ds, vs) => dims_eqb (adims a) ds && ovals_eqb (avals a) vs
  | Ok None, None => true
  | Err, None => true
  | _, _ => false
  end.

Record case := mk_case {
  c_sys : system;
  c_excepted : list nat;                     (* flow names excepted in check_flows *)
  c_tol : option Qc;                         (* explicit tolerance, or None for the default *)
  c_mb : verdict;                            (* observed outcome of check_mass_balance *)
  c_cf : fverdict;                           (* observed outcome of check_flows(raise_error=False) *)
  c_bal : option (list (option (dimset * list oq)))   (* observed per-process balances, if available *)
}.

Definition check_v (vr : sysvariant) (c : case) : bool :=
  verdict_eqb (check_mass_balance_v vr mb_factor (c_sys c) (c_tol c)) (c_mb c)
  && fverdict_eqb (check_flows_v vr cf_factor (c_sys c) (fun f => memb (f_name f) (c_excepted c))) (c_cf c)
  && match c_bal c with
     | None => true
     | Some bs => Nat.eqb (length bs) (sy_nproc (c_sys c))
                  && forallb (fun po => obal_agree (balance_v vr (c_sys c) (fst po)) (snd po)) (combine (seq 0 (sy_nproc (c_sys c))) bs)
     end.
Definition check := check_v sys_current.
