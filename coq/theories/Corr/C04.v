(* Correspondence entry point for C04: families of storage-order variants of one operation; every
   variant is evaluated on the model with the observed result of that variant. *)
From Coq Require Import List ZArith QArith Qcanon Bool.
Import ListNotations.
From Flodym Require Corr.C01 Corr.C07 Corr.Indexing.
From Flodym Require Export Base.ND Base.Env Np.Einsum Np.Index Model.Dims Model.Array Model.SubArray Model.Instances.

Inductive sub :=
| S01 (c : C01.case)
| S07 (c : C07.case)
| SIx (c : Indexing.case).

Definition check_sub (s : sub) : bool :=
  match s with S01 c => C01.check c | S07 c => C07.check c | SIx c => Indexing.check c end.

Definition case := list sub.
Definition check (c : case) : bool := forallb check_sub c.
