(* Correspondence entry point for the history properties C13 / C15: after every step the outcome,
   a deep snapshot of every live array and the memory-sharing relation are compared. *)
From Coq Require Import List ZArith QArith Qcanon Bool.
Import ListNotations.
From Flodym Require Export Base.ND Base.Env Np.Einsum Np.Index Model.Dims Model.Array Model.SubArray
  Model.Instances Model.Heap.
From Flodym Require Export Corr.C01.
Local Open Scope nat_scope.

Record snap := mk_snap { s_dims : dimset; s_shape : list nat; s_vals : list (option Qc) }.
Record obs := mk_obs { ob_ok : bool; ob_arrs : list snap; ob_share : list (nat * nat); ob_dshare : list (nat * nat) }.

Definition snap_agree (h : heap) (a : aobj) (s : snap) : bool :=
  dims_eqb (a_dims a) (s_dims s) && shape_eqb (a_shape a) (s_shape s) && vals_agree (vals_of h a) (s_vals s).

Fixpoint all2 {A B} (f : A -> B -> bool) (l1 : list A) (l2 : list B) : bool :=
  match l1, l2 with
  | [], [] => true
  | a :: l1', b :: l2' => f a b && all2 f l1' l2'
  | _, _ => false
  end.

Definition share_pairs (h : heap) : list (nat * nat) :=
  let n := length (arrs h) in
  filter (fun p => match nth_error (arrs h) (fst p), nth_error (arrs h) (snd p) with
                   | Some a, Some b => shares a b | _, _ => false end)
         (flat_map (fun i => map (fun j => (i, j)) (seq (S i) (n - S i))) (seq 0 n)).

Definition pair_eqb (p r : nat * nat) : bool := Nat.eqb (fst p) (fst r) && Nat.eqb (snd p) (snd r).

Definition obs_agree (h : heap) (oc : outcome) (o : obs) : bool :=
  (match oc with Done => ob_ok o | Raised => negb (ob_ok o) end)
  && all2 (snap_agree h) (arrs h) (ob_arrs o)
  && list_eqb pair_eqb (share_pairs h) (ob_share o)
  (* every array owns its dimension list (copy_dims validator): no two arrays share one *)
  && match ob_dshare o with [] => true | _ => false end.

Fixpoint run_check (vr : variant) (h : heap) (ss : list (hop * obs)) : bool :=
  match ss with
  | [] => true
  | (o, ob) :: r => let '(h', oc) := step vr h o in obs_agree h' oc ob && run_check vr h' r
  end.

Definition case := list (hop * obs).
Definition check (c : case) : bool := run_check current empty_heap c.
