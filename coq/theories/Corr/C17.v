(* Correspondence entry point for C17: histories of {set driver, set_prms, compute, read survival
   table} on one dynamic stock model object (one label column), with the lifetime model's lazily
   filled cache. *)
From Coq Require Import List ZArith QArith Qcanon Qround Bool.
Import ListNotations.
From Flodym Require Export Base.ND Base.Env Np.Einsum Model.Dims Model.Instances Model.Stocks Model.Lifetime.
From Flodym Require Export Corr.C08.
Local Open Scope nat_scope.

Inductive sop :=
| SDriver (d : list Qc)
| SPrms (p : list Qc)
| SCompute (stock inflow outflow : list (option Qc))
| SReadSf (sf : list (list (option Qc))).

Record case := mk_case {
  k_sdsm : bool; k_dist : dist; k_items : list Qc; k_npts : nat; k_at : inflow_at;
  k_prm0 : list Qc; k_drv0 : list Qc; k_ops : list sop }.

Definition current_clears : bool := true.

Definition table_of (c : case) (p : list Qc) : list (list Qc) :=
  match sf_model (k_dist c) (k_items c) (k_npts c) (k_at c) p with Some t => t | None => [] end.

Definition lmQ := lm (list Qc) (list (list Qc)).

Fixpoint run_ops (clears : bool) (c : case) (m : lmQ) (drv : list Qc) (ops : list sop) : bool :=
  match ops with
  | [] => true
  | SDriver d :: r => run_ops clears c m d r
  | SPrms p :: r => run_ops clears c (lm_set_prms _ _ clears m p) drv r
  | SReadSf exp :: r =>
      let '(m', t) := lm_sf _ _ (table_of c) m in all2o t exp && run_ops clears c m' drv r
  | SCompute es ei eo :: r =>
      let '(m', t) := lm_sf _ _ (table_of c) m in
      let n := length (k_items c) in
      let dt := interval_lengths Qc QO QI Qcplus Qcminus Qcdiv (k_items c) in
      let res := if k_sdsm c then sdsm Qc QO QI Qcplus Qcmult Qcminus Qcdiv true n dt drv t
                 else idsm Qc QO QI Qcplus Qcmult Qcminus Qcdiv true n dt drv t in
      vals_agree (o_stock Qc res) es && vals_agree (o_inflow Qc res) ei && vals_agree (o_outflow Qc res) eo
      && run_ops clears c m' drv r
  end.

Definition check (c : case) : bool :=
  run_ops current_clears c (lm_new _ _ (k_prm0 c)) (k_drv0 c) (k_ops c).
