(* Correspondence entry point for C08: survival and outflow-probability tables of a lifetime model
   with an exactly representable probe survival function (and FixedLifetime), one label column at a time. *)
From Coq Require Import List ZArith QArith Qcanon Qround Bool.
Import ListNotations.
From Flodym Require Export Base.ND Base.Env Np.Einsum Model.Dims Model.Instances Model.Stocks Model.Lifetime.
Local Open Scope nat_scope.

(* 2^-floor(age / mean) *)
Definition probe_S (age mean : Qc) : Qc :=
  let fl := Qfloor (this (Qcdiv age mean)) in
  match fl with
  | Z0 => 1%Qc
  | Zpos p => Qcpower (Q2Qc (1 # 2)) (Pos.to_nat p)
  | Zneg p => Qcpower (Q2Qc (2 # 1)) (Pos.to_nat p)
  end.
(* FixedLifetime: (t < mean).astype(int) *)
Definition fixed_S (age mean : Qc) : Qc := if Qc_leb mean age then 0%Qc else 1%Qc.

Inductive dist := DProbe | DFixed.
Definition S_of (d : dist) := match d with DProbe => probe_S | DFixed => fixed_S end.

Definition quad_Qc (n_pts : nat) (a : inflow_at) : option (list (Qc * Qc)) :=
  option_map (map (fun p => (Q2Qc (fst p), Q2Qc (snd p)))) (quad_points_Q n_pts a).

Definition sf_model (d : dist) (items : list Qc) (n_pts : nat) (a : inflow_at) (prm : list Qc) : option (list (list Qc)) :=
  match quad_Qc n_pts a with
  | None => None
  | Some qd =>
      Some (sf_table Qc QO QI Qcplus Qcmult Qcminus Qc (S_of d) (length items)
              (bounds Qc QO QI Qcplus Qcminus Qcdiv items) qd (fun c => nth c prm QO))
  end.

Fixpoint all2o (m : list (list Qc)) (o : list (list (option Qc))) : bool :=
  match m, o with
  | [], [] => true
  | a :: m', b :: o' => vals_agree a b && all2o m' o'
  | _, _ => false
  end.

Record col := mk_col { c_prm : list Qc; c_sf : list (list (option Qc)); c_pdf : list (list (option Qc)) }.
Record case := mk_case {
  k_dist : dist; k_items : list Qc; k_npts : nat; k_at : inflow_at;
  k_ok : bool;                         (* did the implementation produce tables (false: it raised) *)
  k_cols : list col }.

Definition check (c : case) : bool :=
  match quad_Qc (k_npts c) (k_at c) with
  | None => negb (k_ok c)
  | Some _ =>
      k_ok c &&
      forallb (fun cl =>
        match sf_model (k_dist c) (k_items c) (k_npts c) (k_at c) (c_prm cl) with
        | Some sf => all2o sf (c_sf cl)
                     && all2o (pdf_of Qc QO QI Qcminus (length (k_items c)) sf) (c_pdf cl)
        | None => false
        end) (k_cols c)
  end.
