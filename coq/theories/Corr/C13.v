(* Correspondence entry point for C13: operation histories on the heap model, plus the constructor
   validators of stocks and lifetime models. *)
From Coq Require Import List Arith Bool.
Import ListNotations.
From Flodym Require Export Corr.HeapC.
Local Open Scope nat_scope.

(* [strict_dims = false] / [lifetime_checks_time = false]: the code before the repairs (letters only;
   no time-position check in LifetimeModel) *)
Definition dims_match (strict : bool) (a b : dimset) : bool :=
  if strict then dims_eqb a b else list_eqb Nat.eqb (letters a) (letters b).
Definition time_first (ds : dimset) (t : letter) : bool :=
  match letters ds with l0 :: _ => Nat.eqb l0 t | [] => false end.

Definition stock_ctor_ok (strict : bool) (dims : dimset) (arrs : list dimset) (lifetime : option dimset) (t : letter) : bool :=
  forallb (dims_match strict dims) arrs && time_first dims t
  && match lifetime with Some ld => dims_match strict dims ld | None => true end.
Definition lifetime_ctor_ok (checks_time : bool) (dims : dimset) (t : letter) : bool :=
  if checks_time then time_first dims t else (match dims with [] => false | _ => true end).

Definition current_strict_dims : bool := true.
Definition current_lifetime_checks_time : bool := true.

Inductive case :=
| CHist (h : HeapC.case)
| CStockCtor (dims : dimset) (arrs : list dimset) (lifetime : option dimset) (t : letter) (accepted : bool)
| CLifetimeCtor (dims : dimset) (t : letter) (accepted : bool).

Definition check (c : case) : bool :=
  match c with
  | CHist h => HeapC.check h
  | CStockCtor d a l t acc => Bool.eqb (stock_ctor_ok current_strict_dims d a l t) acc
  | CLifetimeCtor d t acc => Bool.eqb (lifetime_ctor_ok current_lifetime_checks_time d t) acc
  end.
