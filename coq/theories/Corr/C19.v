(* Correspondence entry point for C19: file-name sanitising and the set of CSV files written *)
From Coq Require Import List Arith Bool.
Import ListNotations.
From Flodym Require Export Base.ND Model.Dims Model.Instances Model.Export.
Local Open Scope nat_scope.

Definition lln_eqb (a b : list (list nat)) : bool := list_eqb (list_eqb Nat.eqb) a b.

Inductive case :=
| CName (s : list nat) (exp : list nat)
| CFiles (flow_names stock_names : list (list nat)) (with_in_out : bool) (exp_sorted : list (list nat)).

(* the directory listing is compared as a sorted set of names (an overwritten file appears once) *)
Fixpoint lex_leb (a b : list nat) : bool :=
  match a, b with
  | [], _ => true
  | _ :: _, [] => false
  | x :: a', y :: b' => if Nat.ltb x y then true else if Nat.ltb y x then false else lex_leb a' b'
  end.
Fixpoint insert_sorted (x : list nat) (l : list (list nat)) : list (list nat) :=
  match l with
  | [] => [x]
  | y :: r => if list_eqb Nat.eqb x y then l else if lex_leb x y then x :: l else y :: insert_sorted x r
  end.
Definition sort_set (l : list (list nat)) : list (list nat) := fold_right insert_sorted [] l.

Definition check (c : case) : bool :=
  match c with
  | CName s e => list_eqb Nat.eqb (sanitize s) e
  | CFiles fn sn wio e => lln_eqb (sort_set (flow_files fn ++ stock_files wio sn)) e
  end.
