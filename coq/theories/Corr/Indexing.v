(* Correspondence entry point for C05 / C06 / C04(slices): label indexing, assignment histories,
   items_where. *)
From Coq Require Import List ZArith QArith Qcanon Bool.
Import ListNotations.
From Flodym Require Export Base.ND Base.Env Np.Einsum Np.Index Model.Dims Model.Array Model.SubArray
  Model.Instances.

Definition getitemQ := getitem Qc QO.
Definition setitemQ := setitem Qc QO QI Qcplus Qcmult.

Inductive step :=
| SGet (k : keyform) (exp : res oarr)
| SSet (k : keyform) (r : rhsform Qc) (ok : bool) (post : oarr)
| SWhereNeg (exp : list (list nat)).       (* items_where(lambda x: x < 0) as item-code tuples *)

Definition items_where_neg (a : fQ) : list (list nat) :=
  map (fun idx => map2 (fun d i => nth i (ditems d) 0%nat) (adims a) idx)
      (filter (fun idx => negb (Qc_leb QO (get QO (dshape (adims a)) (avals a) idx)))
              (all_idx (dshape (adims a)))).

Definition lln_eqb (a b : list (list nat)) : bool := list_eqb (list_eqb Nat.eqb) a b.

Fixpoint run_steps (a : fQ) (ss : list step) : bool :=
  match ss with
  | [] => true
  | SGet k exp :: r => res_agree farr_agree (getitemQ a k) exp && run_steps a r
  | SWhereNeg exp :: r => lln_eqb (items_where_neg a) exp && run_steps a r
  | SSet k rh ok post :: r =>
      match setitemQ a k rh with
      | Ok a' => ok && farr_agree a' post && run_steps a' r
      | Err => negb ok && farr_agree a post && run_steps a r
      end
  end.

Record case := mk_case { c_a : fQ; c_steps : list step }.
Definition check (c : case) : bool := run_steps (c_a c) (c_steps c).
