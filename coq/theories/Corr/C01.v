(* Correspondence entry point for C01 (arithmetic between arrays and with numbers) *)
From Coq Require Import List ZArith QArith Qcanon Bool.
Import ListNotations.
From Flodym Require Export Base.ND Base.Env Np.Einsum Model.Dims Model.Array Model.Instances.

Inductive bop := BAdd | BSub | BMin | BMax | BMul | BDiv | BPow.
Inductive uop := UNeg | UAbs | USign.
Inductive operand2 := OArr (y : fQ) | ONum (c : Qc).
Inductive op :=
| OBin (b : bop) (y : operand2)          (* x <op> y *)
| ORefl (b : bop) (c : Qc)               (* c <op> x  (reflected operators) *)
| OUn (u : uop).

Definition badd := binop_common Qc QO QI Qcplus Qcmult Qcplus.
Definition bsub := binop_common Qc QO QI Qcplus Qcmult Qcminus.
Definition bmul := mul_like Qc QO QI Qcplus Qcmult (fun x => x).
Definition bdiv := mul_like Qc QO QI Qcplus Qcmult Qc_inv.

(* _prepare_other *)
Definition prepare (x : fQ) (y : operand2) : fQ :=
  match y with OArr y => y | ONum c => full Qc (adims x) c end.

Definition run_bin (b : bop) (x y : fQ) : res fQ :=
  match b with
  | BAdd => badd x y
  | BSub => bsub x y
  | BMin => binop_common Qc QO QI Qcplus Qcmult Qc_min x y
  | BMax => binop_common Qc QO QI Qcplus Qcmult Qc_max x y
  | BMul => bmul x y
  | BDiv => bdiv x y
  | BPow => pow_like Qc QO QI Qcplus Qcmult Qc_pow x y
  end.

Definition run (x : fQ) (o : op) : res fQ :=
  match o with
  | OBin b y => run_bin b x (prepare x y)
  | ORefl BAdd c => run_bin BAdd x (prepare x (ONum c))            (* __radd__ : self + other *)
  | ORefl BMul c => run_bin BMul x (prepare x (ONum c))            (* __rmul__ : self * other *)
  | ORefl BSub c => let nx := amap Qc Qcopp x in run_bin BAdd nx (prepare nx (ONum c))   (* -self + other *)
  | ORefl BDiv c => let ix := amap Qc Qc_inv x in run_bin BMul ix (prepare ix (ONum c))  (* (1/self) * other *)
  | ORefl _ _ => Err
  | OUn UNeg => Ok (amap Qc Qcopp x)
  | OUn UAbs => Ok (amap Qc Qc_abs x)
  | OUn USign => Ok (amap Qc Qc_sign x)
  end.

Record case := mk_case { c_x : fQ; c_op : op; c_exp : res oarr }.
Definition check (c : case) : bool := res_agree farr_agree (run (c_x c) (c_op c)) (c_exp c).
