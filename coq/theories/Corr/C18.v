(* Correspondence entry point for C18 *)
From Coq Require Import List Arith Bool.
Import ListNotations.
From Flodym Require Export Base.ND Base.Env Model.Dims Model.Instances Model.Build.
Local Open Scope nat_scope.

Definition current_forwards_solver : bool := true.

Definition opt_eqb (a b : option nat) : bool :=
  match a, b with Some x, Some y => Nat.eqb x y | None, None => true | _, _ => false end.
Definition pair_eqb (p r : nat * nat) : bool := Nat.eqb (fst p) (fst r) && Nat.eqb (snd p) (snd r).
Definition flow_eqb (a b : flowobj) : bool :=
  Nat.eqb (fo_name a) (fo_name b) && Nat.eqb (fo_from a) (fo_from b) && Nat.eqb (fo_to a) (fo_to b)
  && dims_eqb (fo_dims a) (fo_dims b).
Definition stock_eqb (a b : stockobj) : bool :=
  Nat.eqb (so_name a) (so_name b) && opt_eqb (so_process a) (so_process b) && dims_eqb (so_dims a) (so_dims b)
  && Nat.eqb (so_time a) (so_time b) && Nat.eqb (so_class a) (so_class b) && opt_eqb (so_lifetime a) (so_lifetime b)
  && opt_eqb (so_solver a) (so_solver b).

Definition sys_eqb (a b : sysobs) : bool :=
  list_eqb pair_eqb (sy_procs a) (sy_procs b) && list_eqb flow_eqb (sy_flows a) (sy_flows b)
  && list_eqb stock_eqb (sy_stocks a) (sy_stocks b).

Inductive case :=
| CBuild (sysenv : nat) (dims : dimset) (naming : list (nat * nat * nat)) (pnames : list nat)
         (flows : list flowdef) (stocks : list stockdef) (params : list (nat * list letter)) (exp : res sysobs)
| CDimFile (rows cols : nat) (cells : list nat) (conv : list bool) (name : nat) (exp : res (list nat)).

Definition naming_of (tab : list (nat * nat * nat)) (a b : nat) : nat :=
  match find (fun t => Nat.eqb (fst (fst t)) a && Nat.eqb (snd (fst t)) b) tab with Some t => snd t | None => 0 end.

Definition check (c : case) : bool :=
  match c with
  | CBuild se ds nm pn fl st pa exp =>
      res_agree sys_eqb (build current_forwards_solver se ds (naming_of nm) pn fl st pa) exp
  | CDimFile r c cells conv name exp => res_agree (list_eqb Nat.eqb) (from_np r c cells conv name) exp
  end.
