(* Correspondence entry point for C07 (sum_to / sum_over / cast_to / get_shares_over / cumsum) *)
From Coq Require Import List ZArith QArith Qcanon Bool.
Import ListNotations.
From Flodym Require Export Base.ND Base.Env Np.Einsum Model.Dims Model.Array Model.Instances.

Inductive op :=
| OSumTo (xs : list dimarg)
| OSumOver (xs : list dimarg)
| OCast (target : dimset)
| OShares (ls : list letter)
| OCumsum (l : letter).

Definition run (a : fQ) (o : op) : res fQ :=
  match o with
  | OSumTo xs => sum_to Qc QO QI Qcplus Qcmult a xs
  | OSumOver xs => sum_over Qc QO QI Qcplus Qcmult a xs
  | OCast t => cast_to Qc QO QI Qcplus Qcmult a t
  | OShares ls => get_shares_over Qc QO QI Qcplus Qcmult Qc_inv a ls
  | OCumsum l => cumsum Qc QO Qcplus a l
  end.

Record case := mk_case { c_arr : fQ; c_op : op; c_exp : res oarr }.
Definition check (c : case) : bool := res_agree farr_agree (run (c_arr c) (c_op c)) (c_exp c).
