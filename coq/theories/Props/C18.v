(* C18 — systems built from definitions and files match what was defined.  Statements only.
   PARTIAL: the assembly logic is proved; reading CSV / Excel files is pandas' runtime and is tied
   to the model by the correspondence on real temporary files. *)
From Coq Require Import List Arith Bool.
Import ListNotations.
From Flodym Require Import Base.Env Model.Dims Model.Build Proofs.C18Proofs.

Theorem C18_processes_numbered_in_listed_order :
  forall se names ps, make_processes se names = Ok ps ->
  ps = combine names (seq 0 (length names)) /\ (names <> [] -> hd 0 names = se).
Proof. exact processes_numbered. Qed.
Print Assumptions C18_processes_numbered_in_listed_order.

Theorem C18_anything_but_sysenv_first_is_refused :
  forall se n0 r, n0 <> se -> make_processes se (n0 :: r) = Err.
Proof. exact sysenv_first_or_refused. Qed.
Print Assumptions C18_anything_but_sysenv_first_is_refused.

(* for flows and stocks alike (any definition type D, object type V, naming key):
   distinct names => exactly one object per definition, in definition order *)
Theorem C18_one_object_per_definition :
  forall (D V : Type) (key : V -> nat) (f : D -> res V) defs vs,
  mapM f defs = Ok vs -> NoDup (map key vs) -> dict_fold key f defs = Ok vs.
Proof. exact dict_fold_spec. Qed.
Print Assumptions C18_one_object_per_definition.

Theorem C18_unbuildable_definition_refuses_the_system :
  forall (D V : Type) (key : V -> nat) (f : D -> res V) defs d,
  In d defs -> f d = Err -> dict_fold key f defs = Err.
Proof. exact dict_fold_refuses. Qed.
Print Assumptions C18_unbuildable_definition_refuses_the_system.

Theorem C18_flow_as_defined :
  forall procs dims naming fd fo, flow_of procs dims naming fd = Ok fo ->
  fo_from fo = fd_from fd /\ fo_to fo = fd_to fd
  /\ fo_name fo = (match fd_override fd with Some n => n | None => naming (fd_from fd) (fd_to fd) end)
  /\ get_subset dims (map KLetter (fd_dims fd)) = Ok (fo_dims fo)
  /\ assoc (fd_from fd) procs <> None /\ assoc (fd_to fd) procs <> None.
Proof. exact flow_of_spec. Qed.
Print Assumptions C18_flow_as_defined.

Theorem C18_stock_as_defined_including_solver :
  forall procs dims sd so, stock_of true procs dims sd = Ok so ->
  so_name so = sd_name sd /\ so_process so = sd_process sd /\ so_time so = sd_time sd
  /\ so_class so = sd_class sd /\ so_lifetime so = sd_lifetime sd
  /\ (has_solver (sd_class sd) = true -> so_solver so = Some (sd_solver sd))
  /\ (has_solver (sd_class sd) = false -> so_solver so = None)
  /\ get_subset dims (map KLetter (sd_dims sd)) = Ok (so_dims so)
  /\ hd 0 (letters (so_dims so)) = sd_time sd.
Proof. exact stock_of_spec. Qed.
Print Assumptions C18_stock_as_defined_including_solver.

Theorem C18_time_anywhere_but_first_is_refused :
  forall procs dims sd ds l0 r fwd,
  get_subset dims (map KLetter (sd_dims sd)) = Ok ds -> letters ds = l0 :: r -> l0 <> sd_time sd ->
  stock_of fwd procs dims sd = Err.
Proof. exact stock_refuses_time_not_first. Qed.
Print Assumptions C18_time_anywhere_but_first_is_refused.

Theorem C18_undefined_process_is_refused :
  forall procs dims naming fd, assoc (fd_from fd) procs = None \/ assoc (fd_to fd) procs = None ->
  flow_of procs dims naming fd = Err.
Proof. exact flow_refuses_undefined_process. Qed.
Print Assumptions C18_undefined_process_is_refused.

Theorem C18_invalid_definition_is_refused :
  forall defined flows stocks params sysenv dims naming pnames fwd,
  definition_ok defined flows stocks params = false -> defined = letters dims ->
  build fwd sysenv dims naming pnames flows stocks params = Err.
Proof. exact definition_refused. Qed.
Print Assumptions C18_invalid_definition_is_refused.
