(* C15 — operations never modify their inputs, and results are independent objects.
   Statements only; proofs in Proofs/HeapProofs.v. *)
From Coq Require Import List.
Import ListNotations.
From Flodym Require Import Model.Heap Proofs.HeapProofs.

(* Every operation that is not explicitly in place only APPENDS to the heap: all buffers (the
   values of every existing array, views included) and all array objects (their dimension sets)
   that existed before are still there, unchanged — for every heap, every operation, and also for
   the behaviour variants before the repairs. *)
Theorem C15_inputs_never_modified :
  forall vr h o, in_place o = false -> extends h (fst (step vr h o)).
Proof. exact op_frame. Qed.
Print Assumptions C15_inputs_never_modified.

(* The result of copy, full_like, arithmetic, unary operators, cast_to, get_shares_over, cumsum and
   slice reads lives in a buffer that did not exist before the call: no earlier array shares
   memory with it, so writing into it cannot change any source, and vice versa. *)
Theorem C15_results_are_fresh :
  forall h o h', independent_result o = true -> step current h o = (h', Done) ->
  arrs h' = arrs h \/ exists a, arrs h' = arrs h ++ [a] /\ a_buf a = length (bufs h).
Proof. exact result_fresh. Qed.
Print Assumptions C15_results_are_fresh.
