(* C07 — summing, casting and shares conserve totals and act by label.
   Only statements; each closed by [exact] of a lemma proved in Proofs/. *)
From Coq Require Import List Arith Ring_theory Reals RealField.
Import ListNotations.
From Flodym Require Import Base.ND Base.Env Np.Einsum Model.Dims Model.Array
  Proofs.ArrayLemmas Proofs.C07Proofs.

(* sum_to / sum_over (both reduce through sum_values_to): the entry of the result under the labels
   [e] is the sum of the source over all label assignments of the dimensions that were summed away *)
Theorem C07_marginal_by_label :
  forall (R : Type) (rO rI : R) (radd rmul rsub : R -> R -> R) (ropp : R -> R),
  ring_theory rO rI radd rmul rsub ropp eq ->
  forall (a : farr R) (rs : list letter) (v : nd R) (e : env),
  wf R a -> sum_values_to R rO rI radd rmul a rs = Ok v -> in_range (lsizes R a) e rs ->
  den_nd R rO rs v e
  = sum_env rO radd (sized (lsizes R a) (others R a rs)) (fun e' => den R rO a (e' ++ e)).
Proof. exact sum_values_to_den. Qed.
Print Assumptions C07_marginal_by_label.

Theorem C07_grand_total_preserved :
  forall (R : Type) (rO rI : R) (radd rmul rsub : R -> R -> R) (ropp : R -> R),
  ring_theory rO rI radd rmul rsub ropp eq ->
  forall (a : farr R) (rs : list letter) (v : nd R),
  wf R a -> sum_values_to R rO rI radd rmul a rs = Ok v ->
  sum rO radd (dat v) = sum rO radd (avals a).
Proof. exact sum_values_to_total. Qed.
Print Assumptions C07_grand_total_preserved.

(* the same for ALL real values *)
Theorem C07_grand_total_preserved_reals :
  forall (a : farr R) (rs : list letter) (v : nd R),
  wf R a -> sum_values_to R 0%R 1%R Rplus Rmult a rs = Ok v ->
  sum 0%R Rplus (dat v) = sum 0%R Rplus (avals a).
Proof. exact (sum_values_to_total R 0%R 1%R Rplus Rmult Rminus Ropp RTheory). Qed.
Print Assumptions C07_grand_total_preserved_reals.
