(* C07 — summing, casting and shares conserve totals and act by label.
   Only statements; each closed by [exact] of a lemma proved in Proofs/. *)
From Coq Require Import List Arith Bool Ring_theory Field_theory Reals RealField.
Import ListNotations.
From Flodym Require Import Base.ND Base.Env Np.Einsum Model.Dims Model.Array
  Proofs.ArrayLemmas Proofs.C07Proofs Proofs.SumProofs Proofs.CastProofs Proofs.SharesProofs Proofs.CumsumProofs.

(* sum_to / sum_over (both reduce through sum_values_to): the entry of the result under the labels
   [e] is the sum of the source over all label assignments of the dimensions that were summed away *)
Theorem C07_marginal_by_label :
  forall (R : Type) (rO rI : R) (radd rmul rsub : R -> R -> R) (ropp : R -> R),
  ring_theory rO rI radd rmul rsub ropp eq ->
  forall (a : farr R) (rs : list letter) (v : nd R) (e : env),
  wf R a -> sum_values_to R rO rI radd rmul a rs = Ok v -> in_range (lsizes R a) e rs ->
  den_nd R rO rs v e
  = sum_env rO radd (sized (lsizes R a) (others R a rs)) (fun e' => den R rO a (e' ++ e)).
Proof. exact sum_values_to_den. Qed.
Print Assumptions C07_marginal_by_label.

Theorem C07_grand_total_preserved :
  forall (R : Type) (rO rI : R) (radd rmul rsub : R -> R -> R) (ropp : R -> R),
  ring_theory rO rI radd rmul rsub ropp eq ->
  forall (a : farr R) (rs : list letter) (v : nd R),
  wf R a -> sum_values_to R rO rI radd rmul a rs = Ok v ->
  sum rO radd (dat v) = sum rO radd (avals a).
Proof. exact sum_values_to_total. Qed.
Print Assumptions C07_grand_total_preserved.

(* the same for ALL real values *)
Theorem C07_grand_total_preserved_reals :
  forall (a : farr R) (rs : list letter) (v : nd R),
  wf R a -> sum_values_to R 0%R 1%R Rplus Rmult a rs = Ok v ->
  sum 0%R Rplus (dat v) = sum 0%R Rplus (avals a).
Proof. exact (sum_values_to_total R 0%R 1%R Rplus Rmult Rminus Ropp RTheory). Qed.
Print Assumptions C07_grand_total_preserved_reals.

(* ---- dimension arguments: letters, names and Dimension objects alike; unknown ones rejected ---- *)
Theorem C07_arguments_resolved_alike :
  forall (R : Type) (a : farr R) (xs : list dimarg) (ds : dimset),
  NoDup (aletters R a) -> NoDup (names (adims a)) -> incl ds (adims a) -> Forall2 denotes xs ds ->
  tuple_to_letters R a xs = Ok (letters ds).
Proof. exact tuple_to_letters_alike. Qed.
Print Assumptions C07_arguments_resolved_alike.

Theorem C07_unknown_letter_rejected :
  forall (R : Type) (a : farr R) (xs : list dimarg) (l : letter),
  In (ALetter l) xs -> ~ In l (aletters R a) -> tuple_to_letters R a xs = Err.
Proof. intros R a xs l Hin Hn. eapply tuple_to_letters_unknown; [exact Hin | apply get_dim_letter_unknown_letter; exact Hn]. Qed.
Print Assumptions C07_unknown_letter_rejected.

Theorem C07_unknown_name_rejected :
  forall (R : Type) (a : farr R) (xs : list dimarg) (n : nat),
  In (AName n) xs -> ~ In n (names (adims a)) -> tuple_to_letters R a xs = Err.
Proof. intros R a xs n Hin Hn. eapply tuple_to_letters_unknown; [exact Hin | apply get_dim_letter_unknown_name; exact Hn]. Qed.
Print Assumptions C07_unknown_name_rejected.

(* ---- sum_to: requested order respected, marginal by label ------------------------------------- *)
Theorem C07_sum_to_by_label_in_requested_order :
  forall (R : Type) (rO rI : R) (radd rmul rsub : R -> R -> R) (ropp : R -> R),
  ring_theory rO rI radd rmul rsub ropp eq ->
  forall (a r : farr R) (xs : list dimarg) (rs : list letter) (e : env),
  wf R a -> tuple_to_letters R a xs = Ok rs -> sum_to R rO rI radd rmul a xs = Ok r ->
  in_range (lsizes R a) e rs ->
  Forall2 (fun l d => find_letter (adims a) l = Some d) rs (adims r)
  /\ aletters R r = rs
  /\ den R rO r e = sum_env rO radd (sized (lsizes R a) (others R a rs)) (fun e' => den R rO a (e' ++ e)).
Proof. exact sum_to_spec. Qed.
Print Assumptions C07_sum_to_by_label_in_requested_order.

(* ---- sum_over: the named dimensions summed away, the others kept in the array's order ---------- *)
Theorem C07_sum_over_by_label :
  forall (R : Type) (rO rI : R) (radd rmul rsub : R -> R -> R) (ropp : R -> R),
  ring_theory rO rI radd rmul rsub ropp eq ->
  forall (a r : farr R) (xs : list dimarg) (so : list letter) (e : env),
  wf R a -> tuple_to_letters R a xs = Ok so -> sum_over R rO rI radd rmul a xs = Ok r ->
  in_range (lsizes R a) e (aletters R r) ->
  adims r = filter (fun d => negb (memb (dletter d) so)) (adims a)
  /\ den R rO r e = sum_env rO radd (sized (lsizes R a) (filter (fun l => memb l so) (aletters R a)))
                      (fun e' => den R rO a (e' ++ e)).
Proof. exact sum_over_spec. Qed.
Print Assumptions C07_sum_over_by_label.

(* ---- cast_to: every entry replicated along the added dimensions, in the target's order --------- *)
Theorem C07_cast_replicates_by_label :
  forall (R : Type) (rO rI : R) (radd rmul rsub : R -> R -> R) (ropp : R -> R),
  ring_theory rO rI radd rmul rsub ropp eq ->
  forall (a : farr R) (target : dimset) (v : nd R) (e : env),
  wf R a -> NoDup (letters target) ->
  cast_values_to R rO rI radd rmul a target = Ok v ->
  (forall d, In d target -> lookup e (dletter d) < dlen d) ->
  (forall d, In d target -> memb (dletter d) (aletters R a) = true -> lookup (lsizes R a) (dletter d) = dlen d) ->
  den_nd R rO (letters target) v e = den R rO a e /\ shp v = dshape target.
Proof. exact cast_values_to_den. Qed.
Print Assumptions C07_cast_replicates_by_label.

Theorem C07_cast_refuses_missing_dimension :
  forall (R : Type) (rO rI : R) (radd rmul : R -> R -> R) (a : farr R) (target : dimset) (l : letter),
  In l (aletters R a) -> ~ In l (letters target) -> cast_values_to R rO rI radd rmul a target = Err.
Proof. exact cast_refuses_missing. Qed.
Print Assumptions C07_cast_refuses_missing_dimension.

(* summing the cast back gives the original times the number of added label combinations *)
Theorem C07_cast_then_sum_back :
  forall (R : Type) (rO rI : R) (radd rmul rsub : R -> R -> R) (ropp : R -> R),
  ring_theory rO rI radd rmul rsub ropp eq ->
  forall (a b : farr R) (target : dimset) (v : nd R) (e : env),
  wf R a -> NoDup (letters target) ->
  (forall d, In d target -> memb (dletter d) (aletters R a) = true -> lookup (lsizes R a) (dletter d) = dlen d) ->
  cast_to R rO rI radd rmul a target = Ok b ->
  sum_values_to R rO rI radd rmul b (aletters R a) = Ok v ->
  in_range (lsizes R a) e (aletters R a) ->
  den_nd R rO (aletters R a) v e
  = nmul R rO radd (size (map (lookup (combine (letters target) (dshape target))) (added R a target))) (den R rO a e).
Proof. exact cast_sum_back. Qed.
Print Assumptions C07_cast_then_sum_back.

(* ---- get_shares_over --------------------------------------------------------------------------- *)
Theorem C07_shares_divide_by_total :
  forall (R : Type) (rO rI : R) (radd rmul rsub : R -> R -> R) (ropp : R -> R),
  ring_theory rO rI radd rmul rsub ropp eq ->
  forall (inv : R -> R) (a r : farr R) (ls : list letter) (e : env),
  wf R a -> get_shares_over R rO rI radd rmul inv a ls = Ok r -> in_range (lsizes R a) e (aletters R a) ->
  adims r = adims a /\ den R rO r e = rmul (den R rO a e) (inv (share_total R rO radd a ls e)).
Proof. exact shares_spec. Qed.
Print Assumptions C07_shares_divide_by_total.

Theorem C07_shares_sum_to_one :
  forall (F : Type) (fO fI : F) (fadd fmul fsub : F -> F -> F) (fopp : F -> F) (fdiv : F -> F -> F) (finv : F -> F),
  field_theory fO fI fadd fmul fsub fopp fdiv finv eq ->
  forall (a r : farr F) (ls : list letter) (e : env),
  wf F a -> get_shares_over F fO fI fadd fmul finv a ls = Ok r -> in_range (lsizes F a) e (aletters F a) ->
  share_total F fO fadd a ls e <> fO ->
  share_total F fO fadd r ls e = fI.
Proof. exact shares_sum_to_one. Qed.
Print Assumptions C07_shares_sum_to_one.

Theorem C07_shares_multiply_back :
  forall (F : Type) (fO fI : F) (fadd fmul fsub : F -> F -> F) (fopp : F -> F) (fdiv : F -> F -> F) (finv : F -> F),
  field_theory fO fI fadd fmul fsub fopp fdiv finv eq ->
  forall (a r : farr F) (ls : list letter) (e : env),
  wf F a -> get_shares_over F fO fI fadd fmul finv a ls = Ok r -> in_range (lsizes F a) e (aletters F a) ->
  share_total F fO fadd a ls e <> fO ->
  fmul (den F fO r e) (share_total F fO fadd a ls e) = den F fO a e.
Proof. exact shares_mul_back. Qed.
Print Assumptions C07_shares_multiply_back.

Theorem C07_shares_refuse_unknown_dimension :
  forall (R : Type) (rO rI : R) (radd rmul : R -> R -> R) (inv : R -> R) (a : farr R) (ls : list letter) (l : letter),
  In l ls -> ~ In l (aletters R a) -> get_shares_over R rO rI radd rmul inv a ls = Err.
Proof. exact shares_refuses_unknown. Qed.
Print Assumptions C07_shares_refuse_unknown_dimension.

(* the same over the reals *)
Theorem C07_shares_sum_to_one_reals :
  forall (a r : farr R) (ls : list letter) (e : env),
  wf R a -> get_shares_over R 0%R 1%R Rplus Rmult Rinv a ls = Ok r -> in_range (lsizes R a) e (aletters R a) ->
  share_total R 0%R Rplus a ls e <> 0%R ->
  share_total R 0%R Rplus r ls e = 1%R.
Proof. exact (shares_sum_to_one R 0%R 1%R Rplus Rmult Rminus Ropp Rdiv Rinv Rfield). Qed.
Print Assumptions C07_shares_sum_to_one_reals.

(* ---- cumsum ------------------------------------------------------------------------------------ *)
Theorem C07_cumsum_accumulates_in_item_order :
  forall (R : Type) (rO : R) (radd : R -> R -> R) (a r : farr R) (l : letter) (e : env),
  wf R a -> cumsum R rO radd a l = Ok r -> in_range (lsizes R a) e (aletters R a) ->
  adims r = adims a
  /\ den R rO r e = sum rO radd (map (fun j => den R rO a ((l, j) :: e)) (seq 0 (S (lookup e l)))).
Proof. exact cumsum_spec. Qed.
Print Assumptions C07_cumsum_accumulates_in_item_order.

Theorem C07_cumsum_unknown_letter_rejected :
  forall (R : Type) (rO : R) (radd : R -> R -> R) (a : farr R) (l : letter),
  ~ In l (aletters R a) -> cumsum R rO radd a l = Err.
Proof. exact cumsum_unknown. Qed.
Print Assumptions C07_cumsum_unknown_letter_rejected.
