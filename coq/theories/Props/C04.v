(* C04 — results do not depend on the storage order of dimensions.  Statements only.
   [same_arr x x'] : same dimensions as a set and equal entries under equal labels, i.e. x' is x
   stored in another order.  Proved here for the reductions (sum_to / sum_over, hence + - min max,
   which reduce both operands first), for products / quotients and for slice reads with dict keys; for
   assignments from a FlodymArray the label-level theorem C05_dict_assignment_by_label says the same for the
   source (its marginal by label does not depend on its storage order: C04_sum_to_independent_of_storage_order)
   and cast_to is by label by C07_cast_replicates_by_label; DataFrame round trips, stacking / splitting and
   lifetime parameters are carried by the exhaustive permutation correspondence (every permutation of every
   participating array up to rank 3 / 4) — see DESIGN.md. *)
From Coq Require Import List Arith Bool Ring_theory Permutation.
Import ListNotations.
From Flodym Require Import Base.ND Base.Env Np.Einsum Model.Dims Model.Array Model.SubArray Proofs.ArrayLemmas Proofs.C04Proofs
  Proofs.HandlerProofs Proofs.GetitemSpec Proofs.GetitemCongr.

Theorem C04_sum_to_independent_of_storage_order :
  forall (R : Type) (rO rI : R) (radd rmul rsub : R -> R -> R) (ropp : R -> R),
  ring_theory rO rI radd rmul rsub ropp eq ->
  forall (x x' : farr R) rs v v' e,
  wf R x -> wf R x' -> same_arr R rO x x' ->
  sum_values_to R rO rI radd rmul x rs = Ok v -> sum_values_to R rO rI radd rmul x' rs = Ok v' ->
  in_range (lsizes R x) e rs -> incl rs (aletters R x) ->
  den_nd R rO rs v e = den_nd R rO rs v' e.
Proof. exact sum_values_to_congr. Qed.
Print Assumptions C04_sum_to_independent_of_storage_order.

Theorem C04_product_independent_of_storage_order :
  forall (R : Type) (rO rI : R) (radd rmul rsub : R -> R -> R) (ropp : R -> R),
  ring_theory rO rI radd rmul rsub ropp eq ->
  forall (g : R -> R) (x x' y y' r r' : farr R) e,
  NoDup (aletters R x) -> NoDup (aletters R x') -> NoDup (aletters R y) -> NoDup (aletters R y') ->
  same_arr R rO x x' -> Permutation (adims y) (adims y') ->
  den_nd R rO (aletters R y) (mk_nd (dshape (adims y)) (map g (avals y))) e
  = den_nd R rO (aletters R y') (mk_nd (dshape (adims y')) (map g (avals y'))) e ->
  env_ok R x e ->
  mul_like R rO rI radd rmul g x y = Ok r -> mul_like R rO rI radd rmul g x' y' = Ok r' ->
  (forall l, In l (aletters R r) ->
     lookup e l < lookup (sizes R [(aletters R x, a_nd R x); (aletters R y, mk_nd (dshape (adims y)) (map g (avals y)))]) l) ->
  (forall l, In l (aletters R r') ->
     lookup e l < lookup (sizes R [(aletters R x', a_nd R x'); (aletters R y', mk_nd (dshape (adims y')) (map g (avals y')))]) l) ->
  den R rO r e = den R rO r' e /\ Permutation (adims r) (adims r').
Proof. exact mul_congr. Qed.
Print Assumptions C04_product_independent_of_storage_order.

Theorem C04_entrywise_maps_commute_with_labels :
  forall (R : Type) (rO : R) (g : R -> R) (y : farr R) e, wf R y -> env_ok R y e ->
  den_nd R rO (aletters R y) (mk_nd (dshape (adims y)) (map g (avals y))) e = g (den R rO y e).
Proof. exact den_map. Qed.
Print Assumptions C04_entrywise_maps_commute_with_labels.

(* slice reads with a dict key *)
Theorem C04_slice_read_independent_of_storage_order :
  forall (R : Type) (rO : R) (a a' r r' : farr R) kvs e,
  wf R a -> wf R a' -> same_arr R rO a a' ->
  wf_dict (adims a) no_asg kvs ->
  existsb (fun p => match snd p with IList _ => true | _ => false end) kvs = false ->
  no_lists (asg_of no_asg kvs) (adims a) ->
  getitem R rO a (KDict kvs) = Ok r -> getitem R rO a' (KDict kvs) = Ok r' ->
  (forall d, In d (adims r) -> lookup e (dletter d) < dlen d) ->
  den R rO r e = den R rO r' e /\ Permutation (adims r) (adims r').
Proof. exact getitem_congr. Qed.
Print Assumptions C04_slice_read_independent_of_storage_order.
