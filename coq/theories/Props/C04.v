(* C04 — results do not depend on the storage order of dimensions.  Statements only.
   [same_arr x x'] : same dimensions as a set and equal entries under equal labels, i.e. x' is x
   stored in another order.  Proved here for the reductions (sum_to / sum_over, hence + - min max,
   which reduce both operands first), for products / quotients, for slice reads with dict keys and for slice
   assignment from a FlodymArray (storage order of the source and of the pre-declared target);
   cast_to is by label by C07_cast_replicates_by_label; DataFrame round trips, stacking / splitting and
   lifetime parameters are carried by the exhaustive permutation correspondence (every permutation of every
   participating array up to rank 3 / 4) — see DESIGN.md. *)
From Coq Require Import List Arith Bool Ring_theory Permutation.
Import ListNotations.
From Flodym Require Import Base.ND Base.Env Np.Einsum Model.Dims Model.Array Model.SubArray Proofs.ArrayLemmas Proofs.C04Proofs
  Proofs.HandlerProofs Proofs.GetitemSpec Proofs.GetitemCongr Proofs.SetitemSpec Proofs.SetitemCongr.

Theorem C04_sum_to_independent_of_storage_order :
  forall (R : Type) (rO rI : R) (radd rmul rsub : R -> R -> R) (ropp : R -> R),
  ring_theory rO rI radd rmul rsub ropp eq ->
  forall (x x' : farr R) rs v v' e,
  wf R x -> wf R x' -> same_arr R rO x x' ->
  sum_values_to R rO rI radd rmul x rs = Ok v -> sum_values_to R rO rI radd rmul x' rs = Ok v' ->
  in_range (lsizes R x) e rs -> incl rs (aletters R x) ->
  den_nd R rO rs v e = den_nd R rO rs v' e.
Proof. exact sum_values_to_congr. Qed.
Print Assumptions C04_sum_to_independent_of_storage_order.

Theorem C04_product_independent_of_storage_order :
  forall (R : Type) (rO rI : R) (radd rmul rsub : R -> R -> R) (ropp : R -> R),
  ring_theory rO rI radd rmul rsub ropp eq ->
  forall (g : R -> R) (x x' y y' r r' : farr R) e,
  NoDup (aletters R x) -> NoDup (aletters R x') -> NoDup (aletters R y) -> NoDup (aletters R y') ->
  same_arr R rO x x' -> Permutation (adims y) (adims y') ->
  den_nd R rO (aletters R y) (mk_nd (dshape (adims y)) (map g (avals y))) e
  = den_nd R rO (aletters R y') (mk_nd (dshape (adims y')) (map g (avals y'))) e ->
  env_ok R x e ->
  mul_like R rO rI radd rmul g x y = Ok r -> mul_like R rO rI radd rmul g x' y' = Ok r' ->
  (forall l, In l (aletters R r) ->
     lookup e l < lookup (sizes R [(aletters R x, a_nd R x); (aletters R y, mk_nd (dshape (adims y)) (map g (avals y)))]) l) ->
  (forall l, In l (aletters R r') ->
     lookup e l < lookup (sizes R [(aletters R x', a_nd R x'); (aletters R y', mk_nd (dshape (adims y')) (map g (avals y')))]) l) ->
  den R rO r e = den R rO r' e /\ Permutation (adims r) (adims r').
Proof. exact mul_congr. Qed.
Print Assumptions C04_product_independent_of_storage_order.

Theorem C04_entrywise_maps_commute_with_labels :
  forall (R : Type) (rO : R) (g : R -> R) (y : farr R) e, wf R y -> env_ok R y e ->
  den_nd R rO (aletters R y) (mk_nd (dshape (adims y)) (map g (avals y))) e = g (den R rO y e).
Proof. exact den_map. Qed.
Print Assumptions C04_entrywise_maps_commute_with_labels.

(* slice reads with a dict key *)
Theorem C04_slice_read_independent_of_storage_order :
  forall (R : Type) (rO : R) (a a' r r' : farr R) kvs e,
  wf R a -> wf R a' -> same_arr R rO a a' ->
  wf_dict (adims a) no_asg kvs ->
  existsb (fun p => match snd p with IList _ => true | _ => false end) kvs = false ->
  no_lists (asg_of no_asg kvs) (adims a) ->
  getitem R rO a (KDict kvs) = Ok r -> getitem R rO a' (KDict kvs) = Ok r' ->
  (forall d, In d (adims r) -> lookup e (dletter d) < dlen d) ->
  den R rO r e = den R rO r' e /\ Permutation (adims r) (adims r').
Proof. exact getitem_congr. Qed.
Print Assumptions C04_slice_read_independent_of_storage_order.

(* slice assignment target[{...}] = source: the storage order of the SOURCE is irrelevant ... *)
Theorem C04_assignment_independent_of_the_source_storage_order :
  forall (R : Type) (rO rI : R) (radd rmul rsub : R -> R -> R) (ropp : R -> R),
  ring_theory rO rI radd rmul rsub ropp eq ->
  forall (a y y' a1 a2 : farr R) kvs,
  wf R a -> wf R y -> wf R y' -> same_arr R rO y y' -> wf_dict (adims a) no_asg kvs ->
  let F := asg_of no_asg kvs in
  let dout := flat_map (out_for F) (adims a) in
  no_lists F (adims a) -> distinct_items F (adims a) ->
  (forall d, In d dout -> lookup (lsizes R y) (dletter d) = dlen d) ->
  (forall d, In d dout -> lookup (lsizes R y') (dletter d) = dlen d) ->
  setitem R rO rI radd rmul a (KDict kvs) (RArr R y) = Ok a1 ->
  setitem R rO rI radd rmul a (KDict kvs) (RArr R y') = Ok a2 ->
  adims a1 = adims a2
  /\ (forall e, (forall d, In d dout -> lookup e (dletter d) < dlen d) ->
        den R rO a1 (src_env F (adims a) e) = den R rO a2 (src_env F (adims a) e))
  /\ (forall e, (forall d, In d (adims a) -> lookup e (dletter d) < dlen d) ->
        ~ in_region F (adims a) e -> den R rO a1 e = den R rO a2 e).
Proof. exact setitem_source_congr. Qed.
Print Assumptions C04_assignment_independent_of_the_source_storage_order.

(* ... and so is the storage order of the pre-declared TARGET: the two results are the same labelled array *)
Theorem C04_assignment_independent_of_the_target_storage_order :
  forall (R : Type) (rO rI : R) (radd rmul rsub : R -> R -> R) (ropp : R -> R),
  ring_theory rO rI radd rmul rsub ropp eq ->
  forall (a a' y a1 a2 : farr R) kvs,
  wf R a -> wf R a' -> same_arr R rO a a' -> wf R y -> wf_dict (adims a) no_asg kvs ->
  let F := asg_of no_asg kvs in
  let dout := flat_map (out_for F) (adims a) in
  no_lists F (adims a) -> distinct_items F (adims a) ->
  (forall d, In d dout -> lookup (lsizes R y) (dletter d) = dlen d) ->
  setitem R rO rI radd rmul a (KDict kvs) (RArr R y) = Ok a1 ->
  setitem R rO rI radd rmul a' (KDict kvs) (RArr R y) = Ok a2 ->
  Permutation (adims a1) (adims a2)
  /\ (forall e, (forall d, In d dout -> lookup e (dletter d) < dlen d) ->
        den R rO a1 (src_env F (adims a) e) = den R rO a2 (src_env F (adims a') e))
  /\ (forall e, (forall d, In d (adims a) -> lookup e (dletter d) < dlen d) ->
        ~ in_region F (adims a) e -> den R rO a1 e = den R rO a2 e).
Proof. exact setitem_target_congr. Qed.
Print Assumptions C04_assignment_independent_of_the_target_storage_order.

(* an instance: the source of ex_C05_dict_assignment stored as (m, r) and as (r, m), and the target stored as (t, r) and as (r, t) *)
Example ex_C04_assignment_orders :
  let dt := mk_dim 116 0 [10; 11] in let dr := mk_dim 114 1 [20; 21; 22] in let dm := mk_dim 109 2 [30; 31] in
  let a := mk_farr [dt; dr] [1; 2; 3; 4; 5; 6] in
  let a' := mk_farr [dr; dt] [1; 4; 2; 5; 3; 6] in
  let y := mk_farr [dm; dr] [100; 200; 300; 1000; 2000; 3000] in
  let y' := mk_farr [dr; dm] [100; 1000; 200; 2000; 300; 3000] in
  let kvs := [(KLetter 116, ISingle 11)] in
  setitem nat 0 1 Nat.add Nat.mul a (KDict kvs) (RArr nat y) = Ok (mk_farr [dt; dr] [1; 2; 3; 1100; 2200; 3300])
  /\ setitem nat 0 1 Nat.add Nat.mul a (KDict kvs) (RArr nat y') = Ok (mk_farr [dt; dr] [1; 2; 3; 1100; 2200; 3300])
  /\ setitem nat 0 1 Nat.add Nat.mul a' (KDict kvs) (RArr nat y) = Ok (mk_farr [dr; dt] [1; 1100; 2; 2200; 3; 3300]).
Proof. cbv zeta. repeat split; vm_compute; reflexivity. Qed.
