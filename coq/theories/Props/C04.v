(* C04 — results do not depend on the storage order of dimensions.  Statements only.
   [same_arr x x'] : same dimensions as a set and equal entries under equal labels, i.e. x' is x
   stored in another order.  Proved here for the reductions (sum_to / sum_over, hence + - min max,
   which reduce both operands first) and for products / quotients; slice reads, assignments, casts,
   DataFrame round trips and stacking are carried by the exhaustive permutation correspondence
   (every permutation of every participating array up to rank 3 / 4) — see DESIGN.md. *)
From Coq Require Import List Arith Ring_theory Permutation.
Import ListNotations.
From Flodym Require Import Base.ND Base.Env Np.Einsum Model.Dims Model.Array Proofs.ArrayLemmas Proofs.C04Proofs.

Theorem C04_sum_to_independent_of_storage_order :
  forall (R : Type) (rO rI : R) (radd rmul rsub : R -> R -> R) (ropp : R -> R),
  ring_theory rO rI radd rmul rsub ropp eq ->
  forall (x x' : farr R) rs v v' e,
  wf R x -> wf R x' -> same_arr R rO x x' ->
  sum_values_to R rO rI radd rmul x rs = Ok v -> sum_values_to R rO rI radd rmul x' rs = Ok v' ->
  in_range (lsizes R x) e rs -> incl rs (aletters R x) ->
  den_nd R rO rs v e = den_nd R rO rs v' e.
Proof. exact sum_values_to_congr. Qed.
Print Assumptions C04_sum_to_independent_of_storage_order.

Theorem C04_product_independent_of_storage_order :
  forall (R : Type) (rO rI : R) (radd rmul rsub : R -> R -> R) (ropp : R -> R),
  ring_theory rO rI radd rmul rsub ropp eq ->
  forall (g : R -> R) (x x' y y' r r' : farr R) e,
  NoDup (aletters R x) -> NoDup (aletters R x') -> NoDup (aletters R y) -> NoDup (aletters R y') ->
  same_arr R rO x x' -> Permutation (adims y) (adims y') ->
  den_nd R rO (aletters R y) (mk_nd (dshape (adims y)) (map g (avals y))) e
  = den_nd R rO (aletters R y') (mk_nd (dshape (adims y')) (map g (avals y'))) e ->
  env_ok R x e ->
  mul_like R rO rI radd rmul g x y = Ok r -> mul_like R rO rI radd rmul g x' y' = Ok r' ->
  (forall l, In l (aletters R r) ->
     lookup e l < lookup (sizes R [(aletters R x, a_nd R x); (aletters R y, mk_nd (dshape (adims y)) (map g (avals y)))]) l) ->
  (forall l, In l (aletters R r') ->
     lookup e l < lookup (sizes R [(aletters R x', a_nd R x'); (aletters R y', mk_nd (dshape (adims y')) (map g (avals y')))]) l) ->
  den R rO r e = den R rO r' e /\ Permutation (adims r) (adims r').
Proof. exact mul_congr. Qed.
Print Assumptions C04_product_independent_of_storage_order.

Theorem C04_entrywise_maps_commute_with_labels :
  forall (R : Type) (rO : R) (g : R -> R) (y : farr R) e, wf R y -> env_ok R y e ->
  den_nd R rO (aletters R y) (mk_nd (dshape (adims y)) (map g (avals y))) e = g (den R rO y e).
Proof. exact den_map. Qed.
Print Assumptions C04_entrywise_maps_commute_with_labels.
