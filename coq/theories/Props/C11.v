(* C11 — DataFrame import is faithful to labels under every supported layout.  Statements only.
   PARTIAL: the theorems are about logical rows (one label per dimension and a value); how pandas
   presents a layout (index / columns, names / letters / items, wide form, CSV text) is runtime
   and tied to the row level by the correspondence on every layout. *)
From Coq Require Import List Arith Bool.
Import ListNotations.
From Flodym Require Import Base.ND Np.Einsum Model.Dims Model.Array Model.DF Proofs.DFProofs.

(* to_df: one row per entry, in row-major order, each under its true labels; sparse: exactly the non-zero ones *)
Theorem C11_to_df_lists_every_entry_once_under_its_labels :
  forall (R : Type) (rO : R) (is_zero : R -> bool) sparse (a : farr R),
  to_rows R rO is_zero sparse a
  = map (fun idx => mk_row R (labels_of (adims a) idx) (Some (get rO (dshape (adims a)) (avals a) idx)))
        (filter (fun idx => negb (sparse && is_zero (get rO (dshape (adims a)) (avals a) idx))) (all_idx (dshape (adims a)))).
Proof. exact to_rows_spec. Qed.
Print Assumptions C11_to_df_lists_every_entry_once_under_its_labels.

(* the round trip: importing the exported rows returns the identical array — for every rank, every
   dimension lengths, all values; items unique within each dimension *)
Theorem C11_roundtrip_long_layout :
  forall (R : Type) (rO : R) (is_zero : R -> bool) (a : farr R),
  items_unique (adims a) -> length (avals a) = size (dshape (adims a)) ->
  import_rows R rO true 0 (adims a) false false false false (to_rows R rO is_zero false a) = Ok (avals a).
Proof. exact roundtrip_long. Qed.
Print Assumptions C11_roundtrip_long_layout.

(* writing each position once gives the table: the placement step is position-exact *)
Theorem C11_placement_writes_each_position_once :
  forall (R : Type) sh (f : list nat -> R) (v : list R), length v = size sh ->
  fold_left (fun acc idx => Index.upd R acc (ravel sh idx) (f idx)) (all_idx sh) v = tab sh f.
Proof. exact fold_upd_all_idx. Qed.
Print Assumptions C11_placement_writes_each_position_once.
