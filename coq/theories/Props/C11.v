(* C11 — DataFrame import is faithful to labels under every supported layout.  Statements only.
   Two layers: (1) logical rows (one label per dimension and a value): export, import, round trip;
   (2) the table as pandas holds it (index levels, column labels, cells) and the converter's layout recognition
   (Model/Detect.v: which index levels become columns, columns found by name / letter / items, long or wide,
   melting, one-item dimensions, type conversion), tied to from_df by the correspondence on every layout and
   every faulty table of C11 / C12.  Proved on layer 2: the table that to_df(index=False) produces is always
   recognised and read back into the identical array (C11_to_df_table_is_read_back); before the repair that was
   false (C11_value_column_taken_for_dimension_before_fix).  Wide / index layouts, CSV text and the remaining
   recognition paths are decided per layout by the correspondence. *)
From Coq Require Import List Arith Bool ZArith QArith Qcanon.
Import ListNotations.
Local Open Scope nat_scope.
From Flodym Require Import Base.ND Np.Einsum Model.Dims Model.Array Model.Instances Model.DF Model.Detect Proofs.DFProofs Proofs.DetectProofs Proofs.ImportSpec Proofs.DetectWide.
From Coq Require Import Permutation.

(* to_df: one row per entry, in row-major order, each under its true labels; sparse: exactly the non-zero ones *)
Theorem C11_to_df_lists_every_entry_once_under_its_labels :
  forall (R : Type) (rO : R) (is_zero : R -> bool) sparse (a : farr R),
  to_rows R rO is_zero sparse a
  = map (fun idx => mk_row R (labels_of (adims a) idx) (Some (get rO (dshape (adims a)) (avals a) idx)))
        (filter (fun idx => negb (sparse && is_zero (get rO (dshape (adims a)) (avals a) idx))) (all_idx (dshape (adims a)))).
Proof. exact to_rows_spec. Qed.
Print Assumptions C11_to_df_lists_every_entry_once_under_its_labels.

(* the round trip: importing the exported rows returns the identical array — for every rank, every
   dimension lengths, all values; items unique within each dimension *)
Theorem C11_roundtrip_long_layout :
  forall (R : Type) (rO : R) (is_zero : R -> bool) (a : farr R),
  items_unique (adims a) -> length (avals a) = size (dshape (adims a)) ->
  import_rows R rO true 0 (adims a) false false false false (to_rows R rO is_zero false a) = Ok (avals a).
Proof. exact roundtrip_long. Qed.
Print Assumptions C11_roundtrip_long_layout.

(* writing each position once gives the table: the placement step is position-exact *)
Theorem C11_placement_writes_each_position_once :
  forall (R : Type) sh (f : list nat -> R) (v : list R), length v = size sh ->
  fold_left (fun acc idx => Index.upd R acc (ravel sh idx) (f idx)) (all_idx sh) v = tab sh f.
Proof. exact fold_upd_all_idx. Qed.
Print Assumptions C11_placement_writes_each_position_once.

(* layer 2: the table of to_df(index=False) — one column per dimension labelled by its name, one value column —
   goes through the converter's layout recognition and comes back as the identical array, for all values *)
Theorem C11_to_df_table_is_read_back :
  forall (tds : list tdim) (vlab : ent) (venc : Qc -> ent) (a : fQ) (lo hi : Z),
  labels_ok tds vlab venc -> adims a = map td tds ->
  items_unique (map td tds) -> length (avals a) = size (dshape (map td tds)) ->
  convert true lo hi tds false false (long_table tds vlab venc a) = OValues (avals a).
Proof. exact detect_roundtrip_long. Qed.
Print Assumptions C11_to_df_table_is_read_back.

(* the genuine defect repaired by 683c446: counts 0, 1, 2 over the ages 0, 1, 2 *)
Theorem C11_value_column_taken_for_dimension_before_fix :
  convert false 1700%Z 2300%Z [ex_age] false false (long_table [ex_age] ex_vlab ex_venc ex_array) = ORefused
  /\ convert true 1700%Z 2300%Z [ex_age] false false (long_table [ex_age] ex_vlab ex_venc ex_array) = OValues (avals ex_array).
Proof. exact value_column_taken_for_dimension_before_fix. Qed.
Print Assumptions C11_value_column_taken_for_dimension_before_fix.

(* non-vacuity of labels_ok: time (int) x region (text), labels "time"=20 "region"=21 "t"=22 "r"=23 "value"=24 *)
Example ex_C11_labels_ok :
  labels_ok [mk_tdim (mk_dim 116 0 [2000; 2005]) 20 22 TInt; mk_tdim (mk_dim 114 1 [30; 31; 32]) 21 23 TStr]
            (mk_ent 24 None 24 VBad) (fun q => mk_ent 99 None 99 (VNum q)).
Proof.
  constructor.
  - simpl. repeat constructor; simpl; intuition discriminate.
  - intros d d' [<-|[<-|[]]] [<-|[<-|[]]]; simpl; discriminate.
  - intros d d' [<-|[<-|[]]] [<-|[<-|[]]]; simpl; intuition discriminate.
  - intros d [<-|[<-|[]]]; simpl; discriminate.
  - intros d [<-|[<-|[]]]; simpl; discriminate.
  - intros d [<-|[<-|[]]]; reflexivity.
  - intros d es [<-|[<-|[]]]; unfold same_items; simpl; [reflexivity|].
    destruct (all_some (map (coerce TStr) es)); reflexivity.
  - reflexivity.
Qed.

(* to_df() with its default index=True (the dimensions are the named levels of the index) *)
Theorem C11_to_df_indexed_table_is_read_back :
  forall (tds : list tdim) (vlab : ent) (venc : Qc -> ent) (rl : ent) (a : fQ) (lo hi : Z),
  tds <> [] -> labels_ok tds vlab venc -> adims a = map td tds ->
  items_unique (map td tds) -> length (avals a) = size (dshape (map td tds)) ->
  convert true lo hi tds false false (index_table tds vlab venc rl a) = OValues (avals a).
Proof. exact detect_roundtrip_index. Qed.
Print Assumptions C11_to_df_indexed_table_is_read_back.

(* "Whenever from_df returns at all, every entry it sets comes from the unique row carrying that entry's labels":
   for EVERY list of rows (any number, any order, any labels), default settings *)
Theorem C11_every_entry_comes_from_the_unique_row_with_its_labels :
  forall (R : Type) (rO : R) (ds : dimset) (rows : list (row R)) (v : list R), items_unique ds ->
  import_rows R rO true 0 ds false false false false rows = Ok v ->
  length v = size (dshape ds) /\
  forall idx, Forall2 lt idx (dshape ds) ->
    exists r, In r rows /\ r_labels R r = labels_of ds idx /\ r_value R r = Some (get rO (dshape ds) v idx)
              /\ (forall r', In r' rows -> r_labels R r' = labels_of ds idx -> r' = r).
Proof. exact import_every_entry_from_its_unique_row. Qed.
Print Assumptions C11_every_entry_comes_from_the_unique_row_with_its_labels.

(* what is accepted: exactly the tables with pairwise different, known label combinations, one row per entry, no empty value *)
Theorem C11_accepted_tables :
  forall (R : Type) (rO : R) (ds : dimset) (rows : list (row R)) (v : list R),
  import_rows R rO true 0 ds false false false false rows = Ok v <-> accepted R ds rows /\ v = place R rO ds rows.
Proof. exact import_accepts_iff. Qed.
Print Assumptions C11_accepted_tables.

(* the order of the rows is irrelevant, for the result and for a refusal *)
Theorem C11_row_order_is_irrelevant :
  forall (R : Type) (rO : R) (ds : dimset) (rows rows' : list (row R)) (v : list R), items_unique ds -> Permutation rows rows' ->
  import_rows R rO true 0 ds false false false false rows = Ok v ->
  import_rows R rO true 0 ds false false false false rows' = Ok v.
Proof. exact import_rows_any_order. Qed.
Print Assumptions C11_row_order_is_irrelevant.

Theorem C11_roundtrip_after_any_permutation_of_the_rows :
  forall (R : Type) (rO : R) (is_zero : R -> bool) (a : farr R) rows,
  items_unique (adims a) -> length (avals a) = size (dshape (adims a)) ->
  Permutation (to_rows R rO is_zero false a) rows ->
  import_rows R rO true 0 (adims a) false false false false rows = Ok (avals a).
Proof. exact roundtrip_any_row_order. Qed.
Print Assumptions C11_roundtrip_after_any_permutation_of_the_rows.

(* non-vacuity: a 2 x 2 table given in a scrambled order is accepted and placed by label *)
Example ex_C11_scrambled_rows :
  import_rows nat 0 true 0 [mk_dim 116 0 [2000; 2005]; mk_dim 114 1 [30; 31]] false false false false
    [mk_row nat [2005; 30] (Some 3); mk_row nat [2000; 31] (Some 2); mk_row nat [2005; 31] (Some 4); mk_row nat [2000; 30] (Some 1)]
  = Ok [1; 2; 3; 4].
Proof. vm_compute. reflexivity. Qed.

(* layer 2, wide layout: the table of to_df(dim_to_columns = D, index = False) — one column per other dimension labelled by its
   name, one column per item of D labelled by the item — is recognised as wide, melted, and read back into the identical
   array, for all values (also values that coincide with items), D at any position among the dimensions *)
Theorem C11_to_df_wide_table_is_read_back :
  forall (pre post : list tdim) (wd : tdim) (venc : Qc -> ent) (a : fQ) (lo hi : Z),
  wide_ok pre post wd venc -> adims a = map td (pre ++ wd :: post) ->
  items_unique (map td (pre ++ wd :: post)) -> length (avals a) = size (dshape (map td (pre ++ wd :: post))) ->
  convert true lo hi (pre ++ wd :: post) false false (wide_table pre post wd venc a) = OValues (avals a).
Proof. exact detect_roundtrip_wide. Qed.
Print Assumptions C11_to_df_wide_table_is_read_back.

(* non-vacuity of wide_ok: time (int) kept as a column, region (text) spread over the columns *)
Example ex_C11_wide_ok :
  wide_ok [mk_tdim (mk_dim 116 0 [2000; 2005]) 20 22 TInt] [] (mk_tdim (mk_dim 114 1 [30; 31; 32]) 21 23 TStr)
          (fun q => mk_ent 99 None 99 (VNum q)).
Proof.
  constructor.
  - simpl. repeat constructor; simpl; intuition discriminate.
  - intros d d' [<-|[<-|[]]] [<-|[<-|[]]]; simpl; discriminate.
  - intros d d' [<-|[<-|[]]] [<-|[<-|[]]]; simpl; intuition discriminate.
  - intros it d Hit [<-|[<-|[]]]; simpl in *; intuition (subst; discriminate).
  - simpl. repeat constructor; simpl; intuition discriminate.
  - discriminate.
  - intros d [<-|[<-|[]]] H; [vm_compute in H; discriminate | reflexivity].
  - reflexivity.
Qed.

(* and the model run on a concrete wide table: 2 x 3 entries, the second item column holding the values 0 and 1 *)
Example ex_C11_wide_table_read_back :
  convert true 1700 2300 [mk_tdim (mk_dim 116 0 [2000; 2005]) 20 22 TInt; mk_tdim (mk_dim 114 1 [30; 31; 32]) 21 23 TStr] false false
    (wide_table [mk_tdim (mk_dim 116 0 [2000; 2005]) 20 22 TInt] [] (mk_tdim (mk_dim 114 1 [30; 31; 32]) 21 23 TStr)
                (fun q => mk_ent 99 None 99 (VNum q))
                (mk_farr [mk_dim 116 0 [2000; 2005]; mk_dim 114 1 [30; 31; 32]] [Q2Qc 1; Q2Qc 0; Q2Qc 3; Q2Qc 4; Q2Qc 1; Q2Qc 6]))
  = OValues [Q2Qc 1; Q2Qc 0; Q2Qc 3; Q2Qc 4; Q2Qc 1; Q2Qc 6].
Proof. vm_compute. reflexivity. Qed.
