(* C17 — recomputing a stock reflects its current inputs only.  Statements only. *)
From Coq Require Import List.
Import ListNotations.
From Flodym Require Import Model.Lifetime Proofs.C17Proofs.

(* For every history of set_prms / table reads on a lifetime-model object (any parameter and table
   types, any table function), the cached table is absent or the table of the CURRENT parameters. *)
Theorem C17_cache_invariant :
  forall (Prm Tab : Type) (table : Prm -> Tab) (p0 : Prm) (ops : list (lop Prm)),
  cache_ok Prm Tab table (fold_left (lstep Prm Tab table true) ops (lm_new Prm Tab p0)).
Proof. exact cache_inv. Qed.
Print Assumptions C17_cache_invariant.

(* Whatever compute() derives from the survival table, after any history it equals the result on a
   freshly built object holding the parameters of the last set_prms. *)
Theorem C17_recompute_equals_fresh :
  forall (Prm Tab : Type) (table : Prm -> Tab) (Res : Type) (compute : Tab -> Res) (p0 : Prm) (ops : list (lop Prm)),
  compute (snd (lm_sf Prm Tab table (fold_left (lstep Prm Tab table true) ops (lm_new Prm Tab p0))))
  = compute (snd (lm_sf Prm Tab table (lm_new Prm Tab (last_prms Prm p0 ops)))).
Proof. exact recompute_fresh. Qed.
Print Assumptions C17_recompute_equals_fresh.

Theorem C17_compute_twice_changes_nothing :
  forall (Prm Tab : Type) (table : Prm -> Tab) (m : lm Prm Tab),
  snd (lm_sf Prm Tab table (fst (lm_sf Prm Tab table m))) = snd (lm_sf Prm Tab table m).
Proof. exact compute_idempotent. Qed.
Print Assumptions C17_compute_twice_changes_nothing.

(* non-vacuity: a history with a read, a re-parameterisation and another read *)
Example ex_C17_history :
  snd (lm_sf nat nat (fun p => p * 10) (fold_left (lstep nat nat (fun p => p * 10) true) [LRead nat; LSetPrms nat 2; LRead nat] (lm_new nat nat 1))) = 20.
Proof. reflexivity. Qed.
