(* C02 — mass-balance and flow checks report exactly the violations.  Statements only. *)
From Coq Require Import List Arith Bool QArith Qcanon.
Import ListNotations.
From Flodym Require Import Base.ND Np.Einsum Model.Dims Model.Array Model.Instances Model.System Base.Env Proofs.ArrayLemmas Proofs.C02Proofs Proofs.FoldAdd Proofs.Lift Proofs.C02Closed.
Local Open Scope nat_scope.

(* For EVERY system graph (any processes, flows, stocks with or without process, processes without
   any flow) and every tolerance: check_mass_balance succeeds exactly when every process has a
   computable, NaN-free balance whose largest magnitude is within the tolerance. *)
Theorem C02_mass_balance_success_iff :
  forall (factor : Qc) (s : system) (t : Qc),
  check_mass_balance_v sys_current factor s (Some t) = VSuccess
  <-> forall p, p < sy_nproc s -> exists e, proc_error sys_current s p = Ok (Some e) /\ Qc_leb e t = true.
Proof. exact check_mb_iff. Qed.
Print Assumptions C02_mass_balance_success_iff.

Theorem C02_nan_balance_is_never_success :
  forall (factor : Qc) (s : system) (t : Qc) p,
  p < sy_nproc s -> proc_error sys_current s p = Ok None ->
  check_mass_balance_v sys_current factor s (Some t) <> VSuccess.
Proof. exact nan_balance_fails. Qed.
Print Assumptions C02_nan_balance_is_never_success.

(* check_flows: flagged = the non-excepted flows holding a NaN, resp. an entry below minus the
   default tolerance (factor x eps x largest finite flow or stock magnitude); never crashes *)
Theorem C02_check_flows_flags_exactly :
  forall factor s excepted,
  let fl := filter (fun f => negb (excepted f)) (sy_flows s) in
  let t := Qcmult factor (Qcmult eps64 (largest_magnitude s)) in
  check_flows_v sys_current factor s excepted
  = FResult (map f_name (filter has_nan fl)) (map f_name (filter (has_below t) fl)).
Proof. exact check_flows_spec. Qed.
Print Assumptions C02_check_flows_flags_exactly.

(* non-vacuity: a two-process system with a balanced pair of flows succeeds, the same with one
   flow doubled fails *)
Example ex_C02 :
  let d := [mk_dim 116 0 [0; 1]] in
  let a v := mk_farr d [Some (q v 1%positive); Some (q 3%Z 1%positive)] in
  check_mass_balance_v sys_current (q 100%Z 1%positive) (mk_system 2 [mk_flow 0 0 1 (a 2%Z); mk_flow 1 1 0 (a 2%Z)] []) (Some (q 1%Z 1000%positive)) = VSuccess
  /\ check_mass_balance_v sys_current (q 100%Z 1%positive) (mk_system 2 [mk_flow 0 0 1 (a 4%Z); mk_flow 1 1 0 (a 2%Z)] []) (Some (q 1%Z 1000%positive)) = VFailed [0; 1].
Proof. vm_compute. split; reflexivity. Qed.

(* What the balance IS, for every NaN-free system: its dimensions are those common to all of the
   process's contributions (in the first contribution's order), and its entry under the labels [e] is the sum
   over the contributions — minus each flow leaving, plus each flow entering, minus the net addition of each
   attached stock, plus the net addition of every stock booked on the system environment — of the contribution
   summed over all labels of its other dimensions.  ([qcontributions] lists them; [lift_sys] is the system
   with those values; G gives the length of every dimension letter.) *)
Theorem C02_balance_is_sum_of_contribution_marginals :
  forall (s : qsystem) (p : nat) (G : env) (c1 : qarr) (cs : list qarr) (b : fO),
  qcontributions s p = Ok (c1 :: cs) ->
  Forall (wf Qc) (c1 :: cs) -> Forall (agree Qc G) (c1 :: cs) ->
  balance (lift_sys s) p = Ok (Some b) ->
  exists r : qarr,
    b = qlift r
    /\ adims r = filter (fun d => forallb (fun c => memb (dletter d) (aletters Qc c)) cs) (adims c1)
    /\ forall e, in_range G e (aletters Qc r) ->
         den Qc 0%Qc r e = msum Qc 0%Qc Qcplus (c1 :: cs) (aletters Qc r) e.
Proof. exact balance_closed_form. Qed.
Print Assumptions C02_balance_is_sum_of_contribution_marginals.

Theorem C02_process_without_contribution_balances_to_zero :
  forall (s : qsystem) (p : nat),
  qcontributions s p = Ok [] -> balance (lift_sys s) p = Ok (Some (mk_farr [] [o0])).
Proof. exact balance_empty. Qed.
Print Assumptions C02_process_without_contribution_balances_to_zero.

(* the closed form for sums of arrays of differing dimensionality, for every commutative ring *)
Theorem C02_sum_of_arrays_reduces_to_common_dimensions :
  forall (R : Type) (rO rI : R) (radd rmul rsub : R -> R -> R) (ropp : R -> R),
  Ring_theory.ring_theory rO rI radd rmul rsub ropp eq ->
  forall (G : env) (p1 : farr R) (ps : list (farr R)) (r : farr R),
  Forall (wf R) (p1 :: ps) -> Forall (agree R G) (p1 :: ps) ->
  g_sum R rO rI radd rmul (p1 :: ps) = Ok (Some r) ->
  adims r = filter (fun d => forallb (fun p => memb (dletter d) (aletters R p)) ps) (adims p1)
  /\ forall e, in_range G e (aletters R r) -> den R rO r e = msum R rO radd (p1 :: ps) (aletters R r) e.
Proof. exact g_sum_spec. Qed.
Print Assumptions C02_sum_of_arrays_reduces_to_common_dimensions.

(* non-vacuity of the closed form: process 1 receives a flow over (t, r), sends a flow over (t) and holds a
   stock over (t); the premises hold and the balance is computed *)
Example ex_C02_closed :
  let dt := mk_dim 116 0 [0; 1] in let dr := mk_dim 114 1 [0; 1; 2] in
  let G := [(116, 2); (114, 3)] in
  let f1 := mk_farr [dt; dr] (map (fun z => q z 1%positive) [1; 2; 3; 4; 5; 6]%Z) in
  let f2 := mk_farr [dt] (map (fun z => q z 1%positive) [5; 13]%Z) in
  let si := mk_farr [dt] (map (fun z => q z 1%positive) [2; 3]%Z) in
  let so := mk_farr [dt] (map (fun z => q z 1%positive) [1; 1]%Z) in
  let s := mk_qsystem 2 [mk_qflow 0 0 1 f1; mk_qflow 1 1 0 f2] [mk_qstock (Some 1) si so si] in
  exists c1 cs b,
    qcontributions s 1 = Ok (c1 :: cs) /\ length cs = 2
    /\ Forall (agree Qc G) (c1 :: cs)
    /\ balance (lift_sys s) 1 = Ok (Some b) /\ avals b = [Some (q 0 1%positive); Some (q 0 1%positive)].
Proof.
  cbv zeta. do 3 eexists. split; [vm_compute; reflexivity|]. split; [reflexivity|].
  split; [|split; vm_compute; reflexivity].
  repeat constructor; intros d Hd; simpl in Hd; repeat (destruct Hd as [<-|Hd]; [reflexivity|]); contradiction.
Qed.
