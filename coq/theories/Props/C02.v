(* C02 — mass-balance and flow checks report exactly the violations.  Statements only. *)
From Coq Require Import List Arith Bool QArith Qcanon.
Import ListNotations.
From Flodym Require Import Base.ND Np.Einsum Model.Dims Model.Array Model.Instances Model.System Proofs.C02Proofs.
Local Open Scope nat_scope.

(* For EVERY system graph (any processes, flows, stocks with or without process, processes without
   any flow) and every tolerance: check_mass_balance succeeds exactly when every process has a
   computable, NaN-free balance whose largest magnitude is within the tolerance. *)
Theorem C02_mass_balance_success_iff :
  forall (factor : Qc) (s : system) (t : Qc),
  check_mass_balance_v sys_current factor s (Some t) = VSuccess
  <-> forall p, p < sy_nproc s -> exists e, proc_error sys_current s p = Ok (Some e) /\ Qc_leb e t = true.
Proof. exact check_mb_iff. Qed.
Print Assumptions C02_mass_balance_success_iff.

Theorem C02_nan_balance_is_never_success :
  forall (factor : Qc) (s : system) (t : Qc) p,
  p < sy_nproc s -> proc_error sys_current s p = Ok None ->
  check_mass_balance_v sys_current factor s (Some t) <> VSuccess.
Proof. exact nan_balance_fails. Qed.
Print Assumptions C02_nan_balance_is_never_success.

(* check_flows: flagged = the non-excepted flows holding a NaN, resp. an entry below minus the
   default tolerance (factor x eps x largest finite flow or stock magnitude); never crashes *)
Theorem C02_check_flows_flags_exactly :
  forall factor s excepted,
  let fl := filter (fun f => negb (excepted f)) (sy_flows s) in
  let t := Qcmult factor (Qcmult eps64 (largest_magnitude s)) in
  check_flows_v sys_current factor s excepted
  = FResult (map f_name (filter has_nan fl)) (map f_name (filter (has_below t) fl)).
Proof. exact check_flows_spec. Qed.
Print Assumptions C02_check_flows_flags_exactly.

(* non-vacuity: a two-process system with a balanced pair of flows succeeds, the same with one
   flow doubled fails *)
Example ex_C02 :
  let d := [mk_dim 116 0 [0; 1]] in
  let a v := mk_farr d [Some (q v 1%positive); Some (q 3%Z 1%positive)] in
  check_mass_balance_v sys_current (q 100%Z 1%positive) (mk_system 2 [mk_flow 0 0 1 (a 2%Z); mk_flow 1 1 0 (a 2%Z)] []) (Some (q 1%Z 1000%positive)) = VSuccess
  /\ check_mass_balance_v sys_current (q 100%Z 1%positive) (mk_system 2 [mk_flow 0 0 1 (a 4%Z); mk_flow 1 1 0 (a 2%Z)] []) (Some (q 1%Z 1000%positive)) = VFailed [0; 1].
Proof. vm_compute. split; reflexivity. Qed.
