(* C08 — survival tables are valid and equal the declared lifetime distribution.  Statements only.
   PARTIAL: that scipy.stats.{norm, foldnorm, lognorm, weibull_min}.sf compute the named survival
   functions is trusted (tested against closed forms by the harness); [S] below stands for them. *)
From Coq Require Import List Arith Bool QArith Reals.
Import ListNotations.
From Flodym Require Import Base.ND Model.Stocks Model.Lifetime Proofs.C08Proofs.

(* the quadrature tables of the CURRENT source (regenerated on every run), all rules n = 2..10:
   n nodes from -1 to 1, strictly increasing, antisymmetric; positive symmetric weights summing to 2;
   exact for every polynomial of degree <= 2n-3 (which characterises the n-point Gauss-Lobatto rule) *)
Theorem C08_gauss_lobatto_tables : forallb rule_ok (seq 2 9) = true.
Proof. exact gl_tables_ok. Qed.
Print Assumptions C08_gauss_lobatto_tables.

Theorem C08_quadrature_on_unit_interval : forallb mapped_ok (seq 2 9) = true.
Proof. exact gl_mapped_ok. Qed.
Print Assumptions C08_quadrature_on_unit_interval.

Theorem C08_single_point_and_limit :
  quad_points_Q 1 AtStart = Some [(0, 1)]%Q /\ quad_points_Q 1 AtMiddle = Some [(1 # 2, 1)]%Q
  /\ quad_points_Q 1 AtEnd = Some [(1, 1)]%Q /\ quad_points_Q 11 AtMiddle = None.
Proof. exact quad_single_point. Qed.
Print Assumptions C08_single_point_and_limit.

(* structure of the table for ANY survival function S, any bounds, quadrature, parameters *)
Theorem C08_zero_for_later_cohorts :
  forall (P : Type) (S : R -> P -> R) b quad prm (t c : nat), (t < c)%nat ->
  sf_entry R 0%R 1%R Rplus Rmult Rminus P S b quad prm t c = 0%R.
Proof. exact sf_upper_zero. Qed.
Print Assumptions C08_zero_for_later_cohorts.

Theorem C08_entry_is_survival_at_age_to_end_of_year :
  forall (P : Type) (S : R -> P -> R) b quad prm (t c : nat), (c <= t)%nat ->
  sf_entry R 0%R 1%R Rplus Rmult Rminus P S b quad prm t c
  = sum 0%R Rplus (map (fun ew => (snd ew * S (age R 0%R 1%R Rplus Rmult Rminus b t c (fst ew)) (prm c))%R) quad).
Proof. exact sf_entry_spec. Qed.
Print Assumptions C08_entry_is_survival_at_age_to_end_of_year.

Theorem C08_in_unit_interval :
  forall (P : Type) (S : R -> P -> R) b quad prm (t c : nat),
  (forall a p, (0 <= S a p <= 1)%R) -> Forall (fun ew => (0 <= snd ew)%R) quad ->
  (0 <= sf_entry R 0%R 1%R Rplus Rmult Rminus P S b quad prm t c <= sum 0%R Rplus (map snd quad))%R.
Proof. exact sf_range. Qed.
Print Assumptions C08_in_unit_interval.

Theorem C08_never_increases_with_age :
  forall (P : Type) (S : R -> P -> R) b quad prm (t c : nat),
  (forall a a' p, (a <= a')%R -> (S a' p <= S a p)%R) -> Forall (fun ew => (0 <= snd ew)%R) quad ->
  (c <= t)%nat -> (nthF R 0%R b (Datatypes.S t) <= nthF R 0%R b (Datatypes.S (Datatypes.S t)))%R ->
  (sf_entry R 0%R 1%R Rplus Rmult Rminus P S b quad prm (Datatypes.S t) c
   <= sf_entry R 0%R 1%R Rplus Rmult Rminus P S b quad prm t c)%R.
Proof. exact sf_antitone. Qed.
Print Assumptions C08_never_increases_with_age.

(* survival + cumulated outflow probabilities = 1 : see C09_cohort_conserved / pdf_telescopes *)

(* log-normal: the parameters handed to scipy are those of the distribution with the GIVEN mean and std *)
Theorem C08_lognormal_given_by_its_own_mean_and_std :
  forall m s : R, (0 < m)%R -> (0 < s)%R ->
  let mu := ln (m*m / sqrt (m*m + s*s)) in let sg := sqrt (ln (1 + s*s/(m*m))) in
  (exp (mu + sg*sg/2) = m /\ (exp (sg*sg) - 1) * exp (2*mu + sg*sg) = s*s)%R.
Proof. exact lognormal_moments. Qed.
Print Assumptions C08_lognormal_given_by_its_own_mean_and_std.
