(* C08 — survival tables are valid and equal the declared lifetime distribution.  Statements only.
   PARTIAL: that scipy.stats.{norm, foldnorm, lognorm, weibull_min}.sf compute the named survival
   functions is trusted (tested against closed forms by the harness); [S] below stands for them. *)
From Coq Require Import List Arith Bool QArith Reals.
Import ListNotations.
From Flodym Require Import Base.ND Model.Stocks Model.Lifetime Proofs.C08Proofs Proofs.StockAlgebra.
From Coq Require Import Lra Lia RealField.

(* the quadrature tables of the CURRENT source (regenerated on every run), all rules n = 2..10:
   n nodes from -1 to 1, strictly increasing, antisymmetric; positive symmetric weights summing to 2;
   exact for every polynomial of degree <= 2n-3 (which characterises the n-point Gauss-Lobatto rule) *)
Theorem C08_gauss_lobatto_tables : forallb rule_ok (seq 2 9) = true.
Proof. exact gl_tables_ok. Qed.
Print Assumptions C08_gauss_lobatto_tables.

Theorem C08_quadrature_on_unit_interval : forallb mapped_ok (seq 2 9) = true.
Proof. exact gl_mapped_ok. Qed.
Print Assumptions C08_quadrature_on_unit_interval.

Theorem C08_single_point_and_limit :
  quad_points_Q 1 AtStart = Some [(0, 1)]%Q /\ quad_points_Q 1 AtMiddle = Some [(1 # 2, 1)]%Q
  /\ quad_points_Q 1 AtEnd = Some [(1, 1)]%Q /\ quad_points_Q 11 AtMiddle = None.
Proof. exact quad_single_point. Qed.
Print Assumptions C08_single_point_and_limit.

(* structure of the table for ANY survival function S, any bounds, quadrature, parameters *)
Theorem C08_zero_for_later_cohorts :
  forall (P : Type) (S : R -> P -> R) b quad prm (t c : nat), (t < c)%nat ->
  sf_entry R 0%R 1%R Rplus Rmult Rminus P S b quad prm t c = 0%R.
Proof. exact sf_upper_zero. Qed.
Print Assumptions C08_zero_for_later_cohorts.

Theorem C08_entry_is_survival_at_age_to_end_of_year :
  forall (P : Type) (S : R -> P -> R) b quad prm (t c : nat), (c <= t)%nat ->
  sf_entry R 0%R 1%R Rplus Rmult Rminus P S b quad prm t c
  = sum 0%R Rplus (map (fun ew => (snd ew * S (age R 0%R 1%R Rplus Rmult Rminus b t c (fst ew)) (prm c))%R) quad).
Proof. exact sf_entry_spec. Qed.
Print Assumptions C08_entry_is_survival_at_age_to_end_of_year.

Theorem C08_in_unit_interval :
  forall (P : Type) (S : R -> P -> R) b quad prm (t c : nat),
  (forall a p, (0 <= S a p <= 1)%R) -> Forall (fun ew => (0 <= snd ew)%R) quad ->
  (0 <= sf_entry R 0%R 1%R Rplus Rmult Rminus P S b quad prm t c <= sum 0%R Rplus (map snd quad))%R.
Proof. exact sf_range. Qed.
Print Assumptions C08_in_unit_interval.

Theorem C08_never_increases_with_age :
  forall (P : Type) (S : R -> P -> R) b quad prm (t c : nat),
  (forall a a' p, (a <= a')%R -> (S a' p <= S a p)%R) -> Forall (fun ew => (0 <= snd ew)%R) quad ->
  (c <= t)%nat -> (nthF R 0%R b (Datatypes.S t) <= nthF R 0%R b (Datatypes.S (Datatypes.S t)))%R ->
  (sf_entry R 0%R 1%R Rplus Rmult Rminus P S b quad prm (Datatypes.S t) c
   <= sf_entry R 0%R 1%R Rplus Rmult Rminus P S b quad prm t c)%R.
Proof. exact sf_antitone. Qed.
Print Assumptions C08_never_increases_with_age.

(* survival(t,c) + sum of the outflow probabilities up to t = 1, for every table that is zero for cohorts later than the year
   (the outflow-probability table being the negative differences of the survival table, 1 - survival on the diagonal) *)
Theorem C08_survival_plus_cumulated_outflow_probabilities_is_one :
  forall (sf : nat -> nat -> R), (forall t c, (t < c)%nat -> sf t c = 0%R) ->
  forall c t, (c <= t)%nat ->
  (sf t c + ssum R 0%R Rplus (Datatypes.S t) (fun tau => pdf R 0%R 1%R Rminus sf tau c) = 1)%R.
Proof. intros sf Hl c t H. apply (pdf_telescopes R 0%R 1%R Rplus Rmult Rminus Ropp Rdiv Rinv RealField.Rfield); assumption. Qed.
Print Assumptions C08_survival_plus_cumulated_outflow_probabilities_is_one.

(* ... and every outflow probability is non-negative as soon as the survival table starts at most at 1 and never increases with age
   (which C08_in_unit_interval and C08_never_increases_with_age give for every non-increasing survival function with values in [0,1]) *)
Theorem C08_outflow_probabilities_are_nonnegative :
  forall (sf : nat -> nat -> R), (forall c, (sf c c <= 1)%R) -> (forall t c, (c <= t)%nat -> (sf (Datatypes.S t) c <= sf t c)%R) ->
  forall t c, (0 <= pdf R 0%R 1%R Rminus sf t c)%R.
Proof.
  intros sf Hd Ha t c. unfold pdf.
  destruct (Nat.ltb_spec t c) as [Hlt|Hge]; [apply Rle_refl|].
  destruct (Nat.eqb_spec t c) as [->|Hne].
  - specialize (Hd c). lra.
  - destruct t as [|t']; [lia|]. replace (Datatypes.S t' - 1)%nat with t' by lia.
    assert (Hc : (c <= t')%nat) by lia. specialize (Ha t' c Hc). lra.
Qed.
Print Assumptions C08_outflow_probabilities_are_nonnegative.

(* log-normal: the parameters handed to scipy are those of the distribution with the GIVEN mean and std *)
Theorem C08_lognormal_given_by_its_own_mean_and_std :
  forall m s : R, (0 < m)%R -> (0 < s)%R ->
  let mu := ln (m*m / sqrt (m*m + s*s)) in let sg := sqrt (ln (1 + s*s/(m*m))) in
  (exp (mu + sg*sg/2) = m /\ (exp (sg*sg) - 1) * exp (2*mu + sg*sg) = s*s)%R.
Proof. exact lognormal_moments. Qed.
Print Assumptions C08_lognormal_given_by_its_own_mean_and_std.

(* for the survival table itself: any survival function with values in [0,1] that never increases with age, any quadrature with
   non-negative weights summing to one (C08_gauss_lobatto_tables / C08_quadrature_on_unit_interval), any non-decreasing interval bounds *)
Theorem C08_outflow_probabilities_of_the_table_are_nonnegative :
  forall (P : Type) (S : R -> P -> R) b quad prm,
  (forall a p, (0 <= S a p <= 1)%R) -> (forall a a' p, (a <= a')%R -> (S a' p <= S a p)%R) ->
  Forall (fun ew => (0 <= snd ew)%R) quad -> sum 0%R Rplus (map snd quad) = 1%R ->
  (forall t, (nthF R 0%R b (Datatypes.S t) <= nthF R 0%R b (Datatypes.S (Datatypes.S t)))%R) ->
  forall t c, (0 <= pdf R 0%R 1%R Rminus (sf_entry R 0%R 1%R Rplus Rmult Rminus P S b quad prm) t c)%R.
Proof.
  intros P S b quad prm H01 Hanti Hw Hsum Hb. apply C08_outflow_probabilities_are_nonnegative.
  - intros c. destruct (C08_in_unit_interval P S b quad prm c c H01 Hw) as [_ Hle]. rewrite Hsum in Hle. exact Hle.
  - intros t c Hc. apply C08_never_increases_with_age; auto.
Qed.
Print Assumptions C08_outflow_probabilities_of_the_table_are_nonnegative.
