(* C12 — data import refuses incomplete or inconsistent data unless told otherwise.  Statements only.
   The theorems quantify over the whole row list: a fault at ANY position and in any combination. *)
From Coq Require Import List Arith Bool.
Import ListNotations.
From Flodym Require Import Base.ND Np.Einsum Model.Dims Model.Array Model.DF Proofs.DFProofs Proofs.ImportSpec.

Section G.
Variable R : Type.
Variable rO : R.
Notation import := (import_rows R rO true 0).

Theorem C12_refuses_missing_dimension_column_and_unmatched_value_columns :
  forall ds om um am ae rows, om || um = true -> import ds om um am ae rows = Err.
Proof. exact (refuses_layout_faults R rO). Qed.

Theorem C12_refuses_unknown_item :
  forall ds am rows, forallb (fun r => known ds (r_labels R r)) rows = false ->
  import ds false false am false rows = Err.
Proof. exact (refuses_unknown_item R rO). Qed.

Theorem C12_refuses_duplicated_combination :
  forall ds am rows, has_dup (map (r_labels R) rows) = true -> import ds false false am false rows = Err.
Proof. exact (refuses_duplicate R rO). Qed.

Theorem C12_refuses_missing_combination :
  forall ds rows, length rows <> size (dshape ds) -> import ds false false false false rows = Err.
Proof. exact (refuses_wrong_row_count R rO). Qed.

Theorem C12_refuses_empty_value :
  forall ds rows, existsb (fun r => match r_value R r with None => true | _ => false end) rows = true ->
  import ds false false false false rows = Err.
Proof. exact (refuses_empty_value R rO). Qed.

(* allow_extra_values: rows carrying unknown items are ignored and nothing else changes *)
Theorem C12_allow_extra_ignores_rows_with_unknown_items :
  forall ds om um am rows,
  import ds om um am true rows = import ds om um am false (filter (fun r => known ds (r_labels R r)) rows).
Proof. exact (allow_extra_is_a_filter R rO). Qed.
(* with default settings a table is accepted EXACTLY when its label combinations are pairwise different and known, there is one row per
   entry and no value is empty; what is returned is the placement of the rows *)
Theorem C12_default_settings_accept_exactly :
  forall ds rows v, import ds false false false false rows = Ok v <-> accepted R ds rows /\ v = place R rO ds rows.
Proof. exact (import_accepts_iff R rO). Qed.

(* allow_missing_values: accepted exactly when the label combinations are pairwise different and known; the missing or empty entries
   become zero and every present entry is placed under its labels *)
Theorem C12_allow_missing_accepts_exactly :
  forall ds rows v, import ds false false true false rows = Ok v <-> accepted_partial R ds rows /\ v = place R rO ds rows.
Proof. exact (import_allow_missing_iff R rO). Qed.

Theorem C12_allow_missing_zero_fills_and_places_by_label :
  forall ds rows v, items_unique ds -> import ds false false true false rows = Ok v ->
  length v = size (dshape ds) /\
  forall idx, Forall2 lt idx (dshape ds) ->
    (exists r, In r rows /\ r_labels R r = labels_of ds idx /\ get rO (dshape ds) v idx = val R rO r)
    \/ ((forall r, In r rows -> r_labels R r <> labels_of ds idx) /\ get rO (dshape ds) v idx = rO).
Proof.
  intros ds rows v Hu E. apply (import_allow_missing_iff R rO) in E. destruct E as [Ha ->]. apply place_partial; assumption.
Qed.

(* both flags together: the rows with unknown items are set aside, what is left is accepted exactly when its label combinations
   are pairwise different, and is then placed under its labels with zeros elsewhere *)
Theorem C12_allow_missing_and_allow_extra_accept_exactly :
  forall ds rows v,
  let kept := filter (fun r => known ds (r_labels R r)) rows in
  import ds false false true true rows = Ok v <-> NoDup (map (r_labels R) kept) /\ v = place R rO ds kept.
Proof.
  intros ds rows v kept. rewrite (allow_extra_is_a_filter R rO). fold kept.
  rewrite (import_allow_missing_iff R rO). split.
  - intros [[Hn _] E]. split; assumption.
  - intros [Hn E]. split; [|exact E]. constructor; [exact Hn|].
    intros r Hr. unfold kept in Hr. apply filter_In in Hr. exact (proj2 Hr).
Qed.

(* allow_extra alone: what is left after setting the rows with unknown items aside must be complete *)
Theorem C12_allow_extra_accepts_exactly :
  forall ds rows v,
  let kept := filter (fun r => known ds (r_labels R r)) rows in
  import ds false false false true rows = Ok v <-> accepted R ds kept /\ v = place R rO ds kept.
Proof.
  intros ds rows v kept. rewrite (allow_extra_is_a_filter R rO). fold kept. apply (import_accepts_iff R rO).
Qed.
End G.
Print Assumptions C12_default_settings_accept_exactly.
Print Assumptions C12_allow_missing_accepts_exactly.
Print Assumptions C12_allow_missing_zero_fills_and_places_by_label.
Print Assumptions C12_refuses_missing_dimension_column_and_unmatched_value_columns.
Print Assumptions C12_refuses_unknown_item.
Print Assumptions C12_refuses_duplicated_combination.
Print Assumptions C12_refuses_missing_combination.
Print Assumptions C12_refuses_empty_value.
Print Assumptions C12_allow_extra_ignores_rows_with_unknown_items.
Print Assumptions C12_allow_missing_and_allow_extra_accept_exactly.
Print Assumptions C12_allow_extra_accepts_exactly.

(* before the repair: two identical rows with an unknown item made the import fail although extra rows are allowed *)
Example ex_C12_dup_before_filter :
  let ds := [mk_dim 116 0 [0; 1]] in
  let rows := [mk_row nat [7] (Some 1); mk_row nat [7] (Some 1); mk_row nat [0] (Some 2); mk_row nat [1] (Some 3)] in
  import_rows nat 0 false 0 ds false false false true rows = Err
  /\ import_rows nat 0 true 0 ds false false false true rows = Ok [2; 3].
Proof. vm_compute. split; reflexivity. Qed.

(* non-vacuity: two of four entries present (one of them empty), allow_missing_values *)
Example ex_C12_allow_missing :
  import_rows nat 0 true 0 [mk_dim 116 0 [2000; 2005]; mk_dim 114 1 [30; 31]] false false true false
    [mk_row nat [2005; 30] (Some 3); mk_row nat [2000; 31] None] = Ok [0; 0; 3; 0].
Proof. vm_compute. reflexivity. Qed.
