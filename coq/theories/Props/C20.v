From Flodym Require Import Base.ND.
Theorem placeholder : True. Proof. exact I. Qed.
Print Assumptions placeholder.
