(* C20 — Sankey and line plots show the system's numbers under the right labels.  Statements only.
   PARTIAL: figure assembly (which links with which end points and values; which lines) is modelled
   and the assembly facts below are proved; rendering is plotly's / matplotlib's runtime. *)
From Coq Require Import List Arith ZArith QArith Qcanon.
Import ListNotations.
From Flodym Require Import Base.ND Base.Env Np.Einsum Model.Dims Model.Array Model.SubArray Model.Instances Model.Export Proofs.ExportProofs Proofs.SankeyCount.

Theorem C20_links_run_between_the_right_nodes_with_the_sliced_total :
  forall procs ep slice items_of f ls, links_of procs ep slice items_of f = Ok ls ->
  (forall l, In l ls -> node_of procs ep (sf_from f) = Some (sl_source l) /\ node_of procs ep (sf_to f) = Some (sl_target l))
  /\ (sf_split f = None -> exists fs,
        getitem Qc QO (sf_arr f) (KDict (map (fun kv => (KLetter (fst kv), ISingle (snd kv)))
                                          (filter (fun kv => memb (fst kv) (aletters Qc (sf_arr f))) slice))) = Ok fs
        /\ ls = [mk_slink (match node_of procs ep (sf_from f) with Some s => s | None => 0%nat end)
                          (match node_of procs ep (sf_to f) with Some t => t | None => 0%nat end) (sf_name f) (sum_all fs)]).
Proof. exact links_of_spec. Qed.
Print Assumptions C20_links_run_between_the_right_nodes_with_the_sliced_total.

Theorem C20_node_is_position_among_shown_processes :
  forall procs ep pid i, node_of procs ep pid = Some i -> nth_error (map snd (shown_processes procs ep)) i = Some pid.
Proof. exact node_is_position_among_shown. Qed.
Print Assumptions C20_node_is_position_among_shown_processes.

Theorem C20_excluded_processes_are_not_nodes :
  forall procs ep p, In p (shown_processes procs ep) -> ~ In (fst p) ep.
Proof. exact excluded_process_is_not_a_node. Qed.
Print Assumptions C20_excluded_processes_are_not_nodes.

Theorem C20_hidden_flows_have_no_link :
  forall procs ep ef slice items_of flows f ls,
  sankey_links procs ep ef slice items_of flows = Ok ls -> flow_is_shown procs ep ef f = false ->
  ~ In f (filter (flow_is_shown procs ep ef) flows).
Proof. exact hidden_flow_has_no_link. Qed.
Print Assumptions C20_hidden_flows_have_no_link.

(* one link per shown flow, in the flows' order, labelled by the flow — and none for hidden flows (flows not split by a dimension) *)
Theorem C20_one_link_per_shown_flow :
  forall procs ep ef slice items_of flows ls,
  (forall f, In f flows -> sf_split f = None) ->
  sankey_links procs ep ef slice items_of flows = Ok ls ->
  map sl_label ls = map sf_name (filter (flow_is_shown procs ep ef) flows).
Proof. exact sankey_one_link_per_shown_flow. Qed.
Print Assumptions C20_one_link_per_shown_flow.
