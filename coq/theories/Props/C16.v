(* C16 — dynamic stock models are causal, linear and independent across labels.  Statements only.
   Label independence: the model of Model/Stocks.v computes ONE label column from that column's
   driver, parameters and survival table only; the correspondence checks that every column of the
   implementation's multi-label result equals this model (Corr/StocksC.v), i.e. no cross-talk. *)
From Coq Require Import List Arith Field_theory.
Import ListNotations.
From Flodym Require Import Base.ND Model.Stocks Model.Lifetime Proofs.StockAlgebra Proofs.StockModel Proofs.StockRoundtrip Proofs.C16More.

Section G.
Variable F : Type.
Variables (fO fI : F) (fadd fmul fsub : F -> F -> F) (fopp : F -> F) (fdiv : F -> F -> F) (finv : F -> F).
Variable Fth : field_theory fO fI fadd fmul fsub fopp fdiv finv eq.
Notation nthF := (nthF F fO).
Notation nth2 := (nth2 F fO).

(* causality, inflow-driven: the stock at step t is a sum over cohorts <= t only *)
Theorem C16_inflow_driven_causal :
  forall (sf : nat -> nat -> F) n, (forall t c, t < c -> sf t c = fO) -> forall w t, t < n ->
  stock F fO fadd fmul sf n w t = ssum F fO fadd (S t) (fun c => fmul (w c) (sf t c)).
Proof. intros; eapply stock_causal; eauto. Qed.

(* causality, stock-driven: prescribed stocks that agree on the first k steps give the same first k inflows *)
Theorem C16_stock_driven_causal :
  forall sf b b' m k, k <= m -> (forall j, j < k -> nthF b j = nthF b' j) ->
  forall j, j < k -> nthF (fs F fO fadd fmul fsub fdiv sf b m) j = nthF (fs F fO fadd fmul fsub fdiv sf b' m) j.
Proof. intros; eapply fsolve_causal; eauto. Qed.

(* linearity (superposition and scaling) *)
Theorem C16_stock_linear_in_inflow :
  forall sf n a b w1 w2 t,
  stock F fO fadd fmul sf n (fun c => fadd (fmul a (w1 c)) (fmul b (w2 c))) t
  = fadd (fmul a (stock F fO fadd fmul sf n w1 t)) (fmul b (stock F fO fadd fmul sf n w2 t)).
Proof. intros; eapply stock_linear; eauto. Qed.

Theorem C16_outflow_linear_in_inflow :
  forall sf n dt a b w1 w2 t,
  outflow F fO fI fadd fmul fsub fdiv sf n (fun c => fadd (fmul a (w1 c)) (fmul b (w2 c))) dt t
  = fadd (fmul a (outflow F fO fI fadd fmul fsub fdiv sf n w1 dt t)) (fmul b (outflow F fO fI fadd fmul fsub fdiv sf n w2 dt t)).
Proof. intros; eapply outflow_linear; eauto. Qed.

Theorem C16_stock_driven_inflow_linear_in_stock :
  forall sf (b1 b2 b3 : list F) a c m,
  (forall j, j < m -> nthF b3 j = fadd (fmul a (nthF b1 j)) (fmul c (nthF b2 j))) ->
  (forall j, j < m -> nth2 sf j j <> fO) ->
  forall j, j < m -> nthF (fs F fO fadd fmul fsub fdiv sf b3 m) j
                   = fadd (fmul a (nthF (fs F fO fadd fmul fsub fdiv sf b1 m) j)) (fmul c (nthF (fs F fO fadd fmul fsub fdiv sf b2 m) j)).
Proof. intros; eapply fsolve_linear; eauto. Qed.
(* the stock response to a unit inflow rate in one cohort: that cohort's column of the survival table times its interval length *)
Theorem C16_unit_impulse_response :
  forall n dt inflow sf c0 t, length dt = n -> length inflow = n -> c0 < n -> t < n ->
  (forall c, c < n -> nthF inflow c = if Nat.eqb c c0 then fI else fO) ->
  nthF (o_stock F (idsm F fO fI fadd fmul fsub fdiv true n dt inflow sf)) t = fmul (nthF dt c0) (nth2 sf t c0).
Proof. intros; eapply idsm_unit_impulse; eauto. Qed.

(* shifting all time items by a constant: the interval lengths and the survival table of ANY distribution (its survival function S is
   a parameter) stay the same, hence everything computed from them; at least three time items, 2 <> 0 in the field *)
Theorem C16_calendar_shift_keeps_interval_lengths :
  fadd fI fI <> fO -> forall s items, 3 <= length items ->
  interval_lengths F fO fI fadd fsub fdiv (shift F fadd s items) = interval_lengths F fO fI fadd fsub fdiv items.
Proof. intros; eapply interval_lengths_shift; eauto. Qed.

Theorem C16_calendar_shift_keeps_survival_table :
  fadd fI fI <> fO -> forall (P : Type) (S : F -> P -> F) s items quad prm, 3 <= length items ->
  sf_table F fO fI fadd fmul fsub P S (length items) (bounds F fO fI fadd fsub fdiv (shift F fadd s items)) quad prm
  = sf_table F fO fI fadd fmul fsub P S (length items) (bounds F fO fI fadd fsub fdiv items) quad prm.
Proof. intros; eapply sf_table_shift; eauto. Qed.
End G.
Print Assumptions C16_unit_impulse_response.
Print Assumptions C16_calendar_shift_keeps_interval_lengths.
Print Assumptions C16_calendar_shift_keeps_survival_table.
Print Assumptions C16_inflow_driven_causal.
Print Assumptions C16_stock_driven_causal.
Print Assumptions C16_stock_linear_in_inflow.
Print Assumptions C16_outflow_linear_in_inflow.
Print Assumptions C16_stock_driven_inflow_linear_in_stock.
