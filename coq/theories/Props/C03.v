(* C03 — computed stocks conserve mass: stock change = net inflow x interval length.
   Statements only.  Generic over every field (Coq's field_theory), instantiated at the reals. *)
From Coq Require Import List Arith Field_theory Reals RealField.
Import ListNotations.
From Flodym Require Import Base.ND Model.Stocks Proofs.StockAlgebra Proofs.StockModel Proofs.StockRoundtrip Proofs.C03More.

Section G.
Variable F : Type.
Variables (fO fI : F) (fadd fmul fsub : F -> F -> F) (fopp : F -> F) (fdiv : F -> F -> F) (finv : F -> F).
Variable Fth : field_theory fO fI fadd fmul fsub fopp fdiv finv eq.
Notation nthF := (nthF F fO).
Notation nth2 := (nth2 F fO).

(* inflow-driven DSM: for every time grid (interval lengths dt, non-zero), every inflow, every
   lower-triangular survival table, every step t *)
Theorem C03_balance_inflow_driven :
  forall (n : nat) (dt inflow : list F) (sf : list (list F)),
  length dt = n -> length inflow = n -> (forall t c, t < c -> nth2 sf t c = fO) ->
  forall t, t < n -> nthF dt t <> fO ->
  let r := idsm F fO fI fadd fmul fsub fdiv true n dt inflow sf in
  fsub (nthF (o_stock F r) t) (if Nat.eqb t 0 then fO else nthF (o_stock F r) (t - 1))
  = fmul (nthF dt t) (fsub (nthF inflow t) (nthF (o_outflow F r) t)).
Proof. exact (balance_idsm F fO fI fadd fmul fsub fopp fdiv finv Fth). Qed.

(* stock-driven DSM (forward substitution; any exact triangular solver returns the same inflow, see C10) *)
Theorem C03_balance_stock_driven :
  forall (n : nat) (dt : list F) (sf : list (list F)),
  length dt = n -> (forall t c, t < c -> nth2 sf t c = fO) ->
  (forall i, i < n -> nth2 sf i i <> fO) -> (forall i, i < n -> nthF dt i <> fO) ->
  forall (s : list F) t, length s = n -> t < n ->
  let r := sdsm F fO fI fadd fmul fsub fdiv true n dt s sf in
  fsub (nthF s t) (if Nat.eqb t 0 then fO else nthF s (t - 1))
  = fmul (nthF dt t) (fsub (nthF (o_inflow F r) t) (nthF (o_outflow F r) t)).
Proof. exact (balance_sdsm F fO fI fadd fmul fsub fopp fdiv finv Fth). Qed.

(* flow-driven stock *)
Theorem C03_balance_flow_driven :
  forall (dt inflow outflow : list F) t,
  length dt = length inflow -> length outflow = length inflow -> t < length inflow ->
  let s := simple_stock F fO fadd fmul fsub dt inflow outflow in
  fsub (nthF s t) (if Nat.eqb t 0 then fO else nthF s (t - 1)) = fmul (nthF dt t) (fsub (nthF inflow t) (nthF outflow t)).
Proof. exact (balance_simple F fO fI fadd fmul fsub fopp fdiv finv Fth). Qed.
(* hence the stock is the cumulated net inflow: sum over the steps up to t of dt * (inflow - outflow) *)
Theorem C03_stock_is_cumulated_net_inflow :
  forall (n : nat) (dt inflow : list F) (sf : list (list F)),
  length dt = n -> length inflow = n -> (forall t c, t < c -> nth2 sf t c = fO) -> (forall t, t < n -> nthF dt t <> fO) ->
  forall t, t < n ->
  let r := idsm F fO fI fadd fmul fsub fdiv true n dt inflow sf in
  nthF (o_stock F r) t = ssum F fO fadd (S t) (fun tau => fmul (nthF dt tau) (fsub (nthF inflow tau) (nthF (o_outflow F r) tau))).
Proof. intros; eapply idsm_stock_is_cumulated_net_inflow; eauto. Qed.

(* and for anything that satisfies the step balance with stock(-1) = 0 (flow-driven and stock-driven models alike) *)
Theorem C03_step_balance_telescopes :
  forall (s d : nat -> F) n,
  (forall t, t < n -> fsub (s t) (if Nat.eqb t 0 then fO else s (t - 1)) = d t) ->
  forall t, t < n -> s t = ssum F fO fadd (S t) d.
Proof. exact (telescoping F fO fI fadd fmul fsub fopp fdiv finv Fth). Qed.

(* the self-check: get_stock_balance is, entry by entry, the whole-period net inflow minus the change of the stock; it is zero at a
   step exactly when the balance identity holds there (so a stock that is off by delta at one step shows it), ... *)
Theorem C03_self_check_is_zero_exactly_where_the_balance_holds :
  forall (dt stock inflow outflow : list F) t,
  t < length stock -> length dt = length stock -> length inflow = length stock -> length outflow = length stock ->
  (nthF (stock_balance F fO fmul fsub true dt stock inflow outflow) t = fO
   <-> fsub (nthF stock t) (if Nat.eqb t 0 then fO else nthF stock (t - 1)) = fmul (nthF dt t) (fsub (nthF inflow t) (nthF outflow t))).
Proof. exact (stock_balance_zero_iff F fO fI fadd fmul fsub fopp fdiv finv Fth). Qed.

(* a stock that satisfies the balance at a step and is changed by delta there shows exactly -delta in the self-check *)
Theorem C03_self_check_shows_a_perturbation :
  forall (dt stock stock' inflow outflow : list F) t (delta : F),
  t < length stock -> length stock' = length stock ->
  length dt = length stock -> length inflow = length stock -> length outflow = length stock ->
  fsub (nthF stock t) (if Nat.eqb t 0 then fO else nthF stock (t - 1)) = fmul (nthF dt t) (fsub (nthF inflow t) (nthF outflow t)) ->
  nthF stock' t = fadd (nthF stock t) delta -> (t <> 0 -> nthF stock' (t - 1) = nthF stock (t - 1)) ->
  nthF (stock_balance F fO fmul fsub true dt stock' inflow outflow) t = fsub fO delta.
Proof. exact (stock_balance_shows_a_perturbation F fO fI fadd fmul fsub fopp fdiv finv Fth). Qed.

(* ... and it accepts every computed inflow-driven stock: zero at every step *)
Theorem C03_self_check_accepts_every_computed_stock :
  forall (n : nat) (dt inflow : list F) (sf : list (list F)),
  length dt = n -> length inflow = n -> (forall t c, t < c -> nth2 sf t c = fO) -> (forall t, t < n -> nthF dt t <> fO) ->
  forall t, t < n ->
  let r := idsm F fO fI fadd fmul fsub fdiv true n dt inflow sf in
  nthF (stock_balance F fO fmul fsub true dt (o_stock F r) inflow (o_outflow F r)) t = fO.
Proof. intros; eapply idsm_self_check_is_zero; eauto. Qed.
End G.
Print Assumptions C03_balance_inflow_driven.
Print Assumptions C03_balance_stock_driven.
Print Assumptions C03_balance_flow_driven.

(* for ALL real values *)
Theorem C03_balance_inflow_driven_reals :
  forall (n : nat) (dt inflow : list R) (sf : list (list R)),
  length dt = n -> length inflow = n -> (forall t c, t < c -> nth2 R 0%R sf t c = 0%R) ->
  forall t, t < n -> nthF R 0%R dt t <> 0%R ->
  let r := idsm R 0%R 1%R Rplus Rmult Rminus Rdiv true n dt inflow sf in
  (nthF R 0%R (o_stock R r) t - (if Nat.eqb t 0 then 0 else nthF R 0%R (o_stock R r) (t - 1))
   = nthF R 0%R dt t * (nthF R 0%R inflow t - nthF R 0%R (o_outflow R r) t))%R.
Proof. exact (C03_balance_inflow_driven R 0%R 1%R Rplus Rmult Rminus Ropp Rdiv Rinv Rfield). Qed.
Print Assumptions C03_balance_inflow_driven_reals.

Print Assumptions C03_stock_is_cumulated_net_inflow.
Print Assumptions C03_step_balance_telescopes.
Print Assumptions C03_self_check_is_zero_exactly_where_the_balance_holds.
Print Assumptions C03_self_check_accepts_every_computed_stock.
Print Assumptions C03_self_check_shows_a_perturbation.
