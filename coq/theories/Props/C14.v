(* C14 — dimension sets behave as ordered sets of uniquely lettered dimensions.  Statements only. *)
From Coq Require Import List Arith Bool.
Import ListNotations.
From Flodym Require Import Base.Env Model.Dims Model.SubArray Model.DimHeap Proofs.C14Proofs Proofs.C14Lookup Proofs.C14Xor.

(* ordered-set laws (for sets with unique letters) *)
Theorem C14_union_keeps_left_order_and_appends_new :
  forall x y, NoDup (letters x) -> NoDup (letters y) ->
  union_with x y = Ok (x ++ filter (fun d => negb (memb (dletter d) (letters x))) y).
Proof. exact union_spec. Qed.
Print Assumptions C14_union_keeps_left_order_and_appends_new.

Theorem C14_intersection_keeps_left_order :
  forall x y, NoDup (letters x) -> intersect_with x y = Ok (filter (fun d => memb (dletter d) (letters y)) x).
Proof. exact intersect_spec. Qed.
Print Assumptions C14_intersection_keeps_left_order.

Theorem C14_difference_keeps_left_order :
  forall x y, NoDup (letters x) -> difference_with x y = Ok (filter (fun d => negb (memb (dletter d) (letters y))) x).
Proof. exact difference_spec. Qed.
Print Assumptions C14_difference_keeps_left_order.

Theorem C14_symmetric_difference_is_the_combination_of_the_differences :
  forall x y, NoDup (letters x) -> NoDup (letters y) ->
  xor_with x y = Ok (filter (fun d => negb (memb (dletter d) (letters y))) x
                     ++ filter (fun d => negb (memb (dletter d) (letters x))) y).
Proof. exact xor_spec. Qed.
Print Assumptions C14_symmetric_difference_is_the_combination_of_the_differences.

Theorem C14_plus_refuses_overlap :
  forall x y d, NoDup (letters x) -> In d x -> In (dletter d) (letters y) -> add_sets x y = Err.
Proof. exact add_rejects_overlap. Qed.
Print Assumptions C14_plus_refuses_overlap.

Theorem C14_plus_on_disjoint_sets_is_the_union :
  forall x y, NoDup (letters x) -> (forall d, In d x -> ~ In (dletter d) (letters y)) -> add_sets x y = union_with x y.
Proof. exact add_disjoint_is_union. Qed.
Print Assumptions C14_plus_on_disjoint_sets_is_the_union.

Theorem C14_subset_in_requested_order :
  forall ds ks r, get_subset ds ks = Ok r -> Forall2 (fun k d => find_key ds k = Some d) ks r.
Proof. exact get_subset_order. Qed.
Print Assumptions C14_subset_in_requested_order.

(* histories: for EVERY sequence of constructors, operators, subset / copy, arrays built from a set,
   and mutators with or without inplace=True ... *)
(* ... no two DimensionSet objects ever share their Python list, *)
Theorem C14_sets_never_share_a_list : forall ops : list dop, no_sharing (drun true ops).
Proof. exact no_sharing_reachable. Qed.
Print Assumptions C14_sets_never_share_a_list.

(* ... hence an in-place edit of one set changes no other set (nor the set of any array built from it), *)
Theorem C14_inplace_edit_changes_receiver_only :
  forall h i ds j, no_sharing h -> j <> i -> cell_of (set_cell h i ds) j = cell_of h j.
Proof. exact set_cell_frame. Qed.
Print Assumptions C14_inplace_edit_changes_receiver_only.

(* ... an out-of-place result is a new object and every existing set keeps its content, *)
Theorem C14_out_of_place_leaves_existing_sets :
  forall h ds j d, cell_of h j = Some d -> cell_of (new_obj h ds) j = Some d.
Proof. exact new_obj_frame. Qed.
Print Assumptions C14_out_of_place_leaves_existing_sets.

(* ... and letters stay unique in every set, as long as the mutators add distinct dimensions. *)
Theorem C14_letters_stay_unique :
  forall ops : list dop, Forall wf_dop ops -> all_unique (drun true ops).
Proof. exact letters_unique_reachable. Qed.
Print Assumptions C14_letters_stay_unique.

(* before the repair get_subset() shared the receiver's list: witness *)
Example ex_C14_sharing_before_fix :
  objs (drun false [DNew [mk_dim 97 0 [0]]; DSubset 0 None]) = [0; 0].
Proof. reflexivity. Qed.

(* lookups agree with the order: the dimension at position i is the one found by its letter, index(letter) = i, its size is the i-th
   entry of the shape, and it is a member *)
Theorem C14_lookup_by_letter_agrees_with_position :
  forall ds i d, NoDup (letters ds) -> nth_error ds i = Some d ->
  find_key ds (KLetter (dletter d)) = Some d /\ ds_index ds (KLetter (dletter d)) = Some i
  /\ nth_error (dshape ds) i = Some (dlen d) /\ has_key ds (KLetter (dletter d)) = true.
Proof. exact lookup_by_letter_is_lookup_by_position. Qed.
Print Assumptions C14_lookup_by_letter_agrees_with_position.

Theorem C14_membership_is_membership_of_the_letter :
  forall ds l, has_key ds (KLetter l) = Env.memb l (letters ds).
Proof. exact membership_by_letter. Qed.
Print Assumptions C14_membership_is_membership_of_the_letter.
