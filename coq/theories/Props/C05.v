(* C05 — assignment into a declared array keeps its dims and sums the source by label.
   Statements only.  PARTIAL: proved are the frame property of numpy indexed assignment (nothing
   outside the addressed positions changes), preservation of dimensions and size, and the exact-shape
   rule for whole-array ndarray assignment; that a FlodymArray source is first summed by label is
   C07_marginal_by_label (setitem calls sum_values_to); the label-level description of WHICH
   positions a key addresses is carried by the exhaustive correspondence of C06. *)
From Coq Require Import List Arith.
Import ListNotations.
From Flodym Require Import Base.ND Base.Env Np.Einsum Np.Index Model.Dims Model.Array Model.SubArray Proofs.IndexProofs.

Theorem C05_assignment_keeps_dims_and_size :
  forall (R : Type) (rO rI : R) (radd rmul : R -> R -> R) (a a' : farr R) k r,
  length (avals a) = size (dshape (adims a)) ->
  setitem R rO rI radd rmul a k r = Ok a' -> adims a' = adims a /\ length (avals a') = length (avals a).
Proof. exact setitem_keeps_dims. Qed.
Print Assumptions C05_assignment_keeps_dims_and_size.

Theorem C05_entries_outside_the_addressed_positions_unchanged :
  forall (R : Type) (rO : R) (a : nd R) sels rhs r, setindex R rO a sels rhs = Ok r ->
  shp r = shp a /\ length (dat r) = length (dat a)
  /\ forall p, mk_plan_of sels (shp a) = Some p -> forall j d,
       (forall idx, In idx (all_idx (p_osh p)) -> ravel (shp a) (src_of sels p idx) <> j) ->
       nth j (dat r) d = nth j (dat a) d.
Proof. exact setindex_frame. Qed.
Print Assumptions C05_entries_outside_the_addressed_positions_unchanged.

Theorem C05_whole_array_ndarray_needs_exact_shape :
  forall (R : Type) (rO rI : R) (radd rmul : R -> R -> R) (a : farr R) v,
  shp v <> dshape (adims a) -> setitem R rO rI radd rmul a KEllipsis (RNd R v) = Err.
Proof. exact ellipsis_ndarray_exact_shape. Qed.
Print Assumptions C05_whole_array_ndarray_needs_exact_shape.
