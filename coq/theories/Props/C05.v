(* C05 — assignment into a declared array keeps its dims and sums the source by label.
   Statements only.  For a FlodymArray source and every well-formed dict key (whole-array assignment is the key
   without entries) the label-level statement is proved for all targets, keys and sources:
   C05_dict_assignment_by_label (addressed entries = the source's marginal by label; every other entry unchanged;
   dimensions kept) and C05_source_lacking_a_region_dimension_refused.  Also: dims/size preservation for every key
   and right-hand side, the frame of numpy indexed assignment, the exact-shape rule for whole-array ndarray
   assignment.  Numbers are covered for EVERY dict key, lists with repeated items included
   (C05_number_fills_exactly_the_region_for_every_key); tuple / bare keys are dict keys (Proofs/KeyForms.v); ndarrays assigned
   to a slice are decided per configuration by the exhaustive correspondence and the oracle. *)
From Coq Require Import List Arith Ring_theory.
Import ListNotations.
From Flodym Require Import Base.ND Base.Env Np.Einsum Np.Index Model.Dims Model.Array Model.SubArray
  Proofs.ArrayLemmas Proofs.IndexProofs Proofs.OrthoIndex Proofs.HandlerProofs Proofs.GetitemSpec Proofs.SetIndexProofs Proofs.SetitemSpec Proofs.KeyForms Proofs.SetitemFill.

Theorem C05_assignment_keeps_dims_and_size :
  forall (R : Type) (rO rI : R) (radd rmul : R -> R -> R) (a a' : farr R) k r,
  length (avals a) = size (dshape (adims a)) ->
  setitem R rO rI radd rmul a k r = Ok a' -> adims a' = adims a /\ length (avals a') = length (avals a).
Proof. exact setitem_keeps_dims. Qed.
Print Assumptions C05_assignment_keeps_dims_and_size.

Theorem C05_entries_outside_the_addressed_positions_unchanged :
  forall (R : Type) (rO : R) (a : nd R) sels rhs r, setindex R rO a sels rhs = Ok r ->
  shp r = shp a /\ length (dat r) = length (dat a)
  /\ forall p, mk_plan_of sels (shp a) = Some p -> forall j d,
       (forall idx, In idx (all_idx (p_osh p)) -> ravel (shp a) (src_of sels p idx) <> j) ->
       nth j (dat r) d = nth j (dat a) d.
Proof. exact setindex_frame. Qed.
Print Assumptions C05_entries_outside_the_addressed_positions_unchanged.

Theorem C05_whole_array_ndarray_needs_exact_shape :
  forall (R : Type) (rO rI : R) (radd rmul : R -> R -> R) (a : farr R) v,
  shp v <> dshape (adims a) -> setitem R rO rI radd rmul a KEllipsis (RNd R v) = Err.
Proof. exact ellipsis_ndarray_exact_shape. Qed.
Print Assumptions C05_whole_array_ndarray_needs_exact_shape.

(* target[{...}] = source, source a FlodymArray: by label *)
Theorem C05_dict_assignment_by_label :
  forall (R : Type) (rO rI : R) (radd rmul rsub : R -> R -> R) (ropp : R -> R),
  ring_theory rO rI radd rmul rsub ropp eq ->
  forall (a y a' : farr R) kvs,
  wf R a -> wf R y -> wf_dict (adims a) no_asg kvs ->
  let F := asg_of no_asg kvs in
  let dout := flat_map (out_for F) (adims a) in
  no_lists F (adims a) -> distinct_items F (adims a) ->
  (forall d, In d dout -> lookup (lsizes R y) (dletter d) = dlen d) ->
  setitem R rO rI radd rmul a (KDict kvs) (RArr R y) = Ok a' ->
  adims a' = adims a
  /\ (forall e, (forall d, In d dout -> lookup e (dletter d) < dlen d) ->
        den R rO a' (src_env F (adims a) e)
        = sum_env rO radd (sized (lsizes R y) (others R y (letters dout))) (fun e' => den R rO y (e' ++ e)))
  /\ (forall e, (forall d, In d (adims a) -> lookup e (dletter d) < dlen d) ->
        ~ in_region F (adims a) e -> den R rO a' e = den R rO a e).
Proof. exact setitem_dict_spec. Qed.
Print Assumptions C05_dict_assignment_by_label.

Theorem C05_whole_array_assignment_is_the_empty_key :
  forall (R : Type) (rO rI : R) (radd rmul : R -> R -> R) (a y : farr R),
  setitem R rO rI radd rmul a KEllipsis (RArr R y) = setitem R rO rI radd rmul a (KDict []) (RArr R y).
Proof. exact setitem_ellipsis_is_empty_dict. Qed.
Print Assumptions C05_whole_array_assignment_is_the_empty_key.

Theorem C05_source_lacking_a_region_dimension_refused :
  forall (R : Type) (rO rI : R) (radd rmul : R -> R -> R) (a y : farr R) kvs l,
  wf R a -> wf_dict (adims a) no_asg kvs ->
  In l (letters (flat_map (out_for (asg_of no_asg kvs)) (adims a))) -> ~ In l (aletters R y) ->
  setitem R rO rI radd rmul a (KDict kvs) (RArr R y) = Err.
Proof. exact setitem_missing_dim_refused. Qed.
Print Assumptions C05_source_lacking_a_region_dimension_refused.

(* non-vacuity: target over (t, r), key {t: second item}, source over (m, r) stored in another order with a
   surplus dimension m: the premises hold, the assignment succeeds, the addressed row holds the source summed over m,
   the other row is untouched *)
Example ex_C05_dict_assignment :
  let dt := mk_dim 116 0 [10; 11] in let dr := mk_dim 114 1 [20; 21; 22] in let dm := mk_dim 109 2 [30; 31] in
  let a := mk_farr [dt; dr] [1; 2; 3; 4; 5; 6] in
  let y := mk_farr [dm; dr] [100; 200; 300; 1000; 2000; 3000] in
  let kvs := [(KLetter 116, ISingle 11)] in
  wf_dict (adims a) no_asg kvs
  /\ setitem nat 0 1 Nat.add Nat.mul a (KDict kvs) (RArr nat y) = Ok (mk_farr [dt; dr] [1; 2; 3; 1100; 2200; 3300]).
Proof.
  cbv zeta. split.
  - apply (wfd_cons _ no_asg (mk_dim 116 0 [10; 11]) (ISingle 11)); simpl; auto.
    + intros sd E; discriminate.
    + constructor.
  - vm_compute. reflexivity.
Qed.

(* bare-item and tuple keys in assignments are the corresponding dict keys *)
Theorem C05_bare_item_key_is_a_dict_key :
  forall (R : Type) (rO rI : R) (radd rmul : R -> R -> R) (a y : farr R) it d, NoDup (aletters R a) -> only_in (adims a) it d ->
  setitem R rO rI radd rmul a (KBare it) (RArr R y) = setitem R rO rI radd rmul a (KDict [(KLetter (dletter d), ISingle it)]) (RArr R y).
Proof. exact setitem_bare_is_dict. Qed.
Print Assumptions C05_bare_item_key_is_a_dict_key.

Theorem C05_tuple_key_is_a_dict_key :
  forall (R : Type) (rO rI : R) (radd rmul : R -> R -> R) (a y : farr R) its dsel, NoDup (aletters R a) ->
  Forall2 (only_in (adims a)) its dsel -> NoDup (letters dsel) ->
  setitem R rO rI radd rmul a (KTuple its) (RArr R y)
  = setitem R rO rI radd rmul a (KDict (map (fun p => (KLetter (dletter (snd p)), ISingle (fst p))) (combine its dsel))) (RArr R y).
Proof. exact setitem_tuple_is_dict. Qed.
Print Assumptions C05_tuple_key_is_a_dict_key.

(* target[{...}] = number *)
Theorem C05_number_fills_the_region :
  forall (R : Type) (rO rI : R) (radd rmul : R -> R -> R) (a a' : farr R) kvs (c : R),
  wf R a -> wf_dict (adims a) no_asg kvs ->
  let F := asg_of no_asg kvs in
  let dout := flat_map (out_for F) (adims a) in
  no_lists F (adims a) -> distinct_items F (adims a) ->
  setitem R rO rI radd rmul a (KDict kvs) (RNum R c) = Ok a' ->
  adims a' = adims a
  /\ (forall e, (forall d, In d dout -> lookup e (dletter d) < dlen d) -> den R rO a' (src_env F (adims a) e) = c)
  /\ (forall e, (forall d, In d (adims a) -> lookup e (dletter d) < dlen d) ->
        ~ in_region F (adims a) e -> den R rO a' e = den R rO a e).
Proof. exact setitem_number_fills. Qed.
Print Assumptions C05_number_fills_the_region.

(* target[{...}] = number for EVERY well-formed dict key: single items, subset Dimensions and lists of items in any combination,
   subsets and lists in any order and naming an item as often as they like (no hypothesis on repetitions): the number fills
   exactly the addressed region, nothing else changes *)
Theorem C05_number_fills_exactly_the_region_for_every_key :
  forall (R : Type) (rO rI : R) (radd rmul : R -> R -> R) (a a' : farr R) kvs (c : R),
  wf R a -> wf_dict (adims a) no_asg kvs ->
  let F := asg_of no_asg kvs in
  setitem R rO rI radd rmul a (KDict kvs) (RNum R c) = Ok a' ->
  adims a' = adims a
  /\ (forall e, (forall d, In d (adims a) -> lookup e (dletter d) < dlen d) -> in_region F (adims a) e -> den R rO a' e = c)
  /\ (forall e, (forall d, In d (adims a) -> lookup e (dletter d) < dlen d) -> ~ in_region F (adims a) e -> den R rO a' e = den R rO a e).
Proof. exact setitem_number_fills_region. Qed.
Print Assumptions C05_number_fills_exactly_the_region_for_every_key.

(* an instance with a list naming an item twice and a single item: a[{r: [22, 20, 22], t: 11}] = 9 *)
Example ex_C05_number_into_a_list_with_a_repeated_item :
  let dt := mk_dim 116 0 [10; 11] in let dr := mk_dim 114 1 [20; 21; 22] in
  let a := mk_farr [dt; dr] [1; 2; 3; 4; 5; 6] in
  setitem nat 0 1 Nat.add Nat.mul a (KDict [(KLetter 114, IList [22; 20; 22]); (KLetter 116, ISingle 11)]) (RNum nat 9)
  = Ok (mk_farr [dt; dr] [1; 2; 3; 9; 5; 9]).
Proof. vm_compute. reflexivity. Qed.
