(* C01 — arithmetic between arrays matches dimensions by label, never by axis position.
   Statements only.  Generic over every commutative ring; instantiated at the reals. *)
From Coq Require Import List Arith Ring_theory Reals RealField.
Import ListNotations.
From Flodym Require Import Base.ND Base.Env Np.Einsum Model.Dims Model.Array Proofs.ArrayLemmas Proofs.C01Proofs Proofs.PowProofs Proofs.SharesProofs.
From Flodym Require Corr.C01.

(* x * y  (and x / y with g = reciprocal): for ALL ranks, dimension subsets, storage orders, lengths, values *)
Theorem C01_product_by_label :
  forall (R : Type) (rO rI : R) (radd rmul rsub : R -> R -> R) (ropp : R -> R),
  ring_theory rO rI radd rmul rsub ropp eq ->
  forall (g : R -> R) (x y r : farr R) (e : env),
  NoDup (aletters R x) -> NoDup (aletters R y) ->
  mul_like R rO rI radd rmul g x y = Ok r ->
  (forall l, In l (aletters R r) ->
     lookup e l < lookup (sizes R [(aletters R x, a_nd R x); (aletters R y, mk_nd (dshape (adims y)) (map g (avals y)))]) l) ->
  adims r = adims x ++ filter (fun d => negb (memb (dletter d) (aletters R x))) (adims y)
  /\ den R rO r e = rmul (den R rO x e) (den_nd R rO (aletters R y) (mk_nd (dshape (adims y)) (map g (avals y))) e).
Proof. exact mul_spec. Qed.
Print Assumptions C01_product_by_label.

(* x + y, x - y, minimum, maximum *)
Theorem C01_common_dims_after_summing_the_rest :
  forall (R : Type) (rO rI : R) (radd rmul rsub : R -> R -> R) (ropp : R -> R),
  ring_theory rO rI radd rmul rsub ropp eq ->
  forall (f : R -> R -> R) (x y r : farr R) (e : env),
  wf R x -> wf R y -> binop_common R rO rI radd rmul f x y = Ok r ->
  in_range (lsizes R x) e (aletters R r) -> in_range (lsizes R y) e (aletters R r) ->
  adims r = filter (fun d => memb (dletter d) (aletters R y)) (adims x)
  /\ den R rO r e = f (sum_env rO radd (sized (lsizes R x) (others R x (aletters R r))) (fun e' => den R rO x (e' ++ e)))
                      (sum_env rO radd (sized (lsizes R y) (others R y (aletters R r))) (fun e' => den R rO y (e' ++ e))).
Proof. exact binop_common_spec. Qed.
Print Assumptions C01_common_dims_after_summing_the_rest.

Theorem C01_power_requires_exponent_dims_among_base_dims :
  forall (R : Type) (rO rI : R) (radd rmul : R -> R -> R) (p : R -> R -> R) (x y : farr R) l,
  In l (aletters R y) -> ~ In l (aletters R x) -> pow_like R rO rI radd rmul p x y = Err.
Proof. exact pow_rejects. Qed.
Print Assumptions C01_power_requires_exponent_dims_among_base_dims.

Theorem C01_power_keeps_base_dims :
  forall (R : Type) (rO rI : R) (radd rmul : R -> R -> R) (p : R -> R -> R) (x y r : farr R),
  pow_like R rO rI radd rmul p x y = Ok r -> adims r = adims x.
Proof. exact pow_keeps_dims. Qed.
Print Assumptions C01_power_keeps_base_dims.

(* x ** y by label: y is replicated along x's other dimensions, the power is taken entry by entry *)
Theorem C01_power_by_label :
  forall (R : Type) (rO rI : R) (radd rmul rsub : R -> R -> R) (ropp : R -> R),
  ring_theory rO rI radd rmul rsub ropp eq ->
  forall (p : R -> R -> R) (x y r : farr R) (e : env),
  wf R x -> wf R y ->
  (forall d, In d (adims x) -> memb (dletter d) (aletters R y) = true -> lookup (lsizes R y) (dletter d) = dlen d) ->
  pow_like R rO rI radd rmul p x y = Ok r ->
  in_range (lsizes R x) e (aletters R x) ->
  adims r = adims x /\ den R rO r e = p (den R rO x e) (den R rO y e).
Proof. exact pow_spec. Qed.
Print Assumptions C01_power_by_label.

(* the array a number is promoted to holds that number under every label *)
Theorem C01_full_array_entries :
  forall (R : Type) (rO : R) ds (c : R) e,
  NoDup (letters ds) -> in_range (combine (letters ds) (dshape ds)) e (letters ds) -> den R rO (full R ds c) e = c.
Proof. exact den_full. Qed.
Print Assumptions C01_full_array_entries.

(* a plain number behaves as an array of x's own dimensions filled with that number (also reflected) *)
Theorem C01_number_is_full_array :
  forall b x c, C01.run x (C01.OBin b (C01.ONum c)) = C01.run_bin b x (full Qcanon.Qc (adims x) c).
Proof. reflexivity. Qed.
Print Assumptions C01_number_is_full_array.

(* for ALL real values *)
Theorem C01_product_by_label_reals :
  forall (g : R -> R) (x y r : farr R) (e : env),
  NoDup (aletters R x) -> NoDup (aletters R y) ->
  mul_like R 0%R 1%R Rplus Rmult g x y = Ok r ->
  (forall l, In l (aletters R r) ->
     lookup e l < lookup (sizes R [(aletters R x, a_nd R x); (aletters R y, mk_nd (dshape (adims y)) (map g (avals y)))]) l) ->
  adims r = adims x ++ filter (fun d => negb (memb (dletter d) (aletters R x))) (adims y)
  /\ den R 0%R r e = (den R 0%R x e * den_nd R 0%R (aletters R y) (mk_nd (dshape (adims y)) (map g (avals y))) e)%R.
Proof. exact (mul_spec R 0%R 1%R Rplus Rmult Rminus Ropp RTheory). Qed.
Print Assumptions C01_product_by_label_reals.
