(* C06 — indexing by item labels reads and writes exactly the addressed entries.  Statements only.
   Reads: the label-level statement is proved for every array, every well-formed dict key (any number of
   addressed dimensions, single items and subset Dimensions in any combination, position and order) and every
   label assignment (C06_dict_read_by_label), on top of the theorem that the index tuple the handler builds makes
   numpy select orthogonally (C06_index_tuple_selects_orthogonally: plain slices / one list, or the open mesh as
   soon as a list meets another list or an integer — numpy's "advanced indices that are not adjacent move to the
   front" rule is part of the numpy model and is exactly what the mesh conversion neutralises).  The behaviour
   before the repair is refuted in Refuted/C06.v.  A bare item and a tuple of items from pairwise different dimensions are the dict keys with one single-item entry
   per item (C06_bare_item_key_is_a_dict_key, C06_tuple_key_is_a_dict_key), so the theorems for dict keys apply to them;
   tuples with several items of one dimension (list selections) are for writes only.  Writes: frame, dims/size preservation
   (C05) and refusals; the label-level statement for writes is decided per configuration by the exhaustive
   correspondence (all selector-kind assignments up to rank 3 / 4) and the oracle. *)
From Coq Require Import List Arith.
Import ListNotations.
From Flodym Require Import Base.ND Base.Env Np.Einsum Np.Index Model.Dims Model.Array Model.SubArray
  Proofs.ArrayLemmas Proofs.IndexProofs Proofs.OrthoIndex Proofs.HandlerProofs Proofs.GetitemSpec Proofs.KeyForms.

Theorem C06_read_entries_are_the_addressed_source_entries :
  forall (R : Type) (rO : R) (a : nd R) sels p idx,
  mk_plan_of sels (shp a) = Some p -> Forall2 lt idx (p_osh p) ->
  exists r, index R rO a sels = Ok r /\ shp r = p_osh p
            /\ get rO (shp r) (dat r) idx = get rO (shp a) (dat a) (src_of sels p idx).
Proof. exact index_get. Qed.
Print Assumptions C06_read_entries_are_the_addressed_source_entries.

Theorem C06_numpy_slice_refused : forall ds, mk_handler_of ds KSlice = Err.
Proof. exact slice_key_refused. Qed.
Print Assumptions C06_numpy_slice_refused.

Theorem C06_unknown_item_refused :
  forall ds it, (forall d, In d ds -> ~ In it (ditems d)) -> mk_handler_of ds (KBare it) = Err.
Proof. exact unknown_item_refused. Qed.
Print Assumptions C06_unknown_item_refused.

Theorem C06_item_in_several_dimensions_refused :
  forall ds d1 d2 it rest, filter (fun d => memb it (ditems d)) ds = d1 :: d2 :: rest -> mk_handler_of ds (KBare it) = Err.
Proof. exact ambiguous_item_refused. Qed.
Print Assumptions C06_item_in_several_dimensions_refused.

Theorem C06_list_selectors_are_for_writes_only :
  forall (R : Type) (rO : R) (a : farr R) k h,
  mk_handler_of (adims a) k = Ok h -> h_invalid h = true -> getitem R rO a k = Err.
Proof. exact list_selector_refused_in_reads. Qed.
Print Assumptions C06_list_selectors_are_for_writes_only.

(* what SubArrayHandler asks numpy for, per axis: slice(None) | an integer | a list of integers *)
Theorem C06_index_tuple_selects_orthogonally :
  forall (R : Type) (rO : R) (a : nd R) (raw : list rawid),
  length raw = length (shp a) -> Forall2 (fun r m => raw_ok r m = true) raw (shp a) ->
  exists v, index R rO a (to_sels raw (shp a)) = Ok v /\ shp v = out_shape raw (shp a)
            /\ length (dat v) = size (shp v)
            /\ forall idx, Forall2 lt idx (out_shape raw (shp a)) ->
                 get rO (shp v) (dat v) idx = get rO (shp a) (dat a) (pull raw idx).
Proof. exact index_orthogonal. Qed.
Print Assumptions C06_index_tuple_selects_orthogonally.

(* the handler of a dict key: per dimension kept / dropped / replaced, whatever the order of the entries *)
Theorem C06_handler_acts_per_dimension :
  forall ds kvs, NoDup (letters ds) -> wf_dict ds no_asg kvs ->
  mk_handler_of ds (KDict kvs)
  = Ok (mk_handler (flat_map (out_for (asg_of no_asg kvs)) ds)
                   (to_sels (map (sel_for (asg_of no_asg kvs)) ds) (dshape ds))
                   (existsb (fun p => match snd p with IList _ => true | _ => false end) kvs)).
Proof. exact mk_handler_dict. Qed.
Print Assumptions C06_handler_acts_per_dimension.

(* reads by label *)
Theorem C06_dict_read_by_label :
  forall (R : Type) (rO : R) (a : farr R) kvs,
  wf R a -> wf_dict (adims a) no_asg kvs ->
  existsb (fun p => match snd p with IList _ => true | _ => false end) kvs = false ->
  no_lists (asg_of no_asg kvs) (adims a) ->
  let F := asg_of no_asg kvs in
  exists r, getitem R rO a (KDict kvs) = Ok r
    /\ adims r = flat_map (out_for F) (adims a)
    /\ forall e, (forall d, In d (adims r) -> lookup e (dletter d) < dlen d) ->
          den R rO r e = den R rO a (src_env F (adims a) e).
Proof. exact getitem_dict_spec. Qed.
Print Assumptions C06_dict_read_by_label.

(* non-vacuity: a (t, r, m) array read with {m: subset in another order, t: single item}: the premises hold and
   the entry under (r = 1, s = 0) is the source entry (t = 1, r = 1, m = 2) *)
Example ex_C06_dict_read :
  let dt := mk_dim 116 0 [10; 11] in let dr := mk_dim 114 1 [20; 21] in let dm := mk_dim 109 2 [30; 31; 32] in
  let sub := mk_dim 115 3 [32; 30] in
  let a := mk_farr [dt; dr; dm] (seq 100 12) in
  let kvs := [(KLetter 109, IDim sub); (KLetter 116, ISingle 11)] in
  wf_dict (adims a) no_asg kvs
  /\ (exists r, getitem nat 0 a (KDict kvs) = Ok r /\ adims r = [dr; sub] /\ den nat 0 r [(114, 1); (115, 0)] = 100 + (1 * 6 + 1 * 3 + 2)).
Proof.
  cbv zeta. split.
  - apply (wfd_cons _ no_asg (mk_dim 109 2 [30; 31; 32]) (IDim (mk_dim 115 3 [32; 30]))); simpl; auto.
    + intros x [<-|[<-|[]]]; simpl; auto.
    + intros sd E. injection E as <-. split; [simpl; intros [H|[H|[H|[]]]]; discriminate | intros d' sd' _ E'; discriminate].
    + apply (wfd_cons _ _ (mk_dim 116 0 [10; 11]) (ISingle 11)); simpl; auto.
      * intros sd E; discriminate.
      * constructor.
  - eexists. split; [vm_compute; reflexivity|]. split; vm_compute; reflexivity.
Qed.

(* bare items and tuples of items name the one dimension that holds each item *)
Theorem C06_bare_item_key_is_a_dict_key :
  forall (R : Type) (rO : R) (a : farr R) it d, NoDup (aletters R a) -> only_in (adims a) it d ->
  getitem R rO a (KBare it) = getitem R rO a (KDict [(KLetter (dletter d), ISingle it)]).
Proof. exact getitem_bare_is_dict. Qed.
Print Assumptions C06_bare_item_key_is_a_dict_key.

Theorem C06_tuple_key_is_a_dict_key :
  forall (R : Type) (rO : R) (a : farr R) its dsel, NoDup (aletters R a) ->
  Forall2 (only_in (adims a)) its dsel -> NoDup (letters dsel) ->
  getitem R rO a (KTuple its)
  = getitem R rO a (KDict (map (fun p => (KLetter (dletter (snd p)), ISingle (fst p))) (combine its dsel))).
Proof. exact getitem_tuple_is_dict. Qed.
Print Assumptions C06_tuple_key_is_a_dict_key.

(* items_where reports exactly the entries that meet the condition, under their true labels, each once, in row-major order *)
From Flodym Require Import Model.Instances Corr.Indexing Proofs.ItemsWhere.
Theorem C06_items_where_reports_entries_under_their_true_labels :
  forall (a : fQ) labs,
  In labs (items_where_neg a) <->
  exists idx, Forall2 lt idx (dshape (adims a)) /\ labs = labels_at a idx /\ is_neg a idx = true.
Proof. exact items_where_spec. Qed.
Print Assumptions C06_items_where_reports_entries_under_their_true_labels.

Theorem C06_items_where_reports_each_entry_once_in_array_order :
  forall a : fQ, items_where_neg a = map (labels_at a) (filter (is_neg a) (all_idx (dshape (adims a))))
  /\ NoDup (filter (is_neg a) (all_idx (dshape (adims a)))).
Proof. exact items_where_is_the_filtered_index_list. Qed.
Print Assumptions C06_items_where_reports_each_entry_once_in_array_order.
