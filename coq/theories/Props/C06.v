(* C06 — indexing by item labels reads and writes exactly the addressed entries.  Statements only.
   PARTIAL: proved are the pointwise characterisation of the numpy index model that the handler
   feeds (every entry of the result is the source entry the rule assigns), the refusals, and (C05)
   the frame of writes.  The label-level statement "lden (a[k]) l' = lden a (extend k l')" for every
   combination of selector kinds in every position is decided per configuration by the exhaustive
   correspondence (all selector-kind assignments up to rank 3 / 4) together with the oracle; the
   behaviour before the repair is refuted in Refuted/C06.v. *)
From Coq Require Import List Arith.
Import ListNotations.
From Flodym Require Import Base.ND Base.Env Np.Einsum Np.Index Model.Dims Model.Array Model.SubArray Proofs.IndexProofs.

Theorem C06_read_entries_are_the_addressed_source_entries :
  forall (R : Type) (rO : R) (a : nd R) sels p idx,
  mk_plan_of sels (shp a) = Some p -> Forall2 lt idx (p_osh p) ->
  exists r, index R rO a sels = Ok r /\ shp r = p_osh p
            /\ get rO (shp r) (dat r) idx = get rO (shp a) (dat a) (src_of sels p idx).
Proof. exact index_get. Qed.
Print Assumptions C06_read_entries_are_the_addressed_source_entries.

Theorem C06_numpy_slice_refused : forall ds, mk_handler_of ds KSlice = Err.
Proof. exact slice_key_refused. Qed.
Print Assumptions C06_numpy_slice_refused.

Theorem C06_unknown_item_refused :
  forall ds it, (forall d, In d ds -> ~ In it (ditems d)) -> mk_handler_of ds (KBare it) = Err.
Proof. exact unknown_item_refused. Qed.
Print Assumptions C06_unknown_item_refused.

Theorem C06_item_in_several_dimensions_refused :
  forall ds d1 d2 it rest, filter (fun d => memb it (ditems d)) ds = d1 :: d2 :: rest -> mk_handler_of ds (KBare it) = Err.
Proof. exact ambiguous_item_refused. Qed.
Print Assumptions C06_item_in_several_dimensions_refused.

Theorem C06_list_selectors_are_for_writes_only :
  forall (R : Type) (rO : R) (a : farr R) k h,
  mk_handler_of (adims a) k = Ok h -> h_invalid h = true -> getitem R rO a k = Err.
Proof. exact list_selector_refused_in_reads. Qed.
Print Assumptions C06_list_selectors_are_for_writes_only.
