(* C10 — inflow-driven and stock-driven models are inverse; both solvers agree.  Statements only. *)
From Coq Require Import List Arith Field_theory.
Import ListNotations.
From Flodym Require Import Base.ND Model.Stocks Proofs.StockAlgebra Proofs.StockModel Proofs.StockRoundtrip.

Section G.
Variable F : Type.
Variables (fO fI : F) (fadd fmul fsub : F -> F -> F) (fopp : F -> F) (fdiv : F -> F -> F) (finv : F -> F).
Variable Fth : field_theory fO fI fadd fmul fsub fopp fdiv finv eq.
Notation nthF := (nthF F fO).
Notation nth2 := (nth2 F fO).
Notation idsm := (idsm F fO fI fadd fmul fsub fdiv true).
Notation sdsm := (sdsm F fO fI fadd fmul fsub fdiv true).

(* premise of the property: every cohort has a non-vanishing share surviving its first interval
   (non-zero diagonal), any grid with non-zero interval lengths *)
Theorem C10_stock_driven_inverts_inflow_driven :
  forall n dt sf, length dt = n -> (forall t c, t < c -> nth2 sf t c = fO) ->
  (forall i, i < n -> nth2 sf i i <> fO) -> (forall i, i < n -> nthF dt i <> fO) ->
  forall inflow, length inflow = n ->
  o_inflow F (sdsm n dt (o_stock F (idsm n dt inflow sf)) sf) = inflow.
Proof. intros; eapply roundtrip_inflow; eauto. Qed.

Theorem C10_same_outflow_and_cohort_tables :
  forall n dt sf, length dt = n -> (forall t c, t < c -> nth2 sf t c = fO) ->
  (forall i, i < n -> nth2 sf i i <> fO) -> (forall i, i < n -> nthF dt i <> fO) ->
  forall inflow, length inflow = n ->
  let r1 := idsm n dt inflow sf in let r2 := sdsm n dt (o_stock F r1) sf in
  o_outflow F r2 = o_outflow F r1 /\ o_sbc F r2 = o_sbc F r1 /\ o_obc F r2 = o_obc F r1.
Proof. intros; eapply roundtrip_tables; eauto. Qed.

Theorem C10_inflow_driven_reproduces_prescribed_stock :
  forall n dt sf, length dt = n -> (forall t c, t < c -> nth2 sf t c = fO) ->
  (forall i, i < n -> nth2 sf i i <> fO) -> (forall i, i < n -> nthF dt i <> fO) ->
  forall s t, length s = n -> t < n ->
  nthF (o_stock F (idsm n dt (o_inflow F (sdsm n dt s sf)) sf)) t = nthF s t.
Proof. intros; eapply roundtrip_stock; eauto. Qed.

(* both solvers agree: forward substitution solves the triangular system, and ANY solution of that
   system (what an exact LAPACK trtrs returns) coincides with it *)
Theorem C10_manual_solver_solves_the_system :
  forall sf b m i, i < m -> nth2 sf i i <> fO ->
  ssum F fO fadd (S i) (fun j => fmul (nth2 sf i j) (nthF (fs F fO fadd fmul fsub fdiv sf b m) j)) = nthF b i.
Proof. intros; eapply fsolve_correct; eauto. Qed.

Theorem C10_any_exact_solver_agrees :
  forall sf b m (y : nat -> F), (forall i, i < m -> nth2 sf i i <> fO) ->
  (forall i, i < m -> ssum F fO fadd (S i) (fun j => fmul (nth2 sf i j) (y j)) = nthF b i) ->
  forall i, i < m -> y i = nthF (fs F fO fadd fmul fsub fdiv sf b m) i.
Proof. intros; eapply fsolve_unique; eauto. Qed.
End G.
Print Assumptions C10_stock_driven_inverts_inflow_driven.
Print Assumptions C10_same_outflow_and_cohort_tables.
Print Assumptions C10_inflow_driven_reproduces_prescribed_stock.
Print Assumptions C10_manual_solver_solves_the_system.
Print Assumptions C10_any_exact_solver_agrees.
