(* C13 — arrays always have the shape of their dimensions; failed calls change nothing.
   Statements only; proofs in Proofs/HeapProofs.v. *)
From Coq Require Import List.
Import ListNotations.
From Flodym Require Import Np.Einsum Model.Dims Model.Instances Model.Heap Proofs.HeapProofs.

(* In every state reachable by ANY sequence of operations of the alphabet (constructors with right
   and wrong shapes, copy, full_like, arithmetic, reductions, casts, cumsum, slice reads,
   assignments through [] of arrays / numbers / ndarrays, set_values, raw fills — including all the
   ill-formed calls, which raise), every array object has values of the shape of its dimensions,
   pairwise distinct dimension letters and as many entries as the shape demands. *)
Theorem C13_invariant_in_every_reachable_state : forall ops : list hop, Inv (run current ops).
Proof. exact inv_reachable. Qed.
Print Assumptions C13_invariant_in_every_reachable_state.

Theorem C13_invariant_preserved_by_every_step : forall h o, Inv h -> Inv (fst (step current h o)).
Proof. exact inv_step. Qed.
Print Assumptions C13_invariant_preserved_by_every_step.

(* An operation that raises leaves the whole heap — every buffer and every array — as it was. *)
Theorem C13_raising_call_changes_nothing :
  forall h o, snd (step current h o) = Raised -> fst (step current h o) = h.
Proof. exact raise_frame. Qed.
Print Assumptions C13_raising_call_changes_nothing.

(* non-vacuity: a history with a wrong-shaped constructor call, a valid one, a failing set_values *)
Example ex_C13_history :
  length (arrs (run current
     [HNew [mk_dim 97 0 [0; 1; 2]] (mk_nd [2] []);
      HNew [mk_dim 97 0 [0; 1; 2]] (mk_nd [3] [Instances.QO; Instances.QI; Instances.QI]);
      HSetValues 0 (mk_nd [1; 3] [Instances.QO; Instances.QI; Instances.QI])])) = 1.
Proof. vm_compute. reflexivity. Qed.
