(* C09 — cohort tables add up to the totals and each cohort is conserved.  Statements only. *)
From Coq Require Import List Arith Field_theory.
Import ListNotations.
From Flodym Require Import Base.ND Model.Stocks Proofs.StockAlgebra Proofs.StockModel Proofs.StockRoundtrip Proofs.C09More.
From Coq Require Import QArith Qcanon.
Local Open Scope nat_scope.

Section G.
Variable F : Type.
Variables (fO fI : F) (fadd fmul fsub : F -> F -> F) (fopp : F -> F) (fdiv : F -> F -> F) (finv : F -> F).
Variable Fth : field_theory fO fI fadd fmul fsub fopp fdiv finv eq.
Notation nthF := (nthF F fO).
Notation nth2 := (nth2 F fO).
Notation idsm := (idsm F fO fI fadd fmul fsub fdiv true).
Notation sdsm := (sdsm F fO fI fadd fmul fsub fdiv true).

(* totals are the sums of the cohort tables over the cohort axis *)
Theorem C09_stock_is_cohort_sum : forall n dt inflow sf t,
  nthF (o_stock F (idsm n dt inflow sf)) t = sum fO fadd (nth t (o_sbc F (idsm n dt inflow sf)) []).
Proof. intros; eapply idsm_stock_is_cohort_sum; eauto. Qed.

Theorem C09_outflow_is_cohort_sum : forall n dt inflow sf t,
  nthF (o_outflow F (idsm n dt inflow sf)) t = sum fO fadd (nth t (o_obc F (idsm n dt inflow sf)) []).
Proof. intros; eapply idsm_outflow_is_cohort_sum; eauto. Qed.

(* each cohort's stock = its whole-interval inflow (rate x interval length) x survival share *)
Theorem C09_cohort_stock_entry : forall n dt inflow sf, length dt = n -> length inflow = n ->
  forall t c, t < n -> c < n ->
  nth2 (o_sbc F (idsm n dt inflow sf)) t c = fmul (fmul (nthF inflow c) (nthF dt c)) (nth2 sf t c).
Proof. intros; eapply idsm_cohort_entry; eauto. Qed.

(* what entered a cohort = what is still in stock + what has left so far; and
   survival + cumulated outflow probabilities = 1 (for every lower-triangular survival table) *)
Theorem C09_cohort_conserved : forall (sf : nat -> nat -> F), (forall t c, t < c -> sf t c = fO) ->
  forall (w : nat -> F) c t, c <= t ->
  w c = fadd (fmul (w c) (sf t c)) (ssum F fO fadd (S t) (fun tau => fmul (w c) (pdf F fO fI fsub sf tau c))).
Proof. intros; eapply cohort_conserved; eauto. Qed.

(* the stock-driven model has the same tables as the inflow-driven model run on its inflow *)
Theorem C09_stock_driven_tables : forall n dt sf s,
  o_outflow F (sdsm n dt s sf) = o_outflow F (idsm n dt (o_inflow F (sdsm n dt s sf)) sf)
  /\ o_sbc F (sdsm n dt s sf) = o_sbc F (idsm n dt (o_inflow F (sdsm n dt s sf)) sf)
  /\ o_obc F (sdsm n dt s sf) = o_obc F (idsm n dt (o_inflow F (sdsm n dt s sf)) sf).
Proof. intros; eapply sdsm_as_idsm; eauto. Qed.
(* both tables are zero for cohorts later than the year (for every survival table that is zero there) *)
Theorem C09_stock_by_cohort_zero_for_later_cohorts : forall n dt inflow sf, length dt = n -> length inflow = n ->
  (forall t c, t < c -> nth2 sf t c = fO) -> forall t c, t < c -> c < n -> nth2 (o_sbc F (idsm n dt inflow sf)) t c = fO.
Proof. intros; eapply sbc_zero_later_cohorts; eauto. Qed.

Theorem C09_outflow_by_cohort_zero_for_later_cohorts : forall n dt inflow sf, length dt = n -> length inflow = n ->
  forall t c, t < c -> c < n -> nth2 (o_obc F (idsm n dt inflow sf)) t c = fO.
Proof. intros; eapply obc_zero_later_cohorts; eauto. Qed.
End G.

(* a cohort's stock never increases over time for a non-negative inflow, whenever its survival share does not (rational numbers) *)
Theorem C09_cohort_stock_never_increases :
  forall (n : nat) (dt inflow : list Qc) (sf : list (list Qc)) t c,
  length dt = n -> length inflow = n -> S t < n -> c < n ->
  (0 <= nth c inflow 0 * nth c dt 0)%Qc ->
  (nth c (nth (S t) sf []) 0 <= nth c (nth t sf []) 0)%Qc ->
  (nth c (nth (S t) (o_sbc Qc (Stocks.idsm Qc 0%Qc 1%Qc Qcplus Qcmult Qcminus Qcdiv true n dt inflow sf)) []) 0%Qc
   <= nth c (nth t (o_sbc Qc (Stocks.idsm Qc 0%Qc 1%Qc Qcplus Qcmult Qcminus Qcdiv true n dt inflow sf)) []) 0%Qc)%Qc.
Proof. exact cohort_stock_never_increases. Qed.
Print Assumptions C09_stock_by_cohort_zero_for_later_cohorts.
Print Assumptions C09_outflow_by_cohort_zero_for_later_cohorts.
Print Assumptions C09_cohort_stock_never_increases.
Print Assumptions C09_stock_is_cohort_sum.
Print Assumptions C09_outflow_is_cohort_sum.
Print Assumptions C09_cohort_stock_entry.
Print Assumptions C09_cohort_conserved.
Print Assumptions C09_stock_driven_tables.
