(* C09 — cohort tables add up to the totals and each cohort is conserved.  Statements only. *)
From Coq Require Import List Arith Field_theory.
Import ListNotations.
From Flodym Require Import Base.ND Model.Stocks Proofs.StockAlgebra Proofs.StockModel Proofs.StockRoundtrip.

Section G.
Variable F : Type.
Variables (fO fI : F) (fadd fmul fsub : F -> F -> F) (fopp : F -> F) (fdiv : F -> F -> F) (finv : F -> F).
Variable Fth : field_theory fO fI fadd fmul fsub fopp fdiv finv eq.
Notation nthF := (nthF F fO).
Notation nth2 := (nth2 F fO).
Notation idsm := (idsm F fO fI fadd fmul fsub fdiv true).
Notation sdsm := (sdsm F fO fI fadd fmul fsub fdiv true).

(* totals are the sums of the cohort tables over the cohort axis *)
Theorem C09_stock_is_cohort_sum : forall n dt inflow sf t,
  nthF (o_stock F (idsm n dt inflow sf)) t = sum fO fadd (nth t (o_sbc F (idsm n dt inflow sf)) []).
Proof. intros; eapply idsm_stock_is_cohort_sum; eauto. Qed.

Theorem C09_outflow_is_cohort_sum : forall n dt inflow sf t,
  nthF (o_outflow F (idsm n dt inflow sf)) t = sum fO fadd (nth t (o_obc F (idsm n dt inflow sf)) []).
Proof. intros; eapply idsm_outflow_is_cohort_sum; eauto. Qed.

(* each cohort's stock = its whole-interval inflow (rate x interval length) x survival share *)
Theorem C09_cohort_stock_entry : forall n dt inflow sf, length dt = n -> length inflow = n ->
  forall t c, t < n -> c < n ->
  nth2 (o_sbc F (idsm n dt inflow sf)) t c = fmul (fmul (nthF inflow c) (nthF dt c)) (nth2 sf t c).
Proof. intros; eapply idsm_cohort_entry; eauto. Qed.

(* what entered a cohort = what is still in stock + what has left so far; and
   survival + cumulated outflow probabilities = 1 (for every lower-triangular survival table) *)
Theorem C09_cohort_conserved : forall (sf : nat -> nat -> F), (forall t c, t < c -> sf t c = fO) ->
  forall (w : nat -> F) c t, c <= t ->
  w c = fadd (fmul (w c) (sf t c)) (ssum F fO fadd (S t) (fun tau => fmul (w c) (pdf F fO fI fsub sf tau c))).
Proof. intros; eapply cohort_conserved; eauto. Qed.

(* the stock-driven model has the same tables as the inflow-driven model run on its inflow *)
Theorem C09_stock_driven_tables : forall n dt sf s,
  o_outflow F (sdsm n dt s sf) = o_outflow F (idsm n dt (o_inflow F (sdsm n dt s sf)) sf)
  /\ o_sbc F (sdsm n dt s sf) = o_sbc F (idsm n dt (o_inflow F (sdsm n dt s sf)) sf)
  /\ o_obc F (sdsm n dt s sf) = o_obc F (idsm n dt (o_inflow F (sdsm n dt s sf)) sf).
Proof. intros; eapply sdsm_as_idsm; eauto. Qed.
End G.
Print Assumptions C09_stock_is_cohort_sum.
Print Assumptions C09_outflow_is_cohort_sum.
Print Assumptions C09_cohort_stock_entry.
Print Assumptions C09_cohort_conserved.
Print Assumptions C09_stock_driven_tables.
