(* C19 — exports reproduce every flow and stock under its labels.  Statements only.
   PARTIAL: the export is a direct projection of the system's objects (convert_to_dict copies
   references, the CSV writers call to_df, whose row-level faithfulness and round trip are
   C11_to_df_lists_every_entry_once_under_its_labels / C11_roundtrip_long_layout); proved here is the
   file-name logic.  Dictionary contents, pandas / pickle / CSV re-import and "export does not alter
   the system" are checked on the implementation by the correspondence and the oracle. *)
From Coq Require Import List Arith.
Import ListNotations.
From Flodym Require Import Model.Export Proofs.ExportProofs.

Theorem C19_one_csv_file_per_flow :
  forall names, NoDup (map sanitize names) -> NoDup (flow_files names) /\ length (flow_files names) = length names.
Proof. exact one_file_per_flow. Qed.
Print Assumptions C19_one_csv_file_per_flow.

(* the sanitiser on concrete names with spaces, arrows, brackets, upper case *)
Example ex_C19_sanitize :
  sanitize [80; 49; 32; 61; 62; 32; 91; 85; 115; 101; 93; 45; 45] = [112; 49; 95; 95; 117; 115; 101].
Proof. reflexivity. Qed.

Theorem C19_one_csv_file_per_stock_quantity :
  forall b names, NoDup (map sanitize names) ->
  NoDup (stock_files b names) /\ length (stock_files b names) = (if b then 3 else 1) * length names.
Proof. exact one_file_per_stock_quantity. Qed.
Print Assumptions C19_one_csv_file_per_stock_quantity.
