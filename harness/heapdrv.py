"""Histories of public operations on a pool of arrays: generator, driver with deep snapshots and
memory-sharing matrices, Coq emission (Corr.HeapC)."""
from fractions import Fraction
import itertools

import numpy as np

from arrays import (CODES, NAMECODES, build_array, cq_dim, cq_dimset, cq_letters, fl_dim, fl_dimset, mk_universe,
                    nelem, obs_dims, observe_values, ordered_subsets)
from common import cq_bool, cq_list, cq_nat, cq_opt, cq_Q, letter_code
from indexing import cq_key, py_key
from props.c06 import subdim, _with_sub
from props.c07 import _cq_args, _pyargs

BOP = dict(add="BAdd", sub="BSub", min="BMin", max="BMax", mul="BMul", div="BDiv", pow="BPow")
UOP = dict(neg="UNeg", abs="UAbs", sign="USign")
BIG = 2 ** 40


def rand_dims(rng, uni, lo=0, hi=3):
    L = list(uni.keys())
    k = rng.randint(lo, min(hi, len(L)))
    return rng.sample(L, k)


def rand_key(rng, uni, dims):
    """a random key for an array over dims; mostly valid"""
    r = rng.random()
    if not dims or r < 0.12:
        return dict(form="ellipsis")
    ents = []
    for l in dims:
        c = rng.random()
        items = uni[l]["items"]
        if c < 0.4:
            continue
        if c < 0.75:
            ents.append(["L" if rng.random() < 0.7 else "N", l, ["single", rng.choice(items)]])
        else:
            ents.append(["L", l, ["dim", subdim(uni, l, rng.sample(items, rng.randint(1, len(items))))]])
    if not ents:
        ents.append(["L", dims[0], ["single", uni[dims[0]]["items"][0]]])
    if rng.random() < 0.08:
        ents[0] = [ents[0][0], ents[0][1], ["single", "nosuch"]]
    rng.shuffle(ents)
    if all(e[2][0] == "single" for e in ents) and rng.random() < 0.3:
        its = [e[2][1] for e in ents]
        return dict(form="bare", item=its[0]) if len(its) == 1 else dict(form="tuple", items=its)
    return dict(form="dict", entries=ents)


def gen_history(rng, uni, length, illformed=0.15):
    """list of op descriptions; pool indices refer to the arrays created so far (the driver appends on success,
    so the generator tracks a *predicted* pool size conservatively: ops may refer to any index < current size,
    the driver clamps)."""
    ops = []
    L = list(uni.keys())
    for s in range(2):
        d = rand_dims(rng, uni, 1, 3)
        ops.append(dict(op="new", dims=d, shape=[len(uni[l]["items"]) for l in d],
                        values=[rng.randint(-3, 3) for _ in range(nelem(uni, d))]))
    for s in range(length):
        r = rng.random()
        i = rng.randrange(0, 64)
        j = rng.randrange(0, 64)
        bad = rng.random() < illformed
        if r < 0.08:
            d = rand_dims(rng, uni, 0, 3)
            shp = [len(uni[l]["items"]) for l in d]
            if bad:
                shp = shp[::-1] if len(set(shp)) > 1 else shp + [2]
            ops.append(dict(op="new", dims=d, shape=shp, values=[rng.randint(-3, 3) for _ in range(int(np.prod(shp)) if shp else 1)]))
        elif r < 0.13:
            ops.append(dict(op="copy", i=i))
        elif r < 0.17:
            ops.append(dict(op="full_like", i=i, c=rng.randint(-2, 2)))
        elif r < 0.33:
            b = rng.choice(["add", "sub", "mul", "min", "max", "add", "sub", "pow", "div"])
            if rng.random() < 0.25:
                c = rng.choice([1, 2, -1, 0.5]) if b != "pow" else rng.choice([0, 1, 2])
                ops.append(dict(op="bin", b=b, i=i, y=dict(kind="num", c=c)))
            else:
                ops.append(dict(op="bin", b=b, i=i, y=dict(kind="arr", j=j)))
        elif r < 0.38:
            u = rng.choice(["neg", "abs", "sign"])
            ops.append(dict(op="un", u=u, i=i, inplace=(u != "neg" and rng.random() < 0.4)))
        elif r < 0.48:
            ops.append(dict(op="sum_to", i=i, pick=rng.random(), perm=rng.random(), bad=bad, style=rng.choice("LND")))
        elif r < 0.53:
            ops.append(dict(op="sum_over", i=i, pick=rng.random(), bad=bad, style=rng.choice("LND")))
        elif r < 0.60:
            ops.append(dict(op="cast", i=i, target=rng.sample(L, rng.randint(1, len(L))) if bad else None, perm=rng.random()))
        elif r < 0.63:
            ops.append(dict(op="cumsum", i=i, pick=rng.random(), inplace=rng.random() < 0.5, bad=bad))
        elif r < 0.75:
            ops.append(dict(op="get", i=i, keyseed=rng.randrange(10 ** 6)))
        elif r < 0.90:
            k = rng.random()
            rhs = dict(kind="arr", j=j) if k < 0.5 else dict(kind="num", c=rng.randint(-2, 2)) if k < 0.7 else dict(kind="nd", bad=bad, seed=rng.randrange(10 ** 6))
            ops.append(dict(op="set", i=i, keyseed=rng.randrange(10 ** 6), rhs=rhs, ell=rng.random() < 0.35))
        elif r < 0.93:
            ops.append(dict(op="set_values", i=i, bad=bad, seed=rng.randrange(10 ** 6)))
        elif r < 0.95:
            ops.append(dict(op="set_values_arr", i=i, j=j))
        else:
            ops.append(dict(op="rawfill", i=i, c=rng.randint(5, 9)))
    return ops


import random as _random


def resolve(op, uni, pool):
    """make an abstract op concrete w.r.t. the current pool (indices clamped, keys / arguments drawn for the
    operand's actual dims).  Returns a concrete op dict (self-contained) or None to skip."""
    o = dict(op)
    n = len(pool)
    if o["op"] == "new":
        return o
    if n == 0:
        return None
    o["i"] = (n - 1) if o["i"] == -1 else o["i"] % n
    a = pool[o["i"]]
    dims = list(a.dims.letters)
    base_dims = [l for l in dims if l in uni and l.islower()]
    kind = o["op"]
    def compatible(b):
        # the property's premise: both operands take their dimensions from ONE dimension set
        # (a subset dimension re-defined later in the history under the same letter is another set)
        other = {d.letter: list(d.items) for d in b.dims}
        return all(list(d.items) == other[d.letter] for d in a.dims if d.letter in other)
    if kind == "bin" and o["y"]["kind"] == "arr":
        o["y"] = dict(kind="arr", j=o["y"]["j"] % n)
        if not compatible(pool[o["y"]["j"]]):
            return None
        if o["b"] == "pow":
            # keep powers exact: exponents must be small non-negative integers, bases small integers
            ev, bv = np.asarray(pool[o["y"]["j"]].values), np.asarray(a.values)
            if not (np.all(np.isin(ev, [0, 1, 2, 3])) and np.all(np.abs(bv) <= 20) and np.all(bv == np.round(bv))):
                o["b"] = "mul"
    if kind == "bin" and o["y"]["kind"] == "num" and o["b"] == "pow":
        bv = np.asarray(a.values)
        if not (np.all(np.abs(bv) <= 20) and np.all(bv == np.round(bv))):
            o["b"] = "mul"
    if kind in ("sum_to", "sum_over"):
        k = int(o["pick"] * (len(dims) + 1))
        rng = _random.Random(int(o["pick"] * 1e6))
        keep = rng.sample(dims, min(k, len(dims)))
        if o.get("bad"):
            keep = keep[:1] + ["z"]
        o["args"] = [[o["style"] if (l in uni) else "L", l] for l in keep]
    if kind == "cast":
        if o["target"] is None:
            extra = [l for l in uni if l.islower() and l not in dims]
            rng = _random.Random(int(o["perm"] * 1e6))
            tgt = dims + extra[: rng.randint(0, len(extra))]
            rng.shuffle(tgt)
            o["target"] = tgt
        if any(l not in uni for l in o["target"]):
            return None
    if kind == "cumsum":
        o["letter"] = "z" if (o.get("bad") or not dims) else dims[int(o["pick"] * len(dims)) % len(dims)]
    if kind in ("get", "set"):
        rng = _random.Random(o["keyseed"])
        if any(l not in uni or not l.islower() for l in dims):
            # arrays over subset dimensions: address them with the ellipsis or a bare item only
            key = dict(form="ellipsis") if rng.random() < 0.5 or not dims else dict(form="bare", item=a.dims[0].items[0])
        elif kind == "set" and o.get("ell"):
            key = dict(form="ellipsis")
        else:
            key = rand_key(rng, uni, dims)
        o["key"] = key
        if kind == "set":
            r = o["rhs"]
            if r["kind"] == "arr":
                o["rhs"] = dict(kind="arr", j=r["j"] % n)
                if not compatible(pool[o["rhs"]["j"]]):
                    return None
            elif r["kind"] == "nd":
                rr = _random.Random(r["seed"])
                shp = list(a.dims.shape) if key["form"] == "ellipsis" else [rr.randint(1, 3) for _ in range(rr.randint(0, 2))]
                if r.get("bad") and key["form"] == "ellipsis":
                    shp = shp[::-1] if len(set(shp)) > 1 else shp + [1]
                m = int(np.prod(shp)) if shp else 1
                o["rhs"] = dict(kind="nd", shape=shp, values=[rr.randint(-3, 3) for _ in range(m)])
    if kind == "set_values_arr":
        o["j"] = o["j"] % n
    if kind == "set_values":
        rr = _random.Random(o["seed"])
        shp = list(a.dims.shape)
        if o.get("bad"):
            shp = shp[::-1] if len(set(shp)) > 1 else shp + [2]
        m = int(np.prod(shp)) if shp else 1
        o["shape"], o["values"] = shp, [rr.randint(-3, 3) for _ in range(m)]
    for k in ("pick", "perm", "bad", "style", "keyseed", "seed", "ell"):
        o.pop(k, None)
    return o


def snapshot(pool):
    arrs = []
    for a in pool:
        v = a.values
        if not isinstance(v, np.ndarray):     # something that is not an ndarray ended up as the values attribute
            arrs.append(dict(dims=obs_dims(a.dims), shape=["not-an-ndarray:" + type(v).__name__], values=[]))
            continue
        arrs.append(dict(dims=obs_dims(a.dims), shape=list(v.shape), values=observe_values(v, snap=True)))
    share, dshare = [], []
    for i in range(len(pool)):
        for j in range(i + 1, len(pool)):
            if isinstance(pool[i].values, np.ndarray) and isinstance(pool[j].values, np.ndarray) and np.shares_memory(pool[i].values, pool[j].values):
                share.append([i, j])
            if pool[i].dims is pool[j].dims or pool[i].dims.dim_list is pool[j].dims.dim_list:
                dshare.append([i, j])
    return dict(arrs=arrs, share=share, dshare=dshare)


def execute(uni, cop, pool):
    """perform one concrete op on the pool; returns the new array (or None)"""
    import flodym as fd
    import operator
    k = cop["op"]
    if k == "new":
        vals = np.array([float(v) for v in cop["values"]]).reshape(tuple(cop["shape"]))
        return fd.FlodymArray(dims=fl_dimset(uni, cop["dims"]), values=vals)
    a = pool[cop["i"]]
    if k == "copy":
        return a.copy()
    if k == "full_like":
        return fd.FlodymArray.full_like(a, float(cop["c"]))
    if k == "bin":
        y = pool[cop["y"]["j"]] if cop["y"]["kind"] == "arr" else cop["y"]["c"]
        b = cop["b"]
        if b == "min":
            return a.minimum(y)
        if b == "max":
            return a.maximum(y)
        return dict(add=operator.add, sub=operator.sub, mul=operator.mul, div=operator.truediv, pow=operator.pow)[b](a, y)
    if k == "un":
        if cop.get("inplace"):
            return {"abs": lambda: a.abs(inplace=True), "sign": lambda: a.sign(inplace=True)}[cop["u"]]()
        return {"neg": lambda: -a, "abs": lambda: abs(a), "sign": lambda: a.sign()}[cop["u"]]()
    if k == "sum_to":
        return a.sum_to(_pyargs(uni, cop["args"]))
    if k == "sum_over":
        return a.sum_over(_pyargs(uni, cop["args"]))
    if k == "cast":
        return a.cast_to(fl_dimset(uni, cop["target"]))
    if k == "cumsum":
        return a.cumsum(cop["letter"], inplace=cop["inplace"])
    if k == "get":
        return a[py_key(uni, cop["key"])]
    if k == "set":
        r = cop["rhs"]
        rhs = pool[r["j"]] if r["kind"] == "arr" else r["c"] if r["kind"] == "num" else np.array([float(v) for v in r["values"]]).reshape(tuple(r["shape"]))
        a[py_key(uni, cop["key"])] = rhs
        return None
    if k == "set_values":
        a.set_values(np.array([float(v) for v in cop["values"]]).reshape(tuple(cop["shape"])))
        return None
    if k == "set_values_arr":
        a.set_values(pool[cop["j"]])       # ill-formed: a FlodymArray instead of an ndarray / number
        return None
    if k == "rawfill":
        a.values[...] = cop["c"]
        return None
    raise ValueError(k)


def drive(uni, ops):
    """run a history; returns (concrete steps, observations)"""
    pool = []
    steps, obs = [], []
    uni = dict(uni)
    for op in ops:
        cop = resolve(op, uni, pool)
        if cop is None:
            continue
        if cop["op"] in ("get", "set"):
            uni = _with_sub(uni, cop["key"])
        before = snapshot(pool)
        try:
            r = execute(uni, cop, pool)
            ok = True
            exc = None
        except Exception as e:  # noqa
            r, ok, exc = None, False, type(e).__name__
        if ok and r is not None:
            pool.append(r)
        after = snapshot(pool)
        big = any(v is not None and abs(Fraction(v[0], v[1])) > BIG for a in after["arrs"] for v in a["values"])
        nonfinite = any(v is None for a in after["arrs"] for v in a["values"])
        if big or nonfinite or len(pool) > 14:
            if ok and r is not None:
                pool.pop()
            break
        cop["subdims"] = {l: d for l, d in uni.items() if not l.islower()}   # the subset dimensions as they were at this step
        steps.append(cop)
        obs.append(dict(ok=ok, exc=exc, before=before, after=after))
    return dict(uni=uni, steps=steps), obs


# ---- Coq emission ---------------------------------------------------------------------------------


def cq_nd(shape, values):
    return f"(mk_nd {cq_list([cq_nat(s) for s in shape])} {cq_list([cq_Q(Fraction(v)) for v in values])})"


def cq_hop(uni, c):
    uni = dict(uni, **c.get("subdims", {}))
    k = c["op"]
    if k == "new":
        return f"(HNew {cq_dimset([uni[l] for l in c['dims']])} {cq_nd(c['shape'], c['values'])})"
    i = cq_nat(c["i"])
    if k == "copy":
        return f"(HCopy {i})"
    if k == "full_like":
        return f"(HFullLike {i} {cq_Q(Fraction(c['c']))})"
    if k == "bin":
        y = f"(HArr {cq_nat(c['y']['j'])})" if c["y"]["kind"] == "arr" else f"(HNum {cq_Q(Fraction(c['y']['c']))})"
        return f"(HBin {BOP[c['b']]} {i} {y})"
    if k == "un":
        return f"(HUn {UOP[c['u']]} {i} {cq_bool(bool(c.get('inplace')))})"
    if k == "sum_to":
        return f"(HSumTo {i} {_cq_args(uni, c['args'])})"
    if k == "sum_over":
        return f"(HSumOver {i} {_cq_args(uni, c['args'])})"
    if k == "cast":
        return f"(HCast {i} {cq_dimset([uni[l] for l in c['target']])})"
    if k == "cumsum":
        return f"(HCumsum {i} {cq_nat(letter_code(c['letter']))} {cq_bool(c['inplace'])})"
    if k == "get":
        return f"(HGet {i} {cq_key(uni, c['key'])})"
    if k == "set":
        r = c["rhs"]
        rr = f"(HArr {cq_nat(r['j'])})" if r["kind"] == "arr" else f"(HNum {cq_Q(Fraction(r['c']))})" if r["kind"] == "num" else f"(HNd {cq_nd(r['shape'], r['values'])})"
        return f"(HSet {i} {cq_key(uni, c['key'])} {rr})"
    if k == "set_values":
        return f"(HSetValues {i} {cq_nd(c['shape'], c['values'])})"
    if k == "set_values_arr":
        return f"(HSetValuesArr {i} {cq_nat(c['j'])})"
    if k == "rawfill":
        return f"(HRawFill {i} {cq_Q(Fraction(c['c']))})"
    raise ValueError(k)


def cq_snap(s):
    vs = cq_list([cq_opt(None if v is None else cq_Q(Fraction(v[0], v[1]))) for v in s["values"]])
    return f"(mk_snap {cq_dimset(s['dims'])} {cq_list([cq_nat(x) for x in s['shape']])} {vs})"


def cq_pairs(ps):
    return cq_list([f"({cq_nat(a)}, {cq_nat(b)})" for a, b in ps])


def cq_history(case, obs):
    uni = case["uni"]
    out = []
    for c, o in zip(case["steps"], obs):
        a = o["after"]
        ob = f"(mk_obs {cq_bool(o['ok'])} {cq_list([cq_snap(s) for s in a['arrs']])} {cq_pairs(a['share'])} {cq_pairs(a['dshare'])})"
        out.append(f"({cq_hop(uni, c)}, {ob})")
    return cq_list(out)
