"""Stocks: building stock objects from case descriptions (with an exactly representable probe lifetime
model), observing all result arrays, splitting them into one column per label combination, Coq emission."""
from fractions import Fraction
import itertools
from typing import Any

import numpy as np

from arrays import fl_dim, observe_values, snap_fraction
from common import cq_list, cq_opt, cq_Q, to_fraction

_PROBE = None


def probe_class():
    """LifetimeModel subclass (public extension point) with survival 2^-floor(age / mean): dyadic, antitone,
    in (0,1], first-interval survival a power of two, so every stock computation stays exact in binary64"""
    global _PROBE
    if _PROBE is None:
        import flodym as fd

        class ProbeLifetime(fd.lifetime_models.LifetimeModel):
            mean: Any = None

            @property
            def prms(self):
                return {"mean": self.mean}

            def set_prms(self, mean):
                self.mean = self.cast_any_to_np_array(mean)

            def _survival_by_year_id(self, t, m):
                return np.power(2.0, -np.floor(t / self.mean[m, ...]))

        _PROBE = ProbeLifetime
    return _PROBE


def probe_S(age, p):
    """the same survival function on Fractions"""
    q = Fraction(age) / Fraction(p)
    fl = q.numerator // q.denominator
    return Fraction(1, 2 ** fl) if fl >= 0 else Fraction(2 ** (-fl))


EXTRA = {"r": ["r0", "r1"], "g": ["g0", "g1", "g2"], "q": ["q0"], "h": ["h0", "h1"]}
NAMES = {"t": "time", "r": "region", "g": "good", "q": "quality", "h": "height"}


def mk_dims(grid, extra, tl="t"):
    """tl: the letter of the time dimension ('t' with the name "time", or e.g. 'y' with the name "year")"""
    import flodym as fd
    whole = all(float(g) == int(g) for g in grid)
    dl = [fd.Dimension(name="time" if tl == "t" else "year", letter=tl, items=[int(g) for g in grid] if whole else [float(g) for g in grid],
                       dtype=int if whole else float)]
    for l in extra:
        dl.append(fd.Dimension(name=NAMES[l], letter=l, items=list(EXTRA[l])))
    return fd.DimensionSet(dim_list=dl)


def shape_of(grid, extra):
    return (len(grid),) + tuple(len(EXTRA[l]) for l in extra)


MADE_PARAMS = []      # the parameter arrays handed to the library since the list was last cleared (see case["touch_params"])


def mk_param(dims, pdesc):
    """lifetime parameter: scalar | {"dims":[letters], "values":[flat]} (a FlodymArray over a subset, any order)"""
    import flodym as fd
    if not isinstance(pdesc, dict):
        return pdesc
    tl = dims.letters[0]          # parameter descriptions say "t" for the time dimension, whatever its letter
    ds = fd.DimensionSet(dim_list=[dims[tl if l == "t" else l] for l in pdesc["dims"]])
    vals = np.array([float(v) for v in pdesc["values"]]).reshape(ds.shape)
    if pdesc.get("dtype") == "int" and np.all(vals == np.round(vals)):
        vals = vals.astype(np.int64)          # whole-number parameters (years) handed over as an integer array
    out = fd.FlodymArray(dims=ds, values=vals)
    MADE_PARAMS.append(out)
    return out


def param_full(case):
    """the parameter as a full (t, extra...) Fraction array, by label"""
    grid, extra = case["grid"], case["extra"]
    shp = shape_of(grid, extra)
    p = case["lifetime"]["mean"]
    out = np.empty(shp, dtype=object)
    letters = ["t"] + list(extra)
    if not isinstance(p, dict):
        out[...] = Fraction(p)
        return out
    pshape = tuple(shp[letters.index(l)] for l in p["dims"])
    pv = np.array([Fraction(v) for v in p["values"]], dtype=object).reshape(pshape)
    for idx in np.ndindex(*shp):
        out[idx] = pv[tuple(idx[letters.index(l)] for l in p["dims"])]
    return out


def _scaled(pdesc, f):
    if isinstance(pdesc, dict):
        return dict(pdesc, values=[float(v) * f for v in pdesc["values"]])
    return float(pdesc) * f


def mk_lifetime(case, dims):
    """with case["touch_params"] the parameter arrays handed to the model are overwritten in place by their owner afterwards (before
    any table is read): the model holds the parameters it was given, not whatever the caller's arrays hold later"""
    if case.get("resettle"):
        # the model is built with another inflow instant and quadrature order and its tables are read; then the case's settings are
        # assigned and the same parameters are declared once more through set_prms: the tables are those of the settings in force
        lt = case["lifetime"]
        want_at, want_n = lt.get("inflow_at", "middle"), lt.get("n_pts", 1)
        other = dict(lt, inflow_at="end" if want_at != "end" else "start", n_pts=2 if want_n != 2 else 1)
        lm = mk_lifetime(dict(case, resettle=False, lifetime=other), dims)
        _ = lm.sf, lm.pdf
        lm.inflow_at = want_at
        lm.n_pts_per_interval = want_n
        keys = [k for k in ("mean", "std", "shape", "scale") if k in lt]
        names = dict(mean="mean", std="std", shape="weibull_shape", scale="weibull_scale")
        lm.set_prms(**{names[k]: mk_param(dims, lt[k]) for k in keys})
        return lm
    if case.get("touch_params"):
        del MADE_PARAMS[:]
        lm = mk_lifetime(dict(case, touch_params=False), dims)
        for p in MADE_PARAMS:
            p.values[...] = p.values * 3 + 1
        del MADE_PARAMS[:]
        return lm
    return _mk_lifetime0(case, dims)


def _mk_lifetime0(case, dims):
    """the lifetime model of the case; with case["preset"] = f it is first built with all parameters times f, its tables are
    computed, and the case's own parameters are then handed over through set_prms (however close to the first ones they are)"""
    lt = case["lifetime"]
    f = case.get("preset")
    if f and lt["kind"] in ("fixed", "normal", "foldnorm", "lognormal", "weibull"):
        keys = [k for k in ("mean", "std", "shape", "scale") if k in lt]
        lm = _mk_lifetime(dict(case, lifetime=dict(lt, **{k: _scaled(lt[k], f) for k in keys})), dims)
        _ = lm.sf, lm.pdf
        names = dict(mean="mean", std="std", shape="weibull_shape", scale="weibull_scale")
        lm.set_prms(**{names[k]: mk_param(dims, lt[k]) for k in keys})
        return lm
    return _mk_lifetime(case, dims)


def _mk_lifetime(case, dims):
    """with case["late_rule"] the model is built with another inflow instant and another quadrature order, and the case's own
    settings are assigned afterwards (before any table is read): the tables are those of the settings in force when they are computed"""
    if case.get("late_rule"):
        lt = case["lifetime"]
        want_at, want_n = lt.get("inflow_at", "middle"), lt.get("n_pts", 1)
        other = dict(lt, inflow_at="end" if want_at != "end" else "start", n_pts=2 if want_n != 2 else 1)
        lm = _mk_lifetime(dict(case, late_rule=False, lifetime=other), dims)
        lm.inflow_at = want_at
        lm.n_pts_per_interval = want_n
        return lm
    import flodym as fd
    lt = case["lifetime"]
    kw = dict(dims=dims, time_letter=case.get("time_letter", "t"), inflow_at=lt.get("inflow_at", "middle"), n_pts_per_interval=lt.get("n_pts", 1))
    if lt["kind"] == "probe":
        return probe_class()(mean=mk_param(dims, lt["mean"]), **kw)
    if lt["kind"] == "fixed":
        return fd.FixedLifetime(mean=mk_param(dims, lt["mean"]), **kw)
    cls = dict(normal=fd.NormalLifetime, foldnorm=fd.FoldedNormalLifetime, lognormal=fd.LogNormalLifetime)[lt["kind"]] if lt["kind"] != "weibull" else fd.WeibullLifetime
    if lt["kind"] == "weibull":
        return cls(weibull_shape=mk_param(dims, lt["shape"]), weibull_scale=mk_param(dims, lt["scale"]), **kw)
    return cls(mean=mk_param(dims, lt["mean"]), std=mk_param(dims, lt["std"]), **kw)


def mk_stock(case, lifetime_model=None):
    import flodym as fd
    tl = case.get("time_letter", "t")
    dims = mk_dims(case["grid"], case["extra"], tl)
    shp = shape_of(case["grid"], case["extra"])
    drv = np.array([float(Fraction(v)) for v in case["driver"]]).reshape(shp)
    if case.get("int_dtype") and np.all(drv == np.round(drv)):
        drv = drv.astype(np.int64)        # whole-number counts handed over as an integer array
    if case.get("layout") == "F" and drv.ndim >= 2:
        drv = np.ascontiguousarray(drv.T).T      # the same numbers stored the other way round (a transposed view, Fortran order)
    k = case["cls"]
    if k == "simple":
        out = np.array([float(v) for v in case["outflow"]]).reshape(shp)
        return fd.SimpleFlowDrivenStock(dims=dims, inflow=fd.StockArray(dims=dims, values=drv),
                                        outflow=fd.StockArray(dims=dims, values=out), name="s", time_letter=tl)
    lm = lifetime_model if lifetime_model is not None else mk_lifetime(case, dims)
    if k == "idsm":
        return fd.InflowDrivenDSM(dims=dims, inflow=fd.StockArray(dims=dims, values=drv), lifetime_model=lm, name="s", time_letter=tl)
    return fd.StockDrivenDSM(dims=dims, stock=fd.StockArray(dims=dims, values=drv), lifetime_model=lm,
                             solver=case.get("solver", "manual"), name="s", time_letter=tl)


def _time_axis(st):
    """interval bounds and lengths as the library computes them; they are held in a private helper object, and if that is not to be
    found under its usual name (a refactoring), the documented values stand in (they are what the stock balance is judged by anyway)"""
    try:
        t = st._t
        return np.asarray(t.bounds, dtype=float), np.asarray(t.interval_lengths, dtype=float)
    except AttributeError:
        try:
            from flodym.lifetime_models import UnevenTimeDim
            t = UnevenTimeDim(dim=st.dims[st.time_letter])
            return np.asarray(t.bounds, dtype=float), np.asarray(t.interval_lengths, dtype=float)
        except Exception:  # noqa
            b, dt = oracle_dt(list(st.dims[st.time_letter].items))
            return np.array([float(x) for x in b]), np.array([float(x) for x in dt])


def observe_stock(st, snap=True):
    bounds, dt = _time_axis(st)
    o = dict(stock=observe_values(st.stock.values, snap), inflow=observe_values(st.inflow.values, snap),
             outflow=observe_values(st.outflow.values, snap), shape=list(st.stock.values.shape),
             bounds=observe_values(bounds, snap), dt=observe_values(dt, snap))
    if hasattr(st, "lifetime_model"):
        o["sf"] = observe_values(st.lifetime_model.sf, snap)
        o["pdf"] = observe_values(st.lifetime_model.pdf, snap)
        o["sbc"] = observe_values(st.get_stock_by_cohort(), snap)
        o["obc"] = observe_values(st.get_outflow_by_cohort(), snap)
    o["balance"] = observe_values(st.get_stock_balance(), snap)
    try:
        import io, contextlib
        with contextlib.redirect_stdout(io.StringIO()):
            st.check_stock_balance()
        o["check"] = "ok"
    except Exception as e:  # noqa
        o["check"] = type(e).__name__
    return o


def computed_stock(case):
    """the case's stock, computed — directly, or (case["history"]) as the last step of a short history on the objects involved:
    'twice'       compute() called twice in a row
    'other_first' the same object computed with another (non-zero) driver first, then given the case's driver
    'shared_lm'   another stock computed first with the SAME lifetime-model object
    'resettled'   computed, then the lifetime model's inflow instant and quadrature order re-assigned, then computed again
    The results are those of a fresh computation in every case (that is what the property under test quantifies over:
    'after compute()', whatever happened to the objects before)."""
    h = case.get("history")
    if h == "other_first":
        other = [Fraction(v) + 3 for v in case["driver"]]
        st = mk_stock(dict(case, driver=other))
        st.compute()
        drv = np.array([float(Fraction(v)) for v in case["driver"]]).reshape(st.stock.values.shape)
        if case["cls"] == "sdsm":
            st.stock.values[...] = drv
        else:
            st.inflow.values[...] = drv
        st.compute()
        return st
    if h == "shared_lm" and case["cls"] in ("idsm", "sdsm"):
        first = mk_stock(dict(case, driver=[Fraction(v) * 2 + 1 for v in case["driver"]]))
        first.compute()
        st = mk_stock(case, lifetime_model=first.lifetime_model)
        st.compute()
        return st
    st = mk_stock(case)
    st.compute()
    if h == "twice":
        st.compute()
    if h == "resettled":
        lm = st.lifetime_model
        lm.inflow_at = "end" if lm.inflow_at != "end" else "start"
        lm.n_pts_per_interval = 2 if lm.n_pts_per_interval != 2 else 3
        st.compute()
    return st


HISTORIES = (None, "twice", "other_first", "shared_lm")


def run_stock(case, snap=True):
    try:
        st = computed_stock(case)
    except Exception as e:  # noqa
        return dict(kind="err", exc=type(e).__name__, msg=str(e)[:200])
    return dict(kind="ok", value=observe_stock(st, snap))


def run_stock_reuse(case, first_driver, snap=True):
    """the same stock object computed with another driver first, then with the case's driver"""
    try:
        st = mk_stock(dict(case, driver=first_driver))
        st.compute()
        drv = np.array([float(Fraction(v)) for v in case["driver"]]).reshape(st.stock.values.shape)
        if case["cls"] == "sdsm":
            st.stock.values[...] = drv
        else:
            st.inflow.values[...] = drv
        st.compute()
    except Exception as e:  # noqa
        return dict(kind="err", exc=type(e).__name__, msg=str(e)[:200])
    return dict(kind="ok", value=observe_stock(st, snap))


def fr(v):
    return None if v is None else Fraction(v[0], v[1])


def arr(o, key, shape):
    """observed flat values -> numpy object array of Fractions/None"""
    a = np.empty(len(o[key]), dtype=object)
    for i, v in enumerate(o[key]):
        a[i] = fr(v)
    return a.reshape(shape)


def oracle_dt(grid):
    """the documented interval bounds / lengths, computed independently"""
    g = [Fraction(x) for x in grid]
    mid = [(a + b) / 2 for a, b in zip(g[:-1], g[1:])]
    b = [mid[0] - (mid[1] - mid[0])] + mid + [mid[-1] + (mid[-1] - mid[-2])]
    return b, [y - x for x, y in zip(b[:-1], b[1:])]


# ---- Coq emission -----------------------------------------------------------------------------------


def _q(v):
    return cq_Q(Fraction(v))


def _ol(vs):
    return cq_list([cq_opt(None if v is None else cq_Q(v)) for v in vs])


def cq_stock_case(case, o):
    n = len(case["grid"])
    shp = tuple(o["shape"])
    K = int(np.prod(shp[1:])) if len(shp) > 1 else 1
    kind = dict(simple="KSimple", idsm="KIdsm", sdsm="KSdsm")[case["cls"]]
    drv = np.array([Fraction(v) for v in case["driver"]], dtype=object).reshape(n, K)
    outin = np.array([Fraction(v) for v in case.get("outflow", [0] * (n * K))], dtype=object).reshape(n, K)
    stock, inflow, outflow, bal = (arr(o, k, (n, K)) for k in ("stock", "inflow", "outflow", "balance"))
    if case["cls"] != "simple":
        sf, sbc, obc = (arr(o, k, (n, n, K)) for k in ("sf", "sbc", "obc"))
    cols = []
    for k in range(K):
        if case["cls"] != "simple":
            sfk = cq_list([cq_list([cq_Q(sf[t, c, k]) for c in range(n)]) for t in range(n)])
            sbck = cq_list([_ol(sbc[t, :, k]) for t in range(n)])
            obck = cq_list([_ol(obc[t, :, k]) for t in range(n)])
        else:
            sfk, sbck, obck = "[]", "[]", "[]"
        cols.append(f"(mk_col {cq_list([cq_Q(v) for v in drv[:, k]])} {cq_list([cq_Q(v) for v in outin[:, k]])} {sfk} "
                    f"{_ol(stock[:, k])} {_ol(inflow[:, k])} {_ol(outflow[:, k])} {sbck} {obck} {_ol(bal[:, k])})")
    items = cq_list([_q(g) for g in case["grid"]])
    return f"(mk_case {kind} {items} {_ol([fr(v) for v in o['bounds']])} {_ol([fr(v) for v in o['dt']])} {cq_list(cols)})"
