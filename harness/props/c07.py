"""C07 — summing, casting and shares conserve totals and act by label."""
from fractions import Fraction
import itertools

from arrays import (Lab, build_array, compare_lab, cq_dim, cq_dimset, cq_farr, cq_letters, cq_oarr, cq_res,
                    fingerprint_values, fl_dim, fl_dimset, mk_universe, nelem, observe, observe_array,
                    ordered_subsets, random_values, NAMECODES)
from common import cq_list, cq_nat, letter_code

ID = "C07"
THOROUGH_ROUNDS = 2      # rounds of generate() in the thorough tier (new random draws each round)
COQ_MODULE = "Corr.C07"
RULE = ("exhaustive over ordered dimension subsets of a 3-letter (quick) / 4-letter (thorough) universe for the array, "
        "crossed with every ordered subset of kept / summed / added dimensions, three ways of naming a dimension "
        "(letter, name, Dimension object), fingerprint (2^k) and seeded random integer values, C / Fortran / strided "
        "memory layouts; a malformed stream with unknown letters, names and foreign Dimension objects. "
        "A case is non-trivial when the array has rank >= 2 or the operation is refused.")
ASSUMPTIONS = [
    "numpy.einsum / tile / cumsum are modelled (Np/Einsum.v), validated by this correspondence",
    "inputs are small integers / powers of two so that binary64 arithmetic is exact",
]


def _args(style, letters, uni):
    out = []
    for i, l in enumerate(letters):
        s = style[i % len(style)]
        out.append([s, l])
    return out


def generate(tier, rng):
    cases = []
    patterns = [(2, 2, 3), (1, 2, 2)] if tier == "quick" else [(2, 2, 3), (1, 2, 2), (2, 2, 2), (3, 1, 2)]
    letters = "abc"
    unis = [mk_universe(p, letters) for p in patterns]
    if tier == "thorough":
        unis.append(mk_universe((2, 2, 2, 3), "abcd"))
        unis.append(mk_universe((1, 2, 3, 2), "abcd"))
    layouts = ["C", "F", "V"]
    k = 0
    for uni in unis:
        L = list(uni.keys())
        for adims in ordered_subsets(L):
            n = nelem(uni, adims)
            for vk, vals in enumerate([fingerprint_values(n), random_values(rng, n)]):
                arr = dict(dims=adims, values=vals, layout=layouts[k % 3])
                k += 1
                base = dict(stream="exact", uni=uni, arr=arr)
                # sum_to / sum_over: every ordered subset of the array's letters
                for sub in ordered_subsets(adims):
                    style = ["L", "N", "D"][(k + len(sub)) % 3:] + ["L", "N", "D"][: (k + len(sub)) % 3]
                    if (k + len(sub)) % 4 == 0:
                        style = ["O" if x == "D" else x for x in style]
                    if vk == 0:
                        cases.append(dict(base, op=dict(kind="sum_to", args=_args(style, sub, uni))))
                    else:
                        cases.append(dict(base, op=dict(kind="sum_over", args=_args(style, sub, uni))))
                # cast: every ordered subset of the universe as target (also ones lacking a source dim)
                if vk == 0:
                    for tgt in ordered_subsets(L):
                        if len(tgt) >= len(adims) - 1 and (len(L) <= 3 or len(tgt) >= 2):
                            cases.append(dict(base, op=dict(kind="cast", target=tgt)))
                # shares over every unordered subset (in two orders for pairs)
                if vk == 1:
                    pos = [abs(v) + 1 for v in vals]
                    pw = [2 ** (i % 3) for i in range(n)]
                    for sub in ordered_subsets(adims):
                        if len(sub) == 0:
                            continue
                        a2 = dict(arr, values=pw)
                        cases.append(dict(stream="tolerance", uni=uni, arr=a2, op=dict(kind="shares", letters=sub)))
                        # the same array in a very large / very small unit: shares do not depend on the unit
                        if len(sub) <= 2:
                            scale = Fraction(1, 2 ** 40) if (len(sub) + n) % 2 else Fraction(2 ** 40)
                            cases.append(dict(stream="tolerance", uni=uni, arr=dict(arr, values=[str(v * scale) for v in pw]),
                                              op=dict(kind="shares", letters=sub)))
                    # zero totals
                    z = [0 if i % 2 == 0 else v for i, v in enumerate(pw)]
                    if adims:
                        cases.append(dict(stream="exact", uni=uni, arr=dict(arr, values=z),
                                          op=dict(kind="shares", letters=[adims[0]])))
                for l in adims:
                    if vk == 0:
                        cases.append(dict(base, op=dict(kind="cumsum", letter=l)))
                        # running totals of counts held in a narrow type (a mask, small counts): they outgrow the type of the entries
                        for dt_, vv in (("bool", [(i % 3 != 1) * 1 for i in range(n)]), ("uint8", [100 + (7 * i) % 90 for i in range(n)])):
                            for ip in (False, True):
                                cases.append(dict(stream="exact", coq=False, uni=uni, arr=dict(arr, values=vv, dtype=dt_),
                                                  op=dict(kind="cumsum", letter=l, inplace=ip)))
                # malformed
                if vk == 0:
                    other = [l for l in L if l not in adims]
                    for bad in other[:1]:
                        for st in "LND":
                            cases.append(dict(base, stream="malformed", op=dict(kind="sum_to", args=[[st, bad]] + _args(["L"], adims[:1], uni))))
                            cases.append(dict(base, stream="malformed", op=dict(kind="sum_over", args=[[st, bad]])))
                        cases.append(dict(base, stream="malformed", op=dict(kind="cumsum", letter=bad)))
                        cases.append(dict(base, stream="malformed", op=dict(kind="shares", letters=[bad])))
                    cases.append(dict(base, stream="malformed", op=dict(kind="sum_to", args=[["L", "z"]])))
                    cases.append(dict(base, stream="malformed", op=dict(kind="sum_over", args=[["N", "nosuchname"]])))
                    # keys that are no dimension but look like one: several of the array's letters run together, the empty string
                    for junk in {"".join(adims[:2]), "".join(adims), "".join(adims[-2:]), ""}:
                        if junk not in adims:
                            for kind in ("sum_over", "sum_to"):
                                cases.append(dict(base, stream="malformed", coq=False, op=dict(kind=kind, args=[["L", junk]])))
    return cases


def _pyargs(uni, args):
    out = []
    for st, l in args:
        if st == "L":
            out.append(l)
        elif st == "N":
            out.append(uni[l]["name"] if l in uni else l)
        elif st == "O":
            # a Dimension object from elsewhere: the array's letter and items under another name (dimensions go by their letter)
            out.append(fl_dim(dict(uni[l], name=uni[l]["name"] + " (other)")))
        else:
            out.append(fl_dim(uni[l]))
    return tuple(out)


def _style(case):
    """how the call is written: 0 positional tuple, 1 keyword tuple, 2 positional list, 3 keyword list (derived from the case, so replays agree)"""
    return (len(str(case["arr"]["values"])) + len(str(case["op"]))) % 4


CLASSES = ("FlodymArray", "Parameter", "StockArray", "Flow")


def _build(uni, desc, case):
    """the array as FlodymArray or one of its subclasses (the operations are inherited; results are plain arrays)"""
    import flodym as fd
    cname = CLASSES[(len(str(desc["values"])) + len(desc["dims"])) % 4] if case.get("stream") != "malformed" and not desc.get("dtype") else "FlodymArray"
    if cname == "Flow":
        p0, p1 = fd.Process(name="sysenv", id=0), fd.Process(name="use", id=1)
        return build_array(uni, dict(desc, kwargs=dict(from_process=p0, to_process=p1, name="f")), cls=fd.Flow)
    return build_array(uni, desc, cls=getattr(fd, cname))


def run_impl(case):
    uni = case["uni"]
    a = _build(uni, case["arr"], case)
    op = case["op"]
    k = op["kind"]
    st = _style(case)
    seq = (lambda t: list(t)) if st >= 2 else (lambda t: tuple(t))
    if k == "sum_to":
        args = seq(_pyargs(uni, op["args"]))
        f = (lambda: a.sum_to(result_dims=args)) if st % 2 else (lambda: a.sum_to(args))
    elif k == "sum_over":
        args = seq(_pyargs(uni, op["args"]))
        f = (lambda: a.sum_over(sum_over_dims=args)) if st % 2 else (lambda: a.sum_over(args))
    elif k == "cast":
        tgt = fl_dimset(uni, op["target"])
        f = (lambda: a.cast_to(target_dims=tgt)) if st % 2 else (lambda: a.cast_to(tgt))
    elif k == "shares":
        ls = seq(op["letters"])
        f = (lambda: a.get_shares_over(dim_letters=ls)) if st % 2 else (lambda: a.get_shares_over(ls))
    elif k == "cumsum":
        f = (lambda: a.cumsum(dim_letter=op["letter"])) if st % 2 else (lambda: a.cumsum(op["letter"]))
        if op.get("inplace"):
            def f():
                a.cumsum(op["letter"], inplace=True)
                return a
    o = observe(f)
    if o["kind"] == "ok":
        if k == "cast" and o["value"] is not a and len(case["arr"]["values"]) % 2 == 0:
            # what the owner does with the source after the cast does not reach the replica
            try:
                a.values[...] = -777
            except Exception:  # noqa
                pass
        o["value"] = observe_array(o["value"], snap=(k == "shares"))
    return o


def oracle(case, obs):
    uni = case["uni"]
    x = Lab.from_desc(uni, case["arr"])
    op = case["op"]
    k = op["kind"]
    have = x.letters

    def must_err(why):
        return None if obs["kind"] == "err" else f"{k}: accepted although {why}"

    if k in ("sum_to", "sum_over"):
        ls = [l for _, l in op["args"]]
        unknown = [l for l in ls if l not in have]
        if unknown:
            return must_err(f"dimension(s) {unknown} are not in the array")
        if len(set(ls)) != len(ls):
            return None
        if obs["kind"] == "err":
            return f"{k}: refused valid request {op['args']}: {obs['exc']}"
        keep = [uni[l] for l in ls] if k == "sum_to" else [uni[l] for l in have if l not in ls]
        exp = x.marginal(keep)
        r = compare_lab(obs["value"], exp, ordered=True, what=k)
        if r:
            return r
        # grand total preserved
        tot = sum(Lab.from_obs(obs["value"]).data.values())
        if tot != sum(x.data.values()):
            return f"{k}: grand total {tot} != {sum(x.data.values())}"
        return None
    if k == "cast":
        tgt = op["target"]
        if any(l not in tgt for l in have):
            return must_err("the target lacks a source dimension")
        if obs["kind"] == "err":
            return f"cast_to refused valid target {tgt}: {obs['exc']}"
        dims = [uni[l] for l in tgt]
        keys = list(itertools.product(*[d["items"] for d in dims]))
        exp = Lab(dims, {kk: x.at(dict(zip(tgt, kk))) for kk in keys})
        r = compare_lab(obs["value"], exp, ordered=True, what="cast_to")
        if r:
            return r
        back = Lab.from_obs(obs["value"]).marginal([uni[l] for l in have])
        mult = 1
        for l in tgt:
            if l not in have:
                mult *= len(uni[l]["items"])
        for lab in x.labels():
            if back.at(lab) != mult * x.at(lab):
                return f"cast_to then sum back gives {back.at(lab)} at {lab}, expected {mult}*{x.at(lab)}"
        return None
    if k == "shares":
        ls = op["letters"]
        if any(l not in have for l in ls):
            return must_err("a dimension is not in the array")
        if obs["kind"] == "err":
            return f"get_shares_over refused {ls}: {obs['exc']}"
        tot = x.marginal([uni[l] for l in have if l not in ls])
        exp = Lab(x.dims, {})
        for lab in x.labels():
            t = tot.at(lab)
            exp.data[tuple(lab[l] for l in have)] = (x.at(lab) / t) if t != 0 else None
        r = compare_lab(obs["value"], exp, ordered=True, what="get_shares_over")
        if r:
            return r
        got = Lab.from_obs(obs["value"])
        # shares add up to one where the total is non-zero; multiplying back restores the array
        sums = {}
        for lab in x.labels():
            t = tot.at(lab)
            if t != 0:
                key = tuple(lab[l] for l in tot.letters)
                sums[key] = sums.get(key, 0) + got.at(lab)
                if got.at(lab) * t != x.at(lab):
                    return f"share*total != entry at {lab}"
        for key, s in sums.items():
            if s != 1:
                return f"shares over {ls} add up to {s} at {key}"
        return None
    if k == "cumsum":
        l = op["letter"]
        if l not in have:
            return must_err("the letter is not a dimension of the array")
        if obs["kind"] == "err":
            return f"cumsum refused {l}: {obs['exc']}"
        items = uni[l]["items"]
        exp = Lab(x.dims, {})
        for lab in x.labels():
            pos = items.index(lab[l])
            exp.data[tuple(lab[m] for m in have)] = sum(x.at(dict(lab, **{l: items[j]})) for j in range(pos + 1))
        return compare_lab(obs["value"], exp, ordered=True, what="cumsum")
    return f"unknown op {k}"


def _cq_args(uni, args):
    out = []
    for st, l in args:
        if st == "L":
            out.append(f"(ALetter {cq_nat(letter_code(l))})")
        elif st == "N":
            nm = uni[l]["name"] if l in uni else l
            out.append(f"(AName {cq_nat(NAMECODES(nm))})")
        else:
            out.append(f"(ADim {cq_dim(uni[l])})")
    return cq_list(out)


def to_coq(case, obs):
    uni = case["uni"]
    op = case["op"]
    k = op["kind"]
    if k == "sum_to":
        o = f"(OSumTo {_cq_args(uni, op['args'])})"
    elif k == "sum_over":
        o = f"(OSumOver {_cq_args(uni, op['args'])})"
    elif k == "cast":
        o = f"(OCast {cq_dimset([uni[l] for l in op['target']])})"
    elif k == "shares":
        o = f"(OShares {cq_letters(op['letters'])})"
    else:
        o = f"(OCumsum {cq_nat(letter_code(op['letter']))})"
    return f"(mk_case {cq_farr(uni, case['arr'])} {o} {cq_res(obs, cq_oarr)})"


def nontrivial(case):
    return len(case["arr"]["dims"]) >= 2 or case["stream"] == "malformed"
