"""C08 — survival tables are valid and equal the declared lifetime distribution."""
from fractions import Fraction
import math

import numpy as np

import stocksdrv as sd
from stocksdrv import arr, oracle_dt
from arrays import observe_values
from common import cq_bool, cq_list, cq_nat, cq_opt, cq_Q
import props.c03 as c03

ID = "C08"
THOROUGH_ROUNDS = 2      # rounds of generate() in the thorough tier (new random draws each round)
COQ_MODULE = "Corr.C08"
SHARD = 60
RULE = ("exact stream: probe survival function 2^-floor(age/mean) and FixedLifetime x inflow_at in {start, middle, end} and "
        "n_pts_per_interval in {1, 2} x unit / constant / uneven grids x 0-2 extra dimensions x parameters scalar, per-label, "
        "per-cohort and as FlodymArrays over permuted dimension subsets -> sf and pdf tables compared entry by entry with the "
        "model; oracle-only stream: n_pts 3..10 (Gauss-Lobatto nodes recomputed independently from Legendre polynomials) and the "
        "four scipy distributions against closed forms (erfc / exp / log), 1e-9; n_pts = 11 must be refused. "
        "Non-trivial: per-label or per-cohort parameters, or n_pts > 1, or an uneven grid.")
ASSUMPTIONS = [
    "scipy.stats.{norm, foldnorm, lognorm, weibull_min}.sf compute the named survival functions (trusted; tested against closed forms at 1e-9)",
    "at least three strictly increasing time items",
]


def generate(tier, rng):
    cases = []
    k = 0
    grids = ["unit", "const5", "uneven", "uneven2", "three"] if tier == "quick" else list(c03.GRIDS)
    extras = [[], ["r"], ["r", "g"], ["g", "r"], ["r", "h"], ["g"]]
    for gname in grids:
        grid = c03.GRIDS[gname]
        n = len(grid)
        for extra in extras:
            for lt in c03.lifetimes(rng, grid, extra, k) + [dict(kind="fixed", mean=[3, 7.5, 12][k % 3], inflow_at="start"),
                                                           dict(kind="fixed", mean=dict(dims=["t"], values=[2 + (i % 3) * 4 for i in range(n)]), inflow_at="end")]:
                for at in ("start", "middle", "end"):
                    for npts in (1, 2):
                        k += 1
                        if tier == "quick" and k % 2 and extra:
                            continue
                        cases.append(dict(stream="exact", grid=grid, gname=gname, extra=extra, lifetime=dict(lt, inflow_at=at, n_pts=npts),
                                          time_letter=("y" if k % 5 == 0 else "t")))
            # oracle-only: higher quadrature orders, real distributions
            for npts in (3, 4, 5, 6, 7, 8, 9, 10, 11):
                k += 1
                if tier == "quick" and len(extra) == 2:
                    continue
                lt = c03.lifetimes(rng, grid, extra, k)[-1]
                cases.append(dict(stream="tolerance" if npts < 11 else "malformed", coq=(npts == 11), grid=grid, gname=gname, extra=extra,
                                  lifetime=dict(lt, n_pts=npts)))
            real = [dict(kind="normal", mean=8, std=3), dict(kind="foldnorm", mean=6, std=4), dict(kind="lognormal", mean=10, std=5),
                    dict(kind="weibull", shape=2.5, scale=9),
                    dict(kind="lognormal", mean=dict(dims=["t"], values=[6 + i for i in range(n)]), std=3),
                    dict(kind="weibull", shape=1.5, scale=dict(dims=["t"], values=[5 + 2 * i for i in range(n)])),
                    # every distribution with BOTH parameters depending on the cohort (steeply, so that a table built with
                    # the parameters of the wrong year differs visibly)
                    dict(kind="normal", mean=dict(dims=["t"], values=[4 + 3 * i for i in range(n)]), std=dict(dims=["t"], values=[1.5 + (i % 3) for i in range(n)])),
                    dict(kind="foldnorm", mean=dict(dims=["t"], values=[3 + 2.5 * i for i in range(n)]), std=dict(dims=["t"], values=[2 + ((2 * i) % 3) for i in range(n)])),
                    dict(kind="lognormal", mean=dict(dims=["t"], values=[12 - (i % 4) * 2 for i in range(n)]), std=dict(dims=["t"], values=[2 + (i % 2) * 3 for i in range(n)])),
                    dict(kind="weibull", shape=dict(dims=["t"], values=[1.2 + 0.4 * (i % 4) for i in range(n)]), scale=dict(dims=["t"], values=[14 - 1.5 * (i % 5) for i in range(n)]))]
            # whole-number parameters held in integer arrays (mean / std and scale / shape not whole-number ratios)
            real += [dict(kind="foldnorm", mean=dict(dims=["t"], values=[9 + i for i in range(n)], dtype="int"), std=4),
                     dict(kind="normal", mean=dict(dims=["t"], values=[7 + 2 * i for i in range(n)], dtype="int"), std=dict(dims=["t"], values=[3 + (i % 2) for i in range(n)], dtype="int")),
                     dict(kind="lognormal", mean=dict(dims=["t"], values=[11 - (i % 3) for i in range(n)], dtype="int"), std=dict(dims=["t"], values=[4] * n, dtype="int")),
                     dict(kind="weibull", shape=dict(dims=["t"], values=[2 + (i % 2) for i in range(n)], dtype="int"), scale=dict(dims=["t"], values=[9 + i for i in range(n)], dtype="int"))]
            if extra:
                l = extra[-1]
                m = len(sd.EXTRA[l])
                real.append(dict(kind="normal", mean=dict(dims=[l], values=[7 + 3 * i for i in range(m)]), std=dict(dims=[l, "t"], values=[2 + ((i * 7) % 3) for i in range(m * n)])))
                real.append(dict(kind="foldnorm", mean=dict(dims=[l, "t"], values=[3 + ((i * 5) % 11) for i in range(m * n)]), std=dict(dims=["t", l], values=[2 + ((i * 3) % 4) for i in range(m * n)])))
                real.append(dict(kind="weibull", shape=dict(dims=["t", l], values=[1.1 + 0.3 * ((i * 3) % 5) for i in range(m * n)]), scale=dict(dims=[l], values=[6 + 4 * i for i in range(m)])))
            if not extra or tier == "thorough":
                # every quadrature order with a curved survival function (a step function hides a slightly misplaced node)
                for lt in real[:4]:
                    for npts in range(2, 11):
                        k += 1
                        cases.append(dict(stream="tolerance", coq=False, grid=grid, gname=gname, extra=extra, lifetime=dict(lt, n_pts=npts)))
            for lt in real:
                for npts in ((1, 2, 6) if tier == "thorough" else (1, 3)):
                    k += 1
                    cases.append(dict(stream="tolerance", coq=False, grid=grid, gname=gname, extra=extra,
                                      lifetime=dict(lt, inflow_at=["start", "middle", "end"][k % 3], n_pts=npts)))
                    # the same table on a model that held other parameters before (very close ones, or clearly different ones):
                    # the table is that of the parameters given last
                    if k % 2:
                        cases.append(dict(cases[-1], preset=[1 + 1e-6, 1.25, 1 - 3e-6][k % 3]))
                        # ... whichever of the two tables is asked for first afterwards
                        if k % 4 == 1:
                            cases.append(dict(cases[-1], pdf_first=True))
                    elif k % 4 == 0:
                        # the same table on a model whose inflow instant and quadrature order were assigned after construction
                        cases.append(dict(cases[-1], late_rule=True))
                    else:
                        # the same table when the caller overwrites its parameter arrays after handing them over (through the
                        # constructor, or through set_prms on a model that held other parameters)
                        cases.append(dict(cases[-1], touch_params=True))
                        cases.append(dict(cases[-1], preset=1.25))
                        if lt["kind"] != "probe":
                            # the same table after the settings were changed on a model in use and the same lifetime declared again
                            cases.append(dict(cases[-3], resettle=True))
    return cases


def run_impl(case):
    try:
        dims = sd.mk_dims(case["grid"], case["extra"], case.get("time_letter", "t"))
        lm = sd.mk_lifetime(case, dims)
        if case.get("pdf_first"):
            pdf = lm.pdf
            sf = lm.sf
        else:
            sf, pdf = lm.sf, lm.pdf
    except Exception as e:  # noqa
        return dict(kind="err", exc=type(e).__name__, msg=str(e)[:160])
    snap = False
    return dict(kind="ok", value=dict(shape=list(sf.shape), sf=observe_values(sf, snap), pdf=observe_values(pdf, snap)))


def gl_rule(n):
    """n-point Gauss-Lobatto rule on [0,1], computed independently of flodym's table"""
    if n == 1:
        return None
    if n == 2:
        return [0.0, 1.0], [0.5, 0.5]
    P = np.polynomial.legendre.Legendre.basis(n - 1)
    x = np.concatenate(([-1.0], np.sort(P.deriv().roots().real), [1.0]))
    w = 2.0 / (n * (n - 1) * P(x) ** 2)
    return list((x + 1) / 2), list(w / 2)


def Phi(z):
    return 0.5 * math.erfc(-z / math.sqrt(2))


def surv(kind, age, p):
    if kind == "probe":
        return float(sd.probe_S(Fraction(age), Fraction(p["mean"])))
    if kind == "fixed":
        return 1.0 if age < p["mean"] else 0.0
    if kind == "normal":
        return 1 - Phi((age - p["mean"]) / p["std"])
    if kind == "foldnorm":
        if age < 0:
            return 1.0
        return 2 - Phi((age - p["mean"]) / p["std"]) - Phi((age + p["mean"]) / p["std"])
    if kind == "lognormal":
        if age <= 0:
            return 1.0
        m2, s2 = p["mean"] ** 2, p["std"] ** 2
        mu, sg = math.log(m2 / math.sqrt(m2 + s2)), math.sqrt(math.log(1 + s2 / m2))
        return 1 - Phi((math.log(age) - mu) / sg)
    if kind == "weibull":
        return math.exp(-((age / p["scale"]) ** p["shape"])) if age > 0 else 1.0


def oracle(case, obs):
    lt = case["lifetime"]
    npts = lt.get("n_pts", 1)
    if npts > 10:
        return None if obs["kind"] == "err" else "n_pts_per_interval = 11 accepted"
    if obs["kind"] == "err":
        return f"lifetime model raised {obs['exc']}: {obs['msg'][:80]}"
    o = obs["value"]
    n = len(case["grid"])
    shp = tuple(o["shape"])
    K = int(np.prod(shp[2:])) if len(shp) > 2 else 1
    sf = np.array([None if v is None else float(Fraction(v[0], v[1])) for v in o["sf"]], dtype=object).reshape(n, n, K)
    pdf = np.array([None if v is None else float(Fraction(v[0], v[1])) for v in o["pdf"]], dtype=object).reshape(n, n, K)
    if any(v is None for v in sf.flatten()) or any(v is None for v in pdf.flatten()):
        return "non-finite table entries"
    b, _ = oracle_dt(case["grid"])
    b = [float(x) for x in b]
    if npts == 1:
        eta = dict(start=0.0, middle=0.5, end=1.0)[lt.get("inflow_at", "middle")]
        nodes, weights = [eta], [1.0]
    else:
        nodes, weights = gl_rule(npts)
    prm = {}
    for key in ("mean", "std", "shape", "scale"):
        if key in lt:
            full = sd.param_full(dict(case, lifetime=dict(lt, mean=lt[key])))
            prm[key] = full.reshape(n, K)
    tol = 1e-9
    tag = f"{lt['kind']} n_pts={npts} at={lt.get('inflow_at')} grid {case['gname']}"
    for k in range(K):
        for c in range(n):
            acc = 0.0
            for t in range(n):
                v = sf[t, c, k]
                if t < c:
                    if v != 0 or pdf[t, c, k] != 0:
                        return f"{tag}: table non-zero for cohort {c} later than year {t}"
                    continue
                if v < -tol or v > 1 + tol:
                    return f"{tag}: survival {v} outside [0,1] at (t={t}, c={c})"
                if t > c and v > sf[t - 1, c, k] + tol:
                    return f"{tag}: survival increases with age at (t={t}, c={c})"
                if pdf[t, c, k] < -tol:
                    return f"{tag}: negative outflow probability {pdf[t,c,k]} at (t={t}, c={c})"
                acc += pdf[t, c, k]
                if abs(v + acc - 1) > 1e-9:
                    return f"{tag}: survival + cumulated outflow probabilities = {v + acc} at (t={t}, c={c})"
                p = {key: float(prm[key][c, k]) for key in prm}
                want = sum(w * surv(lt["kind"], b[t + 1] - (e * b[c + 1] + (1 - e) * b[c]), p) for e, w in zip(nodes, weights))
                if abs(v - want) > 1e-9:
                    return (f"{tag}: sf(t={t}, c={c}, label {k}) = {v:.12g}, but the declared distribution with the parameters of that "
                            f"cohort/label gives {want:.12g}")
    return None


def failure_key(case, obs, msg):
    return case["lifetime"]["kind"] + msg.split(":")[1][:25]


def to_coq(case, obs):
    lt = case["lifetime"]
    n = len(case["grid"])
    dist = "DProbe" if lt["kind"] == "probe" else "DFixed"
    at = dict(start="AtStart", middle="AtMiddle", end="AtEnd")[lt.get("inflow_at", "middle")]
    items = cq_list([cq_Q(Fraction(g)) for g in case["grid"]])
    cols = []
    if obs["kind"] == "ok":
        o = obs["value"]
        shp = tuple(o["shape"])
        K = int(np.prod(shp[2:])) if len(shp) > 2 else 1
        sf, pdf = arr(o, "sf", (n, n, K)), arr(o, "pdf", (n, n, K))
        prm = sd.param_full(case).reshape(n, K)
        for k in range(K):
            f = lambda tb: cq_list([cq_list([cq_opt(None if v is None else cq_Q(v)) for v in tb[t, :, k]]) for t in range(n)])
            cols.append(f"(mk_col {cq_list([cq_Q(Fraction(v)) for v in prm[:, k]])} {f(sf)} {f(pdf)})")
    return f"(mk_case {dist} {items} {cq_nat(lt.get('n_pts', 1))} {at} {cq_bool(obs['kind'] == 'ok')} {cq_list(cols)})"


def nontrivial(case):
    lt = case["lifetime"]
    return any(isinstance(lt.get(k), dict) for k in ("mean", "std", "shape", "scale")) or lt.get("n_pts", 1) > 1 or case["gname"] not in ("unit",)


SIGNATURES = {}
