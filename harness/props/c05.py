"""C05 — assignment into a declared array keeps its dims and sums the source by label."""
from fractions import Fraction
import itertools

import numpy as np

from arrays import (Lab, build_array, cq_farr, cq_oarr, mk_universe, nelem, observe, ordered_subsets, random_values)
from common import cq_bool, cq_list
from indexing import (cq_key, cq_rhs, in_region, normalise, observe_raw, py_key, py_rhs, region_dims)
from props.c06 import subdim, _with_sub, _short

ID = "C05"
THOROUGH_ROUNDS = 2      # rounds of generate() in the thorough tier (new random draws each round)
COQ_MODULE = "Corr.Indexing"
RULE = ("targets over ordered dimension subsets of a 3-letter universe, lengths (2,2,3) and (2,2,2); whole-array and keyed "
        "assignment (ellipsis, single items, subset Dimensions, lists, tuples) of: FlodymArray sources over every ordered "
        "subset of the universe (exact region dims, permuted, surplus -> summed, missing -> must raise), numbers, ndarrays "
        "of the right / transposed / broadcastable / wrong shape followed by a mutation of the source ndarray; histories "
        "of 2-6 assignments to overlapping regions with the state compared after every step. Non-trivial: the source "
        "differs from the region in dimension set or order, or the history has >= 2 steps, or the assignment is refused.")
ASSUMPTIONS = [
    "items unique per dimension; operands from one dimension set",
    "numpy indexed assignment and broadcasting are modelled (Np/Index.v); validated by this correspondence",
]


def keys_for(rng, uni, dims, k):
    out = [dict(form="ellipsis")]
    subs = {}
    for i, l in enumerate(dims):
        items = uni[l]["items"]
        out.append(dict(form="dict", entries=[["L" if (k + i) % 2 else "N", l, ["single", items[(k + i) % len(items)]]]]))
        subs[l] = subdim(uni, l, rng.sample(items, 1 + (k + i) % len(items)))   # one subset per dimension and call
        out.append(dict(form="dict", entries=[["L", l, ["dim", subs[l]]]]))
    if len(dims) >= 2:
        l0, l1 = dims[0], dims[-1]
        out.append(dict(form="tuple", items=[uni[l0]["items"][0], uni[l1]["items"][-1]]))
        out.append(dict(form="dict", entries=[["L", l1, ["single", uni[l1]["items"][0]]],
                                             ["L", l0, ["dim", subs[l0]]]]))
        out.append(dict(form="dict", entries=[["L", l0, ["list", [uni[l0]["items"][-1]]]], ["N", l1, ["dim", subs[l1]]]]))
        out.append(dict(form="dict", entries=[["L", l0, ["single", uni[l0]["items"][0]]], ["L", l1, ["dim", subs[l1]]]]))   # single FIRST item, kept dims, subset
        # the same selections with the dict written against the dimension order (subset / list on the LAST dimension first)
        out.append(dict(form="dict", entries=[["L", l1, ["dim", subs[l1]]], ["L", l0, ["single", uni[l0]["items"][-1]]]]))
        out.append(dict(form="dict", entries=[["N", l1, ["list", list(uni[l1]["items"][-2:])]], ["L", l0, ["single", uni[l0]["items"][0]]]]))
        # a tuple whose two items of one dimension are separated by an item of another one
        if len(uni[l0]["items"]) >= 2:
            out.append(dict(form="tuple", items=[uni[l0]["items"][0], uni[l1]["items"][-1], uni[l0]["items"][-1]]))
    return out


def sources_for(rng, uni, rdims, k, full):
    """FlodymArray sources relative to the region dims: exact, permuted, surplus, missing"""
    L = [l for l in uni.keys()]
    out = []
    cands = ordered_subsets(L, 3) if full else [rdims, rdims[::-1]] + [rdims + [l] for l in L if l not in rdims][:1] + [([l for l in L if l not in rdims][:1] + rdims[::-1])] + ([rdims[1:]] if rdims else [])
    seen = set()
    for sd in cands:
        if len(set(sd)) != len(sd) or tuple(sd) in seen:
            continue
        seen.add(tuple(sd))
        n = nelem(uni, sd)
        out.append(dict(kind="arr", arr=dict(dims=list(sd), values=[100 + 7 * j for j in range(n)] if n < 30 else random_values(rng, n),
                                             layout="CFV"[(k + len(seen)) % 3])))
    return out


def generate(tier, rng):
    cases = []
    unis = [mk_universe((2, 2, 3), "abc"), mk_universe((2, 2, 2), "abc"), mk_universe((2, 3, 2), "abc", int_dims=("b",), falsy=True)]
    k = 0
    for ui, uni in enumerate(unis):
        L = list(uni.keys())
        tsubs = ordered_subsets(L)
        if ui == 1:
            tsubs = [s for s in tsubs if len(s) >= 2]
        for tdims in tsubs:
            n = nelem(uni, tdims)
            k += 1
            tarr = dict(dims=tdims, values=[j + 1 for j in range(n)], layout="CFV"[k % 3])
            for ki, key in enumerate(keys_for(rng, uni, tdims, k)):
                u2 = _with_sub(uni, key)
                st, sel = normalise(u2, tdims, key)
                rd = [d["letter"] for d in region_dims(u2, tdims, sel)] if st == "ok" else tdims
                full = (tier == "thorough") or (ui == 0 and ki == 0 and len(tdims) <= 2)
                for rhs in sources_for(rng, u2, rd, k + ki, full):
                    cases.append(dict(stream="exact", uni=u2, arr=tarr, steps=[dict(op="set", key=key, rhs=rhs)]))
                cases.append(dict(stream="exact", uni=u2, arr=tarr, steps=[dict(op="set", key=key, rhs=dict(kind="num", c=42))]))
                # ndarray sources
                rshape = [len(u2[l]["items"]) for l in rd]
                nds = [rshape]
                if len(rshape) >= 2:
                    nds += [rshape[::-1], rshape[1:], [1] + rshape[1:]]
                nds += [rshape + [2], [s + 1 for s in rshape] if rshape else [2]]
                for shp in nds:
                    m = int(np.prod(shp)) if shp else 1
                    cases.append(dict(stream="exact" if shp == rshape else "malformed", uni=u2, arr=tarr,
                                      steps=[dict(op="set", key=key, rhs=dict(kind="nd", shape=shp, values=[500 + j for j in range(m)]), mutate=True)]))
                    # ... and the same whole numbers in an integer or single-precision array: the same shape rule
                    cases.append(dict(stream="exact" if shp == rshape else "malformed", uni=u2, arr=tarr,
                                      steps=[dict(op="set", key=key, rhs=dict(kind="nd", shape=shp, values=[500 + j for j in range(m)],
                                                                              dtype=["int64", "float32", "int16"][(k + ki + len(shp)) % 3]), mutate=True)]))
                # the same numbers handed over in an ndarray subclass or another memory layout: copied all the same
                m = int(np.prod(rshape)) if rshape else 1
                for sub in ("masked", "custom", "memory"):
                    cases.append(dict(stream="exact", uni=u2, arr=tarr,
                                      steps=[dict(op="set", key=key, rhs=dict(kind="nd", shape=rshape, values=[700 + j for j in range(m)], subclass=sub), mutate=True)]))
            # histories of overlapping assignments
            if tdims:
                for h in range(2 if tier == "quick" else 6):
                    keys = keys_for(rng, uni, tdims, k + h)
                    steps = []
                    u2 = dict(uni)
                    for s in range(2 + (k + h) % 5):
                        key = keys[rng.randrange(len(keys))]
                        u2 = _with_sub(u2, key)
                        st, sel = normalise(u2, tdims, key)
                        rd = [d["letter"] for d in region_dims(u2, tdims, sel)] if st == "ok" else tdims
                        srcs = sources_for(rng, u2, rd, k + s, False)
                        choice = rng.randrange(len(srcs) + 1)
                        rhs = dict(kind="num", c=s + 0.5) if choice == len(srcs) else srcs[choice]
                        if rhs["kind"] == "arr":
                            rhs = dict(rhs, arr=dict(rhs["arr"], values=[v + 1000 * s for v in rhs["arr"]["values"]]))
                        steps.append(dict(op="set", key=key, rhs=rhs))
                    cases.append(dict(stream="history", uni=u2, arr=tarr, steps=steps))
    # subsets of a 4-item dimension in an order that is neither ascending nor descending (and lists naming an item twice):
    # every source entry must land under its own label, and nothing outside the named items may change
    u4 = mk_universe((4, 2), "ab")
    it = u4["a"]["items"]
    for tdims in (["a"], ["a", "b"], ["b", "a"]):
        tarr = dict(dims=tdims, values=[j + 1 for j in range(nelem(u4, tdims))], layout="C")
        for order in ([0, 2, 1, 3], [0, 2, 1], [1, 3, 2], [3, 1, 2, 0], [1, 0, 3, 2], [0, 1, 3]):
            key = dict(form="dict", entries=[["L", "a", ["dim", subdim(u4, "a", [it[i] for i in order])]]])
            u2 = _with_sub(u4, key)
            rd = [d["letter"] for d in region_dims(u2, tdims, normalise(u2, tdims, key)[1])]
            for sd in (rd, rd[::-1]):
                cases.append(dict(stream="exact", uni=u2, arr=tarr, steps=[dict(op="set", key=key, rhs=dict(kind="arr", arr=dict(
                    dims=sd, values=[100 + 7 * j for j in range(nelem(u2, sd))], layout="C")))]))
            shp = [len(u2[l]["items"]) for l in rd]
            cases.append(dict(stream="exact", uni=u2, arr=tarr, steps=[dict(op="set", key=key, rhs=dict(kind="nd", shape=shp, values=[500 + j for j in range(int(np.prod(shp)))]), mutate=True)]))
        for rep in ([0, 0, 2], [1, 3, 3], [0, 2, 2], [3, 1, 1, 2]):
            key = dict(form="dict", entries=[["L", "a", ["list", [it[i] for i in rep]]]])
            cases.append(dict(stream="exact", uni=u4, arr=tarr, steps=[dict(op="set", key=key, rhs=dict(kind="num", c=42))]))
    # a subset Dimension holding a contiguous ascending run of the items (historic years) together with a list on a second and a
    # single item on a third dimension, and together with two lists: the target in every storage order, numbers and arrays
    u3 = mk_universe((3, 3, 4), "abc")
    import itertools as _it3
    for pi, perm in enumerate(_it3.permutations("abc")):
        tdims = list(perm)
        tarr = dict(dims=tdims, values=[j + 1 for j in range(nelem(u3, tdims))], layout="CFV"[pi % 3])
        for lo, hi in ((1, 3), (0, 2), (1, 4)):
            sub = ["dim", subdim(u3, "c", u3["c"]["items"][lo:hi])]
            for entries in ([["L", "c", sub], ["L", "a", ["list", [u3["a"]["items"][0], u3["a"]["items"][2]]]], ["L", "b", ["single", u3["b"]["items"][1]]]],
                            [["L", "a", ["list", [u3["a"]["items"][2], u3["a"]["items"][1]]]], ["L", "c", sub], ["L", "b", ["list", [u3["b"]["items"][0], u3["b"]["items"][2]]]]],
                            [["L", "b", ["single", u3["b"]["items"][2]]], ["L", "c", sub], ["L", "a", ["list", [u3["a"]["items"][1]]]]]):
                key = dict(form="dict", entries=entries)
                u2 = _with_sub(u3, key)
                cases.append(dict(stream="exact", uni=u2, arr=tarr, steps=[dict(op="set", key=key, rhs=dict(kind="num", c=77))]))
    return cases


def run_impl(case):
    uni = case["uni"]
    a = build_array(uni, case["arr"])
    outs = []
    for st in case["steps"]:
        rhs = py_rhs(uni, st["rhs"])
        def do():
            a[py_key(uni, st["key"])] = rhs
        r = observe(do)
        if st.get("mutate") and isinstance(rhs, np.ndarray):
            rhs[...] = -777.0  # later changes to the source must not reach the target
        elif hasattr(rhs, "values") and isinstance(getattr(rhs, "values", None), np.ndarray) and (len(outs) + len(case["steps"])) % 2 == 0:
            # ... nor does what the owner of a FlodymArray source does with it afterwards (every other time)
            try:
                rhs.values[...] = -777
            except Exception:  # noqa
                pass
        r["post"] = observe_raw(a)
        outs.append(r)
    return dict(kind="steps", steps=outs)


def oracle(case, obs):
    uni = case["uni"]
    dims = case["arr"]["dims"]
    x = Lab.from_desc(uni, case["arr"])
    tshape = [len(uni[l]["items"]) for l in dims]
    for si, (st, o) in enumerate(zip(case["steps"], obs["steps"])):
        post = o["post"]
        tag = f"step {si} {_short(st['key'])} <- {st['rhs']['kind']}"
        if [(d["letter"], d["items"]) for d in post["dims"]] != [(l, uni[l]["items"]) for l in dims]:
            return f"{tag}: target dimensions changed"
        if post["shape"] != tshape:
            return f"{tag}: target shape changed to {post['shape']}"
        got = Lab.from_obs(post)
        status, sel = normalise(uni, dims, st["key"])
        if status == "undef":
            x = got
            continue
        rhs = st["rhs"]
        raised = o["kind"] == "err"
        if status == "err":
            if not raised:
                return f"{tag}: invalid key accepted"
            sel = None
        must_raise = False
        exp_inside = None
        if sel is not None:
            rdims = region_dims(uni, dims, sel)
            rl = [d["letter"] for d in rdims]
            if rhs["kind"] == "arr":
                src = Lab.from_desc(uni, rhs["arr"])
                if any(l not in src.letters for l in rl):
                    must_raise = True
                elif any(s[0] == "list" for s in sel.values()):
                    exp_inside = "unspecified"
                else:
                    marg = src.marginal(rdims)
                    def exp_inside(lab, marg=marg, sel=sel):
                        r = {}
                        for l in dims:
                            s = sel.get(l)
                            if s is None:
                                r[l] = lab[l]
                            elif s[0] == "dim":
                                r[s[1]["letter"]] = lab[l]
                        return marg.at(r)
            elif rhs["kind"] == "num":
                c = Fraction(rhs["c"])
                exp_inside = lambda lab, c=c: c
            else:
                if st["key"]["form"] == "ellipsis":
                    if list(rhs["shape"]) != tshape:
                        must_raise = True
                    else:
                        keys = list(itertools.product(*[uni[l]["items"] for l in dims]))
                        tab = {kk: Fraction(v) for kk, v in zip(keys, rhs["values"])}
                        exp_inside = lambda lab, tab=tab: tab[tuple(lab[l] for l in dims)]
                else:
                    exp_inside = "unspecified"
            if must_raise and not raised:
                return f"{tag}: accepted, but the property demands an error (source lacks a region dimension / ndarray shape {rhs.get('shape')} != {tshape})"
            if not must_raise and raised and exp_inside != "unspecified":
                return f"{tag}: refused ({o['exc']}: {o.get('msg','')[:60]})"
        for lab in x.labels():
            inside = sel is not None and in_region(sel, lab) and not raised
            if not inside:
                if got.at(lab) != x.at(lab) and not (raised and sel is not None and in_region(sel, lab)):
                    return f"{tag}: entry {lab} outside the addressed region changed {x.at(lab)} -> {got.at(lab)}"
            elif callable(exp_inside):
                if got.at(lab) != exp_inside(lab):
                    return f"{tag}: entry {lab} is {got.at(lab)}, expected {exp_inside(lab)}"
        if st.get("mutate") and not raised:
            if any(v == Fraction(-777) for v in got.data.values()):
                return f"{tag}: a later change to the source ndarray reached the target (not copied)"
        x = got
    return None


def failure_key(case, obs, msg):
    return msg.split(":", 1)[1].strip().split(" ")[0] + msg.split("<-")[1].split(":")[0]


def to_coq(case, obs):
    uni = case["uni"]
    steps = []
    for st, o in zip(case["steps"], obs["steps"]):
        steps.append(f"(SSet {cq_key(uni, st['key'])} {cq_rhs(uni, st['rhs'])} {cq_bool(o['kind'] == 'ok')} {cq_oarr(o['post'])})")
    return f"(mk_case {cq_farr(uni, case['arr'])} {cq_list(steps)})"


def nontrivial(case):
    if len(case["steps"]) >= 2 or case["stream"] == "malformed":
        return True
    r = case["steps"][0]["rhs"]
    return r["kind"] == "arr" and r["arr"]["dims"] != case["arr"]["dims"]


SIGNATURES = {}
