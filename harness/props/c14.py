"""C14 — dimension sets behave as ordered sets of uniquely lettered dimensions."""
import itertools

import numpy as np

from arrays import NAMECODES, cq_dim, cq_dimset, fl_dim, mk_universe, obs_dims, ordered_subsets
from common import cq_bool, cq_list, cq_nat, cq_opt, cq_Z, letter_code

ID = "C14"
THOROUGH_ROUNDS = 2      # rounds of generate() in the thorough tier (new random draws each round)
COQ_MODULE = "Corr.DimC"
SHARD = 200
EXHAUSTIVE = True
RULE = ("EXHAUSTIVE: all 65 x 65 ordered pairs of ordered dimension subsets of a 4-letter alphabet, each pair put through "
        "| & - ^ + (plus clash variants: same letter, different name/items); seeded random histories (quick 400 x <= 8, "
        "thorough 4000 x <= 12) of constructors, the five operators, get_subset with letters / names / no argument, copy, "
        "arrays built from a set, and append / prepend / insert (negative and oversized positions) / drop / replace / "
        "expand_by with and without inplace=True, adding distinct or clashing dimensions; after every step all live sets, "
        "the identity of their Python lists and name/letter/position lookups on the receiver are compared with the model "
        "and judged by an ordered-list oracle. Non-trivial: both operands non-empty, or a history with >= 3 steps.")
ASSUMPTIONS = [
    "names and letters are in bijection inside a universe (pydantic does not enforce unique names; outside the property)",
    "pydantic model_copy() is shallow (modelled in Model/DimHeap.v)",
]

UNI = mk_universe((2, 3, 1, 2), "abcd")
CLASH = {l: dict(letter=l, name=UNI[l]["name"] + "2", items=[f"{l}x", f"{l}y", f"{l}z"]) for l in "ab"}
EXTRA = mk_universe((2, 2), "ef")
ALLD = dict(UNI)
ALLD.update(EXTRA)
# two more kinds of "other" dimension (only in histories whose keys are all letters, since they make a NAME occur twice in a set, and
# what a key by name then means is outside the property):
#   twin     : the name of a / b under a fresh letter (g / h): lookups by letter must not be led astray by the shared name
#   namesake : the name of a / b under the letter of the other one: replacing a by its namesake clashes with b's letter
TWIN = {"a": dict(letter="g", name=UNI["a"]["name"], items=["g0", "g1", "g2"]), "b": dict(letter="h", name=UNI["b"]["name"], items=["h0"])}
NAMESAKE = {"a": dict(letter="b", name=UNI["a"]["name"], items=["n0", "n1"]), "b": dict(letter="a", name=UNI["b"]["name"], items=["m0", "m1", "m2"])}
ALLD["g"], ALLD["h"] = TWIN["a"], TWIN["b"]
LETTERS = "abcdefgh"


def D(l, clash=False):
    if clash == "tw":
        return TWIN[l]
    if clash == "ns":
        return NAMESAKE[l]
    return CLASH[l] if clash else ALLD[l]


def generate(tier, rng):
    cases = []
    subs = ordered_subsets(list("abcd"))
    for x in subs:
        for y in subs:
            ops = [dict(op="new", dims=[[l, False] for l in x]), dict(op="new", dims=[[l, False] for l in y])]
            ops += [dict(op=o, i=0, j=1) for o in ("union", "inter", "diff", "xor", "add")]
            cases.append(dict(stream="pairs", ops=ops))
    for x in subs[::3]:
        for y in [["a"], ["b", "a"], ["c", "a", "d"]]:
            ops = [dict(op="new", dims=[[l, False] for l in x]), dict(op="new", dims=[[l, l in "ab"] for l in y])]
            ops += [dict(op=o, i=0, j=1) for o in ("union", "inter", "diff", "xor", "add")]
            ops += [dict(op=o, i=1, j=0) for o in ("union", "diff")]
            # expanding by a dimension whose letter is taken, but whose name and items differ from the holder's
            ops += [dict(op="expand", i=0, ds=[[l, True] for l in y if l in "ab"], inplace=ip) for ip in (False, True)]
            ops += [dict(op="expand", i=0, ds=[["e", False]] + [[l, True] for l in y if l in "ab"][:1], inplace=True)]
            cases.append(dict(stream="clash", ops=ops))
    # a dimension replaced by one that carries ITS name but the letter of a dimension that stays (and twins: a shared name, own letter)
    for x in (["a", "b", "c"], ["b", "a"], ["c", "a", "d", "b"]):
        for l in "ab":
            for ip in (True, False):
                for st in "LN":
                    ops = [dict(op="new", dims=[[m, False] for m in x]), dict(op="replace", i=0, key=[st, l], d=[l, "ns"], inplace=ip)]
                    cases.append(dict(stream="clash", ops=ops, twins=True))
                ops = [dict(op="new", dims=[[m, False] for m in x]), dict(op="append", i=0, d=[l, "tw"], inplace=ip),
                       dict(op="insert", i=0 if ip else 1, pos=1, d=["e", False], inplace=True), dict(op="replace", i=0 if ip else 1, key=["L", "gh"["ab".index(l)]], d=["f", False], inplace=ip)]
                cases.append(dict(stream="clash", ops=ops, twins=True))
    # the right operand of an operator given as a bare Dimension (contained in the left set or new to it), the result then edited in
    # place; and subsets requested through a one-shot iterator (model not consulted: the pool has no set for the bare operand)
    for x in (["a", "b"], ["b", "c", "a"], ["c"]):
        for l in "abce":
            for o_ in ("union", "inter", "diff", "add"):      # (s ^ Dimension raises TypeError in flodym: Dimension has no '-'; the property speaks of sets)
                ops = [dict(op="new", dims=[[m, False] for m in x]), dict(op=o_, i=0, od=[l, False]),
                       dict(op="append", i=1, d=["f", False], inplace=True), dict(op="drop", i=1, key=["L", "f"], inplace=True)]
                cases.append(dict(stream="bare", coq=False, ops=ops))
        for ks in (["b", "a"], ["a"], list(reversed(x))):
            for style in ("iter", "gen", "list"):
                ops = [dict(op="new", dims=[[m, False] for m in x]), dict(op="subset", i=0, keys=[["L" if i_ % 2 else "N", m] for i_, m in enumerate(ks)], style=style)]
                cases.append(dict(stream="bare", coq=False, ops=ops))
    n, maxlen = (400, 8) if tier == "quick" else (4000, 12)
    letters = list("abcdef")
    for h in range(n):
        ops = [dict(op="new", dims=[[l, False] for l in rng.sample(list("abcd"), rng.randint(0, 3))])]
        tw = h % 4 == 3          # a history with twins / namesakes: every key is a letter
        for s in range(1 + rng.randrange(maxlen)):
            r = rng.random()
            i, j = rng.randrange(64), rng.randrange(64)
            l = rng.choice(letters)
            cl = rng.random() < 0.1 and l in "ab"
            if tw and l in "ab":
                cl = rng.choice([False, True, "tw", "tw", "ns", "ns"])
            ip = rng.random() < 0.5
            if r < 0.08:
                ops.append(dict(op="new", dims=[[m, False] for m in rng.sample(letters, rng.randint(0, 4))]))
            elif r < 0.25:
                ops.append(dict(op=rng.choice(["union", "inter", "diff", "xor", "add"]), i=i, j=j))
            elif r < 0.37:
                ks = None if rng.random() < 0.4 else [[rng.choice("L" if tw else "LN"), m] for m in rng.sample(letters, rng.randint(0, 3))]
                ops.append(dict(op="subset", i=i, keys=ks))
            elif r < 0.42:
                ops.append(dict(op="copy", i=i))
            elif r < 0.47:
                ops.append(dict(op="arrayof", i=i))
            elif r < 0.58:
                ops.append(dict(op="append", i=i, d=[l, cl], inplace=ip))
            elif r < 0.66:
                ops.append(dict(op="prepend", i=i, d=[l, cl], inplace=ip))
            elif r < 0.77:
                ops.append(dict(op="insert", i=i, pos=rng.randint(-6, 6), d=[l, cl], inplace=ip))
            elif r < 0.87:
                ops.append(dict(op="drop", i=i, key=[rng.choice("L" if tw else "LN"), rng.choice(letters + (["g", "h"] if tw else []))], inplace=ip))
            elif r < 0.94:
                ops.append(dict(op="replace", i=i, key=[rng.choice("L" if tw else "LN"), (l if tw and cl == "ns" and rng.random() < 0.7 else rng.choice(letters))], d=[l, cl], inplace=ip))
            else:
                # (a clashing dimension has the letter of one in the set but another name and other items)
                ops.append(dict(op="expand", i=i, ds=[[m, m in "ab" and rng.random() < 0.25] for m in rng.sample(letters, rng.randint(0, 2))], inplace=ip))
        cases.append(dict(stream="history", ops=ops, twins=tw))
    # directed histories: a dimension is dropped in place and ANOTHER dimension with the same letter (other name, other items) is put
    # in its place by the next in-place call (expand / append / insert), with and without further steps in between
    for first in (["c", "a"], ["a"], ["c", "d", "b"], ["b", "c"], ["c", "a", "d"]):
        for l in [x for x in first if x in "ab"]:
            pos = first.index(l)
            for put in ("expand", "append", "insert"):
                for between in ([], [dict(op="drop", i=0, key=["L", "c"], inplace=True)] if "c" in first and first.index("c") < pos else []):
                    ops = [dict(op="new", dims=[[m, False] for m in first]), dict(op="drop", i=0, key=["L", l], inplace=True)] + list(between)
                    if put == "expand":
                        ops.append(dict(op="expand", i=0, ds=[[l, True]] + ([["c", False]] if between else []), inplace=True))
                    elif put == "append":
                        ops.append(dict(op="append", i=0, d=[l, True], inplace=True))
                    else:
                        ops.append(dict(op="insert", i=0, pos=pos, d=[l, True], inplace=True))
                    ops.append(dict(op="copy", i=0))
                    cases.append(dict(stream="history", ops=ops, twins=False))
    return cases


def _key(k):
    st, l = k
    return l if st == "L" else ALLD[l]["name"]


def snapshot(pool):
    sets = [obs_dims(p) for p in pool]
    share = [[i, j] for i in range(len(pool)) for j in range(i + 1, len(pool)) if pool[i].dim_list is pool[j].dim_list]
    return dict(sets=sets, share=share)


def _exec_op(fd, pool, o):
    """carry out one operation of a history on the pool; returns the result (None for in-place calls)"""
    k = o["op"]
    r = None
    if k == "new":
        r = fd.DimensionSet(dim_list=[fl_dim(D(l, c)) for l, c in o["dims"]])
    else:
        a = pool[o["i"]]
        other = fl_dim(D(*o["od"])) if "od" in o else (pool[o["j"]] if "j" in o else None)
        if k == "union":
            r = a | other
        elif k == "inter":
            r = a & other
        elif k == "diff":
            r = a - other
        elif k == "xor":
            r = a ^ other
        elif k == "add":
            r = a + other
        elif k == "subset":
            ks_ = None if o["keys"] is None else tuple(_key(x) for x in o["keys"])
            st_ = o.get("style")
            arg = ks_ if st_ in (None, "tuple") or ks_ is None else (list(ks_) if st_ == "list" else (iter(ks_) if st_ == "iter" else (q for q in ks_)))
            r = a.get_subset() if ks_ is None else a.get_subset(arg)
        elif k == "copy":
            r = a.copy()
        elif k == "arrayof":
            r = fd.FlodymArray(dims=a).dims
        elif k == "append":
            r = a.append(fl_dim(D(*o["d"])), inplace=o["inplace"])
        elif k == "prepend":
            r = a.prepend(fl_dim(D(*o["d"])), inplace=o["inplace"])
        elif k == "insert":
            r = a.insert(o["pos"], fl_dim(D(*o["d"])), inplace=o["inplace"])
        elif k == "drop":
            r = a.drop(_key(o["key"]), inplace=o["inplace"])
        elif k == "replace":
            r = a.replace(_key(o["key"]), fl_dim(D(*o["d"])), inplace=o["inplace"])
        elif k == "expand":
            r = a.expand_by([fl_dim(D(l, c)) for l, c in o["ds"]], inplace=o["inplace"])

    return r


def _full_obs(ds):
    out = dict(dims=obs_dims(ds))
    try:
        out.update(shape=list(ds.shape), total=ds.total_size, letters=list(ds.letters), names=list(ds.names),
                   contains={l: (l in ds) for l in LETTERS}, bypos=[ds[i].letter for i in range(len(ds))],
                   bykey={l: [ds[l].letter, ds[l].name, ds.index(l), ds.size(l)] for l in ds.letters} | {nm: [ds[nm].letter, ds[nm].name] for nm in ds.names})
    except Exception as e:  # noqa
        out["error"] = repr(e)[:100]
    return out


def run_impl(case):
    import flodym as fd
    pool = []
    steps, obs = [], []
    for op in case["ops"]:
        o = dict(op)
        k = o["op"]
        n = len(pool)
        if k != "new":
            if n == 0:
                continue
            o["i"] = o["i"] % n
            if "j" in o:
                o["j"] = o["j"] % n
        before = snapshot(pool)
        recv = None
        try:
            if k != "new":
                recv = o["i"]
            r = _exec_op(fd, pool, o)
            ok, exc = True, None
        except Exception as e:  # noqa
            r, ok, exc = None, False, type(e).__name__
        if ok and r is not None:
            pool.append(r)
            recv = len(pool) - 1
        after = snapshot(pool)
        lookups = []
        extra = {}
        if recv is not None and recv < len(pool):
            ds = pool[recv]
            for l in LETTERS:
                for st in "LN":
                    kk = _key([st, l])
                    try:
                        lookups.append([[st, l], [ds.index(kk), ds.size(kk)]])
                    except Exception:
                        lookups.append([[st, l], None])
            try:
                extra = dict(shape=list(ds.shape), total=ds.total_size, ndim=ds.ndim, len=len(ds), bool=bool(ds),
                             letters=list(ds.letters), names=list(ds.names), string=ds.string,
                             contains={l: (l in ds) for l in LETTERS},
                             bypos=[ds[i].letter for i in range(len(ds))],
                             bykey={l: ds[l].letter for l in ds.letters} | {nm: ds[nm].letter for nm in ds.names})
            except Exception as e:  # noqa
                extra = dict(error=repr(e))
        steps.append(o)
        obs.append(dict(ok=ok, exc=exc, before=before, after=after, recv=recv, lookups=lookups, extra=extra))
        if len(pool) > 12:
            break
    # the same history once more on fresh objects, this time WITHOUT looking at the sets between the steps: what the sets are at
    # the end does not depend on whether anybody asked them anything in between
    pool2 = []
    for o in steps:
        try:
            r = _exec_op(fd, pool2, o)
        except Exception:  # noqa
            r = None
        if r is not None:
            pool2.append(r)
    return dict(kind="dims-history", steps=steps, obs=obs, seen_final=[_full_obs(x) for x in pool], blind_final=[_full_obs(x) for x in pool2])


# ---- ordered-list oracle ---------------------------------------------------------------------------

def _lets(s):
    return [d["letter"] for d in s]


def _expected(o, sets):
    """expected (kind, list) for an out-of-place result / in-place new content, or 'err'"""
    k = o["op"]
    if k == "new":
        ds = [D(l, c) for l, c in o["dims"]]
        return "err" if len(set(_lets(ds))) != len(ds) else ds
    x = sets[o["i"]]
    if k in ("union", "inter", "diff", "xor", "add"):
        y = [D(*o["od"])] if "od" in o else sets[o["j"]]
        lx, ly = _lets(x), _lets(y)
        if k == "union":
            return x + [d for d in y if d["letter"] not in lx]
        if k == "inter":
            return [d for d in x if d["letter"] in ly]
        if k == "diff":
            return [d for d in x if d["letter"] not in ly]
        if k == "xor":
            return [d for d in x if d["letter"] not in ly] + [d for d in y if d["letter"] not in lx]
        return "err" if set(lx) & set(ly) else x + y
    if k == "subset":
        if o["keys"] is None:
            return list(x)
        out = []
        for st, l in o["keys"]:
            m = [d for d in x if (d["letter"] == l if st == "L" else d["name"] == ALLD[l]["name"])]
            if not m:
                return "err"
            out.append(m[0])
        return out   # requested order (duplicates: unspecified, handled by caller)
    if k in ("copy", "arrayof"):
        return list(x)
    if k in ("append", "prepend", "insert"):
        d = D(*o["d"])
        if d["letter"] in _lets(x):
            return "err"
        if k == "append":
            return x + [d]
        if k == "prepend":
            return [d] + x
        l = list(x)
        l.insert(o["pos"], d)
        return l
    if k == "drop":
        st, l = o["key"]
        m = [d for d in x if (d["letter"] == l if st == "L" else d["name"] == ALLD[l]["name"])]
        return "err" if not m else [d for d in x if d is not m[0]]
    if k == "replace":
        st, l = o["key"]
        d = D(*o["d"])
        m = [i for i, e in enumerate(x) if (e["letter"] == l if st == "L" else e["name"] == ALLD[l]["name"])]
        if not m:
            return "err"
        others = [e["letter"] for i, e in enumerate(x) if i != m[0]]
        if d["letter"] in others:
            return "err"
        if d["letter"] == x[m[0]]["letter"]:
            return "unspecified"   # replacing a dimension by one of the same letter: flodym refuses, the property is silent
        return x[: m[0]] + [d] + x[m[0] + 1:]
    if k == "expand":
        ds = [D(l, c) for l, c in o["ds"]]
        if set(_lets(ds)) & set(_lets(x)):
            return "err"
        return x + ds


def oracle(case, ob):
    if ob.get("seen_final") is not None and ob["seen_final"] != ob["blind_final"]:
        i = next((j for j, (x, y) in enumerate(zip(ob["seen_final"], ob["blind_final"])) if x != y), min(len(ob["seen_final"]), len(ob["blind_final"])))
        x = ob["seen_final"][i] if i < len(ob["seen_final"]) else None
        y = ob["blind_final"][i] if i < len(ob["blind_final"]) else None
        diff = [k for k in (x or {}) if (y or {}).get(k) != x.get(k)] if x and y else ["number of sets"]
        return (f"set #{i} answers differently at the end of the same history when nobody looked at the sets between the steps: {diff[:3]} "
                f"(looked at: {[(x or {}).get(k) for k in diff[:2]]}, not looked at: {[(y or {}).get(k) for k in diff[:2]]})")
    for si, (o, s) in enumerate(zip(ob["steps"], ob["obs"])):
        tag = f"step {si} {o['op']}"
        b, a = s["before"]["sets"], s["after"]["sets"]
        exp = _expected(o, b)
        inplace = o.get("inplace", False)
        if exp == "unspecified" or (o["op"] == "subset" and o["keys"] and len({tuple(k) for k in o["keys"]}) != len(o["keys"])):
            continue
        if exp == "err":
            if s["ok"]:
                return f"{tag}: accepted, but the property demands a refusal (clash / overlap / unknown key)"
            if a != b:
                return f"{tag}: refused but a set changed"
            continue
        if not s["ok"]:
            return f"{tag}: refused ({s['exc']}) a valid request {o}"
        if inplace:
            if a[o["i"]] != exp:
                return f"{tag} inplace: receiver is {_lets(a[o['i']])}, expected {_lets(exp)}"
            changed = [i for i in range(len(b)) if i != o["i"] and a[i] != b[i]]
            if changed:
                return f"{tag} inplace on #{o['i']}: set #{changed[0]} changed as well (shared list)"
        else:
            if a[: len(b)] != b:
                return f"{tag}: an existing set changed by an out-of-place operation"
            if len(a) != len(b) + 1 or a[-1] != exp:
                return f"{tag}: result {_lets(a[-1]) if len(a) > len(b) else None}, expected {_lets(exp)}"
        for st in a:
            if len(set(_lets(st))) != len(st):
                return f"{tag}: repeated letters {_lets(st)}"
        if s["after"]["share"]:
            i, j = s["after"]["share"][0]
            return f"{tag}: sets #{i} and #{j} share one Python list (an in-place edit of one changes the other)"
        # lookups agree with the order
        if s["recv"] is not None:
            cur = a[s["recv"]]
            ex = s["extra"]
            if "error" in ex:
                return f"{tag}: lookup raised {ex['error']}"
            if ex["letters"] != _lets(cur) or ex["names"] != [d["name"] for d in cur] or ex["bypos"] != _lets(cur):
                return f"{tag}: letters/names/position lookup disagree with the order"
            shape = [len(d["items"]) for d in cur]
            if ex["shape"] != shape or ex["total"] != int(np.prod(shape)) or ex["ndim"] != len(cur) or ex["len"] != len(cur) or ex["bool"] != (len(cur) > 0):
                return f"{tag}: shape/total_size/ndim/len disagree with the dimensions"
            for l in LETTERS:
                if ex["contains"][l] != (l in _lets(cur)):
                    return f"{tag}: membership of {l} wrong"
            for (st, l), v in s["lookups"]:
                if st == "N" and case.get("twins"):
                    continue          # a name may occur twice in these histories
                m = [i for i, d in enumerate(cur) if (d["letter"] == l if st == "L" else d["name"] == ALLD[l]["name"])]
                want = None if not m else [m[0], len(cur[m[0]]["items"])]
                if v != want:
                    return f"{tag}: index/size of {st}:{l} is {v}, expected {want}"
    return None


def failure_key(case, obs, msg):
    return msg.split(":", 1)[0].split(" ")[2] + msg.split(":", 1)[1][:18]


def _cq_key(k):
    st, l = k
    return f"(L {letter_code(l)})" if st == "L" else f"(N {NAMECODES(ALLD[l]['name'])})"


DNAME = {}
for _l in "abcdef":
    DNAME[(_l, False)] = f"d_{_l}"
for _l in "ab":
    DNAME[(_l, True)] = f"d_{_l}x"
    DNAME[(_l, "tw")] = f"d_{_l}tw"
    DNAME[(_l, "ns")] = f"d_{_l}ns"
COQ_HEADER = "\n".join(f"Definition {nm} := {cq_dim(D(*k))}." for k, nm in DNAME.items()) + (
    "\nDefinition L := KLetter. Definition N := KName. Definition S (a b : nat) := Some (a, b).\nLocal Open Scope nat_scope.")
cq_nat = str
_BYVAL = {repr((D(*k)["letter"], D(*k)["name"], D(*k)["items"])): nm for k, nm in DNAME.items()}


def cq_d(d):
    return _BYVAL[repr((d["letter"], d["name"], list(d["items"])))]


def cq_ds(ds):
    return cq_list([cq_d(d) for d in ds])


def _cq_op(o):
    k = o["op"]
    if k == "new":
        return f"(DNew {cq_list([cq_d(D(l, c)) for l, c in o['dims']])})"
    i = cq_nat(o["i"])
    if k in ("union", "inter", "diff", "xor", "add"):
        return f"({dict(union='DUnion', inter='DInter', diff='DDiff', xor='DXor', add='DAdd')[k]} {i} {cq_nat(o['j'])})"
    if k == "subset":
        ks = "None" if o["keys"] is None else f"(Some {cq_list([_cq_key(x) for x in o['keys']])})"
        return f"(DSubset {i} {ks})"
    if k == "copy":
        return f"(DCopy {i})"
    if k == "arrayof":
        return f"(DArrayOf {i})"
    ip = cq_bool(o["inplace"])
    if k == "append":
        return f"(DAppend {i} {cq_d(D(*o['d']))} {ip})"
    if k == "prepend":
        return f"(DPrepend {i} {cq_d(D(*o['d']))} {ip})"
    if k == "insert":
        return f"(DInsert {i} {cq_Z(o['pos'])} {cq_d(D(*o['d']))} {ip})"
    if k == "drop":
        return f"(DDrop {i} {_cq_key(o['key'])} {ip})"
    if k == "replace":
        return f"(DReplace {i} {_cq_key(o['key'])} {cq_d(D(*o['d']))} {ip})"
    if k == "expand":
        return f"(DExpand {i} {cq_list([cq_d(D(l, c)) for l, c in o['ds']])} {ip})"


def to_coq(case, ob):
    out = []
    for o, s in zip(ob["steps"], ob["obs"]):
        a = s["after"]
        lk = cq_list([f"({_cq_key(k)}, {'None' if v is None else f'S {v[0]} {v[1]}'})" for k, v in s["lookups"]
                      if (k[0] == "L" or v is not None or k[1] in "ae") and not (k[0] == "N" and case.get("twins"))])
        sh = cq_list([f"({cq_nat(i)}, {cq_nat(j)})" for i, j in a["share"]])
        recv = cq_nat(s["recv"] if s["recv"] is not None else 0)
        out.append(f"({_cq_op(o)}, mk_dobs {cq_bool(s['ok'])} {cq_list([cq_ds(x) for x in a['sets']])} {sh} {recv} {lk})")
    return cq_list(out)


def nontrivial(case):
    if case["stream"] == "history":
        return len(case["ops"]) >= 3
    return all(len(o.get("dims", [1])) > 0 for o in case["ops"][:2])


SIGNATURES = {}
