"""C09 — cohort tables add up to the totals and each cohort is conserved."""
from fractions import Fraction

import numpy as np

import stocksdrv as sd
from stocksdrv import arr, oracle_dt
import props.c03 as c03

ID = "C09"
THOROUGH_ROUNDS = 4      # rounds of generate() in the thorough tier (new random draws each round)
COQ_MODULE = "Corr.StocksC"
SHARD = 60
RULE = ("both DSM classes (stock-driven with both solvers) x the grids of C03 (unit, constant, uneven; power-of-two interval "
        "lengths in the exact stream, the natural 5/10-year grids in the tolerance stream) x 0-2 extra dimensions x probe / "
        "fixed / scipy lifetime models with scalar, per-label and per-cohort parameters; non-negative random inflows and "
        "stocks; the cohort accessors get_stock_by_cohort / get_outflow_by_cohort are compared entry by entry with the "
        "model and judged by the oracle (sums, upper triangle, dt*inflow*sf, monotonicity, conservation). "
        "Non-trivial: non-unit grid or >= 1 extra dimension.")
ASSUMPTIONS = c03.ASSUMPTIONS


def generate(tier, rng):
    return [c for c in c03.generate(tier, rng) if c["cls"] != "simple"]


def run_impl(case):
    return sd.run_stock(case, snap=(case["stream"] == "exact"))


def oracle(case, obs):
    if obs["kind"] == "err":
        return f"compute raised {obs['exc']}: {obs['msg'][:80]}"
    o = obs["value"]
    n = len(case["grid"])
    shp = tuple(o["shape"])
    K = int(np.prod(shp[1:])) if len(shp) > 1 else 1
    _, dt = oracle_dt(case["grid"])
    stock, inflow, outflow = (arr(o, k, (n, K)) for k in ("stock", "inflow", "outflow"))
    sf, sbc, obc = (arr(o, k, (n, n, K)) for k in ("sf", "sbc", "obc"))
    flat = list(stock.flatten()) + list(inflow.flatten()) + list(sbc.flatten()) + list(obc.flatten())
    if any(v is None for v in flat):
        return "non-finite values"
    scale = max([abs(v) for v in flat] + [Fraction(1)])
    eps = Fraction(0) if case["stream"] == "exact" else scale * Fraction(1, 10 ** 9)
    g = f"{case['cls']} grid {case['gname']}"
    for k in range(K):
        for t in range(n):
            if abs(sum(sbc[t, :, k]) - stock[t, k]) > eps:
                return f"{g}: sum over cohorts of stock-by-cohort {float(sum(sbc[t,:,k])):.6g} != stock {float(stock[t,k]):.6g} at t={t}"
            if abs(sum(obc[t, :, k]) - outflow[t, k]) > eps:
                return f"{g}: sum over cohorts of outflow-by-cohort != outflow at t={t}"
            for c in range(n):
                if c > t and (sbc[t, c, k] != 0 or obc[t, c, k] != 0):
                    return f"{g}: cohort table non-zero for cohort {c} later than year {t}"
                if c <= t and abs(sbc[t, c, k] - dt[c] * inflow[c, k] * sf[t, c, k]) > eps:
                    return f"{g}: stock of cohort {c} at {t} is {float(sbc[t,c,k]):.6g}, expected dt*inflow*sf = {float(dt[c]*inflow[c,k]*sf[t,c,k]):.6g}"
        for c in range(n):
            left = Fraction(0)
            for t in range(c, n):
                left += dt[t] * obc[t, c, k]
                if abs(dt[c] * inflow[c, k] - (sbc[t, c, k] + left)) > eps * (t + 1):
                    return f"{g}: cohort {c} not conserved at t={t}: entered {float(dt[c]*inflow[c,k]):.6g}, in stock {float(sbc[t,c,k]):.6g} + left {float(left):.6g}"
                if t > c and inflow[c, k] >= 0 and sbc[t, c, k] > sbc[t - 1, c, k] + eps:
                    return f"{g}: stock of cohort {c} increases from t={t-1} to {t}"
    return None


def failure_key(case, obs, msg):
    return case["cls"] + msg.split(":")[1][:22]


to_coq = c03.to_coq
nontrivial = c03.nontrivial
SIGNATURES = {}
