"""C02 — mass-balance and flow checks report exactly the violations."""
from fractions import Fraction
import itertools
import logging
import math
import re

import numpy as np

from arrays import (CODES, Lab, cq_dimset, cq_farr, fl_dimset, mk_universe, nelem, obs_dims, observe_values, ordered_subsets)
from common import cq_bool, cq_list, cq_nat, cq_opt, cq_Q, letter_code

ID = "C02"
COQ_MODULE = "Corr.C02"
SHARD = 80
RULE = ("seeded random system graphs: 1-5 processes besides sysenv, flows laid along 1-4 cycles through sysenv (parallel and "
        "opposing flows arise where cycles share processes), every flow over its own ordered dimension subset (values = marginals "
        "of one integer array times the cycle strength, so every process balances by construction), 0-3 stocks (with and "
        "without process, inflow/outflow routed through sysenv), processes without any flow, systems without stocks; then one "
        "entry perturbed by an exactly representable amount just above / just below the tolerance, or set to NaN, or made "
        "negative; default and explicit tolerance, both raise_error modes, exception lists for check_flows. "
        "Non-trivial: >= 2 processes besides sysenv, or a stock, or a perturbation.")
ASSUMPTIONS = [
    "process 0 is 'sysenv'; flow endpoints and stock processes are processes of the system; stocks have time first",
    "all values are integers (plus one perturbed entry that is a multiple of the top-binade ulp), so float sums are exact",
]

EPS = Fraction(1, 2 ** 52)


def _marg(uni, X, dims, mult):
    lab = Lab.from_desc(uni, X).marginal([uni[l] for l in dims])
    keys = list(itertools.product(*[uni[l]["items"] for l in dims]))
    return [int(mult * lab.data[k]) for k in keys]


def gen_system(rng, k, falsy=False):
    uni = mk_universe((3, 2, 2), "tab", int_dims=("t",), falsy=falsy)
    L = ["t", "a", "b"]
    n = nelem(uni, L)
    X = dict(dims=L, values=[rng.randint(0, 5) for _ in range(n)])
    nproc = rng.randint(1, 5)
    procs = ["sysenv"] + [f"p{i}" for i in range(1, nproc + 1)]
    if nproc >= 2 and rng.random() < 0.35:
        # one process name contained in another ("use" / "reuse"): an exception list names processes and flows exactly
        procs[2] = procs[1] + " (re)" if k % 2 else "re-" + procs[1]
    lonely = rng.random() < 0.2
    if lonely:
        procs.append("unused process")
    flows = []
    fdims = lambda: rng.choice([s for s in ordered_subsets(L) if len(s) >= 1])
    for c in range(rng.randint(1, 4)):
        path = rng.sample(range(1, nproc + 1), rng.randint(1, min(3, nproc)))
        cyc = [0] + path + [0]
        m = rng.randint(1, 3)
        for a, b in zip(cyc[:-1], cyc[1:]):
            d = fdims()
            flows.append(dict(name=f"f{len(flows)} {procs[a]} => {procs[b]}", frm=procs[a], to=procs[b],
                              arr=dict(dims=d, values=_marg(uni, X, d, m))))
    if rng.random() < 0.15:
        d = fdims()
        flows.append(dict(name=f"f{len(flows)} loop", frm=procs[1], to=procs[1], arr=dict(dims=d, values=_marg(uni, X, d, 1))))
    stocks = []
    ns = rng.choice([0, 0, 1, 1, 2, 3])
    for s in range(ns):
        sd = ["t"] + rng.sample(["a", "b"], rng.randint(0, 2))
        has_proc = rng.random() < 0.8
        p = procs[rng.randint(1, nproc)] if has_proc else None
        on_sysenv = has_proc and rng.random() < 0.15
        if on_sysenv:                      # a stock attached to the system environment itself: its two entries meet there
            p = "sysenv"
        mi, mo = rng.randint(1, 3), rng.randint(0, 2)
        inflow = _marg(uni, X, sd, mi)
        outflow = _marg(uni, X, sd, mo)
        stocks.append(dict(name=f"stock{s}", proc=p, dims=sd, inflow=inflow, outflow=outflow,
                           stock=[int(v) for v in np.cumsum(np.array(inflow).reshape([len(uni[l]['items']) for l in sd]) -
                                                            np.array(outflow).reshape([len(uni[l]['items']) for l in sd]), axis=0).flatten()]))
        if has_proc and not on_sysenv:
            d = fdims()
            flows.append(dict(name=f"f{len(flows)} sysenv => {p} (stock)", frm="sysenv", to=p, arr=dict(dims=d, values=_marg(uni, X, d, mi))))
            if mo:
                d = fdims()
                flows.append(dict(name=f"f{len(flows)} {p} => sysenv (stock)", frm=p, to="sysenv", arr=dict(dims=d, values=_marg(uni, X, d, mo))))
    if lonely and rng.random() < 0.6:
        # a stock at the process that no flow touches: what it takes up (or, with equal in- and outflow, nothing) is that process's
        # whole balance, mirrored on the system environment
        sd = ["t"] + rng.sample(["a", "b"], rng.randint(0, 1))
        inflow = _marg(uni, X, sd, 1)
        outflow = list(inflow) if rng.random() < 0.3 else [0] * len(inflow)
        shp = [len(uni[l]["items"]) for l in sd]
        stocks.append(dict(name=f"stock{len(stocks)} at the unused process", proc="unused process", dims=sd, inflow=inflow, outflow=outflow,
                           stock=[int(v) for v in np.cumsum(np.array(inflow).reshape(shp) - np.array(outflow).reshape(shp), axis=0).flatten()]))
    # a stock without a process that holds the largest magnitude of the system (a reserve, a stock kept for reporting):
    # it takes no part in any balance, but the default tolerance is scaled to it as to every other stock
    dominant = rng.random() < 0.25
    if dominant:
        sd = ["t"] + rng.sample(["a", "b"], rng.randint(0, 2))
        z = [0] * nelem(uni, sd)
        stocks.append(dict(name=f"stock{len(stocks)} reserve", proc=None, dims=sd, inflow=z, outflow=list(z),
                           stock=[(2 ** 12) * (3 + v) for v in _marg(uni, X, sd, 1)]))
    return dict(uni=uni, procs=procs, flows=flows, stocks=stocks, dominant=dominant)


def sum_ulp(sysd):
    """ulp of the binade that bounds every partial sum of the balance computation: perturbations that are
    multiples of it keep all float sums exact"""
    S = sum(abs(v) for f in sysd["flows"] for v in f["arr"]["values"]) + \
        sum(abs(v) for s in sysd["stocks"] for v in s["inflow"] + s["outflow"]) + 1
    e = math.ceil(math.log2(S)) + 1
    return Fraction(2) ** (e - 52)


def default_tol(sysd):
    """100 * eps * largest flow or stock magnitude"""
    m = max([abs(Fraction(v)) for f in sysd["flows"] for v in f["arr"]["values"] if v != "nan"] +
            [abs(Fraction(v)) for s in sysd["stocks"] for v in s["stock"] if v != "nan"] + [0])
    return 100 * EPS * m


def swap_systems():
    """an imbalance that cancels over a dimension: two entries of the return flow to the system environment swapped between the items
    of 'a'.  The inner processes do not see it (one of their contributions has no 'a': their balance is summed over it), the system
    environment does (all its contributions carry 'a').  With and without a stock at the last process."""
    uni = mk_universe((3, 2, 2), "tab")
    out = []
    for with_stock in (True, False):
        for delta in (3, Fraction(1, 4)):
            ta = [10 + 3 * i for i in range(6)]                      # over (t, a)
            t_ = [ta[2 * i] + ta[2 * i + 1] for i in range(3)]       # summed over a
            back = list(ta)
            back[0], back[1] = Fraction(back[0]) + delta, Fraction(back[1]) - delta
            flows = [dict(name="f0 sysenv => p1", frm="sysenv", to="p1", arr=dict(dims=["t", "a"], values=[str(v) for v in ta])),
                     dict(name="f1 p1 => p2", frm="p1", to="p2", arr=dict(dims=["t"], values=[str(v) for v in t_])),
                     dict(name="f2 p2 => sysenv", frm="p2", to="sysenv", arr=dict(dims=["t", "a"], values=[str(v) for v in back]))]
            stocks = []
            if with_stock:
                z = [0] * 6
                stocks.append(dict(name="stock0", proc="p2", dims=["t", "a"], inflow=[2] * 6, outflow=[2] * 6, stock=z))
            out.append(dict(uni=uni, procs=["sysenv", "p1", "p2"], flows=flows, stocks=stocks, dominant=False))
    return out


def generate(tier, rng):
    cases = []
    for sysd in swap_systems():
        for tol in (None, str(Fraction(1, 2 ** 20))):
            cases.append(dict(stream="exact", mode="swap", sys=sysd, tol=tol, exceptions=[], compare_balances=True))
    n = 120 if tier == "quick" else 1200
    for k in range(n):
        base = gen_system(rng, k)
        U = sum_ulp(base)
        variants = [("balanced", None)]
        for mode in ("above", "below", "gross", "nan", "negative", "stocknan", "zero_tol", "zero_tol_balanced"):
            variants.append((mode, rng.random()))
        for vi, (mode, r) in enumerate(variants):
            sysd = dict(base, flows=[dict(f, arr=dict(f["arr"], values=list(f["arr"]["values"]))) for f in base["flows"]],
                        stocks=[dict(s, inflow=list(s["inflow"]), outflow=list(s["outflow"]), stock=list(s["stock"])) for s in base["stocks"]])
            # precise threshold tests need an explicit tolerance well above the float resolution of the sums
            explicit = mode in ("above", "below") or (k + vi) % 3 == 0    # (zero_tol sets its own)
            tol = Fraction(rng.choice([1, 2, 8]), 2 ** rng.choice([20, 30])) if explicit else None
            compare_balances = True
            tol_eff = tol
            if mode in ("above", "below") and base["dominant"] and (k + vi) % 2 == 0:
                # the DEFAULT tolerance is far above the resolution of the sums when a process-less stock dominates
                tol, tol_eff = None, default_tol(sysd)
                if (k + vi) % 4 == 0:
                    # a gap (NaN) in the level series of the reserve, away from its largest entry: the levels take no part in any
                    # balance, and the default tolerance is still scaled to the largest magnitude present
                    res = [s_ for s_ in sysd["stocks"] if s_["proc"] is None and s_["name"].endswith("reserve")][-1]
                    jmax = max(range(len(res["stock"])), key=lambda q: abs(Fraction(res["stock"][q])))
                    if len(res["stock"]) > 1:
                        res["stock"][(jmax + 1) % len(res["stock"])] = "nan"
            if mode in ("above", "below") and sysd["flows"]:
                f = sysd["flows"][int(r * len(sysd["flows"]))]
                j = int(r * 997) % len(f["arr"]["values"])
                steps = (math.floor(tol_eff * Fraction(3, 2) / U) + 1) if mode == "above" else max(math.floor(tol_eff / 2 / U), 1)
                delta = steps * U * (1 if int(r * 10) % 2 else -1)
                f["arr"]["values"][j] = str(Fraction(f["arr"]["values"][j]) + delta)
            elif mode in ("zero_tol", "zero_tol_balanced"):
                # an explicit tolerance of exactly zero: the smallest imbalance (one unit in the last place of the sums) is a failure
                tol = Fraction(0)
                if mode == "zero_tol" and sysd["flows"]:
                    f = sysd["flows"][int(r * len(sysd["flows"]))]
                    j = int(r * 997) % len(f["arr"]["values"])
                    f["arr"]["values"][j] = str(Fraction(f["arr"]["values"][j]) + U * (1 if int(r * 10) % 2 else -1))
            elif mode == "gross" and sysd["flows"]:
                f = sysd["flows"][int(r * len(sysd["flows"]))]
                j = int(r * 997) % len(f["arr"]["values"])
                f["arr"]["values"][j] = str(Fraction(f["arr"]["values"][j]) + rng.choice([1, -1, Fraction(1, 2)]))
            elif mode == "nan" and sysd["flows"]:
                f = sysd["flows"][int(r * len(sysd["flows"]))]
                f["arr"]["values"][int(r * 991) % len(f["arr"]["values"])] = "nan"
            elif mode == "negative" and sysd["flows"]:
                # an entry just below minus the DEFAULT tolerance (check_flows has no tolerance argument); the tiny value
                # is below the float resolution of the balance sums, so the balances are not compared entry by entry here
                f = sysd["flows"][int(r * len(sysd["flows"]))]
                j = int(r * 983) % len(f["arr"]["values"])
                t = default_tol(sysd)
                f["arr"]["values"][j] = str(-(t * 2)) if int(r * 10) % 3 else (str(-(t / 2)) if int(r * 10) % 2 else -3)
                compare_balances = False
                tol = Fraction(1, 2)
            elif mode == "stocknan":
                if not sysd["stocks"]:
                    continue
                s = sysd["stocks"][int(r * len(sysd["stocks"]))]
                s["inflow"][int(r * 977) % len(s["inflow"])] = "nan"
            exc = [sysd["flows"][0]["name"]] if (k + vi) % 4 == 0 and sysd["flows"] else []
            nested = len(sysd["procs"]) > 2 and sysd["procs"][1] in sysd["procs"][2]
            if ((k + vi) % 7 == 0 or nested) and len(sysd["procs"]) > 1:
                exc.append(sysd["procs"][1])
            if (k + vi) % 5 == 0 and sysd["flows"]:
                # an entry that is only PART of a flow's name excepts nothing
                exc.append(sysd["flows"][-1]["name"][:-2])
            # the same system in a very small or very large unit (every value and the tolerance times a power of two): the
            # verdicts do not depend on the unit, the default tolerance scales with the largest magnitude
            scale = [1, 1, Fraction(1, 2 ** 40), 2 ** 40][k % 4]
            if scale != 1:
                sc = lambda v: v if v == "nan" else str(Fraction(v) * scale)
                sysd = dict(sysd, flows=[dict(f, arr=dict(f["arr"], values=[sc(v) for v in f["arr"]["values"]])) for f in sysd["flows"]],
                            stocks=[dict(s_, inflow=[sc(v) for v in s_["inflow"]], outflow=[sc(v) for v in s_["outflow"]],
                                         stock=[sc(v) for v in s_["stock"]]) for s_ in sysd["stocks"]])
                tol = None if tol is None else tol * scale
            allv = [v for f in sysd["flows"] for v in f["arr"]["values"]] + [v for s_ in sysd["stocks"] for q in ("inflow", "outflow", "stock") for v in s_[q]]
            if (k + vi) % 2 == 0 and all(v != "nan" and Fraction(v).denominator == 1 for v in allv):
                # whole numbers held in integer arrays (counts of items): the same verdicts as for the same numbers in float arrays
                sysd = dict(sysd, int_dtype=True)
            cases.append(dict(stream="exact", mode=mode, sys=sysd, tol=None if tol is None else str(tol), exceptions=exc,
                              compare_balances=compare_balances))
    return cases


def _vals(desc_vals):
    return np.array([float("nan") if v == "nan" else float(Fraction(v)) for v in desc_vals], dtype=float)


def build_system(sysd):
    import flodym as fd
    uni = sysd["uni"]
    procs = {n: fd.Process(name=n, id=i) for i, n in enumerate(sysd["procs"])}
    dims = fl_dimset(uni, list(uni.keys()))
    flows = {}
    for fi, f in enumerate(sysd["flows"]):
        ds = fl_dimset(uni, f["arr"]["dims"])
        v = _vals(f["arr"]["values"]).reshape(ds.shape)
        if fi % 2 and v.ndim >= 2:
            v = np.asfortranarray(v)          # same values, column-major memory layout
        if sysd.get("int_dtype"):
            v = v.astype(np.int64)
        flows[f["name"]] = fd.Flow(dims=ds, values=v, name=f["name"],
                                   from_process=procs[f["frm"]], to_process=procs[f["to"]])
    stocks = {}
    for s in sysd["stocks"]:
        ds = fl_dimset(uni, s["dims"])
        mk = lambda v: fd.StockArray(dims=ds, values=np.asfortranarray(_vals(v).reshape(ds.shape)).astype(np.int64 if sysd.get("int_dtype") else float))
        stocks[s["name"]] = fd.SimpleFlowDrivenStock(dims=ds, inflow=mk(s["inflow"]), outflow=mk(s["outflow"]), stock=mk(s["stock"]),
                                                    name=s["name"], process=procs[s["proc"]] if s["proc"] else None)
    return fd.MFASystem(dims=dims, parameters={}, processes=procs, flows=flows, stocks=stocks)


class LogCapture(logging.Handler):
    """what the library logs while a check runs, through the standard logging framework (root logger or a logger of its own)"""

    def __init__(self):
        super().__init__(level=logging.DEBUG)
        self.warnings, self.infos = [], []

    def emit(self, record):
        try:
            msg = record.getMessage()
        except Exception:  # noqa
            msg = str(record.msg)
        (self.warnings if record.levelno >= logging.WARNING else self.infos).append(msg)

    def __enter__(self):
        self._root = logging.getLogger()
        self._disabled = self._root.manager.disable
        logging.disable(logging.NOTSET)
        self._levels = {}
        for lg in [self._root] + [l for n, l in logging.Logger.manager.loggerDict.items() if n.startswith("flodym") and isinstance(l, logging.Logger)]:
            self._levels[lg] = (lg.level, lg.disabled, lg.propagate)
            lg.setLevel(logging.DEBUG)
            lg.disabled = False
            lg.propagate = True
        self._root.addHandler(self)
        return self

    def __exit__(self, *a):
        self._root.removeHandler(self)
        logging.disable(self._disabled)
        for lg, (lv, dis, prop) in self._levels.items():
            lg.setLevel(lv)
            lg.disabled = dis
            lg.propagate = prop
        return False


def _names_from(msg, procs):
    """the processes a failure message names (None when it names none: the property fixes the verdict, not the wording)"""
    if "following processes:" in msg and "(max error" in msg:
        body = msg.split("following processes:", 1)[1].strip()
        return [p for p in procs if re.search(r"(^|, )" + re.escape(p) + r" \(max error", body)]
    found = [p for p in procs if re.search(r"(?<![\w])" + re.escape(p) + r"(?![\w])", msg)]
    return found or None


PROGRAMMING_ERRORS = (TypeError, AttributeError, IndexError, KeyError, NameError, ZeroDivisionError, AssertionError)


def _flagged(messages, names):
    return [n for n in names if any(n in m for m in messages)]


def run_impl(case):
    sysd = case["sys"]
    mfa = build_system(sysd)
    tol = None if case["tol"] is None else float(Fraction(case["tol"]))
    out = {}
    if True:
        for mode in (True, False):
            cap = LogCapture()
            try:
                with cap:
                    mfa.check_mass_balance(tolerance=tol, raise_error=mode)
                if cap.warnings:
                    out[f"mb_{mode}"] = dict(kind="failed", procs=_names_from(cap.warnings[0], sysd["procs"]), via="warning")
                else:
                    out[f"mb_{mode}"] = dict(kind="success", said=any("Success" in i for i in cap.infos))
            except PROGRAMMING_ERRORS as e:
                out[f"mb_{mode}"] = dict(kind="crashed", exc=type(e).__name__, msg=str(e)[:80])
            except Exception as e:  # noqa   (whatever is raised on purpose counts as the failure verdict)
                out[f"mb_{mode}"] = dict(kind="failed", procs=_names_from(str(e), sysd["procs"]), via="raise")
        for mode in (True, False):
            cap = LogCapture()
            try:
                with cap:
                    mfa.check_flows(exceptions=list(case["exceptions"]), raise_error=mode, verbose=False)
                # the flows a warning names, by the kind of complaint (the wording is the library's own; the flow name is what counts)
                fnames = [f["name"] for f in sysd["flows"]]
                nanf = _flagged([m for m in cap.warnings if "nan" in m.lower()], fnames)
                negf = _flagged([m for m in cap.warnings if "nan" not in m.lower()], fnames)
                out[f"cf_{mode}"] = dict(kind="result", nan=nanf, neg=negf, success=any("Success" in i for i in cap.infos))
            except PROGRAMMING_ERRORS as e:
                out[f"cf_{mode}"] = dict(kind="crashed", exc=type(e).__name__, msg=str(e)[:80])
            except Exception as e:  # noqa
                out[f"cf_{mode}"] = dict(kind="raised", msg=str(e)[:120])
        # the same call again, with the SAME list object, and with the default argument twice: every call flags by itself, and the
        # caller's list is the caller's
        try:
            exc_list = list(case["exceptions"])
            fnames = [f["name"] for f in sysd["flows"]]
            rounds = []
            for _ in range(2):
                cap = LogCapture()
                with cap:
                    mfa.check_flows(exceptions=exc_list, raise_error=False, verbose=False)
                rounds.append(sorted(_flagged(cap.warnings, fnames)))
            for _ in range(2):
                cap = LogCapture()
                with cap:
                    mfa.check_flows(raise_error=False)
                rounds.append(sorted(_flagged(cap.warnings, fnames)))
            out["cf_again"] = dict(rounds=rounds, list_unchanged=(exc_list == list(case["exceptions"])))
        except Exception as e:  # noqa
            out["cf_again"] = dict(error=type(e).__name__ + ": " + str(e)[:80])
        try:
            bal = mfa._get_mass_balance()
            out["balances"] = {p: (dict(dims=obs_dims(b.dims), values=observe_values(b.values)) if hasattr(b, "values") else None)
                               for p, b in bal.items()}
        except Exception as e:  # noqa
            out["balances"] = None
    return dict(kind="ok", value=out)


# ---- oracle: the property statement recomputed with Fractions (None = NaN) ------------------------

def _lab(uni, dims, vals):
    keys = list(itertools.product(*[uni[l]["items"] for l in dims]))
    return dims, {k: (None if v == "nan" else Fraction(v)) for k, v in zip(keys, vals)}


def _marg_to(uni, dims, data, keep):
    out = {}
    for k, v in data.items():
        kk = tuple(k[dims.index(l)] for l in keep)
        if kk not in out:
            out[kk] = Fraction(0)
        out[kk] = None if (v is None or out[kk] is None) else out[kk] + v
    return out


def expected(case):
    sysd = case["sys"]
    uni = sysd["uni"]
    parts = {p: [] for p in sysd["procs"]}
    for f in sysd["flows"]:
        d, data = _lab(uni, f["arr"]["dims"], f["arr"]["values"])
        parts[f["frm"]].append((d, data, -1))
        parts[f["to"]].append((d, data, +1))
    for s in sysd["stocks"]:
        if s["proc"] is None:
            continue
        d, i = _lab(uni, s["dims"], s["inflow"])
        _, o = _lab(uni, s["dims"], s["outflow"])
        net = {k: (None if (i[k] is None or o[k] is None) else i[k] - o[k]) for k in i}
        parts[s["proc"]].append((d, net, -1))
        parts["sysenv"].append((d, net, +1))
    tol = Fraction(case["tol"]) if case["tol"] is not None else default_tol(sysd)
    failing = []
    for p in sysd["procs"]:
        if not parts[p]:
            continue
        common = [l for l in parts[p][0][0] if all(l in d for d, _, _ in parts[p])]
        tot = {}
        for d, data, sign in parts[p]:
            for k, v in _marg_to(uni, d, data, common).items():
                cur = tot.get(k, Fraction(0))
                tot[k] = None if (v is None or cur is None) else cur + sign * v
        if any(v is None for v in tot.values()) or max(abs(v) for v in tot.values()) > tol:
            failing.append(p)
    flagged_nan, flagged_neg = [], []
    for f in sysd["flows"]:
        if f["name"] in case["exceptions"] or f["frm"] in case["exceptions"] or f["to"] in case["exceptions"]:
            continue
        vs = [None if v == "nan" else Fraction(v) for v in f["arr"]["values"]]
        if any(v is None for v in vs):
            flagged_nan.append(f["name"])
        if any(v is not None and v < -default_tol(sysd) for v in vs):
            flagged_neg.append(f["name"])
    return failing, flagged_nan, flagged_neg


def _all_bad(case):
    """the flows that contain NaN or an entry below minus the (default) tolerance, no exceptions"""
    sysd = case["sys"]
    out = []
    for f in sysd["flows"]:
        vs = [None if v == "nan" else Fraction(v) for v in f["arr"]["values"]]
        if any(v is None for v in vs) or any(v is not None and v < -default_tol(sysd) for v in vs):
            out.append(f["name"])
    return out


def oracle(case, obs):
    o = obs["value"]
    failing, fnan, fneg = expected(case)
    sysd = case["sys"]
    desc = f"({len(sysd['procs'])-1} processes, {len(sysd['flows'])} flows, {len(sysd['stocks'])} stocks, tolerance {'explicit' if case['tol'] else 'default'}, {case['mode']})"
    for mode in (True, False):
        r = o[f"mb_{mode}"]
        if r["kind"] == "crashed":
            return f"check_mass_balance(raise_error={mode}) crashed with {r['exc']}: {r['msg']} {desc}"
        if failing and r["kind"] == "success":
            return f"check_mass_balance(raise_error={mode}) reports success although {failing} are unbalanced / NaN {desc}"
        if not failing and r["kind"] != "success":
            return f"check_mass_balance(raise_error={mode}) fails for {r.get('procs')} although every process is balanced within the tolerance {desc}"
        if failing and r["procs"] is not None and sorted(r["procs"]) != sorted(failing):
            return f"check_mass_balance names {r['procs']}, the unbalanced processes are {failing} {desc}"
        if failing and r["via"] != ("raise" if mode else "warning"):
            return f"check_mass_balance(raise_error={mode}) reported through {r['via']}"
    r = o["cf_False"]
    if r["kind"] != "result":
        return f"check_flows(raise_error=False) {r['kind']}: {r.get('exc')}: {r.get('msg')} {desc}"
    if sorted(r["nan"]) != sorted(fnan) or sorted(r["neg"]) != sorted(fneg):
        return f"check_flows flags NaN {r['nan']} / negative {r['neg']}, expected NaN {fnan} / negative {fneg} {desc}"
    ag = o.get("cf_again")
    if ag is not None:
        if "error" in ag:
            return f"a repeated check_flows(raise_error=False) raised {ag['error']} {desc}"
        if not ag["list_unchanged"]:
            return f"check_flows changed the exception list it was given {desc}"
        if ag["rounds"][0] != ag["rounds"][1]:
            return f"check_flows called twice with the same exception list flags {ag['rounds'][0]} the first and {ag['rounds'][1]} the second time {desc}"
        if ag["rounds"][2] != ag["rounds"][3]:
            return f"check_flows() called twice flags {ag['rounds'][2]} the first and {ag['rounds'][3]} the second time {desc}"
        every = sorted(set(_all_bad(case)))
        if ag["rounds"][3] != every:
            return f"check_flows() without exceptions flags {ag['rounds'][3]}, the flows with NaN or an entry below minus the tolerance are {every} {desc}"
    r = o["cf_True"]
    if (fnan or fneg) and r["kind"] != "raised":
        return f"check_flows(raise_error=True) did not raise ({r['kind']}) although flows {fnan + fneg} must be flagged {desc}"
    if not (fnan or fneg) and r["kind"] != "result":
        return f"check_flows(raise_error=True) {r['kind']} ({r.get('msg')}) although nothing is to be flagged {desc}"
    return None


def failure_key(case, obs, msg):
    return msg.split("(")[0][:30] + msg.split(" ")[3][:8] + case["mode"]


# ---- Coq emission ------------------------------------------------------------------------------------

def _oq(v):
    return "None" if v == "nan" or v is None else f"(Some {cq_Q(Fraction(v))})"


def cq_farr_o(uni, dims, vals):
    return f"(mk_farr {cq_dimset([uni[l] for l in dims])} {cq_list([_oq(v) for v in vals])})"


def to_coq(case, obs):
    sysd = case["sys"]
    uni = sysd["uni"]
    pidx = {p: i for i, p in enumerate(sysd["procs"])}
    fl = [f"(mk_flow {cq_nat(CODES(f['name']))} {cq_nat(pidx[f['frm']])} {cq_nat(pidx[f['to']])} {cq_farr_o(uni, f['arr']['dims'], f['arr']['values'])})"
          for f in sysd["flows"]]
    st = [f"(mk_stockrec {cq_opt(None if s['proc'] is None else cq_nat(pidx[s['proc']]))} {cq_farr_o(uni, s['dims'], s['inflow'])} "
          f"{cq_farr_o(uni, s['dims'], s['outflow'])} {cq_farr_o(uni, s['dims'], s['stock'])})" for s in sysd["stocks"]]
    sysq = f"(mk_system {cq_nat(len(sysd['procs']))} {cq_list(fl)} {cq_list(st)})"
    o = obs["value"]
    r = o["mb_True"]
    mb = "VSuccess" if r["kind"] == "success" else "VCrashed" if r["kind"] == "crashed" else f"(VFailed {cq_list([cq_nat(pidx[p]) for p in sysd['procs'] if p in r['procs']])})"
    r = o["cf_False"]
    cf = "FCrashed" if r["kind"] != "result" else f"(FResult {cq_list([cq_nat(CODES(n)) for n in r['nan']])} {cq_list([cq_nat(CODES(n)) for n in r['neg']])})"
    exc = [f for f in sysd["flows"] if f["name"] in case["exceptions"] or f["frm"] in case["exceptions"] or f["to"] in case["exceptions"]]
    tol = "None" if case["tol"] is None else f"(Some {cq_Q(Fraction(case['tol']))})"
    if o["balances"] is None or not case.get("compare_balances", True):
        bal = "None"
    else:
        bs = []
        for p in sysd["procs"]:
            b = o["balances"][p]
            bs.append("None" if b is None else f"(Some ({cq_dimset(b['dims'])}, {cq_list([_oq(None if v is None else Fraction(v[0], v[1])) for v in b['values']])}))")
        bal = f"(Some {cq_list(bs)})"
    return f"(mk_case {sysq} {cq_list([cq_nat(CODES(f['name'])) for f in exc])} {tol} {mb} {cf} {bal})"


def nontrivial(case):
    s = case["sys"]
    return len(s["procs"]) > 2 or len(s["stocks"]) > 0 or case["mode"] != "balanced"


SIGNATURES = {}
