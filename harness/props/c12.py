"""C12 — data import refuses incomplete or inconsistent data unless told otherwise."""
from fractions import Fraction
import itertools
import os
import shutil
import tempfile

import numpy as np
import pandas as pd

from arrays import observe, observe_values
import dfdrv as dd
from dfdrv import DIMPOOL, fl_dims_t

ID = "C12"
THOROUGH_ROUNDS = 2      # rounds of generate() in the thorough tier (new random draws each round)
COQ_MODULE = "Corr.DFC"
SHARD = 150
EXHAUSTIVE = True
RULE = ("fault enumeration on complete tables of 1-3 dimensional arrays: every SINGLE fault {row dropped, row duplicated (same "
        "or other value), label replaced by an unknown item, value blanked} at the first, a middle and the last row, every PAIR "
        "of faults of different kinds (incl. duplicate + missing with unchanged row count, duplicate rows that carry unknown "
        "items), a dimension column left out (single-item and multi-item), value columns that match no dimension; in long "
        "(index / columns) and wide layouts, x all four combinations of allow_missing_values / allow_extra_values, through "
        "from_df, set_values_from_df (target pre-filled, must stay untouched on failure), CSVParameterReader and "
        "ExcelParameterReader (real temp files). Non-trivial: a fault is present.")
ASSUMPTIONS = [
    "pandas' parsing of CSV / Excel text is runtime; unknown items are of the dimension's own item type",
    "with allow_extra_values, rows with unknown items are dropped first and the remaining rules apply to what is left (the property's 'nothing else changes')",
]

SETS = [["t"], ["r", "t"], ["t", "r", "m"], ["s", "r"], ["m", "y", "t"], ["N", "t"]]


def fault_variants(ds, rows, rng):
    """list of (description, faulty rows)"""
    n = len(rows)
    pos = sorted({0, n // 2, n - 1})
    out = [("none", [list(r) for r in rows])]

    def drop(rs, j):
        return [r for i, r in enumerate(rs) if i != j]

    def dup(rs, j, other):
        r = [list(rs[j][0]), rs[j][1] + (Fraction(1) if other else 0)]
        k = (j + 2) % (len(rs) + 1)
        return rs[:k] + [r] + rs[k:]

    def relabel(rs, j, d):
        r = [list(rs[j][0]), rs[j][1]]
        r[0][d] = dd.unknown_item(ds[d], j)
        return rs[:j] + [r] + rs[j + 1:]

    def blank(rs, j):
        return rs[:j] + [[list(rs[j][0]), None]] + rs[j + 1:]

    base = [[list(r[0]), r[1]] for r in rows]
    for j in pos:
        out.append((f"drop@{j}", drop(base, j)))
        out.append((f"dup@{j}", dup(base, j, False)))
        out.append((f"dupother@{j}", dup(base, j, True)))
        out.append((f"blank@{j}", blank(base, j)))
        for d in range(len(ds)):
            if len(ds[d]["items"]) > 1 or d == 0:
                out.append((f"unknown@{j}/{d}", relabel(base, j, d)))
    if n >= 3:
        a, b = 0, n - 1
        out.append(("dup+drop", drop(dup(base, a, True), b + 1 if b + 1 < n + 1 else b)))
        out.append(("drop+blank", blank(drop(base, a), 0)))
        out.append(("unknown+drop", relabel(drop(base, b), a, 0)))
        out.append(("unknown+blank", blank(relabel(base, a, 0), n - 1)))
        u = relabel(base, a, 0)
        out.append(("unknown-dup", u[:1] + [[list(u[0][0]), u[0][1]]] + u[1:]))      # two identical rows that carry an unknown item
        out.append(("unknown+dup", dup(relabel(base, a, 0), n - 1, False)))
        out.append(("unknown x2", relabel(relabel(base, a, 0), b, len(ds) - 1)))
    return out


def generate(tier, rng):
    cases = []
    k = 0
    for names in SETS:
        ds = [DIMPOOL[x] for x in names]
        nrows = int(np.prod([len(d["items"]) for d in ds]))
        vals = [Fraction(2 * i + 1, 2) for i in range(nrows)]
        rows = dd.full_rows(ds, vals)
        lays = [dict(where="columns", wide=None, header="names"), dict(where="index", wide=None, header="letters")]
        if len(ds) >= 2:
            lays.append(dict(where="columns", wide=len(ds) - 1, header="names"))
            lays.append(dict(where="index", wide=0, header="mixed"))
        if any(d.get("dtype") == "int" for d in ds) and len(ds) <= 2:
            lays.append(dict(where="columns", wide=None, header="names", labels_as_str=True))      # years as text
        for desc, frows in fault_variants(ds, rows, rng):
            for li, lay in enumerate(lays):
                for am in (False, True):
                    for ae in (False, True):
                        k += 1
                        via = ["from_df", "set_values_from_df", "csv_reader", "from_df", "excel_reader"][k % 5] if lay["wide"] is None or k % 3 else "from_df"
                        if tier == "quick" and via == "excel_reader" and k % 4:
                            via = "from_df"
                        cases.append(dict(stream="faults", dims=ds, fault=desc, rows=[[r[0], None if r[1] is None else str(r[1])] for r in frows],
                                          layout=dict(lay, omit_single=(k % 2 == 0), value_name="value", row_perm=None, col_perm=None, csv=False),
                                          allow_missing=am, allow_extra=ae, via=via))
                        # the same table with row labels of its own that repeat (put together from pieces): rows are rows, whatever their labels
                        if li == 0:
                            c = dict(cases[-1], via=(via if via in ("from_df", "set_values_from_df") else "from_df"))
                            c["layout"] = dict(c["layout"], row_labels=["pairs", "same", "from1"][k % 3])
                            cases.append(c)
        # layout-level faults
        for am in (False, True):
            for ae in (False, True):
                for omit in range(len(ds)):
                    cases.append(dict(stream="faults", dims=ds, fault=f"column of {ds[omit]['letter']} left out", rows=[[r[0], str(r[1])] for r in rows],
                                      layout=dict(where="columns", wide=None, header="names", omit_single=False, omit_dims=[omit], value_name="value"),
                                      allow_missing=am, allow_extra=ae, via="from_df"))
                # several value columns that match no dimension: all filled, or all but one empty throughout
                for extra in ([["low", "copy"]], [["low", "nan"]], [["aux", "nan"], ["high", "other"]], [["aux", "nan"], ["empty", "nan"]]):
                    for via in ("from_df", "set_values_from_df"):
                        cases.append(dict(stream="faults", dims=ds, fault=f"value columns {[e[0] for e in extra]} beside 'value' ({[e[1] for e in extra]})",
                                          rows=[[r[0], str(r[1])] for r in rows],
                                          layout=dict(where="columns", wide=None, header="names", omit_single=False, value_name="value", extra_value_cols=extra),
                                          allow_missing=am, allow_extra=ae, via=via))
                if len(ds) >= 2:
                    w = len(ds) - 1
                    cases.append(dict(stream="faults", dims=ds, fault="a value column missing in the wide table", rows=[[r[0], str(r[1])] for r in rows if r[0][w] != ds[w]["items"][0]],
                                      layout=dict(where="columns", wide=w, header="names", omit_single=False, value_name="value", wide_items=ds[w]["items"][1:]),
                                      allow_missing=am, allow_extra=ae, via="from_df"))
                    r2 = [[list(r[0]), str(r[1])] for r in rows]
                    r2[0][0][w] = dd.unknown_item(ds[w], 3)
                    cases.append(dict(stream="faults", dims=ds, fault="an extra value column in the wide table", rows=r2 + [[rows[0][0], "9"]],
                                      layout=dict(where="columns", wide=w, header="names", omit_single=False, value_name="value"),
                                      allow_missing=am, allow_extra=ae, via="from_df"))
    # a table without the column of a dimension whose items are 0..n-1 and with exactly n rows: the rows' own numbering (the
    # default row labels 0..n-1) is not that column
    for names, w in ((["A"], None), (["A", "r"], 1), (["r", "A"], 0), (["A", "s"], None), (["A", "Z"], None)):
        ds = [DIMPOOL[x] for x in names]
        ia = names.index("A")
        nrows = int(np.prod([len(d["items"]) for d in ds]))
        rows = dd.full_rows(ds, [Fraction(2 * i + 1, 2) for i in range(nrows)])
        for am in (False, True):
            for ae in (False, True):
                for via in ("from_df", "set_values_from_df"):
                    cases.append(dict(stream="faults", dims=ds, fault="column of a (items 0..n-1) left out, n rows", rows=[[r[0], str(r[1])] for r in rows],
                                      layout=dict(where="columns", wide=w, header="names", omit_single=(w is None and len(ds) > 1), omit_dims=[ia], value_name="value"),
                                      allow_missing=am, allow_extra=ae, via=via))
    return cases


def run_impl(case):
    import flodym as fd
    ds = case["dims"]
    dims = fl_dims_t(ds)
    rows = [[r[0], None if r[1] is None else Fraction(r[1])] for r in case["rows"]]
    df, pipeline, om, um = dd.build_df(ds, rows, case["layout"])
    flags = dict(allow_missing_values=case["allow_missing"], allow_extra_values=case["allow_extra"])
    via = case["via"]
    target_after = None
    tmp = None
    try:
        if via == "from_df":
            r = observe(lambda: fd.FlodymArray.from_df(dims=dims, df=df, **flags))
        elif via == "set_values_from_df":
            tgt = fd.FlodymArray(dims=dims, values=np.full(dims.shape, 7.0))
            def do():
                tgt.set_values_from_df(df, **flags)
                return tgt
            r = observe(do)
            target_after = observe_values(tgt.values)
        else:
            tmp = tempfile.mkdtemp(prefix="flodym-verif-io-")
            # files hold plain tables: index levels (if any) are written as ordinary columns
            if case["layout"]["where"] == "index" and df.index.names[0] is not None:
                df = df.reset_index()
            use_index = False
            if via == "csv_reader":
                path = os.path.join(tmp, "p.csv")
                df.to_csv(path, index=use_index)
                reader = fd.CSVParameterReader(parameter_files={"p": path}, **flags)
            else:
                path = os.path.join(tmp, "p.xlsx")
                df.to_excel(path, index=use_index, sheet_name="data")
                reader = fd.ExcelParameterReader(parameter_files={"p": path}, parameter_sheets={"p": "data"}, **flags)
            r = observe(lambda: reader.read_parameter_values("p", dims))
    finally:
        if tmp:
            shutil.rmtree(tmp, ignore_errors=True)
    if r["kind"] == "ok":
        r["value"] = observe_values(r["value"].values)
    r["pipeline"] = [[p[0], None if p[1] is None else str(p[1])] for p in pipeline]
    r["om"], r["um"], r["target_after"] = om, um, target_after
    return r


def expected(case):
    """('err', why) or ('ok', {labels: value}) by the property statement, from the logical rows"""
    ds = case["dims"]
    lay = case["layout"]
    if any(len(ds[i]["items"]) > 1 for i in lay.get("omit_dims", [])):
        return "err", "a column is missing for a dimension with more than one item"
    if lay.get("extra_value_cols"):
        return "err", "several value columns that match no dimension"
    rows = [[list(r[0]), None if r[1] is None else Fraction(r[1])] for r in case["rows"]]
    w = lay.get("wide")
    if False:
        pass
    if w is not None:
        present = set(lay.get("wide_items", ds[w]["items"])) | {r[0][w] for r in rows}
        if present != set(ds[w]["items"]):
            return "err", "the value columns match no dimension"
    left_out = set(lay.get("omit_dims", []))
    if lay.get("omit_single"):
        left_out |= {i for i, d in enumerate(ds) if len(d["items"]) == 1 and i != w}
    for r in rows:   # a column that is not in the table cannot carry a wrong label: the single item is filled in
        for i in left_out:
            r[0][i] = ds[i]["items"][0]
    known = lambda r: all(l in d["items"] for l, d in zip(r[0], ds))
    if not case["allow_extra"] and not all(known(r) for r in rows):
        return "err", "an item unknown to the dimension"
    rows = [r for r in rows if known(r)]
    keys = [tuple(r[0]) for r in rows]
    if len(set(keys)) != len(keys):
        return "err", "a duplicated label combination"
    allk = [tuple(k) for k in dd.all_keys(ds)]
    have = {tuple(r[0]): r[1] for r in rows}
    if not case["allow_missing"]:
        if any(k not in have for k in allk):
            return "err", "a missing label combination"
        if any(v is None for v in have.values()):
            return "err", "an empty / NaN value"
    return "ok", {k: (have.get(k) if have.get(k) is not None else Fraction(0)) for k in allk}


def oracle(case, obs):
    st, exp = expected(case)
    desc = f"[{case['fault']}; {case['via']}; layout {case['layout']['where']}/{'wide' if case['layout'].get('wide') is not None else 'long'}; allow_missing={case['allow_missing']}, allow_extra={case['allow_extra']}; dims {[d['letter'] for d in case['dims']]}]"
    if st == "err":
        if obs["kind"] != "err":
            return f"accepted data with {exp} {desc}"
        if obs["target_after"] is not None and any(v != [7, 1] for v in obs["target_after"]):
            return f"a refused set_values_from_df left a partially filled array behind {desc}"
        return None
    if obs["kind"] == "err":
        return f"refused acceptable data ({obs['exc']}: {obs['msg'][-90:]}) {desc}"
    got = [None if v is None else Fraction(v[0], v[1]) for v in obs["value"]]
    for k, g in zip(dd.all_keys(case["dims"]), got):
        if g != exp[tuple(k)]:
            return f"entry {k} is {g}, expected {exp[tuple(k)]} {desc}"
    return None


def failure_key(case, obs, msg):
    return msg.split("[")[0][:40] + case["fault"].split("@")[0] + str(case["allow_extra"]) + str(case["allow_missing"])


def to_coq(case, obs):
    pipeline = [[p[0], None if p[1] is None else Fraction(p[1])] for p in obs["pipeline"]]
    old = dd.cq_import_case(case["dims"], pipeline, obs["om"], obs["um"], case["allow_missing"], case["allow_extra"], obs)
    if case["via"] not in ("from_df", "set_values_from_df") or obs.get("kind") not in ("ok", "err"):
        return old
    # the same call, judged by the model of the layout recognition on the table itself
    rows = [[r[0], None if r[1] is None else Fraction(r[1])] for r in case["rows"]]
    df = dd.build_df(case["dims"], rows, case["layout"])[0]
    return f"(CBoth {old} {dd.cq_detect_case(case['dims'], df, case['allow_missing'], case['allow_extra'], obs)})"


def nontrivial(case):
    return case["fault"] != "none"


SIGNATURES = {}
