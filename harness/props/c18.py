"""C18 — systems built from definitions and files match what was defined."""
from fractions import Fraction
import os
import shutil
import tempfile

import numpy as np
import pandas as pd

from arrays import CODES, NAMECODES, cq_dimset, observe_values
from common import cq_bool, cq_list, cq_nat, cq_opt, letter_code
import dfdrv as dd

ID = "C18"
THOROUGH_ROUNDS = 4      # rounds of generate() in the thorough tier (new random draws each round)
COQ_MODULE = "Corr.C18"
SHARD = 100
RULE = ("seeded random definitions: 1-4 dimensions (int / str items), process lists (sysenv first; faulty: sysenv missing or not "
        "first), 0-6 flow definitions over ordered dimension subsets with generated and overriding names and all three naming "
        "functions, 0-3 stock definitions (all classes, lifetime classes, both solvers, with and without process), 0-3 "
        "parameters; faulty definitions: undefined dimension letter, undefined process, missing / superfluous lifetime model, "
        "invalid solver, time not first; built directly (make_processes / make_empty_flows / make_empty_stocks), through a "
        "custom DataReader, and through from_csv / from_excel with real temporary CSV and Excel files (dimension files as one "
        "row or one column, with or without header, Excel with and without a sheet name; parameter files long / wide). "
        "Dimension files in isolation: every orientation x header x dtype x convertible or not. "
        "Non-trivial: >= 1 flow or stock definition, or a faulty definition, or a file.")
ASSUMPTIONS = [
    "flow and stock names are distinct (the property's premise); pandas' CSV / Excel parsing is runtime",
    "the documented naming functions are re-implemented in the harness and compared with flodym's",
]

LETTERS = "trme"
DIMS = {
    "t": dict(letter="t", name="time", items=[2000, 2001, 2002], dtype="int"),
    # (an item outside ASCII: the files are UTF-8, as pandas writes and reads them by default)
    "r": dict(letter="r", name="region", items=["EU", "Österreich"], dtype="str"),
    "m": dict(letter="m", name="material", items=["steel", "wood", "glass"], dtype="str"),
    "e": dict(letter="e", name="element", items=[6, 26], dtype="int"),
    "y": dict(letter="y", name="year", items=[1990, 2000, 2010, 2020], dtype="int"),
    # text items that look like numbers (codes with leading zeros); only in the dimension-file stream
    "c": dict(letter="c", name="code", items=["01", "02", "10"], dtype="str"),
}
CLASSES = ["SimpleFlowDrivenStock", "InflowDrivenDSM", "StockDrivenDSM", "OwnStockDriven", "OwnSolverStock"]
_OWN = {}


def stock_class(name):
    """the library's stock classes, and two classes of the user's own: a subclass of StockDrivenDSM, and a lifetime-based class
    that is not one but has a solver setting of its own (the definition's solver goes to every class that has the field)"""
    import flodym as fd
    if hasattr(fd, name):
        return getattr(fd, name)
    if not _OWN:
        class OwnStockDriven(fd.StockDrivenDSM):
            pass

        class OwnSolverStock(fd.InflowDrivenDSM):
            solver: str = "manual"
        _OWN.update(OwnStockDriven=OwnStockDriven, OwnSolverStock=OwnSolverStock)
    return _OWN[name]
LIFETIMES = ["FixedLifetime", "NormalLifetime", "LogNormalLifetime", "WeibullLifetime", "FoldedNormalLifetime"]
NAMINGS = ["arrow", "nospaces", "ids"]


def naming_ref(kind, a, b, ids):
    """the documented naming functions, written independently"""
    if kind == "arrow":
        return f"{a} => {b}"
    if kind == "nospaces":
        return a.replace(" ", "_") + "_to_" + b.replace(" ", "_")
    return f"F{ids[a]}_{ids[b]}"


def gen_definition(rng, k):
    nd = rng.randint(1, 4)
    tl = "y" if k % 3 == 1 else "t"          # the time dimension is not always lettered 't'
    letters = [tl] + rng.sample(["r", "m", "e"] + (["t"] if tl == "y" and k % 2 else []), nd - 1)
    procs = ["sysenv"] + [f"proc {i}" if i % 2 else f"p{i}" for i in range(1, rng.randint(1, 4) + 1)]
    flows = []
    for i in range(rng.randint(0, 6)):
        a, b = rng.choice(procs), rng.choice(procs)
        d = rng.sample(letters, rng.randint(1, len(letters)))
        flows.append(dict(frm=a, to=b, dims=d, override=(f"special flow {i}" if rng.random() < 0.3 else None)))
    if flows and rng.random() < 0.4:
        # parallel flows: the same source, target and dimensions as an earlier definition, told apart by the overriding name only
        f0 = flows[rng.randrange(len(flows))]
        flows.append(dict(f0, override=f"parallel flow {len(flows)}"))
        if rng.random() < 0.5:
            flows.append(dict(f0, override=f"third flow {len(flows)}"))
    stocks = []
    for i in range(rng.randint(0, 3)):
        cls = rng.choice([0, 1, 2, 0, 1, 2, 2, 3, 4])
        d = [tl] + rng.sample([l for l in letters if l != tl], rng.randint(0, len(letters) - 1))
        stocks.append(dict(name=f"stock {i}", process=(rng.choice(procs[1:]) if len(procs) > 1 and rng.random() < 0.8 else None),
                           dims=d, time=tl, cls=cls, lifetime=(rng.choice(LIFETIMES) if cls else None),
                           solver=rng.choice(["manual", "lapack"])))
    if stocks and rng.random() < 0.4:
        # a second stock of the same class, lifetime model, dimensions and time letter: still a stock of its own
        stocks.append(dict(stocks[rng.randrange(len(stocks))], name="stock twin"))
    params = []
    for i in range(rng.randint(0, 3)):
        params.append(dict(name=f"par{i}", dims=rng.sample(letters, rng.randint(1, len(letters)))))
    return dict(letters=letters, procs=procs, flows=flows, stocks=stocks, params=params, naming=NAMINGS[k % 3])


def inject_fault(rng, d, kind):
    d = dict(d, flows=[dict(f) for f in d["flows"]], stocks=[dict(s) for s in d["stocks"]], procs=list(d["procs"]))
    if kind == "undefined dim" :
        tgt = d["flows"] or d["stocks"] or d["params"]
        if not tgt:
            d["flows"].append(dict(frm="sysenv", to="sysenv", dims=["z"], override=None))
        else:
            x = dict(tgt[0]); x["dims"] = list(x["dims"]) + ["z"]
            if tgt is d["flows"]: d["flows"][0] = x
            elif tgt is d["stocks"]: d["stocks"][0] = x
            else: d["params"] = [x] + d["params"][1:]
    elif kind == "undefined process":
        d["flows"].append(dict(frm="sysenv", to="nowhere", dims=[d["letters"][0]], override=None))
    elif kind == "undefined stock process":
        d["stocks"].append(dict(name="lost stock", process="nowhere", dims=[d["letters"][0]], time=d["letters"][0], cls=0, lifetime=None, solver="manual"))
    elif kind == "missing lifetime":
        d["stocks"].append(dict(name="dsm without lifetime", process=None, dims=[d["letters"][0]], time=d["letters"][0], cls=1, lifetime=None, solver="manual"))
    elif kind == "superfluous lifetime":
        d["stocks"].append(dict(name="simple with lifetime", process=None, dims=[d["letters"][0]], time=d["letters"][0], cls=0, lifetime="FixedLifetime", solver="manual"))
    elif kind == "bad solver":
        d["stocks"].append(dict(name="odd solver", process=None, dims=[d["letters"][0]], time=d["letters"][0], cls=2, lifetime="FixedLifetime", solver="magic"))
    elif kind == "time not first":
        tl = d["letters"][0]
        other = [l for l in d["letters"] if l != tl]
        if not other:
            return None
        d["stocks"].append(dict(name="time second", process=None, dims=[other[0], tl], time=tl, cls=rng.randrange(3), lifetime=None, solver="manual"))
        if d["stocks"][-1]["cls"]:
            d["stocks"][-1]["lifetime"] = "FixedLifetime"
    elif kind == "sysenv not first":
        if len(d["procs"]) < 2:
            return None
        d["procs"] = d["procs"][1:] + ["sysenv"]
        d["flows"], d["stocks"] = [], [dict(s, process=None) for s in d["stocks"]]
    elif kind == "almost sysenv":
        # a first process whose name merely resembles the system environment's (part of it, another case, a blank), in place of it
        # or in front of it
        near = rng.choice(["env", "sys", "sysen", "s", "", "Sysenv", "SYSENV", "sysenv ", " sysenv", "sysenv2", "ysenv"])
        d["procs"] = [near] + (d["procs"][1:] if rng.random() < 0.5 else d["procs"])
        d["flows"], d["stocks"] = [], [dict(s, process=None) for s in d["stocks"]]
    elif kind == "no sysenv":
        d["procs"] = [p for p in d["procs"] if p != "sysenv"] or ["only"]
        d["flows"], d["stocks"] = [], [dict(s, process=None) for s in d["stocks"]]
    return d


FAULTS = ["undefined dim", "undefined process", "undefined stock process", "missing lifetime", "superfluous lifetime", "bad solver",
          "time not first", "sysenv not first", "no sysenv", "almost sysenv"]


def generate(tier, rng):
    cases = []
    n = 60 if tier == "quick" else 500
    for k in range(n):
        d = gen_definition(rng, k)
        via = ["direct", "reader", "csv", "excel", "direct", "csv"][k % 6]
        d = dict(d, spell=(k // 2) % 2)     # definitions written with the field names instead of their aliases
        if via == "direct" and k % 4 < 2:
            d["prebuild"] = NAMINGS[(NAMINGS.index(d["naming"]) + 1 + k % 2) % 3]
        cases.append(dict(stream="valid", kind="build", defn=d, via=via, fault=None, sheet=(k % 2 == 0), orient=["row", "col"][k % 2], header=(k % 3 == 0)))
        f = FAULTS[k % len(FAULTS)]
        fd = inject_fault(rng, d, f)
        if fd is not None:
            cases.append(dict(stream="faulty", kind="build", defn=fd, via=["direct", "reader"][k % 2], fault=f, sheet=False, orient="row", header=False))
    # dimension files in isolation
    for l, dm in DIMS.items():
        for orient in ("row", "col", "block"):
            for header in (False, True):
                for fmt in ("csv", "excel", "excel-sheet"):
                    for bad in (False, True):
                        if bad and dm["dtype"] != "int":
                            continue
                        cases.append(dict(stream="files", kind="dimfile", dim=dm, orient=orient, header=header, fmt=fmt, bad=bad))
    # one reader object used again after the file was rewritten under the same path (a next scenario): the items are those the
    # file holds now
    for l, dm in DIMS.items():
        for fmt in ("csv", "excel"):
            cases.append(dict(stream="files", coq=False, kind="dimfile_reuse", dim=dm, orient=["row", "col"][len(cases) % 2], header=(len(cases) % 3 == 0), fmt=fmt))
    # whole numbers beyond 2^53 (serial numbers, identifiers): text files hold them exactly, and so must the items read from them
    big = dict(letter="i", name="serial", items=[9007199254740993, 5, 1700000000000000001, -9007199254740995], dtype="int")
    for orient in ("row", "col"):
        for header in (False, True):
            cases.append(dict(stream="files", kind="dimfile", dim=big, orient=orient, header=header, fmt="csv", bad=False))
    return cases


def _write_dim_file(tmp, dm, orient, header, fmt, bad=False, tag=""):
    items = list(dm["items"])
    if bad:
        items[1] = "not-a-number"
    cells = ([dm["name"]] if header else []) + items
    if orient == "row":
        arr = [cells]
    elif orient == "col":
        arr = [[c] for c in cells]
    else:
        arr = [cells, cells]
    df = pd.DataFrame(arr)
    if fmt == "csv":
        path = os.path.join(tmp, f"dim_{dm['letter']}{tag}.csv")
        df.to_csv(path, header=False, index=False)
        return path, None, arr
    path = os.path.join(tmp, f"dim_{dm['letter']}{tag}.xlsx")
    sheet = "items" if fmt == "excel-sheet" else None
    with pd.ExcelWriter(path) as w:
        df.to_excel(w, header=False, index=False, sheet_name=sheet or "Sheet1")
        if sheet is None:
            pd.DataFrame([["decoy", "second", "sheet"]]).to_excel(w, header=False, index=False, sheet_name="zzz other")
    return path, sheet, arr


def _mk_definition(d):
    import flodym as fd
    dt = {"int": int, "str": str}
    spell = d.get("spell", 0)     # 0: the aliases of the examples (process=, from_process=, letter=); 1: the field names
    LK, FK, TK, PK = [("letter", "from_process", "to_process", "process"), ("dim_letter", "from_process_name", "to_process_name", "process_name")][spell]
    dimdefs = [fd.DimensionDefinition(**{"name": DIMS[l]["name"], LK: l, "dtype": dt[DIMS[l]["dtype"]]}) for l in d["letters"]]
    flows = [fd.FlowDefinition(**{FK: f["frm"], TK: f["to"], "dim_letters": tuple(f["dims"]), "name_override": f["override"]}) for f in d["flows"]]
    stocks = []
    for s in d["stocks"]:
        kw = {"name": s["name"], PK: s["process"], "dim_letters": tuple(s["dims"]), "time_letter": s["time"], "subclass": stock_class(CLASSES[s["cls"]]), "solver": s["solver"]}
        if s["lifetime"]:
            kw["lifetime_model_class"] = getattr(fd, s["lifetime"])
        stocks.append(fd.StockDefinition(**kw))
    params = [fd.ParameterDefinition(name=p["name"], dim_letters=tuple(p["dims"])) for p in d["params"]]
    return fd.MFADefinition(dimensions=dimdefs, processes=list(d["procs"]), flows=flows, stocks=stocks, parameters=params)


def _param_values(d, p):
    n = int(np.prod([len(DIMS[l]["items"]) for l in p["dims"]]))
    return [Fraction(3 * i + 1, 2) for i in range(n)]


def _observe_system(mfa_like):
    procs, flows, stocks, params = mfa_like
    out = dict(procs=[[p.name, p.id] for p in procs.values()],
               flows=[dict(key=k, name=f.name, frm=f.from_process.name, to=f.to_process.name,
                           dims=[dict(letter=x.letter, name=x.name, items=list(x.items)) for x in f.dims],
                           zero=bool(np.all(f.values == 0)), shape=list(f.values.shape)) for k, f in flows.items()],
               stocks=[dict(key=k, name=s.name, process=(s.process.name if s.process else None),
                            dims=[dict(letter=x.letter, name=x.name, items=list(x.items)) for x in s.dims], time=s.time_letter,
                            cls=type(s).__name__, lifetime=(type(s.lifetime_model).__name__ if hasattr(s, "lifetime_model") else None),
                            lt_time=(s.lifetime_model.time_letter if hasattr(s, "lifetime_model") else None),
                            lt_dims=([x.letter for x in s.lifetime_model.dims] if hasattr(s, "lifetime_model") else None),
                            solver=getattr(s, "solver", None),
                            # objects this stock shares with a stock listed before it (lifetime model, value buffers)
                            shares=[k2 for k2, s2 in list(stocks.items())[: list(stocks).index(k)]
                                    if (hasattr(s, "lifetime_model") and hasattr(s2, "lifetime_model") and s.lifetime_model is s2.lifetime_model)
                                    or any(np.shares_memory(getattr(s, q).values, getattr(s2, q2).values) for q in ("stock", "inflow", "outflow") for q2 in ("stock", "inflow", "outflow"))],
                            zero=bool(np.all(s.stock.values == 0) and np.all(s.inflow.values == 0) and np.all(s.outflow.values == 0)))
                       for k, s in stocks.items()],
               params={k: dict(dims=[x.letter for x in p.dims], values=observe_values(p.values)) for k, p in (params or {}).items()})
    return out


def run_impl(case):
    import flodym as fd
    import flodym.flow_naming as fn
    if case["kind"] == "dimfile_reuse":
        tmp = tempfile.mkdtemp(prefix="flodym-verif-io-")
        try:
            dm = case["dim"]
            later = dict(dm, items=list(reversed(dm["items"]))[:-1] if len(dm["items"]) > 2 else list(reversed(dm["items"])))
            ddef = fd.DimensionDefinition(name=dm["name"], letter=dm["letter"], dtype={"int": int, "str": str}[dm["dtype"]])
            path, sheet, _ = _write_dim_file(tmp, dm, case["orient"], case["header"], case["fmt"])
            reader = (fd.CSVDimensionReader({dm["name"]: path}) if case["fmt"] == "csv" else fd.ExcelDimensionReader({dm["name"]: path}))
            try:
                first = list(reader.read_dimension(ddef).items)
                path2, _, _ = _write_dim_file(tmp, later, case["orient"], case["header"], case["fmt"])
                assert path2 == path
                second = list(reader.read_dimension(ddef).items)
                return dict(kind="ok", first=first, second=second, want=[list(dm["items"]), list(later["items"])])
            except Exception as e:  # noqa
                return dict(kind="err", exc=type(e).__name__, msg=str(e)[:150])
        finally:
            shutil.rmtree(tmp, ignore_errors=True)
    if case["kind"] == "dimfile":
        tmp = tempfile.mkdtemp(prefix="flodym-verif-io-")
        try:
            dm = case["dim"]
            path, sheet, arr = _write_dim_file(tmp, dm, case["orient"], case["header"], case["fmt"].split("-")[0] if case["fmt"] != "excel-sheet" else "excel-sheet", case["bad"])
            ddef = fd.DimensionDefinition(name=dm["name"], letter=dm["letter"], dtype={"int": int, "str": str}[dm["dtype"]])
            try:
                if case["fmt"] == "csv":
                    dim = fd.CSVDimensionReader({dm["name"]: path}).read_dimension(ddef)
                else:
                    dim = fd.ExcelDimensionReader({dm["name"]: path}, dimension_sheets=({dm["name"]: sheet} if sheet else None)).read_dimension(ddef)
                return dict(kind="ok", items=list(dim.items), types=[type(i).__name__ for i in dim.items], arr=arr)
            except Exception as e:  # noqa
                return dict(kind="err", exc=type(e).__name__, msg=str(e)[:150], arr=arr)
        finally:
            shutil.rmtree(tmp, ignore_errors=True)
    d = case["defn"]
    tmp = tempfile.mkdtemp(prefix="flodym-verif-io-")
    try:
        try:
            defn = _mk_definition(d)
        except Exception as e:  # noqa
            return dict(kind="err", stage="definition", exc=type(e).__name__, msg=str(e)[:150])
        try:
            if case["via"] == "direct":
                dims = dd.fl_dims_t([DIMS[l] for l in d["letters"]])
                procs = fd.make_processes(defn.processes)
                naming = dict(arrow=fn.process_names_with_arrow, nospaces=fn.process_names_no_spaces, ids=fn.process_ids)[d["naming"]]
                if d.get("prebuild"):
                    # the same definition objects were already used for another build with another naming function
                    other = dict(arrow=fn.process_names_with_arrow, nospaces=fn.process_names_no_spaces, ids=fn.process_ids)[d["prebuild"]]
                    fd.make_empty_flows(processes=procs, flow_definitions=defn.flows, dims=dims, naming=other)
                    fd.make_empty_stocks(defn.stocks, processes=procs, dims=dims)
                flows = fd.make_empty_flows(processes=procs, flow_definitions=defn.flows, dims=dims, naming=naming)
                stocks = fd.make_empty_stocks(defn.stocks, processes=procs, dims=dims)
                return dict(kind="ok", value=_observe_system((procs, flows, stocks, None)))
            if case["via"] == "reader":
                class R(fd.DataReader):
                    def read_dimension(self, dd_):
                        return dd.fl_dim_t(DIMS[dd_.letter])
                    def read_parameter_values(self, parameter_name, dims):
                        p = next(x for x in d["params"] if x["name"] == parameter_name)
                        return fd.Parameter(dims=dims, values=np.array([float(v) for v in _param_values(d, p)]).reshape(dims.shape), name=parameter_name)
                mfa = fd.MFASystem.from_data_reader(defn, R())
            else:
                fmt = case["via"]
                dim_files, par_files, dsheets, psheets = {}, {}, {}, {}
                for l in d["letters"]:
                    path, sheet, _ = _write_dim_file(tmp, DIMS[l], case["orient"], case["header"], "csv" if fmt == "csv" else ("excel-sheet" if case["sheet"] else "excel"))
                    dim_files[DIMS[l]["name"]] = path
                    dsheets[DIMS[l]["name"]] = sheet
                for p in d["params"]:
                    ds = [DIMS[l] for l in p["dims"]]
                    rows = dd.full_rows(ds, _param_values(d, p))
                    df, _, _, _ = dd.build_df(ds, rows, dict(where="columns", wide=None, header="names", omit_single=False, value_name="value"))
                    if fmt == "csv":
                        path = os.path.join(tmp, p["name"] + ".csv")
                        df.to_csv(path, index=False)
                    else:
                        path = os.path.join(tmp, p["name"] + ".xlsx")
                        with pd.ExcelWriter(path) as w:
                            df.to_excel(w, index=False, sheet_name=("data" if case["sheet"] else "Sheet1"))
                            if not case["sheet"]:
                                pd.DataFrame([["decoy"]]).to_excel(w, index=False, header=False, sheet_name="zzz other")
                        psheets[p["name"]] = "data" if case["sheet"] else None
                    par_files[p["name"]] = path
                if fmt == "csv":
                    mfa = fd.MFASystem.from_csv(defn, dim_files, par_files)
                else:
                    mfa = fd.MFASystem.from_excel(defn, dim_files, par_files, dimension_sheets=(dsheets if case["sheet"] else None),
                                                  parameter_sheets=(psheets if case["sheet"] else None))
            return dict(kind="ok", value=_observe_system((mfa.processes, mfa.flows, mfa.stocks, mfa.parameters)))
        except Exception as e:  # noqa
            return dict(kind="err", stage="build", exc=type(e).__name__, msg=str(e)[:200])
    finally:
        shutil.rmtree(tmp, ignore_errors=True)


def oracle(case, obs):
    if case["kind"] == "dimfile_reuse":
        if obs["kind"] == "err":
            return f"dimension file read twice through one reader ({case['fmt']}): {obs['exc']}: {obs['msg'][:80]}"
        if [obs["first"], obs["second"]] != obs["want"]:
            return f"one {case['fmt']} reader used again after the file was rewritten: items {obs['first']} then {obs['second']}, the file held {obs['want'][0]} then {obs['want'][1]}"
        return None
    if case["kind"] == "dimfile":
        dm = case["dim"]
        if case["orient"] == "block" or case["bad"]:
            return None if obs["kind"] == "err" else f"dimension file with {'several rows and columns' if case['orient']=='block' else 'an unconvertible item'} accepted"
        desc = f"dimension file {case['fmt']} {case['orient']} header={case['header']} dtype={dm['dtype']}"
        if obs["kind"] == "err":
            return f"{desc}: refused ({obs['exc']}: {obs['msg'][:80]})"
        if obs["items"] != dm["items"] or any(t != dm["dtype"] for t in obs["types"]):
            return f"{desc}: items {obs['items']} ({obs['types'][:2]}) instead of {dm['items']}"
        return None
    d = case["defn"]
    if case["fault"]:
        return None if obs["kind"] == "err" else f"definition with fault '{case['fault']}' was accepted"
    desc = f"[via {case['via']}{' sheet' if case['sheet'] else ''} {case['orient']}{' header' if case['header'] else ''}]"
    if obs["kind"] == "err":
        return f"valid definition refused at {obs['stage']} ({obs['exc']}: {obs['msg'][:120]}) {desc}"
    v = obs["value"]
    if v["procs"] != [[p, i] for i, p in enumerate(d["procs"])]:
        return f"processes {v['procs']} not numbered in the listed order {desc}"
    ids = {p: i for i, p in enumerate(d["procs"])}
    kind = d["naming"] if case["via"] == "direct" else "arrow"
    exp_names = [f["override"] or naming_ref(kind, f["frm"], f["to"], ids) for f in d["flows"]]
    if len(set(exp_names)) == len(exp_names):
        if [f["name"] for f in v["flows"]] != exp_names or any(f["key"] != f["name"] for f in v["flows"]):
            return f"flow names {[f['name'] for f in v['flows']]} != {exp_names} {desc}"
        for f, fd_ in zip(v["flows"], d["flows"]):
            if (f["frm"], f["to"]) != (fd_["frm"], fd_["to"]):
                return f"flow {f['name']} runs {f['frm']} -> {f['to']} instead of {fd_['frm']} -> {fd_['to']} {desc}"
            want = [dict(letter=l, name=DIMS[l]["name"], items=DIMS[l]["items"]) for l in fd_["dims"]]
            if f["dims"] != want or not f["zero"] or f["shape"] != [len(DIMS[l]["items"]) for l in fd_["dims"]]:
                return f"flow {f['name']}: dims/values differ from the definition {fd_['dims']} {desc}"
    if len({s["name"] for s in d["stocks"]}) == len(d["stocks"]):
        if [s["name"] for s in v["stocks"]] != [s["name"] for s in d["stocks"]]:
            return f"stocks {[s['name'] for s in v['stocks']]} != definitions {desc}"
        for s, sd in zip(v["stocks"], d["stocks"]):
            want = [dict(letter=l, name=DIMS[l]["name"], items=DIMS[l]["items"]) for l in sd["dims"]]
            if s["cls"] != CLASSES[sd["cls"]] or s["lifetime"] != sd["lifetime"] or s["process"] != sd["process"] or s["time"] != sd["time"] or s["dims"] != want or not s["zero"]:
                return f"stock {s['name']} differs from its definition (class/lifetime/process/time/dims) {desc}"
            if sd["cls"] and (s["lt_time"] != sd["time"] or s["lt_dims"] != sd["dims"]):
                return f"stock {s['name']}: its lifetime model has time letter {s['lt_time']!r} / dims {s['lt_dims']} instead of {sd['time']!r} / {sd['dims']} {desc}"
            if s.get("shares"):
                return f"stock {s['name']} shares its lifetime model or its arrays with stock {s['shares'][0]} (one stock per definition) {desc}"
            if sd["cls"] >= 2 and s["solver"] != sd["solver"]:
                return f"stock {s['name']}: solver {s['solver']!r} instead of the requested {sd['solver']!r} {desc}"
    if case["via"] != "direct":
        for p in d["params"]:
            got = v["params"].get(p["name"])
            if got is None or got["dims"] != p["dims"]:
                return f"parameter {p['name']} missing or over other dimensions {desc}"
            if [Fraction(x[0], x[1]) for x in got["values"]] != _param_values(d, p):
                return f"parameter {p['name']}: values differ from the file {desc}"
    return None


def failure_key(case, obs, msg):
    return msg.split("[")[0][:45]


SOLVER = {"manual": 0, "lapack": 1}


def to_coq(case, obs):
    if case["kind"] == "dimfile":
        dm = case["dim"]
        arr = obs["arr"]
        rows, cols = len(arr), len(arr[0])
        cells = [c for r in arr for c in r]
        conv = []
        codes = []
        for c in cells:
            if c == dm["name"]:
                codes.append(NAMECODES(dm["name"])); conv.append(True)
            else:
                ok = True
                v = c
                if dm["dtype"] == "int":
                    try:
                        v = int(c)
                    except Exception:
                        ok = False
                codes.append(CODES(v) + 1000); conv.append(ok)
        exp = "Err" if obs["kind"] == "err" else "(Ok " + cq_list([cq_nat(CODES(i) + 1000) for i in obs["items"]]) + ")"
        return f"(CDimFile {cq_nat(rows)} {cq_nat(cols)} {cq_list([cq_nat(c) for c in codes])} {cq_list([cq_bool(b) for b in conv])} {cq_nat(NAMECODES(dm['name']))} {exp})"
    d = case["defn"]
    P = lambda n: cq_nat(CODES("proc:" + n))
    N = lambda n: cq_nat(CODES("name:" + n))
    ids = {p: i for i, p in enumerate(d["procs"])}
    kind = d["naming"] if case["via"] == "direct" else "arrow"
    dims = cq_dimset([dict(letter=l, name=DIMS[l]["name"], items=DIMS[l]["items"]) for l in d["letters"]])
    tab = cq_list([f"({P(a)}, {P(b)}, {N(naming_ref(kind, a, b, ids))})" for a in d["procs"] for b in d["procs"]])
    L = lambda ls: cq_list([cq_nat(letter_code(l)) for l in ls])
    flows = cq_list([f"(mk_flowdef {P(f['frm'])} {P(f['to'])} {L(f['dims'])} {cq_opt(None if f['override'] is None else N(f['override']))})" for f in d["flows"]])
    stocks = cq_list([f"(mk_stockdef {N(s['name'])} {cq_opt(None if s['process'] is None else P(s['process']))} {L(s['dims'])} {cq_nat(letter_code(s['time']))} "
                      f"{cq_nat(s['cls'])} {cq_opt(None if s['lifetime'] is None else cq_nat(CODES('lt:' + s['lifetime'])))} {cq_nat(SOLVER.get(s['solver'], 7))})" for s in d["stocks"]])
    params = cq_list([f"({N(p['name'])}, {L(p['dims'])})" for p in d["params"]])
    if obs["kind"] == "err":
        exp = "Err"
    else:
        v = obs["value"]
        pr = cq_list([f"({P(n)}, {cq_nat(i)})" for n, i in v["procs"]])
        fl = cq_list([f"(mk_flowobj {N(f['name'])} {P(f['frm'])} {P(f['to'])} {cq_dimset(f['dims'])})" for f in v["flows"]])
        st = cq_list([f"(mk_stockobj {N(s['name'])} {cq_opt(None if s['process'] is None else P(s['process']))} {cq_dimset(s['dims'])} {cq_nat(letter_code(s['time']))} "
                      f"{cq_nat(CLASSES.index(s['cls']))} {cq_opt(None if s['lifetime'] is None else cq_nat(CODES('lt:' + s['lifetime'])))} "
                      f"{cq_opt(None if s['solver'] is None else cq_nat(SOLVER[s['solver']]))})" for s in v["stocks"]])
        exp = f"(Ok (mk_sysobs {pr} {fl} {st}))"
    return f"(CBuild {P('sysenv')} {dims} {tab} {cq_list([P(p) for p in d['procs']])} {flows} {stocks} {params} {exp})"


def nontrivial(case):
    return case["kind"] in ("dimfile", "dimfile_reuse") or bool(case.get("fault")) or bool(case["defn"]["flows"] or case["defn"]["stocks"])


SIGNATURES = {}
