"""C20 — Sankey and line plots show the system's numbers under the right labels."""
from fractions import Fraction
import itertools

import numpy as np

from arrays import (CODES, Lab, build_array, cq_dimset, cq_farr, fl_dim, fl_dimset, mk_universe, nelem, observe_values,
                    ordered_subsets)
from common import cq_bool, cq_list, cq_nat, cq_opt, cq_Q, letter_code
import props.c02 as c02

ID = "C20"
THOROUGH_ROUNDS = 4      # rounds of generate() in the thorough tier (new random draws each round)
COQ_MODULE = "Corr.C20"
SHARD = 80
RULE = ("Sankey: seeded random systems (graphs of C02, flows over ordered dimension subsets, non-integral values) x slice "
        "dictionaries over 0-2 dimensions x exclusion lists of processes and flows x colour settings (plain colour, or split by "
        "a dimension the flow has and that is not sliced away); the figure's link sources / targets / values / labels and node "
        "labels are compared with the model and judged by the oracle. Line plots: all 1-3 dimensional arrays with EVERY "
        "assignment of their dimensions to the x / subplot / line roles, given by name or by letter, with and without a supplied "
        "x array over a subset of the dimensions, through the plotly and the pyplot plotter; every trace's x and y data compared. "
        "Non-trivial: a slice, an exclusion or a split (Sankey); >= 2 dimensions (plots).")
ASSUMPTIONS = ["rendering (plotly / matplotlib) is runtime: only the data handed to the figure is compared",
               "a split-by dimension that is at the same time sliced to one item is outside (the split needs the dimension)"]


def generate(tier, rng):
    cases = []
    n = 50 if tier == "quick" else 400
    for k in range(n):
        base = c02.gen_system(rng, k, falsy=(k % 3 == 1))     # every third system has the items 0 and "" in its dimensions
        uni = base["uni"]
        flows = []
        for i, f in enumerate(base["flows"]):
            vals = [str(Fraction(v) + Fraction((i + 2 * j) % 4, 4)) for j, v in enumerate(f["arr"]["values"])]
            flows.append(dict(name=f"{f['frm']} => {f['to']}" + (f" ({i})" if any(g["frm"] == f["frm"] and g["to"] == f["to"] for g in base["flows"][:i]) else ""),
                              frm=f["frm"], to=f["to"], arr=dict(dims=f["arr"]["dims"], values=vals)))
        slice_dict = {}
        for l in rng.sample(list(uni), rng.choice([0, 0, 1, 1, 2])):
            slice_dict[l] = rng.choice(uni[l]["items"]) if k % 3 != 1 or rng.random() < 0.4 else uni[l]["items"][0]
        exclp = ["sysenv"] if k % 3 else []
        if k % 5 == 0 and len(base["procs"]) > 2:
            exclp.append(base["procs"][-1])
        exclf = [flows[rng.randrange(len(flows))]["name"]] if flows and k % 4 == 0 else []
        split = {}
        for f in flows:
            cand = [l for l in f["arr"]["dims"] if l not in slice_dict]
            if cand and rng.random() < 0.4:
                split[f["name"]] = rng.choice(cand)
        cases.append(dict(stream="sankey", kind="sankey", sys=dict(uni=uni, procs=base["procs"], flows=flows, stocks=[]),
                          slice=slice_dict, exclp=exclp, exclf=exclf, split=split, by_name=(k % 2 == 0), reuse=(k % 4 == 3)))
    # line plots
    uni = mk_universe((3, 2, 2), "tab", int_dims=("t",))
    k = 0
    for dims in [d for d in ordered_subsets(list(uni)) if d]:
        nv = nelem(uni, dims)
        vals = [str(Fraction(3 * i + 1, 2) * (-1) ** (i % 3 == 2)) for i in range(nv)]
        for roles in itertools.permutations(dims):
            x = roles[0]
            sub = roles[1] if len(roles) > 1 else None
            line = roles[2] if len(roles) > 2 else None
            for swap in (False, True):
                if swap and len(roles) == 2:
                    sub, line = None, roles[1]
                elif swap:
                    continue
                for xsel in (None, "sub", "full"):
                    xdims = None if xsel is None else ([x] if xsel == "sub" else list(dims[::-1]))
                    for plotter in ("plotly", "pyplot"):
                        k += 1
                        if tier == "quick" and k % 2 and len(dims) == 3:
                            continue
                        cases.append(dict(stream="plots", kind="plot", uni=uni, arr=dict(dims=dims, values=vals), x=x, sub=sub, line=line,
                                          xdims=xdims, plotter=plotter, by_name=(k % 3 == 0)))
                        # the other chart types carry the same data (markers; areas filled down to the previous line)
                        if (k // 2) % 3 and (plotter == "plotly" or xdims is not None or all(isinstance(i, (int, float)) for i in uni[x]["items"])):
                            cases.append(dict(cases[-1], chart=["scatter", "area"][(k // 2) % 3 - 1]))
                        # display names that give several items the same text (two variants shown as one product group), or give one
                        # item the text of another: the lines drawn are still one per item, with that item's numbers
                        if line and (k // 3) % 2:
                            cases.append(dict(stream="plots", kind="plot", uni=uni, arr=dict(dims=dims, values=vals), x=x, sub=sub, line=line,
                                              xdims=xdims, plotter=plotter, by_name=(k % 3 == 0), display=["merge", "swap"][(k // 6) % 2]))
    return cases


def run_impl(case):
    import flodym as fd
    import flodym.export as fe
    if case["kind"] == "sankey":
        mfa = c02.build_system(case["sys"])
        uni = case["sys"]["uni"]
        colors = {"default": "gray"}
        for n, l in case["split"].items():
            colors[n] = (uni[l]["name"] if case["by_name"] else l, ["red", "green", "blue", "black"])
        try:
            if case.get("reuse"):
                # one plotter used twice: first showing everything without a slice, then with the case's exclusions and slice
                # (exclusions are only ADDED: colours are assigned at construction to what is shown then)
                pl = fe.PlotlySankeyPlotter(mfa=mfa, slice_dict={}, exclude_processes=[], exclude_flows=[], flow_color_dict=colors)
                pl.plot()
                pl.slice_dict = dict(case["slice"])
                pl.exclude_processes = list(case["exclp"])
                pl.exclude_flows = list(case["exclf"])
            else:
                pl = fe.PlotlySankeyPlotter(mfa=mfa, slice_dict=dict(case["slice"]), exclude_processes=list(case["exclp"]),
                                            exclude_flows=list(case["exclf"]), flow_color_dict=colors)
            fig = pl.plot()
            d = fig.data[0]
            return dict(kind="ok", source=list(d.link.source), target=list(d.link.target), value=observe_values(np.array(d.link.value, dtype=float)),
                        label=[str(x) for x in d.link.label], nodes=[str(x) for x in d.node.label])
        except Exception as e:  # noqa
            return dict(kind="err", exc=type(e).__name__, msg=str(e)[:150])
    uni = case["uni"]
    a = build_array(uni, case["arr"])
    key = (lambda l: uni[l]["name"]) if case["by_name"] else (lambda l: l)
    kw = dict(array=a, intra_line_dim=key(case["x"]))
    if case["sub"]:
        kw["subplot_dim"] = key(case["sub"])
    if case["line"]:
        kw["linecolor_dim"] = key(case["line"])
    if case["xdims"] is not None:
        n = nelem(uni, case["xdims"])
        kw["x_array"] = build_array(uni, dict(dims=case["xdims"], values=[100 + 7 * i for i in range(n)]))
    numeric_x = case["xdims"] is not None or all(isinstance(i, (int, float)) for i in uni[case["x"]]["items"])
    chart = case.get("chart", "line")
    if chart != "line":
        kw["chart_type"] = chart
    if case.get("display"):
        li = uni[case["line"]]["items"]
        kw["display_names"] = ({i: "one group" for i in li} if case["display"] == "merge" or len(li) < 2 else {li[0]: li[1]})

    def xs(v):
        # categorical x (string items): recorded as the item codes of the dimension
        if numeric_x:
            return observe_values(np.array(v, dtype=float))
        items = [str(i) for i in uni[case["x"]]["items"]]
        return [[items.index(str(t)), 1] if str(t) in items else None for t in list(v)]
    try:
        if case["plotter"] == "plotly":
            fig = fe.PlotlyArrayPlotter(**kw).plot()
            traces = [dict(x=xs(t.x), y=observe_values(np.array(t.y, dtype=float)), name=str(t.name)) for t in fig.data]
        else:
            import matplotlib.pyplot as plt
            fig = fe.PyplotArrayPlotter(**kw).plot()
            traces = []
            for ax in fig.axes:
                ticks = [t.get_text() for t in ax.get_xticklabels()] if not numeric_x else None
                npts = len(uni[case["x"]]["items"])
                if chart != "line" and numeric_x:
                    # markers: the offsets of each collection; areas: the upper boundary of each polygon (vertices 1..n of
                    # fill_between's path: lower start point, the n upper points, then the lower boundary backwards)
                    for coll in ax.collections:
                        pts = np.asarray(coll.get_offsets()) if chart == "scatter" else np.asarray(coll.get_paths()[0].vertices)[1:npts + 1]
                        traces.append(dict(x=xs(pts[:, 0]), y=observe_values(np.array(pts[:, 1], dtype=float)), name=str(coll.get_label())))
                    continue
                if chart != "line":
                    continue
                for ln in ax.lines:
                    xd = ln.get_xdata()
                    if not numeric_x:   # matplotlib maps categories to 0..n-1 in order of appearance; read the labels back
                        units = ax.xaxis.units._mapping if ax.xaxis.units is not None else {}
                        inv = {v: k for k, v in units.items()}
                        xd = [inv.get(int(v), str(v)) if not isinstance(v, str) else v for v in xd]
                    traces.append(dict(x=xs(xd), y=observe_values(np.array(ln.get_ydata(), dtype=float)), name=str(ln.get_label())))
            plt.close(fig)
        return dict(kind="ok", traces=traces)
    except Exception as e:  # noqa
        return dict(kind="err", exc=type(e).__name__, msg=str(e)[:150])


def _expected_links(case):
    s = case["sys"]
    uni = s["uni"]
    shown = [p for p in s["procs"] if p not in case["exclp"]]
    out = []
    for f in s["flows"]:
        if f["name"] in case["exclf"] or f["frm"] in case["exclp"] or f["to"] in case["exclp"]:
            continue
        lab = Lab.from_desc(uni, f["arr"])
        sel = {l: it for l, it in case["slice"].items() if l in lab.letters}
        def total(extra):
            t = Fraction(0)
            for L in lab.labels():
                if all(L[l] == it for l, it in {**sel, **extra}.items()):
                    t += lab.at(L)
            return t
        if f["name"] in case["split"]:
            l = case["split"][f["name"]]
            for it in uni[l]["items"]:
                out.append((shown.index(f["frm"]), shown.index(f["to"]), str(it), total({l: it})))
        else:
            out.append((shown.index(f["frm"]), shown.index(f["to"]), f["name"], total({})))
    return shown, out


def oracle(case, obs):
    if obs["kind"] == "err":
        return f"{case['kind']} plot raised {obs['exc']}: {obs['msg'][:100]}"
    if case["kind"] == "sankey":
        shown, links = _expected_links(case)
        if obs["nodes"] != shown:
            return f"nodes {obs['nodes']} != shown processes {shown} (excluded {case['exclp']})"
        got = list(zip(obs["source"], obs["target"], obs["label"], [Fraction(v[0], v[1]) for v in obs["value"]]))
        if got != links:
            bad = next((i for i, (g, w) in enumerate(zip(got, links)) if g != w), min(len(got), len(links)))
            return (f"link {bad}: figure has {got[bad] if bad < len(got) else None}, expected {links[bad] if bad < len(links) else None} "
                    f"(slice {case['slice']}, excluded {case['exclp']}/{case['exclf']}, split {case['split']}); {len(got)} links vs {len(links)}")
        return None
    uni = case["uni"]
    a = Lab.from_desc(uni, case["arr"])
    xitems = uni[case["x"]]["items"]
    if case["xdims"] is not None:
        xa = Lab.from_desc(uni, dict(dims=case["xdims"], values=[100 + 7 * i for i in range(nelem(uni, case["xdims"]))]))
    exp = []
    for si in (uni[case["sub"]]["items"] if case["sub"] else [None]):
        for li in (uni[case["line"]]["items"] if case["line"] else [None]):
            fixed = {}
            if case["sub"]:
                fixed[case["sub"]] = si
            if case["line"]:
                fixed[case["line"]] = li
            ys = [a.at({**fixed, case["x"]: xi}) for xi in xitems]
            numeric = all(isinstance(i, (int, float)) for i in xitems)
            xs = ([Fraction(xi) if numeric else Fraction(j) for j, xi in enumerate(xitems)]) if case["xdims"] is None else [xa.at({**fixed, case["x"]: xi}) for xi in xitems]
            exp.append((xs, ys))
    got = [([None if v is None else Fraction(v[0], v[1]) for v in t["x"]], [Fraction(v[0], v[1]) for v in t["y"]]) for t in obs["traces"]]
    if got != exp:
        bad = next((i for i, (g, w) in enumerate(zip(got, exp)) if g != w), min(len(got), len(exp)))
        return (f"{case['plotter']} line {bad} (dims {case['arr']['dims']}, x={case['x']}, subplot={case['sub']}, line={case['line']}, x_array over {case['xdims']}): "
                f"plotted {got[bad] if bad < len(got) else None}, expected {exp[bad] if bad < len(exp) else None}")
    return None


def failure_key(case, obs, msg):
    return case["kind"] + msg.split("(")[0][:30]


def to_coq(case, obs):
    if case["kind"] == "sankey":
        s = case["sys"]
        uni = s["uni"]
        P = lambda n: cq_nat(CODES("proc:" + n))
        procs = cq_list([f"({P(p)}, {cq_nat(i)})" for i, p in enumerate(s["procs"])])
        pid = {p: i for i, p in enumerate(s["procs"])}
        fl = cq_list([f"(mk_sflow {cq_nat(CODES('lab:' + f['name']))} {cq_nat(pid[f['frm']])} {cq_nat(pid[f['to']])} {cq_farr(uni, f['arr'])} "
                      f"{cq_opt(None if f['name'] not in case['split'] else cq_nat(letter_code(case['split'][f['name']])))})" for f in s["flows"]])
        sl = cq_list([f"({cq_nat(letter_code(l))}, {cq_nat(CODES(it))})" for l, it in case["slice"].items()])
        dims = cq_dimset([uni[l] for l in uni])
        # labels: flow name, or the item of the split dimension
        def lab_code(txt):
            for l in uni:
                for it in uni[l]["items"]:
                    if str(it) == txt:
                        return CODES(it)
            return CODES("lab:" + txt)
        if obs["kind"] == "err":
            exp, nodes = "Err", "[]"
        else:
            exp = "(Ok " + cq_list([f"(mk_slink {cq_nat(a)} {cq_nat(b)} {cq_nat(lab_code(l))} {cq_Q(Fraction(v[0], v[1]))})"
                                    for a, b, l, v in zip(obs["source"], obs["target"], obs["label"], obs["value"])]) + ")"
            nodes = cq_list([P(nm) for nm in obs["nodes"]])
        return (f"(CSankey {procs} {cq_list([P(p) for p in case['exclp']])} {cq_list([cq_nat(CODES('lab:' + f)) for f in case['exclf']])} {sl} {dims} {fl} {nodes} {exp})")
    uni = case["uni"]
    xit = uni[case["x"]]["items"]
    xdesc = dict(dims=[case["x"]], values=(list(xit) if all(isinstance(i, (int, float)) for i in xit) else list(range(len(xit))))) if case["xdims"] is None else \
        dict(dims=case["xdims"], values=[100 + 7 * i for i in range(nelem(uni, case["xdims"]))])
    L = lambda l: cq_opt(None if l is None else cq_nat(letter_code(l)))
    if obs["kind"] == "err":
        exp = "Err"
    else:
        subs = uni[case["sub"]]["items"] if case["sub"] else [None]
        lines = uni[case["line"]]["items"] if case["line"] else [None]
        combos = [(s, l) for s in subs for l in lines]
        rows = []
        for (s, l), t in zip(combos, obs["traces"]):
            rows.append(f"(mk_pline {cq_opt(None if s is None else cq_nat(CODES(s)))} {cq_opt(None if l is None else cq_nat(CODES(l)))} "
                        f"{cq_list([cq_Q(Fraction(v[0], v[1]) if v is not None else Fraction(-1)) for v in t['x']])} {cq_list([cq_Q(Fraction(v[0], v[1])) for v in t['y']])})")
        if len(obs["traces"]) != len(combos):
            rows.append("(mk_pline None None [] [])")
        exp = "(Ok " + cq_list(rows) + ")"
    return f"(CPlot {cq_farr(uni, case['arr'])} {cq_farr(uni, xdesc)} {L(case['sub'])} {L(case['line'])} {exp})"


def nontrivial(case):
    if case["kind"] == "sankey":
        return bool(case["slice"] or case["exclf"] or case["split"] or len(case["exclp"]) > 1)
    return len(case["arr"]["dims"]) >= 2


SIGNATURES = {}
