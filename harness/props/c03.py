"""C03 — computed stocks conserve mass: stock change = net inflow x interval length."""
from fractions import Fraction
import io, contextlib

import numpy as np

import stocksdrv as sd
from stocksdrv import fr, arr, oracle_dt

ID = "C03"
THOROUGH_ROUNDS = 4      # rounds of generate() in the thorough tier (new random draws each round)
COQ_MODULE = "Corr.StocksC"
SHARD = 60
RULE = ("all three stock classes (flow-driven, inflow-driven DSM, stock-driven DSM with both solvers) x time grids "
        "{unit, constant 5-year, uneven (2000,2005,2010,2020,2030), uneven (2000,2001,2003,2007,2008,2012)} x 0-2 extra "
        "dimensions x lifetime models: an exactly representable probe model 2^-floor(age/mean) (scalar, per-label, "
        "per-cohort, permuted FlodymArray parameters; inflow at start/middle/end), FixedLifetime, and in the tolerance "
        "stream (oracle only, 1e-9) Normal / FoldedNormal / LogNormal / Weibull; drivers: random integers incl. zeros, "
        "unit impulses, stocks that imply negative inflow; plus perturbation of a computed stock by +-5 (must be rejected "
        "by check_stock_balance) and by 1e-4 (must be accepted). Non-trivial: non-unit grid or >= 1 extra dimension.")
ASSUMPTIONS = [
    "the survival table is taken from the implementation (its validity is C08); at least three strictly increasing time items",
    "scipy.linalg.solve_triangular is specified as 'returns the solution' (fsolve_unique); LAPACK numerics are runtime",
]

# interval lengths are (g_i + g_{i+1}) / 2 for consecutive gaps g; grids marked exact have power-of-two lengths, so
# that 1/dt and every product stays exact in binary64; the others go to the tolerance stream (oracle only)
GRIDS = {"unit": [2000, 2001, 2002, 2003, 2004], "const4": [2000, 2004, 2008, 2012],
         "uneven_p2": [2000, 2001, 2004, 2009, 2020],       # lengths 2,2,4,8,8
         "uneven_alt": [2000, 2003, 2004, 2007, 2008],      # uneven items, lengths all 2
         "three_p2": [1990, 1991, 1994],                    # lengths 2,2,2 ... minimal grid
         "const5": [2000, 2005, 2010, 2015], "uneven": [2000, 2005, 2010, 2020, 2030],
         "uneven2": [2000, 2001, 2003, 2007, 2008, 2012], "three": [1990, 2000, 2020],
         # calendar years with fractions that are ALMOST evenly spaced (off by 1/64 and 1/128 of a year): the interval bounds are still
         # the midpoints of the items as they are
         "almost_even": [2000, 2001.015625, 2002, 2003.0078125, 2004]}
EXACT_GRIDS = ("unit", "const4", "uneven_p2", "uneven_alt", "three_p2")


def lifetimes(rng, grid, extra, k):
    n = len(grid)
    K = {"r": 2, "g": 3, "q": 1, "h": 2}
    out = [dict(kind="probe", mean=[1, 2, 4][k % 3], inflow_at=["middle", "start", "end"][k % 3])]
    if extra:
        l = extra[-1]
        out.append(dict(kind="probe", mean=dict(dims=[l], values=[[1, 2, 4][(k + i) % 3] for i in range(K[l])]), inflow_at="start"))
        if len(extra) == 2:
            d = [extra[1], "t", extra[0]]
            m = K[extra[1]] * n * K[extra[0]]
            out.append(dict(kind="probe", mean=dict(dims=d, values=[[1, 2, 4, 8][(k + 3 * i) % 4] for i in range(m)]), inflow_at="middle"))
    out.append(dict(kind="probe", mean=dict(dims=["t"], values=[[2, 4, 1, 8][(k + i) % 4] for i in range(n)]), inflow_at="end"))
    # full-dimensional parameters stored in another order than the model's (equal lengths keep the shape)
    if extra:
        d = list(extra)[::-1] + ["t"] if k % 2 else [extra[0], "t"] + list(extra[1:])
        m = n
        for l in extra:
            m *= K[l]
        out.append(dict(kind="probe", mean=dict(dims=d, values=[[1, 2, 4, 8, 2, 1, 4][(k + 5 * i + i // 3) % 7] for i in range(m)]), inflow_at="start"))
    return out


def generate(tier, rng):
    cases = []
    extras = [[], ["r"], ["r", "g"]] if tier == "quick" else [[], ["r"], ["g", "r"], ["r", "g"], ["q", "r"]]
    k = 0
    for gname, grid in GRIDS.items():
        n = len(grid)
        ex = gname in EXACT_GRIDS
        for extra in extras:
            shp = sd.shape_of(grid, extra)
            N = int(np.prod(shp))
            k += 1
            # flow driven
            for rep in range(2):
                cases.append(dict(stream="exact" if ex else "tolerance", coq=ex, cls="simple", grid=grid, gname=gname, extra=extra,
                                  driver=[rng.randint(0, 9) for _ in range(N)], outflow=[rng.randint(0, 5) for _ in range(N)],
                                  time_letter=("y" if rep else "t")))
            # a stock near its steady state: a throughput of 2^53 per year against net additions of a few units (all exactly
            # representable, as is every partial sum of the net additions): the stock is the cumulated NET inflow
            cases.append(dict(stream="exact" if ex else "tolerance", coq=ex, cls="simple", grid=grid, gname=gname, extra=extra,
                              driver=[2 ** 53 + 2 * rng.randint(0, 9) for _ in range(N)], outflow=[2 ** 53 + 2 * rng.randint(0, 5) for _ in range(N)]))
            for lt in lifetimes(rng, grid, extra, k):
                k += 1
                drv = [rng.randint(0, 8) for _ in range(N)]
                cases.append(dict(stream="exact" if ex else "tolerance", coq=ex, cls="idsm", grid=grid, gname=gname, extra=extra, lifetime=lt, driver=drv,
                                  int_dtype=(k % 3 == 0), time_letter=("y" if k % 4 == 1 else "t")))
                for solver in ("manual", "lapack"):
                    stk = [rng.randint(0, 40) for _ in range(N)] if k % 2 else sorted(rng.randint(0, 60) for _ in range(N))
                    cases.append(dict(stream="exact" if ex else "tolerance", coq=ex, cls="sdsm", solver=solver, grid=grid, gname=gname, extra=extra, lifetime=lt, driver=stk,
                                      int_dtype=(k % 3 != 1), time_letter=("y" if k % 4 == 2 else "t")))
            # a phase-out: the driver set to exactly zero on an object that was computed with a non-zero one before
            for cls_, solver_ in (("idsm", None), ("sdsm", "manual")):
                z = dict(stream="exact" if ex else "tolerance", coq=ex, cls=cls_, grid=grid, gname=gname, extra=extra,
                         lifetime=lifetimes(rng, grid, extra, k)[0], driver=[0] * N, history="other_first")
                if solver_:
                    z["solver"] = solver_
                cases.append(z)
            # fixed lifetime (0/1 survival) for the inflow-driven model
            cases.append(dict(stream="exact" if ex else "tolerance", coq=ex, cls="idsm", grid=grid, gname=gname, extra=extra,
                              lifetime=dict(kind="fixed", mean=[3, 7, 12][k % 3], inflow_at="start"), driver=[rng.randint(0, 8) for _ in range(N)]))
            # scipy-based models: judged by the oracle only (values are not exactly representable)
            real = [dict(kind="normal", mean=8, std=3), dict(kind="foldnorm", mean=6, std=4), dict(kind="lognormal", mean=10, std=5),
                    dict(kind="weibull", shape=2.5, scale=9)]
            # parameters that depend on the cohort: each cohort keeps its own survival curve
            span = float(grid[-1] - grid[0]) / max(n - 1, 1)
            cohort = [dict(kind="normal", mean=dict(dims=["t"], values=[4 + 3 * span * i for i in range(n)]), std=dict(dims=["t"], values=[1.5 + (i % 3) for i in range(n)])),
                      dict(kind="foldnorm", mean=dict(dims=["t"], values=[3 + 2.5 * span * i for i in range(n)]), std=dict(dims=["t"], values=[2 + ((2 * i) % 3) for i in range(n)])),
                      dict(kind="lognormal", mean=dict(dims=["t"], values=[5 + 2 * span * i for i in range(n)]), std=dict(dims=["t"], values=[2 + (i % 2) * 3 for i in range(n)])),
                      dict(kind="weibull", shape=dict(dims=["t"], values=[1.2 + 0.4 * (i % 4) for i in range(n)]), scale=dict(dims=["t"], values=[4 + 2.2 * span * i for i in range(n)]))]
            real = real + (cohort if tier == "thorough" or not extra else cohort[k % 4: k % 4 + 1])
            for lt in (real if tier == "thorough" or not extra else real[k % 4: k % 4 + 1] + real[-1:]):
                drv = [rng.randint(0, 8) for _ in range(N)]
                cases.append(dict(stream="tolerance", coq=False, cls="idsm", grid=grid, gname=gname, extra=extra, lifetime=lt, driver=drv))
                cases.append(dict(stream="tolerance", coq=False, cls="sdsm", solver=["manual", "lapack"][k % 2], grid=grid, gname=gname,
                                  extra=extra, lifetime=lt, driver=[rng.randint(5, 40) for _ in range(N)], int_dtype=(len(cases) % 2 == 0)))
    # every case is the last step of a short history on its objects (computed twice, another driver first, a lifetime model
    # shared with a stock computed before): 'after compute()' holds whatever happened before
    for i, c in enumerate(cases):
        if "history" not in c:
            c["history"] = sd.HISTORIES[i % 4]
        c.setdefault("layout", "F" if (i // 4) % 2 else "C")      # the memory layout of the driver array
    # a lifetime model in use whose inflow instant / quadrature order is re-assigned between two computations (without declaring the
    # parameters again): whichever settings the second computation goes by, its stock, inflow and outflow are balanced
    # (library distributions only; judged by the oracle's identities, not sent to the model)
    for c in [c for c in cases if c["stream"] == "tolerance" and c["cls"] in ("idsm", "sdsm")][::3]:
        cases.append(dict(c, history="resettled"))
    return cases


def run_impl(case):
    try:
        st = sd.computed_stock(case)
    except Exception as e:  # noqa
        return dict(kind="err", exc=type(e).__name__, msg=str(e)[:200])
    o = sd.observe_stock(st, snap=(case["stream"] == "exact"))
    # perturbation probes on the computed stock
    probes = {}
    base = st.stock.values.copy()
    # (the threshold is on the absolute imbalance summed over time, per label: a change of the stock at the FIRST step by d shows up
    #  as +d there and -d at the next step, 2|d| in all — "spread" (0.75) is beyond the threshold of 1, "spread_ok" (0.25) is not)
    for name, delta in (("big+", 5.0), ("big-", -5.0), ("small", 1e-4), ("spread", 0.75), ("spread_ok", 0.25)):
        st.stock.values[...] = base
        idx = tuple(s // 2 for s in base.shape)
        if name.startswith("spread"):
            if st.stock.values.dtype.kind != "f":
                continue          # (a stock held as an integer array cannot be changed by a fraction)
            idx = (0,) + idx[1:]
        st.stock.values[idx] += delta
        try:
            with contextlib.redirect_stdout(io.StringIO()):
                st.check_stock_balance()
            probes[name] = "ok"
        except Exception as e:  # noqa
            probes[name] = type(e).__name__
    st.stock.values[...] = base
    o["probes"] = probes
    return dict(kind="ok", value=o)


def oracle(case, obs):
    if obs["kind"] == "err":
        return f"compute raised {obs['exc']}: {obs['msg'][:80]}"
    o = obs["value"]
    n = len(case["grid"])
    shp = tuple(o["shape"])
    K = int(np.prod(shp[1:])) if len(shp) > 1 else 1
    b, dt = oracle_dt(case["grid"])
    exact = case["stream"] == "exact"
    tol = Fraction(0) if exact else None
    stock, inflow, outflow, bal = (arr(o, k, (n, K)) for k in ("stock", "inflow", "outflow", "balance"))
    if any(v is None for v in stock.flatten()) or any(v is None for v in outflow.flatten()) or any(v is None for v in inflow.flatten()):
        return "non-finite values in the computed stock / flows"
    scale = max([abs(v) for v in stock.flatten()] + [abs(v) for v in inflow.flatten()] + [Fraction(1)])
    eps = Fraction(0) if exact else scale * Fraction(1, 10 ** 9)
    ob, odt = [fr(v) for v in o["bounds"]], [fr(v) for v in o["dt"]]
    if any(abs(x - y) > eps for x, y in zip(ob, b)) or len(ob) != len(b):
        return f"interval bounds {ob} differ from the documented midpoints {b}"
    if any(abs(x - y) > eps for x, y in zip(odt, dt)):
        return f"interval lengths {odt} differ from {dt}"
    for k in range(K):
        cum = Fraction(0)
        for t in range(n):
            prev = stock[t - 1, k] if t > 0 else Fraction(0)
            lhs = stock[t, k] - prev
            rhs = dt[t] * (inflow[t, k] - outflow[t, k])
            if abs(lhs - rhs) > eps:
                return (f"{case['cls']} on grid {case['gname']}: stock({t}) - stock({t-1}) = {float(lhs):.6g} but dt*(inflow-outflow) = "
                        f"{float(rhs):.6g} (label column {k})")
            cum += rhs
            if abs(cum - stock[t, k]) > eps * (t + 1):
                return f"cumulative net inflow {float(cum)} != stock {float(stock[t,k])} at t={t}"
    # the self-check accepts every computed stock ...
    mag = max(abs(v) for v in bal.flatten())
    if mag > max(eps, Fraction(1, 10 ** 6)):
        return f"get_stock_balance reports {float(mag):.6g} for a correctly computed stock (grid {case['gname']})"
    if o["check"] != "ok":
        return f"check_stock_balance rejects a correctly computed stock: {o['check']}"
    # ... and rejects a perturbed one
    p = o["probes"]
    if p["big+"] == "ok" or p["big-"] == "ok":
        return f"check_stock_balance accepts a stock perturbed by 5: {p}"
    if p["small"] != "ok":
        return f"check_stock_balance rejects a stock perturbed by 1e-4: {p}"
    if exact and p.get("spread") == "ok":
        return f"check_stock_balance accepts a stock whose first entry was changed by 0.75 (imbalance +0.75 and -0.75, 1.5 summed over time): {p}"
    if exact and p.get("spread_ok", "ok") != "ok":
        return f"check_stock_balance rejects a stock whose first entry was changed by 0.25 (0.5 summed over time): {p}"
    return None


def failure_key(case, obs, msg):
    return case["cls"] + ":" + msg.split(" ")[0] + msg[-12:-6]


def to_coq(case, obs):
    return sd.cq_stock_case(case, obs["value"]) if obs["kind"] == "ok" else "(mk_case KSimple [] [None] [] [])"


def nontrivial(case):
    return case["gname"] != "unit" or len(case["extra"]) >= 1


SIGNATURES = {}
