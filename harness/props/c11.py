"""C11 — DataFrame import is faithful to labels under every supported layout."""
from fractions import Fraction
import itertools

import numpy as np
import pandas as pd

from arrays import observe, observe_values
import dfdrv as dd
from dfdrv import DIMPOOL, fl_dims_t

ID = "C11"
THOROUGH_ROUNDS = 2      # rounds of generate() in the thorough tier (new random draws each round)
COQ_MODULE = "Corr.DFC"
SHARD = 150
RULE = ("dimension sets of 1-3 (thorough: 4) dimensions with int-typed, str-typed and untyped (str / int) items and single-item "
        "dimensions, pairwise different item sets; every array is exported by to_df in all its layouts (index or columns x "
        "long / wide over each dimension by name or letter x dense / sparse) and read back; and imported from layouts built "
        "from its logical rows: {index, columns} x {long, wide over each dimension} x headers {names, letters, mixed, items "
        "only} x single-item dimensions omitted or not x value-column names x seeded row and column permutations x CSV text "
        "round trip. The import is compared with the model on the rows the pipeline sees; the oracle demands the identical "
        "array. One 1-dimensional array over 40 000 items (index width). Non-trivial: >= 2 dimensions or a wide / items-only "
        "/ permuted / CSV layout.")
ASSUMPTIONS = [
    "pandas' DataFrame construction, melt/pivot, CSV text and dtype inference are runtime (exercised, not modelled)",
    "values are chosen so that they cannot be mistaken for items (non-integral); items-only headers are used only where item sets differ",
]

DIMSETS = [["t"], ["r"], ["t", "r"], ["r", "t"], ["t", "r", "m"], ["m", "t", "s"], ["s", "r"], ["T", "m"], ["y", "r", "t"], ["g", "t"], ["m", "r"], ["Y"], ["Y", "r"], ["N", "r"], ["t", "N"]]


def values_for(n, k):
    return [Fraction((3 * i + k) % 11, 1) + Fraction(1, 4) if (i + k) % 4 else Fraction(0) for i in range(n)]


def layouts(ds, tier, k):
    out = []
    n = len(ds)
    for where in ("columns", "index"):
        for wide in [None] + list(range(n)):
            for header in ("names", "letters", "mixed", "items"):
                for omit in (False, True):
                    if omit and not any(len(d["items"]) == 1 for d in ds):
                        continue
                    if wide is not None and n == 1 and where == "index":
                        continue
                    k += 1
                    out.append(dict(where=where, wide=wide, header=header, omit_single=omit,
                                    value_name=["value", "amount", "Wert (kt)"][k % 3],
                                    row_perm=(k if k % 2 else None), col_perm=(k if k % 3 == 0 else None), csv=(k % 4 == 0),
                                    row_labels=([None, "from1", "gaps"][(k // 2) % 3] if where == "columns" and k % 4 else None)))
    if tier == "quick":
        out = [l for i, l in enumerate(out) if l["header"] != "mixed" or i % 3 == 0]
    return out


def generate(tier, rng):
    cases = []
    k = 0
    sets = DIMSETS if tier == "quick" else DIMSETS + [["t", "r", "m", "s"], ["g", "m", "T"], ["r", "g", "t", "m"]]
    for names in sets:
        ds = [DIMPOOL[x] for x in names]
        n = int(np.prod([len(d["items"]) for d in ds]))
        k += 1
        vals = [str(v) for v in values_for(n, k)]
        # export in all of to_df's layouts, and the direct round trip
        for index in (True, False):
            for d2c in [None] + [d["name"] if (k + i) % 2 else d["letter"] for i, d in enumerate(ds)]:
                for sparse in (False, True):
                    cases.append(dict(stream="exact", kind="export", dims=ds, values=vals, index=index, dim_to_columns=d2c, sparse=sparse))
                    if sparse and d2c is not None and len(ds) > 1:
                        # a sparse export spread over a dimension one of whose items holds only zeros has no column for
                        # that item; the statement does not say how such a table is to be read back: not generated
                        w = next(i for i, d in enumerate(ds) if d2c in (d["name"], d["letter"]))
                        keys = dd.all_keys(ds)
                        if any(all(Fraction(v) == 0 for kk, v in zip(keys, vals) if kk[w] == it) for it in ds[w]["items"]):
                            continue
                    cases.append(dict(stream="exact", kind="direct", dims=ds, values=vals, index=index, dim_to_columns=d2c, sparse=sparse))
                    if (k + len(cases)) % 5 == 0:
                        cases.append(dict(cases[-1], derived_dims=True))
                    if (k + len(cases)) % 3 == 0:
                        cases.append(dict(cases[-1], into=["int64", "float32", "int32"][(k + len(cases)) % 3 if False else len(cases) % 3]))
        # the same array in a unit 2^70 times larger (entries of the order 1e-21): a sparse table lists exactly the NON-ZERO entries,
        # however small they are
        tiny = [str(Fraction(v) / 2 ** 70) for v in vals]
        for index in (True, False):
            cases.append(dict(stream="exact", coq=False, kind="export", dims=ds, values=tiny, index=index, dim_to_columns=None, sparse=True))
        # a sparse table in which one item of the first dimension does not occur at all (all its entries are zero), read back with
        # the dimensions given by name and by letter (the column then does not hold the full item set)
        if len(ds) >= 2 and len(ds[0]["items"]) >= 2:
            keys_ = dd.all_keys(ds)
            zs = ["0" if kk[0] == ds[0]["items"][0] else v for kk, v in zip(keys_, [str(Fraction(v) + 1) for v in vals])]
            for index in (True, False):
                for letters in (False, True):
                    cases.append(dict(stream="exact", kind="direct", dims=ds, values=zs, index=index, dim_to_columns=None, sparse=True, letters=letters))
        nz = [str(Fraction(v) + Fraction(1, 2)) for v in vals]   # no zeros: rows are complete
        for lay in layouts(ds, tier, k):
            if lay["csv"] and lay["wide"] is not None and ds[lay["wide"]]["dtype"] is None and isinstance(ds[lay["wide"]]["items"][0], int):
                continue   # CSV headers are text: integer items of an UNTYPED dimension cannot be recovered from them (flodym asks for a dtype there)
            cases.append(dict(stream="exact", kind="import", dims=ds, values=nz, layout=lay))
        # a table of the right size in which one row carries the labels of another (so one label combination occurs
        # twice and one is absent): whatever from_df returns cannot come from "the unique row carrying the labels"
        if n >= 3:
            for li, lay in enumerate([l for l in layouts(ds, tier, k) if not l["csv"] and l["header"] != "items"][:: 5 if tier == "quick" else 2]):
                i, j = [(0, n - 1), (n - 1, 0), (1, n // 2 + 1 if n // 2 + 1 != 1 else 0)][li % 3]
                cases.append(dict(stream="malformed", kind="import", dims=ds, values=nz, layout=lay, relabel=[i, j]))
    # values that coincide with the items of an integer dimension of the array (counts 0, 1, 2 over ages 0, 1, 2), all of them,
    # some of them, one of them: the value column must not be taken for a column of that dimension
    for names in (["A"], ["A", "r"], ["r", "A"], ["A", "m", "s"], ["r", "Z"], ["Z", "m"]):
        ds = [DIMPOOL[x] for x in names]
        n = int(np.prod([len(d["items"]) for d in ds]))
        for pat, vals in (("all items", [str((i * 2 + i // 3) % 3) for i in range(n)]), ("some items", [str(i % 2) for i in range(n)]),
                          ("one item", ["1"] * n), ("zeros", ["0"] * n)):
            for index in (True, False):
                for d2c in [None] + ([ds[-1]["name"]] if len(ds) > 1 else []):
                    cases.append(dict(stream="exact", kind="direct", dims=ds, values=vals, index=index, dim_to_columns=d2c, sparse=False))
                    # ... and the same table after a round trip through CSV text (headers come back as text)
                    if d2c is None or ds[-1]["dtype"] is not None:
                        cases.append(dict(cases[-1], via_csv=True))
            cases.append(dict(stream="exact", kind="import", dims=ds, values=vals,
                              layout=dict(where="columns", wide=None, header="names", omit_single=False, value_name="value", row_perm=None, col_perm=None, csv=False)))
            cases.append(dict(stream="exact", kind="import", dims=ds, values=vals,
                              layout=dict(where="index", wide=None, header="letters", omit_single=False, value_name="amount", row_perm=7, col_perm=None, csv=False)))
    big = dict(letter="x", name="index40k", items=list(range(40000)), dtype="int")
    cases.append(dict(stream="exact", coq=False, kind="import", dims=[big], values=[str(Fraction(i % 97) + Fraction(1, 4)) for i in range(40000)],
                      layout=dict(where="columns", wide=None, header="names", omit_single=False, value_name="value", row_perm=None, col_perm=None, csv=False)))
    return cases


def _with_letters(df, ds):
    """the table of to_df with the dimensions' letters in place of their names (columns and index levels)"""
    m = {d["name"]: d["letter"] for d in ds}
    df = df.rename(columns=m)
    if df.index.names and any(n in m for n in df.index.names):
        df.index = df.index.rename([m.get(n, n) for n in df.index.names])
    return df


def run_impl(case):
    import flodym as fd
    ds = case["dims"]
    dims = fl_dims_t(ds)
    if case.get("derived_dims"):
        # the dimensions are made from Dimension objects that were in use before with their items in another order (a table was read
        # over them), by copying the object with the new item list
        ds0 = [dict(d, items=list(reversed(d["items"]))) for d in ds]
        dims0 = fl_dims_t(ds0)
        a0 = fd.FlodymArray(dims=dims0, values=np.arange(float(np.prod(dims0.shape))).reshape(dims0.shape))
        fd.FlodymArray.from_df(dims=dims0, df=a0.to_df(index=False))
        dims = fd.DimensionSet(dim_list=[d0.model_copy(update={"items": list(d["items"])}) for d0, d in zip(dims0.dim_list, ds)])
    vals = np.array([float(Fraction(v)) for v in case["values"]]).reshape(dims.shape)
    if case["kind"] in ("export", "direct"):
        if case["index"] and vals.ndim >= 2:
            vals = np.asfortranarray(vals)      # memory layout must not matter
        a = fd.FlodymArray(dims=dims, values=vals)
        try:
            df = a.to_df(index=case["index"], dim_to_columns=case["dim_to_columns"], sparse=case["sparse"])
        except Exception as e:  # noqa
            return dict(kind="err", exc=type(e).__name__, msg=str(e)[:160], stage="to_df")
        if case.get("letters"):
            df = _with_letters(df, ds)
        if case.get("via_csv"):
            import io
            import pandas as pd
            df = pd.read_csv(io.StringIO(df.to_csv(index=case["index"])), float_precision="round_trip")
        if case["kind"] == "export":
            rows = dd.rows_from_to_df(ds, df, case["index"], case["dim_to_columns"])
            if case["sparse"]:
                rows = [r for r in rows if r[1] is not None]
            return dict(kind="ok", rows=[[r[0], None if r[1] is None else [r[1].numerator, r[1].denominator]] for r in rows])
        if case.get("into"):
            # read into an array that exists already and holds whole numbers in an integer (or single-precision) array, e.g. a
            # placeholder made with full(dims, 0): the imported numbers are those of the table
            tgt = fd.FlodymArray(dims=dims, values=np.zeros(dims.shape, dtype=case["into"]))

            def into():
                tgt.set_values_from_df(df, allow_missing_values=case["sparse"])
                return tgt
            r = observe(into)
        else:
            r = observe(lambda: fd.FlodymArray.from_df(dims=dims, df=df, allow_missing_values=case["sparse"]))
        if r["kind"] == "ok":
            r["value"] = observe_values(r["value"].values)
        return r
    rows = dd.full_rows(ds, [Fraction(v) for v in case["values"]])
    if case.get("relabel"):
        i, j = case["relabel"]
        rows[j] = [list(rows[i][0]), rows[j][1]]
    df, pipeline, om, um = dd.build_df(ds, rows, case["layout"])
    r = observe(lambda: fd.FlodymArray.from_df(dims=dims, df=df))
    if r["kind"] == "ok":
        r["value"] = observe_values(r["value"].values)
    r["pipeline"] = [[p[0], None if p[1] is None else str(p[1])] for p in pipeline] if len(pipeline) < 2000 else None
    r["om"], r["um"] = om, um
    return r


def oracle(case, obs):
    ds = case["dims"]
    keys = dd.all_keys(ds)
    want = {tuple(k): Fraction(v) for k, v in zip(keys, case["values"])}
    if case["kind"] == "export":
        if obs["kind"] != "ok":
            return f"to_df(index={case['index']}, dim_to_columns={case['dim_to_columns']}, sparse={case['sparse']}) raised {obs['exc']}: {obs['msg'][:80]}"
        got = {}
        for labs, v in obs["rows"]:
            kk = tuple(labs)
            if kk in got:
                return f"to_df lists the entry {kk} twice"
            got[kk] = None if v is None else Fraction(v[0], v[1])
        exp = {kk: v for kk, v in want.items() if not (case["sparse"] and v == 0)}
        if got != exp:
            miss = [kk for kk in exp if kk not in got][:2]
            wrong = [kk for kk in exp if kk in got and got[kk] != exp[kk]][:2]
            extra = [kk for kk in got if kk not in exp][:2]
            return f"to_df(index={case['index']}, dim_to_columns={case['dim_to_columns']}, sparse={case['sparse']}): missing {miss}, wrong {wrong}, extra {extra}"
        return None
    desc = (f"to_df(index={case['index']}, dim_to_columns={case['dim_to_columns']}, sparse={case['sparse']})" + (" through CSV text" if case.get("via_csv") else "") if case["kind"] == "direct"
            else f"layout {case['layout']}") + f" dims {[d['letter'] + ':' + str(d.get('dtype')) for d in ds]}"
    if case.get("relabel"):
        i, j = case["relabel"]
        if obs["kind"] == "ok":
            return (f"from_df returned although two rows carry the labels {keys[i]} and none carries {keys[j]} ({desc})")
        return None
    if obs["kind"] != "ok":
        return f"round trip through {desc} raised {obs['exc']}: {obs['msg'][:100]}"
    got = [None if v is None else Fraction(v[0], v[1]) for v in obs["value"]]
    if len(got) != len(keys):
        return f"round trip through {desc}: wrong number of entries"
    for kk, g in zip(keys, got):
        if g != want[tuple(kk)]:
            return f"round trip through {desc}: entry {kk} is {g}, was {want[tuple(kk)]}"
    return None


def failure_key(case, obs, msg):
    lay = case.get("layout", {})
    return f"{case['kind']}-{lay.get('header')}-{lay.get('wide') is not None}-{[d.get('dtype') for d in case['dims']]}"[:60] + msg[-20:]


def _frame_of(case):
    """the DataFrame that from_df was given in run_impl (rebuilt the same way)"""
    import flodym as fd
    ds = case["dims"]
    dims = fl_dims_t(ds)
    if case["kind"] == "direct":
        vals = np.array([float(Fraction(v)) for v in case["values"]]).reshape(dims.shape)
        a = fd.FlodymArray(dims=dims, values=vals)
        df = a.to_df(index=case["index"], dim_to_columns=case["dim_to_columns"], sparse=case["sparse"])
        return (_with_letters(df, ds) if case.get("letters") else df), case["sparse"]
    rows = dd.full_rows(ds, [Fraction(v) for v in case["values"]])
    if case.get("relabel"):
        i, j = case["relabel"]
        rows[j] = [list(rows[i][0]), rows[j][1]]
    return dd.build_df(ds, rows, case["layout"])[0], False


def to_coq(case, obs):
    old = _to_coq_rows(case, obs)
    if case["kind"] == "export" or obs.get("kind") not in ("ok", "err") or obs.get("stage") == "to_df" or len(case["values"]) > 2000:
        return old
    df, am = _frame_of(case)
    return f"(CBoth {old} {dd.cq_detect_case(case['dims'], df, am, False, obs)})"


def _to_coq_rows(case, obs):
    ds = case["dims"]
    if case["kind"] == "export":
        rows = [[r[0], None if r[1] is None else Fraction(r[1][0], r[1][1])] for r in obs.get("rows", [])]
        return dd.cq_export_case(ds, case["values"], case["sparse"], rows)
    if case["kind"] == "direct":
        rows = dd.full_rows(ds, [Fraction(v) for v in case["values"]])
        if case["sparse"]:
            rows = [r for r in rows if r[1] != 0]
        return dd.cq_import_case(ds, rows, False, False, case["sparse"], False, obs)
    pipeline = [[p[0], None if p[1] is None else Fraction(p[1])] for p in obs["pipeline"]]
    return dd.cq_import_case(ds, pipeline, obs["om"], obs["um"], False, False, obs)


def nontrivial(case):
    lay = case.get("layout", {})
    return len(case["dims"]) >= 2 or lay.get("wide") is not None or lay.get("header") == "items" or lay.get("csv") or case.get("dim_to_columns")


def _sig_1d_wide(case, obs, msg):
    return case["kind"] in ("export", "direct") and len(case["dims"]) == 1 and case.get("dim_to_columns") is not None


SIGNATURES = {"to_df_wide_over_only_dimension": _sig_1d_wide}
