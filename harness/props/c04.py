"""C04 — results do not depend on the storage order of dimensions (metamorphic families)."""
import itertools
from fractions import Fraction

import numpy as np

from arrays import CODES, Lab, mk_universe, nelem, observe_values, ordered_subsets, random_values, same_dims
from common import cq_list
import props.c01 as c01
import props.c05 as c05
import props.c06 as c06
import props.c07 as c07
from indexing import normalise, region_dims

ID = "C04"
THOROUGH_ROUNDS = 2      # rounds of generate() in the thorough tier (new random draws each round)
COQ_MODULE = "Corr.C04"
COQ_HEADER = "From Flodym Require Import Corr.C01 Corr.C07 Corr.Indexing."
COQ_CHECK = "C04.check"
COQ_CASE_TYPE = "C04.case"
SHARD = 40
EXHAUSTIVE = True
RULE = ("families = one operation together with EVERY permutation of the storage order of EVERY participating array "
        "(operands, assignment target and source, slice source), exhaustive for ranks <= 3 (quick) on universes with "
        "lengths (2,2,3) and all-equal (2,2,2) where a positional mix-up keeps the shape; operations: + - min max * / ** , "
        "sum_to / sum_over / cast_to / get_shares_over / cumsum, slice reads with dict/tuple/Dimension keys, whole-array and "
        "slice assignment; lifetime-model parameters and flodym_array_stack / split in every storage order (these two judged by the oracle only). "
        "Each variant is checked against the model; the oracle compares all variants by label. "
        "A family is non-trivial when it has >= 2 variants.")
ASSUMPTIONS = c01.ASSUMPTIONS + ["DataFrame round trips and stacking/splitting are covered under C11 / C06; lifetime parameters: families judged by C08's oracle and compared across storage orders (not sent to the Coq model here; C08 does that)"]

import props.c08 as c08
import props.c03 as c03
import stocksdrv as sdrv
FAM = {"C01": c01, "C07": c07, "C06": c06, "C05": c05, "C08": c08}
PREFIX = {"C01": "S01 (C01.mk_case", "C07": "S07 (C07.mk_case", "C06": "SIx (Indexing.mk_case", "C05": "SIx (Indexing.mk_case"}


def permute_desc(uni, desc, perm):
    """same labelled array, dimensions stored in the order perm (a permutation of desc['dims'])"""
    dims = desc["dims"]
    shape = [len(uni[l]["items"]) for l in dims]
    v = np.array(desc["values"], dtype=object).reshape(shape) if dims else np.array(desc["values"], dtype=object).reshape(())
    axes = [dims.index(l) for l in perm]
    vt = np.transpose(v, axes) if dims else v
    return dict(desc, dims=list(perm), values=[x for x in vt.flatten().tolist()])


def perms(dims, limit=None):
    ps = list(itertools.permutations(dims))
    return ps if limit is None else ps[:limit]


def generate(tier, rng):
    fams = []
    unis = [mk_universe((2, 2, 3), "abc"), mk_universe((2, 2, 2), "abc")]
    unis.append(mk_universe((2, 2, 2, 2), "abcd"))      # rank 4: all 24 storage orders; few keys in the quick tier
    k = 0
    for ui, uni in enumerate(unis):
        L = list(uni.keys())
        sets = [list(c) for r in range(0, len(L) + 1) for c in itertools.combinations(L, r)]
        if len(L) == 4:
            sets = [s for s in sets if len(s) >= 3]
        # --- arithmetic
        for xs in sets:
            for ys in sets:
                if len(xs) + len(ys) < 3 or (ui == 1 and len(xs) + len(ys) < 5):
                    continue
                for j in range(2 if ui == 0 else 1):
                    k += 1
                    op = c01.BOPS[k % 7]
                    nx, ny = nelem(uni, xs), nelem(uni, ys)
                    xv = random_values(rng, nx, -5, 5) if op != "pow" else random_values(rng, nx, -3, 3)
                    yv = ([rng.choice([1, -1, 2, -2, 4, 0.5]) for _ in range(ny)] if op == "div" else
                          [rng.choice([0, 1, 2, 3]) for _ in range(ny)] if op == "pow" else random_values(rng, ny, -5, 5))
                    x0, y0 = dict(dims=xs, values=xv), dict(dims=ys, values=yv)
                    vs = []
                    for px in perms(xs):
                        for py in perms(ys, 6 if len(L) < 4 else 4):
                            vs.append(dict(stream="tolerance" if op == "div" else "exact", uni=uni, x=permute_desc(uni, x0, px),
                                           op=dict(kind="bin", op=op, y=permute_desc(uni, y0, py))))
                    fams.append(dict(stream="exact", family="C01", fixed="left", variants=vs))
        # --- reductions / casts / shares / cumsum
        for xs in sets:
            if len(xs) < 2:
                continue
            nx = nelem(uni, xs)
            x0 = dict(dims=xs, values=[2 ** (i % 5) * (1 + i % 3) for i in range(nx)])
            ops = []
            for r in range(0, len(xs) + 1):
                for keep in itertools.permutations(xs, r):
                    ops.append(dict(kind="sum_to", args=[["LND"[(k + i) % 3], l] for i, l in enumerate(keep)]))
            for r in range(1, len(xs)):
                for so in itertools.combinations(xs, r):
                    ops.append(dict(kind="sum_over", args=[["L", l] for l in so]))
                    ops.append(dict(kind="shares", letters=list(so)))
            ops.append(dict(kind="shares", letters=list(xs)))
            for tgt in itertools.permutations(L):
                ops.append(dict(kind="cast", target=list(tgt)))
            for l in xs:
                ops.append(dict(kind="cumsum", letter=l))
            if ui == 1:
                ops = ops[::3]
            for op in ops:
                vs = [dict(stream="tolerance" if op["kind"] == "shares" else "exact", uni=uni, arr=permute_desc(uni, x0, p), op=op)
                      for p in perms(xs)]
                fams.append(dict(stream="exact", family="C07", fixed="request" if op["kind"] in ("sum_to", "cast") else "source", variants=vs))
        # --- slice reads and assignments
        for xs in sets:
            if len(xs) < 2:
                continue
            nx = nelem(uni, xs)
            x0 = dict(dims=xs, values=[(i + 1) * (-1) ** (i % 4 == 2) for i in range(nx)])
            stride = (1 if ui == 0 else 3) if (len(L) < 4 or tier == "thorough") else 17
            for key in c06.gen_keys(rng, uni, xs, k, with_lists=False)[::stride]:
                k += 1
                u2 = c06._with_sub(uni, key)
                vs = [dict(stream="exact", uni=u2, arr=permute_desc(u2, x0, p), steps=[dict(op="get", key=key)]) for p in perms(xs)]
                fams.append(dict(stream="exact", family="C06", fixed="source", variants=vs))
                st, sel = normalise(u2, xs, key)
                if st != "ok":
                    continue
                rd = [d["letter"] for d in region_dims(u2, xs, sel)]
                extra = [l for l in L if l not in xs][:1]
                sd = rd + extra
                s0 = dict(dims=sd, values=[100 + 3 * j for j in range(nelem(u2, sd))])
                vs = []
                for p in perms(xs):
                    for ps in perms(sd, 6):
                        vs.append(dict(stream="exact", uni=u2, arr=permute_desc(u2, x0, p),
                                       steps=[dict(op="set", key=key, rhs=dict(kind="arr", arr=permute_desc(u2, s0, ps)))]))
                fams.append(dict(stream="exact", family="C05", fixed="target", variants=vs))
            # whole-array assignment
            sd = xs + [l for l in L if l not in xs][:1]
            s0 = dict(dims=sd, values=[7 * j + 1 for j in range(nelem(uni, sd))])
            vs = [dict(stream="exact", uni=uni, arr=permute_desc(uni, x0, p),
                       steps=[dict(op="set", key=dict(form="ellipsis"), rhs=dict(kind="arr", arr=permute_desc(uni, s0, ps)))])
                  for p in perms(xs) for ps in perms(sd, 6)]
            fams.append(dict(stream="exact", family="C05", fixed="target", variants=vs))
    fams += rank5_families(tier)
    fams += lifetime_families(tier)
    fams += stack_split_families(tier)
    fams += int_target_families(tier)
    return fams


def rank5_families(tier):
    """rank 5: a key with one subset Dimension (items reversed) and two single items, read from / written to the same labelled
    array stored in EVERY one of the 120 orders of its five dimensions"""
    subdim = c06.subdim
    u5 = mk_universe((2, 2, 2, 2, 2), "abcde")
    xs = list("abcde")
    x0 = dict(dims=xs, values=[(i * 7) % 31 + 1 for i in range(32)])
    fams = []
    for (s1, lst, s2) in ([("c", "b", "e")] if tier == "quick" else [("c", "b", "e"), ("a", "d", "b"), ("e", "a", "c")]):
        key = dict(form="dict", entries=[["L", s1, ["single", u5[s1]["items"][1]]],
                                         ["L", lst, ["dim", subdim(u5, lst, list(reversed(u5[lst]["items"])))]],
                                         ["L", s2, ["single", u5[s2]["items"][0]]]])
        u2 = c06._with_sub(u5, key)
        vs = [dict(stream="exact", uni=u2, arr=permute_desc(u2, x0, p), steps=[dict(op="get", key=key)]) for p in perms(xs)]
        fams.append(dict(stream="exact", family="C06", fixed="source", variants=vs))
        st, sel = normalise(u2, xs, key)
        rd = [d["letter"] for d in region_dims(u2, xs, sel)]
        s0 = dict(dims=rd, values=[1000 + 3 * j for j in range(nelem(u2, rd))])
        vs = [dict(stream="exact", uni=u2, arr=permute_desc(u2, x0, p),
                   steps=[dict(op="set", key=key, rhs=dict(kind="arr", arr=permute_desc(u2, s0, ps)))])
              for pi, p in enumerate(perms(xs)) for ps in ([rd, rd[::-1]][pi % 2],)]
        fams.append(dict(stream="exact", family="C05", fixed="target", variants=vs))
    return fams


def int_target_families(tier):
    """a pre-declared target whose whole numbers are stored in an integer array, assigned from a source with non-whole values:
    whatever numpy makes of that (it truncates), it must not depend on the storage order of the source or of the target
    (variants compared with each other only; not sent to the model, which has no integer arrays)"""
    fams = []
    uni = mk_universe((2, 2, 3), "abc")
    L = list(uni.keys())
    for xs in [["a", "b"], ["a", "c"], ["a", "b", "c"]]:
        x0 = dict(dims=xs, values=[3 * i + 1 for i in range(nelem(uni, xs))], dtype="int")
        extra = [l for l in L if l not in xs][:1]
        for sd in (xs, xs + extra):
            s0 = dict(dims=sd, values=[str(Fraction(2 * j + 1, 2)) for j in range(nelem(uni, sd))])
            for key in (dict(form="ellipsis"), dict(form="dict", entries=[["L", xs[0], ["single", uni[xs[0]]["items"][1]]]])):
                vs = []
                for p in perms(xs):
                    for ps in perms(sd, 6):
                        rhs_arr = permute_desc(uni, s0, ps)
                        if key["form"] == "dict":
                            rhs_arr = permute_desc(uni, dict(dims=[l for l in sd if l != xs[0]],
                                                             values=[str(Fraction(2 * j + 1, 2)) for j in range(nelem(uni, [l for l in sd if l != xs[0]]))]),
                                                   [l for l in ps if l != xs[0]])
                        vs.append(dict(stream="exact", uni=uni, arr=permute_desc(uni, x0, p),
                                       steps=[dict(op="set", key=key, rhs=dict(kind="arr", arr=rhs_arr))]))
                fams.append(dict(stream="exact", coq=False, family="C05", agree_only=True, fixed="target", variants=vs))
    return fams


def stack_split_families(tier):
    """flodym_array_stack / split with every storage order of the arrays involved (judged by label, oracle only)"""
    fams = []
    for uni in [mk_universe((2, 2, 3), "abc"), mk_universe((2, 2, 2), "abc")]:
        L = list(uni.keys())
        for xs in [list(c) for r in (1, 2) for c in itertools.combinations(L, r)]:
            new = [l for l in L if l not in xs][0]
            k = len(uni[new]["items"])
            parts0 = [dict(dims=xs, values=[(j + 1) * 100 + 7 * i + (i * i) % 5 for i in range(nelem(uni, xs))]) for j in range(k)]
            vs = []
            for p in perms(xs):
                vs.append(dict(kind="stack", uni=uni, new=new, parts=[permute_desc(uni, d, p) for d in parts0]))
            if len(xs) == 2:      # the parts in different orders among themselves
                vs.append(dict(kind="stack", uni=uni, new=new, parts=[permute_desc(uni, d, xs[::-1] if j % 2 else xs) for j, d in enumerate(parts0)]))
                vs.append(dict(kind="stack", uni=uni, new=new, parts=[permute_desc(uni, d, xs if j % 2 else xs[::-1]) for j, d in enumerate(parts0)]))
            fams.append(dict(stream="exact", coq=False, family="STK", fixed="first part + new dimension last", variants=vs))
        for xs in [list(c) for r in (2, 3) for c in itertools.combinations(L, r)]:
            x0 = dict(dims=xs, values=[11 * i + (i * i) % 7 for i in range(nelem(uni, xs))])
            for l in xs:
                vs = [dict(kind="split", uni=uni, letter=l, arr=permute_desc(uni, x0, p)) for p in perms(xs)]
                fams.append(dict(stream="exact", coq=False, family="STK", fixed="source", variants=vs))
        # DataFrame export and import of an array stored in every order, as a copy (C order) and as a transposed view of the
        # array stored in the first order (the same numbers in another memory layout)
        for xs in [list(c) for r in (2, 3) for c in itertools.combinations(L, r)]:
            x0 = dict(dims=xs, values=[13 * i + (i * i) % 11 + 1 for i in range(nelem(uni, xs))])
            for index in (True, False):
                for d2c in (None, xs[-1]):
                    vs = [dict(kind="df", uni=uni, arr=dict(permute_desc(uni, x0, p), layout=lay), index=index, d2c=d2c)
                          for p in perms(xs) for lay in ("C", "V", "F")]
                    fams.append(dict(stream="exact", coq=False, family="STK", fixed="the array", variants=vs))
    return fams


def run_stack_split(v):
    import flodym as fd
    from flodym.flodym_array_helper import flodym_array_stack
    from arrays import build_array, fl_dim, observe, observe_array
    uni = v["uni"]
    if v["kind"] == "stack":
        parts = [build_array(uni, d) for d in v["parts"]]
        r = observe(lambda: flodym_array_stack(parts, dimension=fl_dim(uni[v["new"]])))
        if r["kind"] == "ok":
            r["value"] = observe_array(r["value"])
        return r
    if v["kind"] == "df":
        a = build_array(uni, v["arr"])

        def f():
            df = a.to_df(index=v["index"], dim_to_columns=(uni[v["d2c"]]["name"] if v["d2c"] else None))
            back = fd.FlodymArray.from_df(dims=a.dims, df=df)
            entries = None
            if v["d2c"] is None:
                d2 = df.reset_index() if v["index"] else df
                names = [uni[l]["name"] for l in v["arr"]["dims"]]
                entries = [[[CODES(r[n]) for n in names], observe_values(np.array([r["value"]]))[0]] for _, r in d2.iterrows()]
            return dict(back=observe_array(back), entries=entries)
        return observe(f)
    a = build_array(uni, v["arr"])
    r = observe(lambda: a.split(v["letter"]))
    if r["kind"] == "ok":
        r["value"] = {str(k): observe_array(x) for k, x in r["value"].items()}
    return r


def oracle_stack_split(case, obs):
    for v, o in zip(case["variants"], obs["obs"]):
        uni = v["uni"]
        if o["kind"] != "ok":
            return f"[STK] {v['kind']} raised {o['exc']}: {o['msg'][:80]}"
        if v["kind"] == "df":
            src = Lab.from_desc(uni, v["arr"])
            tag = f"[DF] array stored as {v['arr']['dims']} (layout {v['arr'].get('layout')}), to_df(index={v['index']}, dim_to_columns={v['d2c']})"
            back = Lab.from_obs(o["value"]["back"])
            for lab in src.labels():
                if back.at(lab) != src.at(lab):
                    return f"{tag}: from_df(to_df()) has {back.at(lab)} at {lab}, the array has {src.at(lab)}"
            if o["value"]["entries"] is not None:
                want = sorted(([CODES(lab[l]) for l in v["arr"]["dims"]], src.at(lab)) for lab in src.labels())
                got = sorted((e[0], Fraction(e[1][0], e[1][1])) for e in o["value"]["entries"])
                if got != want:
                    return f"{tag}: the table does not list every entry once under its labels"
            continue
        if v["kind"] == "stack":
            got = Lab.from_obs(o["value"])
            want_letters = v["parts"][0]["dims"] + [v["new"]]
            if got.letters != want_letters:
                return f"[STK] stacked dimensions {got.letters}, expected {want_letters} (first part's order, new dimension last)"
            for j, d in enumerate(v["parts"]):
                part = Lab.from_desc(uni, d)
                item = uni[v["new"]]["items"][j]
                for lab in part.labels():
                    full = dict(lab, **{v["new"]: item})
                    if got.at(full) != part.at(lab):
                        return (f"[STK] stacking parts stored as {[p['dims'] for p in v['parts']]}: entry {full} is {got.at(full)}, "
                                f"part {j} has {part.at(lab)} there")
        else:
            src = Lab.from_desc(uni, v["arr"])
            items = uni[v["letter"]]["items"]
            if sorted(o["value"].keys()) != sorted(str(i) for i in items):
                return f"[STK] split over {v['letter']} returns the keys {sorted(o['value'].keys())}"
            for it in items:
                got = Lab.from_obs(o["value"][str(it)])
                if v["letter"] in got.letters or sorted(got.letters) != sorted(l for l in src.letters if l != v["letter"]):
                    return f"[STK] split part {it} has dimensions {got.letters}"
                for lab in got.labels():
                    full = dict(lab, **{v["letter"]: it})
                    if got.at(lab) != src.at(full):
                        return f"[STK] split of an array stored as {v['arr']['dims']} over {v['letter']}: part {it} entry {lab} is {got.at(lab)}, source has {src.at(full)}"
    return None


def _permute_param(grid, pdesc, perm):
    shp = {"t": len(grid)}
    shp.update({l: len(v) for l, v in sdrv.EXTRA.items()})
    v = np.array(pdesc["values"], dtype=object).reshape([shp[l] for l in pdesc["dims"]])
    vt = np.transpose(v, [pdesc["dims"].index(l) for l in perm])
    return dict(dims=list(perm), values=vt.flatten().tolist())


def lifetime_families(tier):
    """a parameter handed to a lifetime model, stored in every order of its dimensions (equal lengths r/h keep the shape)"""
    fams = []
    k = 0
    for gname in (["unit", "uneven"] if tier == "quick" else ["unit", "const5", "uneven", "three"]):
        grid = c03.GRIDS[gname]
        n = len(grid)
        for extra in (["r", "h"], ["r", "g"], ["r"]):
            full = ["t"] + extra
            for pd in (full, extra):
                m = int(np.prod([len(grid) if l == "t" else len(sdrv.EXTRA[l]) for l in pd]))
                for kind in ("probe", "normal"):
                    k += 1
                    base = dict(dims=pd, values=[[1, 2, 4, 8, 2, 1, 4][(k + 5 * i + i // 3) % 7] for i in range(m)] if kind == "probe"
                                else [5 + ((3 * i + k) % 7) for i in range(m)])
                    vs = []
                    for perm in itertools.permutations(pd):
                        prm = _permute_param(grid, base, perm)
                        lt = dict(kind="probe", mean=prm, inflow_at="start", n_pts=1) if kind == "probe" else \
                            dict(kind="normal", mean=prm, std=_permute_param(grid, dict(dims=pd, values=[2 + (i % 3) for i in range(m)]), perm[::-1]),
                                 inflow_at="middle", n_pts=1)
                        vs.append(dict(stream="exact" if kind == "probe" else "tolerance", coq=False, grid=grid, gname=gname, extra=extra, lifetime=lt))
                    fams.append(dict(stream="exact" if kind == "probe" else "tolerance", coq=False, family="C08", fixed="model", variants=vs))
    return fams


def run_impl(case):
    if case["family"] == "STK":
        return dict(kind="family", obs=[run_stack_split(v) for v in case["variants"]])
    m = FAM[case["family"]]
    return dict(kind="family", obs=[m.run_impl(v) for v in case["variants"]])


def _result(fam, o):
    """the labelled result of one variant: ('err',) or ('ok', obs array)"""
    if fam in ("C01", "C07"):
        return ("err",) if o["kind"] == "err" else ("ok", o["value"])
    s = o["steps"][-1]
    if "post" in s:
        return ("err" if s["kind"] == "err" else "ok", s["post"])
    return ("err",) if s["kind"] == "err" else ("ok", s["value"])


def oracle(case, obs):
    if case["family"] == "STK":
        return oracle_stack_split(case, obs)
    m = FAM[case["family"]]
    if case["family"] == "C08":
        for v, o in zip(case["variants"], obs["obs"]):
            r = m.oracle(v, o)
            if r:
                return f"[C08] parameter stored as {v['lifetime']['mean']['dims']}: {r}"
        b = obs["obs"][0]
        for v, o in zip(case["variants"][1:], obs["obs"][1:]):
            if o["kind"] != b["kind"]:
                return f"[C08] storage order of the lifetime parameter changes the outcome ({v['lifetime']['mean']['dims']})"
            if o["kind"] == "ok":
                for key in ("sf", "pdf"):
                    for j, (x, y) in enumerate(zip(b["value"][key], o["value"][key])):
                        if x != y and abs(Fraction(*x) - Fraction(*y)) > Fraction(1, 10 ** 12):
                            return (f"[C08] {key} entry #{j} differs between storage orders of the lifetime parameter: "
                                    f"{float(Fraction(*x)):.9g} vs {float(Fraction(*y)):.9g} ({v['lifetime']['mean']['dims']})")
        return None
    # each variant satisfies the operation's own specification (incl. the documented dimension order)
    for v, o in zip(case["variants"], obs["obs"]) if not case.get("agree_only") else []:
        r = m.oracle(v, o)
        if r:
            return f"[{case['family']}] variant {_vdesc(case, v)}: {r}"
    # and all variants agree by label
    base = _result(case["family"], obs["obs"][0])
    for v, o in zip(case["variants"][1:], obs["obs"][1:]):
        r = _result(case["family"], o)
        if r[0] != base[0]:
            return f"[{case['family']}] storage order changes the outcome: {base[0]} vs {r[0]} for {_vdesc(case, v)}"
        if len(r) > 1 and len(base) > 1:
            if not same_dims(r[1]["dims"], base[1]["dims"], ordered=False):
                return f"[{case['family']}] storage order changes the result dimensions for {_vdesc(case, v)}"
            a, b = Lab.from_obs(base[1]), Lab.from_obs(r[1])
            for lab in a.labels():
                if a.at(lab) != b.at(lab):
                    return f"[{case['family']}] entry {lab} differs between storage orders: {a.at(lab)} vs {b.at(lab)} ({_vdesc(case, v)})"
    return None


def _vdesc(case, v):
    if case["family"] == "STK":
        return v["kind"]
    if case["family"] == "C08":
        return f"lifetime parameter {v['lifetime']['mean']['dims']}"
    if case["family"] == "C01":
        return f"x{v['x']['dims']} {v['op']['op']} y{v['op']['y']['dims']}"
    if case["family"] == "C07":
        return f"{v['arr']['dims']} {v['op']}"
    st = v["steps"][0]
    return f"{v['arr']['dims']} {st['op']} {c06._short(st['key'])}" + (f" <- {st['rhs']['arr']['dims']}" if st["op"] == "set" else "")


def failure_key(case, obs, msg):
    return msg.split("]")[0] + msg.split(":")[-1][:12]


def to_coq(case, obs):
    m = FAM[case["family"]]
    subs = []
    for v, o in zip(case["variants"], obs["obs"]):
        t = m.to_coq(v, o)
        assert t.startswith("(mk_case")
        subs.append("(" + PREFIX[case["family"]] + t[len("(mk_case"):] + ")")
    return cq_list(subs)


def nontrivial(case):
    return len(case["variants"]) >= 2


def weight(case):
    return len(case["variants"])
