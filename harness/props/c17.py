"""C17 — recomputing a stock reflects its current inputs only."""
from fractions import Fraction
import itertools

import numpy as np

import stocksdrv as sd
from arrays import observe_values
from common import cq_bool, cq_list, cq_nat, cq_opt, cq_Q
import props.c03 as c03

ID = "C17"
COQ_MODULE = "Corr.C17"
SHARD = 100
EXHAUSTIVE = True
RULE = ("EXHAUSTIVE: every sequence of length <= 4 (quick) / <= 5 (thorough) over {set driver (alternating two drivers), "
        "set_prms (alternating two parameter sets, scalar and per-cohort; in a third of the histories one driver is all zero), compute, read the survival table} containing at "
        "least one compute, on InflowDrivenDSM and StockDrivenDSM (manual, lapack), on a unit and an uneven grid, with FixedLifetime "
        "(library class, exact 0/1 survival; parameters above every interval length); additionally the same sequences on a stock built by make_empty_stocks inside an MFASystem subclass "
        "whose compute() is looped. After every compute the results are compared with the model and (oracle) with a freshly "
        "built stock holding the current driver and parameters. Non-trivial: a set_prms or set-driver step precedes a later compute.")
ASSUMPTIONS = ["one label column (no extra dimensions) in the histories; label independence is C16"]

ALPH = "DPCR"


def generate(tier, rng):
    cases = []
    L = 4 if tier == "quick" else 5
    seqs = [s for n in range(1, L + 1) for s in itertools.product(ALPH, repeat=n) if "C" in s]
    k = 0
    for gname in ("unit", "uneven_p2"):
        grid = c03.GRIDS[gname]
        n = len(grid)
        for cls, solver in (("idsm", None), ("sdsm", "manual"), ("sdsm", "lapack")):
            for s in seqs:
                k += 1
                if tier == "quick" and (gname == "uneven_p2" or solver == "lapack") and k % 4:
                    continue
                prms = [[9, 12, 20][k % 3], dict(dims=["t"], values=[[20, 9, 12, 33][(k + i) % 4] for i in range(n)]), [20, 9, 12][k % 3]]
                drvs = [[rng.randint(1, 9) for _ in range(n)], [rng.randint(1, 9) for _ in range(n)], [rng.randint(1, 9) for _ in range(n)]]
                if k % 3 == 1:
                    # a phase-out scenario: the driver set to exactly zero after a computation with a non-zero one
                    drvs[1 + (k // 3) % 2] = [0] * n
                elif k % 3 == 2 and k % 2:
                    drvs[1] = [0] * (n - 1) + [rng.randint(1, 9)]
                cases.append(dict(stream="history", gname=gname, grid=grid, cls=cls, solver=solver, seq="".join(s), prms=prms, drvs=drvs,
                                  at=["start", "middle", "end"][k % 3], n_pts=1 + (k % 2), in_system=(k % 5 == 0)))
    # parameter sets that differ by very little (a finite-difference step; a mean nudged across a cohort age): the new
    # value must be used, however close it is to the old one
    near = Fraction(5, 2) + Fraction(1, 2 ** 20)
    for cls, solver in (("idsm", None), ("sdsm", "manual"), ("sdsm", "lapack")):
        for s in [q for q in seqs if "P" in q][:: (4 if tier == "quick" else 1)]:
            k += 1
            grid = c03.GRIDS["unit"]
            n = len(grid)
            prms = [[Fraction(5, 2), near, Fraction(5, 2)], [near, Fraction(5, 2), near],
                    [dict(dims=["t"], values=[Fraction(5, 2)] * n), dict(dims=["t"], values=[near if i % 2 else Fraction(5, 2) for i in range(n)]), Fraction(5, 2)]][k % 3]
            cases.append(dict(stream="history", gname="unit", grid=grid, cls=cls, solver=solver, seq="".join(s), prms=prms,
                              drvs=[[rng.randint(1, 9) for _ in range(n)] for _ in range(3)], at="middle", n_pts=1, in_system=False))
    # whole-number parameters held in an integer array first (years read from a file), parameters with a fractional part afterwards
    for cls, solver in (("idsm", None), ("sdsm", "manual"), ("sdsm", "lapack")):
        for s in [q for q in seqs if "P" in q][:: (6 if tier == "quick" else 1)]:
            k += 1
            grid = c03.GRIDS["unit"]
            n = len(grid)
            prms = [dict(dims=["t"], values=[[3, 2, 4][(k + i) % 3] for i in range(n)], dtype="int"),
                    [Fraction(5, 2), Fraction(7, 4), Fraction(13, 4)][k % 3],
                    dict(dims=["t"], values=[Fraction([5, 3, 9][(k + i) % 3], 2) for i in range(n)])]
            cases.append(dict(stream="history", gname="unit", grid=grid, cls=cls, solver=solver, seq="".join(s), prms=prms,
                              drvs=[[rng.randint(1, 9) for _ in range(n)] for _ in range(3)], at=["start", "end", "middle"][k % 3], n_pts=1, in_system=(k % 2 == 0)))
    # a scenario loop: one parameter array, overwritten in place and handed to set_prms again before each computation
    for cls, solver in (("idsm", None), ("sdsm", "manual"), ("sdsm", "lapack")):
        for s in [q for q in seqs if q.count("P") >= 2 and "".join(q).rfind("C") > [i for i, ch in enumerate(q) if ch == "P"][1]][:: (3 if tier == "quick" else 1)]:
            k += 1
            grid = c03.GRIDS[["unit", "uneven_p2"][k % 2]]
            n = len(grid)
            prms = [[9, 12, 20][k % 3], dict(dims=["t"], values=[[20, 9, 12, 33][(k + i) % 4] for i in range(n)]), [20, 9, 12][k % 3]]
            cases.append(dict(stream="history", gname=["unit", "uneven_p2"][k % 2], grid=grid, cls=cls, solver=solver, seq="".join(s), prms=prms, reuse_prm=True,
                              drvs=[[rng.randint(1, 9) for _ in range(n)] for _ in range(3)], at=["start", "middle", "end"][k % 3], n_pts=1, in_system=(k % 2 == 0)))
    # drivers that differ by very little (a finite-difference step of 2^-20) or are tiny throughout (a unit of 2^-40): the
    # driver held at the moment of compute() counts, however close to the previous one it is
    for cls, solver in (("idsm", None), ("sdsm", "manual"), ("sdsm", "lapack")):
        for s in [q for q in seqs if "D" in q][:: (5 if tier == "quick" else 1)]:
            k += 1
            grid = c03.GRIDS[["unit", "uneven_p2"][k % 2]]
            n = len(grid)
            d0 = [Fraction(rng.randint(1, 9)) for _ in range(n)]
            if k % 3 == 0:
                u = Fraction(1, 2 ** 40)
                drvs = [[v * u for v in d0], [3 * v * u for v in d0], [v * u * (1 + (i % 2)) for i, v in enumerate(d0)]]
            else:
                e1, e2 = 1 + Fraction(1, 2 ** 20), 1 - Fraction(1, 2 ** 21)
                drvs = [d0, [v * e1 for v in d0], [v * (e2 if i % 2 else 1) for i, v in enumerate(d0)]]
            cases.append(dict(stream="history", near_drv=True, gname=["unit", "uneven_p2"][k % 2], grid=grid, cls=cls, solver=solver, seq="".join(s),
                              prms=[[9, 12, 20][k % 3]] * 3, drvs=[[str(v) for v in d] for d in drvs], at=["start", "middle", "end"][k % 3], n_pts=1, in_system=(k % 4 == 0)))
    # two-parameter library models: set_prms changing only the first, only the second, or both parameters
    # (values are not exactly representable: judged by the oracle against a fresh stock, bit for bit)
    two = [[8, 3], [12, 3], [12, 5], [8, 5]]
    for kind in ("normal", "lognormal", "foldnorm", "weibull"):
        for cls, solver in (("idsm", None), ("sdsm", "manual")):
            for s in [q for q in seqs if q.count("P") >= 1 and len(q) <= 4][:: (3 if tier == "quick" else 1)]:
                k += 1
                grid = c03.GRIDS["unit"]
                n = len(grid)
                start = k % 4
                cases.append(dict(stream="tolerance", coq=False, gname="unit", grid=grid, cls=cls, solver=solver, seq="".join(s), kind=kind,
                                  prms=[two[(start + j) % 4] for j in range(3)], drvs=[[rng.randint(1, 9) for _ in range(n)] for _ in range(3)],
                                  at="middle", n_pts=1, in_system=False))
                if k % 2 == 0:
                    eps = 1 + 1e-6
                    close = [[8, 3], [8 * eps, 3], [8 * eps, 3 * eps], [8, 3 * eps]]
                    cases.append(dict(stream="tolerance", coq=False, gname="unit", grid=grid, cls=cls, solver=solver, seq="".join(s), kind=kind,
                                      prms=[close[(start + j) % 4] for j in range(3)], drvs=[[rng.randint(1, 9) for _ in range(n)] for _ in range(3)],
                                      at="middle", n_pts=1, in_system=False))
    return cases


def _lt(case, prm):
    kind = case.get("kind", "fixed")
    if kind == "fixed":
        return dict(kind="fixed", mean=prm, inflow_at=case["at"], n_pts=case["n_pts"])
    if kind == "weibull":
        return dict(kind="weibull", shape=prm[1] / 2, scale=prm[0], inflow_at=case["at"], n_pts=case["n_pts"])
    return dict(kind=kind, mean=prm[0], std=prm[1], inflow_at=case["at"], n_pts=case["n_pts"])


_HOLDER = {}


def _set_prms(case, st, dims, prm):
    kind = case.get("kind", "fixed")
    if kind == "fixed" and case.get("reuse_prm"):
        # a scenario loop: ONE parameter array, overwritten in place with the new values and handed to set_prms again
        import flodym as fd
        tdim = fd.DimensionSet(dim_list=[dims[dims.letters[0]]])
        new = np.array([float(Fraction(v)) for v in prm["values"]]) if isinstance(prm, dict) else np.full(tdim.shape, float(Fraction(prm)))
        h = _HOLDER.get(id(st))
        if h is None or h[0] is not st:
            h = _HOLDER[id(st)] = (st, fd.Parameter(dims=tdim, values=new.copy()))
        else:
            h[1].values[...] = new
        st.lifetime_model.set_prms(mean=h[1])
        return
    if kind == "fixed":
        st.lifetime_model.set_prms(mean=sd.mk_param(dims, prm))
    elif kind == "weibull":
        st.lifetime_model.set_prms(weibull_shape=prm[1] / 2, weibull_scale=prm[0])
    else:
        st.lifetime_model.set_prms(mean=prm[0], std=prm[1])


def _stock_case(case, prm, drv):
    c = dict(cls=case["cls"], grid=case["grid"], extra=[], driver=drv, lifetime=_lt(case, prm))
    if case["solver"]:
        c["solver"] = case["solver"]
    return c


def _obs3(st, snap=True):
    return dict(stock=observe_values(st.stock.values, snap), inflow=observe_values(st.inflow.values, snap),
                outflow=observe_values(st.outflow.values, snap))


def _make_in_system(case, prm, drv):
    """the stock built from a definition inside a system (make_empty_stocks), parameters and driver set afterwards"""
    import flodym as fd
    dims = sd.mk_dims(case["grid"], [])
    sub = fd.InflowDrivenDSM if case["cls"] == "idsm" else fd.StockDrivenDSM
    sdef = fd.StockDefinition(name="use", process="use", dim_letters=("t",), subclass=sub, lifetime_model_class=fd.FixedLifetime,
                              time_letter="t", solver=case["solver"] or "manual")
    procs = fd.make_processes(["sysenv", "use"])
    stocks = fd.make_empty_stocks([sdef], processes=procs, dims=dims)

    class Sys(fd.MFASystem):
        def compute(self):
            self.stocks["use"].compute()

    mfa = Sys(dims=dims, parameters={}, processes=procs, flows={}, stocks=stocks)
    st = mfa.stocks["use"]
    lm = st.lifetime_model
    lm.inflow_at = case["at"]
    lm.n_pts_per_interval = case["n_pts"]
    if case["solver"] == "lapack":
        st.solver = "lapack"
    lm.set_prms(mean=sd.mk_param(dims, prm))
    (st.inflow if case["cls"] == "idsm" else st.stock).values[...] = np.array([float(Fraction(v)) for v in drv])
    return mfa, st


def run_impl(case):
    prm_i, drv_i = 0, 0
    prm, drv = case["prms"][0], case["drvs"][0]
    try:
        if case["in_system"]:
            mfa, st = _make_in_system(case, prm, drv)
        else:
            mfa, st = None, sd.mk_stock(_stock_case(case, prm, drv))
    except Exception as e:  # noqa
        return dict(kind="err", exc=type(e).__name__, msg=str(e)[:200])
    steps = []
    dims = st.dims
    for ch in case["seq"]:
        try:
            if ch == "D":
                drv_i += 1
                drv = case["drvs"][drv_i % 3]
                (st.inflow if case["cls"] == "idsm" else st.stock).values[...] = np.array([float(Fraction(v)) for v in drv])
                steps.append(dict(op="D", drv=drv))
            elif ch == "P":
                prm_i += 1
                prm = case["prms"][prm_i % 3]
                _set_prms(case, st, dims, prm)
                steps.append(dict(op="P", prm=prm))
            elif ch == "R":
                steps.append(dict(op="R", sf=observe_values(st.lifetime_model.sf, True)))
            else:
                if mfa is not None:
                    mfa.compute()
                else:
                    st.compute()
                snap = not case.get("near_drv")        # (values a few 2^-20 apart, or of the order 2^-40, are observed as they are)
                got = _obs3(st, snap)
                fresh = sd.mk_stock(_stock_case(case, prm, drv))
                fresh.compute()
                steps.append(dict(op="C", got=got, fresh=_obs3(fresh, snap), prm=prm, drv=drv))
        except Exception as e:  # noqa
            steps.append(dict(op=ch, error=type(e).__name__ + ": " + str(e)[:100]))
            break
    return dict(kind="ok", steps=steps)


def oracle(case, obs):
    if obs["kind"] == "err":
        return f"building the stock raised {obs['exc']}: {obs['msg'][:80]}"
    last = None
    for i, s in enumerate(obs["steps"]):
        if "error" in s:
            return f"step {i} ({s['op']}) raised {s['error']}"
        if s["op"] == "C":
            for key in ("stock", "inflow", "outflow"):
                if s["got"][key] != s["fresh"][key]:
                    return (f"{case['cls']}/{case['solver']} sequence {case['seq']}: after step {i} {key} differs from a freshly built stock "
                            f"with the same driver and parameters")
            if last is not None and last[0] == i - 1 and s["got"] != last[1]:
                return f"sequence {case['seq']}: calling compute() twice in a row changed the results"
            last = (i, s["got"])
    return None


def failure_key(case, obs, msg):
    return msg.split(":")[-1][:30]


def _prm_list(case, prm):
    n = len(case["grid"])
    if isinstance(prm, dict):
        return [Fraction(v) for v in prm["values"]]
    return [Fraction(prm)] * n


def _ol(vs):
    return cq_list([cq_opt(None if v is None else cq_Q(Fraction(v[0], v[1]))) for v in vs])


def to_coq(case, obs):
    n = len(case["grid"])
    ops = []
    for s in obs.get("steps", []):
        if "error" in s:
            break
        if s["op"] == "D":
            ops.append(f"(SDriver {cq_list([cq_Q(Fraction(v)) for v in s['drv']])})")
        elif s["op"] == "P":
            ops.append(f"(SPrms {cq_list([cq_Q(v) for v in _prm_list(case, s['prm'])])})")
        elif s["op"] == "R":
            rows = [s["sf"][t * n:(t + 1) * n] for t in range(n)]
            ops.append(f"(SReadSf {cq_list([_ol(r) for r in rows])})")
        else:
            g = s["got"]
            ops.append(f"(SCompute {_ol(g['stock'])} {_ol(g['inflow'])} {_ol(g['outflow'])})")
    at = dict(start="AtStart", middle="AtMiddle", end="AtEnd")[case["at"]]
    return (f"(mk_case {cq_bool(case['cls'] == 'sdsm')} DFixed {cq_list([cq_Q(Fraction(g)) for g in case['grid']])} {cq_nat(case['n_pts'])} {at} "
            f"{cq_list([cq_Q(v) for v in _prm_list(case, case['prms'][0])])} {cq_list([cq_Q(Fraction(v)) for v in case['drvs'][0]])} {cq_list(ops)})")


def nontrivial(case):
    s = case["seq"]
    return any(ch in "DP" for ch in s[: s.rfind("C")])


SIGNATURES = {}
