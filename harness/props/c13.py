"""C13 — arrays always have the shape of their dimensions; failed calls change nothing."""
import numpy as np

from arrays import mk_universe
import heapdrv

ID = "C13"
THOROUGH_ROUNDS = 2      # rounds of generate() in the thorough tier (new random draws each round)
COQ_MODULE = "Corr.C13"
COQ_CHECK = "C13.check"
COQ_CASE_TYPE = "C13.case"
SHARD = 60
RULE = ("seeded random histories (quick 300 x <= 9 steps, thorough 3000 x <= 20) over constructors (right and wrong "
        "shapes), copy, full_like, + - * / ** min max with arrays and numbers, neg/abs/sign, sum_to, sum_over, cast_to, "
        "cumsum (in place or not), slice reads (dict/tuple/bare/Dimension keys incl. unknown items), assignments of "
        "arrays / numbers / ndarrays through [] (keys and ellipsis, right and wrong shapes, sources lacking dimensions), "
        "set_values, raw fills; universes (2,2,3) and (2,3,2,2). After EVERY step every live array is snapshotted and "
        "compared with the model heap, and the invariant / raise-frame is judged on the implementation. "
        "A history is non-trivial when it has >= 4 executed steps or contains a refused call.")
ASSUMPTIONS = [
    "direct overwrites of .values / .dims and shape-changing apply() functions are outside the contract (excluded by the property)",
    "numpy primitives are modelled (Np/*.v); view-vs-copy facts of numpy (einsum without summation and basic indexing return views) are encoded in Model/Heap.v",
]


def generate(tier, rng):
    cases = []
    n, maxlen = (300, 9) if tier == "quick" else (3000, 20)
    unis = [mk_universe((2, 2, 3), "abc"), mk_universe((2, 3, 2, 2), "abcd")]
    for h in range(n):
        uni = unis[h % 2]
        length = 2 + rng.randrange(maxlen - 1)
        cases.append(dict(stream="history", uni=uni, abstract=heapdrv.gen_history(rng, uni, length)))
    # constructor validators of stocks and lifetime models
    import itertools
    base = dict(t=dict(letter="t", name="time", items=[2000, 2001, 2002]), r=dict(letter="r", name="region", items=["EU", "US"]))
    other = dict(t=dict(letter="t", name="time", items=[2000, 2001, 2002, 2003]), r=dict(letter="r", name="region", items=["EU", "CN"]),
                 r3=dict(letter="r", name="region", items=["EU", "US", "CN"]))
    variants = {"same": [base["t"], base["r"]], "longer time": [other["t"], base["r"]], "other items": [base["t"], other["r"]],
                "more items": [base["t"], other["r3"]], "permuted": [base["r"], base["t"]], "fewer dims": [base["t"]],
                # the same letters and numbers of items, but the items in another order: values would be combined position by position
                "items in another order": [base["t"], dict(base["r"], items=list(reversed(base["r"]["items"])))],
                "time items reversed": [dict(base["t"], items=list(reversed(base["t"]["items"]))), base["r"]]}
    for cls in ("SimpleFlowDrivenStock", "InflowDrivenDSM", "StockDrivenDSM"):
        for which in ("stock", "inflow", "outflow", "lifetime"):
            if which == "lifetime" and cls == "SimpleFlowDrivenStock":
                continue
            for vn, vd in variants.items():
                cases.append(dict(stream="validators", kind="stock_ctor", cls=cls, dims=[base["t"], base["r"]], which=which, variant=vn, vdims=vd, time="t"))
        cases.append(dict(stream="validators", kind="stock_ctor", cls=cls, dims=[base["r"], base["t"]], which=None, variant="time not first", vdims=None, time="t"))
    for lt in ("FixedLifetime", "NormalLifetime", "LogNormalLifetime", "WeibullLifetime", "FoldedNormalLifetime"):
        for dn, dd_ in (("time first", [base["t"], base["r"]]), ("time second", [base["r"], base["t"]]), ("time only", [base["t"]])):
            cases.append(dict(stream="validators", kind="lifetime_ctor", lt=lt, dims=dd_, dname=dn, time="t"))
    # parameter arrays handed to a lifetime model: over the model's dimensions (any subset, any order) they are accepted and stored in
    # the model's shape; over a dimension that carries one of the model's letters with ANOTHER NUMBER of items (one item, one more) they
    # are refused, through the constructor and through set_prms alike, and the model keeps the parameters it had
    one = dict(letter="r", name="region", items=["x"])
    pvariants = {"same": ([base["t"], base["r"]], True), "permuted": ([base["r"], base["t"]], True), "region only": ([base["r"]], True),
                 "one-item region": ([base["t"], one], False), "one-item region alone": ([one], False), "more regions": ([base["t"], other["r3"]], False),
                 "longer time": ([other["t"], base["r"]], False)}
    for lt in ("FixedLifetime", "NormalLifetime", "WeibullLifetime"):
        for vn, (pd_, ok) in pvariants.items():
            for via in ("ctor", "set_prms"):
                cases.append(dict(stream="validators", coq=False, kind="lifetime_prm", lt=lt, dims=[base["t"], base["r"]], pdims=pd_, variant=vn, valid=ok, via=via))
                if not ok and lt != "FixedLifetime" and via == "set_prms":
                    # only the SECOND parameter is over the wrong dimensions: the call is refused as a whole, the first parameter
                    # (a valid one) is not taken over either
                    cases.append(dict(cases[-1], only_second=True))
    # values held in arrays of another dtype (whole numbers in an integer array, single precision): every result, down to
    # 0-dimensional ones, is still a numpy array of the shape of its dimensions and can be assigned to
    for dtype in ("int64", "int32", "float32", "float64"):
        for dd_ in ([base["t"], base["r"]], [base["r"]], []):
            cases.append(dict(stream="validators", coq=False, kind="dtype", dtype=dtype, dims=dd_))
    # every way of handing over an ndarray whose shape is not the lengths of the dimensions (same number of elements or not, down
    # to 0-dimensional arrays and one-element ndarrays): refused, and the target stays as it was
    for dd_ in ([], [base["r"]], [base["t"], base["r"]], [base["r"], dict(letter="o", name="only", items=["x"])]):
        want = [len(d["items"]) for d in dd_]
        m = int(np.prod(want)) if want else 1
        shapes = {tuple(want), (m,), (1, m), (m, 1), tuple(want) + (1,), (1,) + tuple(want), tuple(want[::-1]), (1,), (1, 1), (1, 1, 1), (), (2,), (m + 1,)}
        for si, shp in enumerate(sorted(shapes)):
            for vi, via in enumerate(("ctor", "set_values", "assign", "scalar")):
                if via == "scalar" and dd_:
                    continue
                cases.append(dict(stream="validators", coq=False, kind="shape", dims=dd_, shape=list(shp), via=via))
                # the same shapes in arrays of another type (whole numbers, single precision, a mask)
                cases.append(dict(stream="validators", coq=False, kind="shape", dims=dd_, shape=list(shp), via=via,
                                  dtype=["int64", "float32", "bool", "int32"][(si + vi) % 4]))
    # right-hand sides that cannot be converted (a Python list or a text array whose LAST element is not a number): the call
    # raises, and the target stays exactly as it was — also not partly overwritten
    for dd_ in ([base["r"]], [base["t"], base["r"]]):
        for rhs in ("list", "textarray", "objectlist"):
            for via in ("set_values", "assign", "keyed"):
                cases.append(dict(stream="validators", coq=False, kind="unconvertible", dims=dd_, rhs=rhs, via=via))
    return cases


def _ds(dims):
    import flodym as fd
    return fd.DimensionSet(dim_list=[fd.Dimension(name=d["name"], letter=d["letter"], items=list(d["items"])) for d in dims])


def run_impl(case):
    import flodym as fd
    if case.get("kind") == "stock_ctor":
        dims = _ds(case["dims"])
        kw = dict(dims=dims, time_letter=case["time"], name="s")
        cls = getattr(fd, case["cls"])
        try:
            if cls is not fd.SimpleFlowDrivenStock:
                ld = _ds(case["vdims"]) if case["which"] == "lifetime" else dims
                kw["lifetime_model"] = fd.FixedLifetime(dims=ld, time_letter=[d["letter"] for d in (case["vdims"] if case["which"] == "lifetime" else case["dims"])][0] if False else case["time"], mean=5)
            if case["which"] in ("stock", "inflow", "outflow"):
                kw[case["which"]] = fd.StockArray(dims=_ds(case["vdims"]))
            st = cls(**kw)
            shapes = [list(getattr(st, q).values.shape) for q in ("stock", "inflow", "outflow")]
            return dict(kind="ctor", accepted=True, shapes=shapes, want=list(dims.shape))
        except Exception as e:  # noqa
            return dict(kind="ctor", accepted=False, exc=type(e).__name__, msg=str(e)[:120])
    if case.get("kind") == "lifetime_ctor":
        try:
            getattr(fd, case["lt"])(dims=_ds(case["dims"]), time_letter=case["time"])
            return dict(kind="ctor", accepted=True)
        except Exception as e:  # noqa
            return dict(kind="ctor", accepted=False, exc=type(e).__name__, msg=str(e)[:120])
    if case.get("kind") == "lifetime_prm":
        dims, pds = _ds(case["dims"]), _ds(case["pdims"])
        prm = lambda c: fd.FlodymArray(dims=pds, values=np.full(pds.shape, float(c)))
        names = dict(FixedLifetime=["mean"], NormalLifetime=["mean", "std"], WeibullLifetime=["weibull_shape", "weibull_scale"])[case["lt"]]
        first = {n: 5.0 + i for i, n in enumerate(names)}
        before = None
        try:
            if case["via"] == "ctor":
                lm = getattr(fd, case["lt"])(dims=dims, time_letter="t", **{n: prm(3 + i) for i, n in enumerate(names)})
                before = None
            else:
                lm = getattr(fd, case["lt"])(dims=dims, time_letter="t", **first)
                before = {n: np.array(getattr(lm, n), copy=True) for n in names}
                good = fd.FlodymArray(dims=dims, values=np.full(dims.shape, 3.0))
                lm.set_prms(**{n: (good if case.get("only_second") and i == 0 else prm(3 + i)) for i, n in enumerate(names)})
            return dict(kind="prm", accepted=True, shapes=[list(np.shape(getattr(lm, n))) for n in names], want=list(dims.shape))
        except Exception as e:  # noqa
            kept = before is None or all(np.array_equal(before[n], getattr(lm, n)) for n in names)
            return dict(kind="prm", accepted=False, exc=type(e).__name__, msg=str(e)[:120], kept=bool(kept))
    if case.get("kind") == "shape":
        dims = _ds(case["dims"])
        nd = (np.arange(int(np.prod(case["shape"])) if case["shape"] else 1, dtype=float) + 10).reshape(case["shape"])
        if case.get("dtype"):
            nd = nd.astype(case["dtype"])
        target = fd.FlodymArray(dims=dims, values=np.full(dims.shape, 3.0))
        try:
            if case["via"] == "ctor":
                r = fd.FlodymArray(dims=dims, values=nd)
            elif case["via"] == "scalar":
                r = fd.FlodymArray.scalar(nd)
            elif case["via"] == "set_values":
                target.set_values(nd)
                r = target
            else:
                target[...] = nd
                r = target
            return dict(kind="shape", accepted=True, stored=list(r.values.shape), want=list(dims.shape),
                        target_intact=bool(np.all(target.values == 3.0)) and list(target.values.shape) == list(dims.shape))
        except Exception as e:  # noqa
            return dict(kind="shape", accepted=False, exc=type(e).__name__, msg=str(e)[:100], want=list(dims.shape),
                        target_intact=isinstance(target.values, np.ndarray) and list(target.values.shape) == list(dims.shape) and bool(np.all(target.values == 3.0)))
    if case.get("kind") == "unconvertible":
        dims = _ds(case["dims"])
        target = fd.FlodymArray(dims=dims, values=np.arange(int(np.prod(dims.shape)), dtype=float).reshape(dims.shape) + 3)
        before = target.values.copy()
        if case["via"] == "keyed":
            key = {case["dims"][0]["letter"]: case["dims"][0]["items"][0]}
            shape = dims.shape[1:]
        else:
            key, shape = None, dims.shape
        n = int(np.prod(shape)) if shape else 1
        cells = [str(10 + i) for i in range(n - 1)] + ["n/a"]
        good = [float(10 + i) for i in range(n - 1)]
        if case["rhs"] == "list":
            rhs = np.array(good + [0.0]).reshape(shape).tolist() if shape else 0.0
            # put the unconvertible cell last
            flat = good + ["n/a"]
            rhs = np.array(flat, dtype=object).reshape(shape).tolist() if shape else "n/a"
        elif case["rhs"] == "objectlist":
            rhs = np.array(good + [object()], dtype=object).reshape(shape).tolist() if shape else object()
        else:
            rhs = np.array(cells).reshape(shape)
        try:
            if case["via"] == "set_values":
                target.set_values(rhs)
            elif case["via"] == "assign":
                target[...] = rhs
            else:
                target[key] = rhs
            return dict(kind="unconvertible", raised=False, numeric=bool(isinstance(target.values, np.ndarray) and target.values.dtype.kind in "biufc"),
                        shape_ok=list(getattr(target.values, "shape", [-1])) == list(dims.shape))
        except Exception as e:  # noqa
            v = target.values
            intact = isinstance(v, np.ndarray) and v.shape == before.shape and v.dtype == before.dtype and bool(np.array_equal(v, before))
            return dict(kind="unconvertible", raised=True, exc=type(e).__name__, intact=intact)
    if case.get("kind") == "dtype":
        dims = _ds(case["dims"])
        vals = (np.arange(int(np.prod(dims.shape)) if dims.shape else 1) + 1).reshape(dims.shape).astype(case["dtype"])
        a = fd.FlodymArray(dims=dims, values=vals)
        letters = tuple(d["letter"] for d in case["dims"])
        results = {"a": a, "sum_to(())": a.sum_to(()), "sum_over(all)": a.sum_over(letters), "total+total": a.sum_to(()) + a.sum_to(()),
                   "total.minimum(total)": a.sum_to(()).minimum(a.sum_to(())), "a+a": a + a, "a*2": a * 2, "-a": -a, "abs(a)": abs(a),
                   "a.copy()": a.copy(), "a.cast_to(dims)": a.cast_to(dims), "a[...]": a[...]}
        if letters:
            results["a.sum_to(first)"] = a.sum_to(letters[:1])
            results["single element"] = a[{d["letter"]: d["items"][0] for d in case["dims"]}]
            results["cumsum"] = a.cumsum(letters[0])
        out = {}
        for k, r in results.items():
            o = dict(is_ndarray=isinstance(r.values, np.ndarray), shape=list(getattr(r.values, "shape", ["?"])), want=list(r.dims.shape))
            try:
                r[...] = 7
                o["assign"] = "ok"
            except Exception as e:  # noqa
                o["assign"] = type(e).__name__ + ": " + str(e)[:80]
            out[k] = o
        return dict(kind="dtype", results=out)
    conc, obs = heapdrv.drive(case["uni"], case["abstract"])
    return dict(kind="history", concrete=conc, obs=obs)


def _same(a, b):
    return a["dims"] == b["dims"] and a["shape"] == b["shape"] and a["values"] == b["values"]


WRONG_SHAPE_OPS = ("new", "set_values")


def oracle(case, ob):
    if case.get("kind") == "dtype":
        for k, o in ob["results"].items():
            if not o["is_ndarray"]:
                return f"{case['dtype']} values over {[d['letter'] for d in case['dims']]}: the values of {k} are not a numpy array"
            if o["shape"] != o["want"]:
                return f"{case['dtype']} values: {k} has values of shape {o['shape']} under dimensions of shape {o['want']}"
            if o["assign"] != "ok":
                return f"{case['dtype']} values: assigning a number to {k} raised {o['assign']}"
        return None
    if case.get("kind") == "shape":
        tag = f"{case['via']} with an ndarray ({case.get('dtype', 'float64')}) of shape {tuple(case['shape'])} for dimensions of shape {tuple(ob['want'])}"
        if case["shape"] == ob["want"]:
            return None if ob["accepted"] else f"{tag}: refused ({ob['exc']}: {ob['msg'][:60]})"
        if ob["accepted"]:
            return f"{tag}: accepted (stored shape {ob['stored']})"
        if not ob["target_intact"]:
            return f"{tag}: refused, but the target array was changed"
        return None
    if case.get("kind") == "unconvertible":
        tag = f"{case['via']} with a {case['rhs']} whose last element is not a number, dims {[d['letter'] for d in case['dims']]}"
        if ob["raised"] and not ob["intact"]:
            return f"{tag}: the call raised {ob['exc']} but the target was changed (partly overwritten)"
        if not ob["raised"] and not ob["shape_ok"]:
            return f"{tag}: accepted and the values no longer have the shape of the dimensions"
        return None          # (whether such a right-hand side is accepted at all is not fixed by the property)
    if case.get("kind") == "stock_ctor":
        must_reject = case["variant"] != "same"
        if must_reject and ob["accepted"]:
            return f"{case['cls']} accepted {case['which'] or 'dims'} with '{case['variant']}' dimensions (array shapes {ob.get('shapes')} in a stock of shape {ob.get('want')})"
        if not must_reject and not ob["accepted"]:
            return f"{case['cls']} refused matching {case['which']}: {ob['exc']}: {ob['msg'][:60]}"
        return None
    if case.get("kind") == "lifetime_prm":
        d = f"{case['lt']} ({case['via']}) with {'the second parameter' if case.get('only_second') else 'parameters'} over '{case['variant']}' dimensions"
        if case["valid"]:
            if not ob["accepted"]:
                return f"{d}: refused ({ob['exc']}: {ob['msg'][:60]})"
            if any(sh != ob["want"] for sh in ob["shapes"]):
                return f"{d}: stored with shapes {ob['shapes']} in a model of shape {ob['want']}"
            return None
        if ob["accepted"]:
            return f"{d}: accepted (stored shapes {ob['shapes']}, model shape {ob['want']})"
        if not ob["kept"]:
            return f"{d}: refused, but the model's parameters changed"
        return None
    if case.get("kind") == "lifetime_ctor":
        must_reject = case["dname"] == "time second"
        if must_reject and ob["accepted"]:
            return f"{case['lt']} accepted dimensions whose time dimension is not first"
        if not must_reject and not ob["accepted"]:
            return f"{case['lt']} refused valid dimensions ({case['dname']}): {ob['exc']}: {ob['msg'][:60]}"
        return None
    uni = ob["concrete"]["uni"]
    for si, (c, o) in enumerate(zip(ob["concrete"]["steps"], ob["obs"])):
        tag = f"step {si} {c['op']}"
        for ai, a in enumerate(o["after"]["arrs"]):
            want = [len(d["items"]) for d in a["dims"]]
            letters = [d["letter"] for d in a["dims"]]
            if a["shape"] != want:
                return f"{tag}: array #{ai} has values of shape {a['shape']} under dimensions of shape {want}"
            if len(set(letters)) != len(letters):
                return f"{tag}: array #{ai} has repeated dimension letters {letters}"
        if not o["ok"]:
            b = o["before"]["arrs"]
            for ai, (x, y) in enumerate(zip(b, o["after"]["arrs"])):
                if not _same(x, y):
                    return f"{tag}: the call raised {o['exc']} but array #{ai} changed"
            if len(o["after"]["arrs"]) != len(b):
                return f"{tag}: raised but a new array appeared"
        # wrong shapes must be rejected, never broadcast / transposed / stored
        if c["op"] == "new":
            if c["shape"] != [len(uni[l]["items"]) for l in c["dims"]] and o["ok"]:
                return f"{tag}: constructor accepted an ndarray of shape {c['shape']} for dims {c['dims']}"
        if c["op"] == "set_values" or (c["op"] == "set" and c["key"]["form"] == "ellipsis" and c["rhs"]["kind"] == "nd"):
            shp = c["shape"] if c["op"] == "set_values" else c["rhs"]["shape"]
            tgt = o["before"]["arrs"][c["i"]]
            if shp != tgt["shape"] and o["ok"]:
                return f"{tag}: accepted an ndarray of shape {shp} for an array of shape {tgt['shape']}"
    return None


def failure_key(case, obs, msg):
    return msg.split(":", 1)[1][:25] if ":" in msg else msg[:40]


def to_coq(case, ob):
    from arrays import cq_dimset
    from common import cq_bool, cq_nat, cq_list, cq_opt, letter_code
    if case.get("kind") == "stock_ctor":
        arrs = [cq_dimset(case["vdims"])] if case["which"] in ("stock", "inflow", "outflow") else []
        lt = "None" if case["cls"] == "SimpleFlowDrivenStock" else f"(Some {cq_dimset(case['vdims'] if case['which'] == 'lifetime' else case['dims'])})"
        return f"(CStockCtor {cq_dimset(case['dims'])} {cq_list(arrs)} {lt} {cq_nat(letter_code(case['time']))} {cq_bool(ob['accepted'])})"
    if case.get("kind") == "lifetime_ctor":
        return f"(CLifetimeCtor {cq_dimset(case['dims'])} {cq_nat(letter_code(case['time']))} {cq_bool(ob['accepted'])})"
    return "(CHist " + heapdrv.cq_history(ob["concrete"], ob["obs"]) + ")"


def nontrivial(case):
    return case.get("kind") is not None or len(case["abstract"]) >= 4


SIGNATURES = {}
