"""C13 — arrays always have the shape of their dimensions; failed calls change nothing."""
import numpy as np

from arrays import mk_universe
import heapdrv

ID = "C13"
COQ_MODULE = "Corr.HeapC"
SHARD = 60
RULE = ("seeded random histories (quick 300 x <= 9 steps, thorough 3000 x <= 20) over constructors (right and wrong "
        "shapes), copy, full_like, + - * / ** min max with arrays and numbers, neg/abs/sign, sum_to, sum_over, cast_to, "
        "cumsum (in place or not), slice reads (dict/tuple/bare/Dimension keys incl. unknown items), assignments of "
        "arrays / numbers / ndarrays through [] (keys and ellipsis, right and wrong shapes, sources lacking dimensions), "
        "set_values, raw fills; universes (2,2,3) and (2,3,2,2). After EVERY step every live array is snapshotted and "
        "compared with the model heap, and the invariant / raise-frame is judged on the implementation. "
        "A history is non-trivial when it has >= 4 executed steps or contains a refused call.")
ASSUMPTIONS = [
    "direct overwrites of .values / .dims and shape-changing apply() functions are outside the contract (excluded by the property)",
    "numpy primitives are modelled (Np/*.v); view-vs-copy facts of numpy (einsum without summation and basic indexing return views) are encoded in Model/Heap.v",
]


def generate(tier, rng):
    cases = []
    n, maxlen = (300, 9) if tier == "quick" else (3000, 20)
    unis = [mk_universe((2, 2, 3), "abc"), mk_universe((2, 3, 2, 2), "abcd")]
    for h in range(n):
        uni = unis[h % 2]
        length = 2 + rng.randrange(maxlen - 1)
        cases.append(dict(stream="history", uni=uni, abstract=heapdrv.gen_history(rng, uni, length)))
    return cases


def run_impl(case):
    conc, obs = heapdrv.drive(case["uni"], case["abstract"])
    return dict(kind="history", concrete=conc, obs=obs)


def _same(a, b):
    return a["dims"] == b["dims"] and a["shape"] == b["shape"] and a["values"] == b["values"]


WRONG_SHAPE_OPS = ("new", "set_values")


def oracle(case, ob):
    uni = ob["concrete"]["uni"]
    for si, (c, o) in enumerate(zip(ob["concrete"]["steps"], ob["obs"])):
        tag = f"step {si} {c['op']}"
        for ai, a in enumerate(o["after"]["arrs"]):
            want = [len(d["items"]) for d in a["dims"]]
            letters = [d["letter"] for d in a["dims"]]
            if a["shape"] != want:
                return f"{tag}: array #{ai} has values of shape {a['shape']} under dimensions of shape {want}"
            if len(set(letters)) != len(letters):
                return f"{tag}: array #{ai} has repeated dimension letters {letters}"
        if not o["ok"]:
            b = o["before"]["arrs"]
            for ai, (x, y) in enumerate(zip(b, o["after"]["arrs"])):
                if not _same(x, y):
                    return f"{tag}: the call raised {o['exc']} but array #{ai} changed"
            if len(o["after"]["arrs"]) != len(b):
                return f"{tag}: raised but a new array appeared"
        # wrong shapes must be rejected, never broadcast / transposed / stored
        if c["op"] == "new":
            if c["shape"] != [len(uni[l]["items"]) for l in c["dims"]] and o["ok"]:
                return f"{tag}: constructor accepted an ndarray of shape {c['shape']} for dims {c['dims']}"
        if c["op"] == "set_values" or (c["op"] == "set" and c["key"]["form"] == "ellipsis" and c["rhs"]["kind"] == "nd"):
            shp = c["shape"] if c["op"] == "set_values" else c["rhs"]["shape"]
            tgt = o["before"]["arrs"][c["i"]]
            if shp != tgt["shape"] and o["ok"]:
                return f"{tag}: accepted an ndarray of shape {shp} for an array of shape {tgt['shape']}"
    return None


def failure_key(case, obs, msg):
    return msg.split(":", 1)[1][:25]


def to_coq(case, ob):
    return heapdrv.cq_history(ob["concrete"], ob["obs"])


def nontrivial(case):
    return len(case["abstract"]) >= 4


SIGNATURES = {}
