"""C16 — dynamic stock models are causal, linear and independent across labels."""
from fractions import Fraction

import numpy as np

import stocksdrv as sd
import props.c03 as c03
from common import cq_list

ID = "C16"
THOROUGH_ROUNDS = 3      # rounds of generate() in the thorough tier (new random draws each round)
COQ_MODULE = "Corr.StocksC"
COQ_HEADER = "Definition check_all (l : list case) : bool := forallb check l."
COQ_CHECK = "check_all"
COQ_CASE_TYPE = "(list case)"
SHARD = 12
EXHAUSTIVE = True
RULE = ("per configuration (DSM class/solver x exact grids unit, const4, uneven_p2, uneven_alt x 0-2 extra dimensions x probe "
        "lifetime with scalar / per-label / per-cohort parameters; tolerance stream: scipy models on the natural uneven grid): "
        "EVERY unit impulse of the driver (a basis, exhaustive), two random integer drivers and their integer combination "
        "(superposition, scaling), EVERY truncation point (drivers agreeing up to t), EVERY label column recomputed alone with "
        "its own parameters, and a calendar shift of all time items. All runs are checked against the model; the oracle "
        "compares stock / inflow / outflow / cohort tables across the related runs. Non-trivial: >= 1 extra dimension or "
        "non-unit grid.")
ASSUMPTIONS = c03.ASSUMPTIONS

KEYS = ("stock", "inflow", "outflow", "sbc", "obc")


def generate(tier, rng):
    cases = []
    k = 0
    grids = ["unit", "const4", "uneven_p2", "uneven_alt"] + (["uneven"] if True else [])
    extras = [[], ["r"], ["r", "g"], ["r", "h"]]     # r and h have equal lengths: a parameter over one of them must not be applied along the other
    # (fine64: six steps of 1/64 year at the calendar year 2000 with lifetimes of a few weeks; its "shift" moves the items to 0 .. 5/64,
    #  all of it exactly representable: where on the time axis a grid lies must not matter, however fine it is)
    FINE = [2000 + i / 64 for i in range(6)]
    # (almost_even: calendar years with two items a few days off an even spacing; its shift moves the items to 0 .. 4)
    for gname in grids + ["fine64", "almost_even"]:
        grid = FINE if gname == "fine64" else c03.GRIDS[gname]
        ex = gname in c03.EXACT_GRIDS
        for extra in extras:
            if not ex and len(extra) == 2 and tier == "quick":
                continue
            if gname in ("fine64", "almost_even") and len(extra) > 1:
                continue
            N = int(np.prod(sd.shape_of(grid, extra)))
            lts = c03.lifetimes(rng, grid, extra, k) if ex else [dict(kind="lognormal", mean=9, std=4), dict(kind="weibull", shape=2.0, scale=8)]
            if gname == "fine64":
                lts = [dict(kind="weibull", shape=1.5, scale=0.05), dict(kind="normal", mean=0.06, std=0.02, n_pts=3), dict(kind="lognormal", mean=0.04, std=0.03, inflow_at="end")]
            if ex and len(extra) == 2:
                # parameters over the FIRST extra dimension only, and over (second, first) without time
                l0, l1 = extra
                n0, n1 = len(sd.EXTRA[l0]), len(sd.EXTRA[l1])
                lts = lts + [dict(kind="probe", mean=dict(dims=[l0], values=[[1, 4, 2][(k + i) % 3] for i in range(n0)]), inflow_at="start"),
                             dict(kind="probe", mean=dict(dims=[l1, l0], values=[[1, 2, 4, 8, 2][(k + 3 * i) % 5] for i in range(n0 * n1)]), inflow_at="middle")]
            for lt in lts:
                for cls, solver in (("idsm", None), ("sdsm", "manual"), ("sdsm", "lapack")):
                    k += 1
                    if tier == "quick" and ((k + k // 3) % 3) and len(extra) == 2:
                        continue      # (one of the three model kinds per lifetime, a different one each time)
                    # every third configuration holds its (whole-number) drivers as int64 arrays: the results are the same
                    # real numbers as for the float array with the same values
                    base = dict(cls=cls, grid=grid, gname=gname, extra=extra, lifetime=lt, driver=[0] * N, int_dtype=(k % 3 == 0),
                                layout=("F" if k % 2 else "C"))        # and every second one stores them in Fortran order (a transposed view)
                    if solver:
                        base["solver"] = solver
                    d1 = [rng.randint(0, 6) for _ in range(N)]
                    d2 = [rng.randint(-3, 6) for _ in range(N)]
                    tiny = False
                    if ex and k % 4 == 0:
                        # the same drivers in a tiny unit: scaling is part of linearity, at every magnitude
                        d1 = [str(Fraction(v, 2 ** 40)) for v in d1]
                        d2 = [str(Fraction(v, 2 ** 40)) for v in d2]
                        tiny = True
                    cases.append(dict(stream="exact" if ex else "tolerance", coq=ex, tiny=tiny, gname=gname, extra=extra, base=base,
                                      d1=d1, d2=d2, a=rng.choice([2, -1, 3]), b=rng.choice([1, 2, -2]), shift=(-2000 if gname in ("fine64", "almost_even") else rng.choice([37, -12, 100])),
                                      tails=[[rng.randint(0, 6) for _ in range(N)] for _ in range(len(grid))]))
    return cases


def _param_column(case, kidx):
    """the lifetime parameters of label column kidx as per-cohort arrays over t only"""
    b = case["base"]
    lt = dict(b["lifetime"])
    n = len(b["grid"])
    shp = sd.shape_of(b["grid"], b["extra"])
    for key in ("mean", "std", "shape", "scale"):
        if key in lt and isinstance(lt[key], dict):
            full = sd.param_full(dict(b, lifetime=dict(lt, mean=lt[key])))
            col = full.reshape(n, -1)[:, kidx]
            lt[key] = dict(dims=["t"], values=[str(v) for v in col])
    return lt


def _F(case):
    """the case with its drivers as Fractions (they may be written as strings)"""
    return dict(case, d1=[Fraction(v) for v in case["d1"]], d2=[Fraction(v) for v in case["d2"]])


def run_impl(case):
    case = _F(case)
    b = case["base"]
    # (values in the tiny unit are exact binary fractions with large denominators: observed as they are, never snapped)
    snap = case["stream"] == "exact" and not case.get("tiny")
    n = len(b["grid"])
    shp = sd.shape_of(b["grid"], b["extra"])
    N = int(np.prod(shp))
    K = N // n
    runs = []

    def run(tag, c):
        r = sd.run_stock(c, snap=snap)
        runs.append(dict(tag=tag, case=c, obs=r))

    S = lambda l: [str(v) for v in l]
    run("d1", dict(b, driver=S(case["d1"])))
    run("d2", dict(b, driver=S(case["d2"])))
    comb = [case["a"] * x + case["b"] * y for x, y in zip(case["d1"], case["d2"])]
    run("comb", dict(b, driver=S(comb)))
    for j in range(N):
        e = [0] * N
        e[j] = 1
        run(f"imp{j}", dict(b, driver=e))
    d1 = np.array(case["d1"], dtype=object).reshape(n, K)
    unit = min([abs(v) for v in case["d1"] if v] + [Fraction(1)])      # the tails are written in the drivers' unit
    for t in range(n):
        d = d1.copy()
        tail = np.array([Fraction(v) * unit for v in case["tails"][t]], dtype=object).reshape(n, K)
        d[t + 1:, :] = tail[t + 1:, :]
        run(f"trunc{t}", dict(b, driver=[str(x) for x in d.flatten()]))
    for kk in range(K):
        run(f"alone{kk}", dict(b, extra=[], driver=[str(x) for x in d1[:, kk]], lifetime=_param_column(case, kk)))
    run("shift", dict(b, grid=[g + case["shift"] for g in b["grid"]], driver=S(case["d1"])))
    if b["cls"] != "simple":
        runs.append(dict(tag="reuse", case=dict(b, driver=S(case["d1"])), obs=sd.run_stock_reuse(dict(b, driver=S(case["d1"])), S(case["d2"]), snap=snap)))
    return dict(kind="family", runs=runs)


def _get(r, key):
    return [None if v is None else Fraction(v[0], v[1]) for v in r["obs"]["value"][key]]


def oracle(case, obs):
    case = _F(case)
    runs = {r["tag"]: r for r in obs["runs"]}
    b = case["base"]
    for r in obs["runs"]:
        if r["obs"]["kind"] != "ok":
            return f"run {r['tag']} raised {r['obs']['exc']}: {r['obs']['msg'][:60]}"
    n = len(b["grid"])
    N = len(case["d1"])
    K = N // n
    allv = [v for key in KEYS for v in _get(runs["d1"], key)] + [v for key in KEYS for v in _get(runs["comb"], key)]
    if any(v is None for v in allv):
        return "non-finite values"
    scale = max([abs(v) for v in allv] + [Fraction(1)])
    eps = Fraction(0) if case["stream"] == "exact" else scale * Fraction(1, 10 ** 8)
    g = f"{b['cls']}/{b.get('solver')} grid {case['gname']}"

    def close(x, y):
        return len(x) == len(y) and all(p is not None and q is not None and abs(p - q) <= eps for p, q in zip(x, y))

    # the results are a function of the driver: what the same object computed before leaves no trace
    if "reuse" in runs:
        for key in KEYS:
            if not close(_get(runs["reuse"], key), _get(runs["d1"], key)):
                return f"{g}: {key} depends on what the same stock object computed before (driver d2, then d1, differs from d1 alone)"
    # linearity: superposition + scaling, and decomposition over the impulse basis
    for key in KEYS:
        want = [case["a"] * x + case["b"] * y for x, y in zip(_get(runs["d1"], key), _get(runs["d2"], key))]
        if not close(_get(runs["comb"], key), want):
            return f"{g}: {key} is not linear in the driver (superposition fails)"
        acc = [Fraction(0)] * len(want)
        for j in range(N):
            if case["d1"][j]:
                acc = [u + case["d1"][j] * v for u, v in zip(acc, _get(runs[f"imp{j}"], key))]
        if not close(_get(runs["d1"], key), acc):
            return f"{g}: {key} is not the combination of the unit-impulse responses"
    # impulse response of the inflow-driven model: cohort column of the survival table times its interval length
    if b["cls"] == "idsm":
        _, dt = sd.oracle_dt(b["grid"])
        sf = np.array(_get(runs["d1"], "sf"), dtype=object).reshape(n, n, K)
        for j in range(N):
            c, kk = divmod(j, K)
            st = np.array(_get(runs[f"imp{j}"], "stock"), dtype=object).reshape(n, K)
            for t in range(n):
                for k2 in range(K):
                    want = dt[c] * sf[t, c, kk] if k2 == kk else Fraction(0)
                    if abs(st[t, k2] - want) > eps:
                        return f"{g}: stock response to a unit inflow in cohort {c}, label {kk} is {float(st[t,k2]):.6g} at (t={t}, label {k2}), expected {float(want):.6g}"
    # causality
    for t in range(n):
        for key in KEYS:
            width = K if key in ("stock", "inflow", "outflow") else n * K
            a0 = _get(runs["d1"], key)[: (t + 1) * width]
            a1 = _get(runs[f"trunc{t}"], key)[: (t + 1) * width]
            if not close(a0, a1):
                return f"{g}: {key} at steps <= {t} depends on driver values after step {t}"
    # label independence
    for kk in range(K):
        for key in KEYS:
            full = np.array(_get(runs["d1"], key), dtype=object)
            col = full.reshape(n, K)[:, kk] if key in ("stock", "inflow", "outflow") else full.reshape(n, n, K)[:, :, kk].flatten()
            if not close(list(col), _get(runs[f"alone{kk}"], key)):
                return f"{g}: {key} of label column {kk} differs from the same column computed alone"
    # calendar shift
    for key in KEYS:
        if not close(_get(runs["d1"], key), _get(runs["shift"], key)):
            return f"{g}: shifting all time items by {case['shift']} changes {key}"
    return None


def failure_key(case, obs, msg):
    return msg.split(":")[-1][:40]


def to_coq(case, obs):
    keep = [r for r in obs["runs"] if r["obs"]["kind"] == "ok" and (not r["tag"].startswith("imp") or int(r["tag"][3:]) % 3 == 0)]
    return cq_list([sd.cq_stock_case(r["case"], r["obs"]["value"]) for r in keep])


def nontrivial(case):
    return case["gname"] != "unit" or len(case["extra"]) >= 1


def weight(case):
    n = len(case["base"]["grid"])
    N = len(case["d1"])
    return 4 + N + n + N // n


SIGNATURES = {}
