"""C01 — arithmetic between arrays matches dimensions by label, never by axis position."""
from fractions import Fraction
import itertools
import operator

from arrays import (Lab, build_array, compare_lab, cq_farr, cq_oarr, cq_res, fingerprint_values, mk_universe,
                    nelem, observe, observe_array, ordered_subsets, random_values)
from common import cq_Q

ID = "C01"
THOROUGH_ROUNDS = 3      # rounds of generate() in the thorough tier (new random draws each round)
COQ_MODULE = "Corr.C01"
EXHAUSTIVE = True
RULE = ("exhaustive over all ordered pairs of ordered dimension subsets (every subset in every storage order, rank 0 "
        "included) of a 3-letter universe with lengths (2,2,3) [and (1,2,2); thorough adds 4 letters (2,2,2,2)] x "
        "operators + - min max * / ** with an array or a plain number on the right, reflected forms c+x c-x c*x c/x, "
        "unary neg abs sign; fingerprint and seeded random integer values, divisors in +-{1,2,4,1/2}, exponents 0..3; "
        "C / Fortran / strided layouts. Non-trivial: both operands have rank >= 1 and differ in dimension order or set, "
        "or the operation is refused.")
ASSUMPTIONS = [
    "both operands take their dimensions from one dimension set (the property's premise)",
    "numpy.einsum / tile / elementwise ufuncs are modelled (Np/Einsum.v), validated by this correspondence",
    "inputs chosen so that binary64 arithmetic is exact; divisions additionally snapped (tolerance stream)",
]

BOPS = ["add", "sub", "min", "max", "mul", "div", "pow"]
COQ_B = dict(add="BAdd", sub="BSub", min="BMin", max="BMax", mul="BMul", div="BDiv", pow="BPow")


def generate(tier, rng):
    cases = []
    unis = [mk_universe((2, 2, 3), "abc")]
    if tier == "thorough":
        unis += [mk_universe((1, 2, 2), "abc"), mk_universe((2, 2, 2, 2), "abcd")]
    else:
        unis += [mk_universe((1, 2, 2), "abc")]
    lay = ["C", "F", "V"]
    k = 0
    for ui, uni in enumerate(unis):
        L = list(uni.keys())
        subs = ordered_subsets(L) if len(L) <= 3 else [s for s in ordered_subsets(L) if len(s) in (0, 2, 3)]
        if len(L) > 3:
            subs = subs[::3]
        for xd in subs:
            nx = nelem(uni, xd)
            for yd in subs:
                ny = nelem(uni, yd)
                ops = BOPS if ui == 0 else [BOPS[(k + j) % 7] for j in range(2)]
                if ui == 1 and ny == 1 and yd:
                    ops = BOPS       # an operand with a single entry but with dimensions (all of one item): every operator, every x
                for op in ops:
                    k += 1
                    xv = random_values(rng, nx, -6, 6) if op != "pow" else random_values(rng, nx, -3, 3)
                    if op == "div":
                        yv = [rng.choice([1, -1, 2, -2, 4, 0.5]) for _ in range(ny)]
                    elif op == "pow":
                        yv = [rng.choice([0, 1, 2, 3]) for _ in range(ny)]
                    elif op == "mul":
                        yv = fingerprint_values(ny, 3) if ny <= 12 else random_values(rng, ny)
                        xv = fingerprint_values(nx, 2) if nx <= 12 else xv
                    else:
                        yv = random_values(rng, ny, -6, 6)
                    cases.append(dict(stream="tolerance" if op == "div" else "exact", uni=uni,
                                      x=dict(dims=xd, values=xv, layout=lay[k % 3]),
                                      op=dict(kind="bin", op=op, y=dict(dims=yd, values=yv, layout=lay[(k // 3) % 3]))))
            # numbers, reflected, unary
            xv = random_values(rng, nx, -6, 6)
            xnz = [v if v != 0 else 2 for v in xv]
            x = dict(dims=xd, values=xv, layout=lay[k % 3])
            for op in BOPS:
                c = {"div": 4, "pow": 2}.get(op, 3)
                cases.append(dict(stream="exact", uni=uni, x=x, op=dict(kind="num", op=op, c=c)))
            # whole numbers stored in an integer array, combined with numbers that are not whole
            xi = dict(x, values=xnz, dtype="int")
            for j, op in enumerate(BOPS):
                c = [0.5, 2.5, -1.5][(k + j) % 3] if op not in ("pow", "div") else ([2, -1][(k + j) % 2] if op == "pow" else [0.5, -0.25][(k + j) % 2])
                cases.append(dict(stream="tolerance" if (op == "pow" and c < 0) else "exact", uni=uni, x=xi, op=dict(kind="num", op=op, c=c)))
            for j, op in enumerate(["add", "sub", "mul", "div"]):
                cases.append(dict(stream="tolerance" if op == "div" else "exact", uni=uni, x=xi, op=dict(kind="refl", op=op, c=[0.5, -2.5][(k + j) % 2])))
            for op in ["add", "sub", "mul", "div"]:
                xx = x if op != "div" else dict(x, values=[rng.choice([1, -1, 2, -4, 0.5]) for _ in range(nx)])
                cases.append(dict(stream="tolerance" if op == "div" else "exact", uni=uni, x=xx,
                                  op=dict(kind="refl", op=op, c=2)))
            for u in ["neg", "abs", "sign", "absm"]:
                cases.append(dict(stream="exact", uni=uni, x=x, op=dict(kind="un", op=u)))
            # in-place abs / sign of the array itself, in every memory layout (the entry under each label changes, no other)
            for li, u in enumerate(["absi", "signi"]):
                cases.append(dict(stream="exact", uni=uni, x=dict(x, layout=lay[(k + li) % 3]), op=dict(kind="un", op=u)))
                cases.append(dict(stream="exact", uni=uni, x=dict(x, layout="F"), op=dict(kind="un", op=u)))
            # the same after an in-place abs()/sign() of ANOTHER array of the same shape: nothing may leak from one call into the next
            for u in ["abs", "sign", "absm"]:
                cases.append(dict(stream="exact", uni=uni, x=x, op=dict(kind="un", op=u, after_inplace=["abs", "sign"][k % 2])))
    return cases


PYOP = dict(add=operator.add, sub=operator.sub, mul=operator.mul, div=operator.truediv, pow=operator.pow)


def run_impl(case):
    uni = case["uni"]
    from props.c07 import _build        # FlodymArray or one of its subclasses (Parameter / StockArray / Flow), chosen from the case
    x = _build(uni, case["x"], case)
    op = case["op"]
    k = op["kind"]
    if k == "bin":
        y = _build(uni, op["y"], case)
    elif k in ("num", "refl"):
        y = op["c"]
    if k in ("bin", "num"):
        o = op["op"]
        if o == "min":
            f = lambda: x.minimum(y)
        elif o == "max":
            f = lambda: x.maximum(y)
        else:
            f = lambda: PYOP[o](x, y)
    elif k == "refl":
        f = lambda: PYOP[op["op"]](y, x)
    else:
        u = op["op"]
        if op.get("after_inplace"):
            z = build_array(uni, dict(case["x"], values=[-(Fraction(v)) - 7 for v in case["x"]["values"]]))
            getattr(z, op["after_inplace"])(inplace=True)
        def inplace(name):
            def g():
                getattr(x, name)(inplace=True)
                return x
            return g
        f = {"neg": lambda: -x, "abs": lambda: abs(x), "sign": lambda: x.sign(), "absm": lambda: x.abs(),
             "absi": inplace("abs"), "signi": inplace("sign")}[u]
    r = observe(f)
    if r["kind"] == "ok":
        r["value"] = observe_array(r["value"], snap=(case["stream"] == "tolerance"))
    return r


def _fop(o):
    return dict(add=lambda a, b: a + b, sub=lambda a, b: a - b, min=min, max=max, mul=lambda a, b: a * b,
                div=lambda a, b: (a / b) if b != 0 else None,
                pow=lambda a, b: (a ** int(b)) if (a != 0 or b >= 0) else None)[o]


def expected_bin(uni, x: Lab, y: Lab, o):
    """the property statement, label by label"""
    if o in ("add", "sub", "min", "max"):
        common = [d for d in x.dims if d["letter"] in y.letters]
        mx, my = x.marginal(common), y.marginal(common)
        out = Lab(common, {})
        for lab in mx.labels():
            out.data[tuple(lab[l] for l in out.letters)] = _fop(o)(mx.at(lab), my.at(lab))
        return out
    if o in ("mul", "div"):
        dims = x.dims + [d for d in y.dims if d["letter"] not in x.letters]
        out = Lab(dims, {})
        for lab in out.labels():
            out.data[tuple(lab[l] for l in out.letters)] = _fop(o)(x.at(lab), y.at(lab))
        return out
    if o == "pow":
        if any(l not in x.letters for l in y.letters):
            return "err"
        out = Lab(x.dims, {})
        for lab in x.labels():
            out.data[tuple(lab[l] for l in out.letters)] = _fop(o)(x.at(lab), y.at(lab))
        return out


def oracle(case, obs):
    uni = case["uni"]
    x = Lab.from_desc(uni, case["x"])
    op = case["op"]
    k = op["kind"]
    if k == "un":
        f = {"neg": lambda v: -v, "abs": abs, "absm": abs, "absi": abs, "sign": lambda v: (v > 0) - (v < 0), "signi": lambda v: (v > 0) - (v < 0)}[op["op"]]
        exp = Lab(x.dims, {kk: Fraction(f(v)) for kk, v in x.data.items()})
    else:
        if k == "bin":
            y = Lab.from_desc(uni, op["y"])
        else:
            y = Lab(x.dims, {kk: Fraction(op["c"]) for kk in x.data})  # a number = x's dims filled with it
        if k == "refl":
            o = op["op"]
            if o in ("add", "mul"):
                exp = expected_bin(uni, x, y, o)
            elif o == "sub":
                exp = expected_bin(uni, y, x, "sub")
            else:
                exp = expected_bin(uni, y, x, "div")
        else:
            exp = expected_bin(uni, x, y, op["op"])
    if exp == "err":
        return None if obs["kind"] == "err" else "pow accepted an exponent with dimensions the base lacks"
    if obs["kind"] == "err":
        return f"{op}: refused: {obs['exc']}: {obs.get('msg','')[:80]}"
    return compare_lab(obs["value"], exp, ordered=True, what=f"{k}:{op['op']}")


def to_coq(case, obs):
    uni = case["uni"]
    op = case["op"]
    k = op["kind"]
    if k == "bin":
        o = f"(OBin {COQ_B[op['op']]} (OArr {cq_farr(uni, op['y'])}))"
    elif k == "num":
        o = f"(OBin {COQ_B[op['op']]} (ONum {cq_Q(Fraction(op['c']))}))"
    elif k == "refl":
        o = f"(ORefl {COQ_B[op['op']]} {cq_Q(Fraction(op['c']))})"
    else:
        o = f"(OUn {dict(neg='UNeg', abs='UAbs', absm='UAbs', absi='UAbs', sign='USign', signi='USign')[op['op']]})"
    return f"(mk_case {cq_farr(uni, case['x'])} {o} {cq_res(obs, cq_oarr)})"


def nontrivial(case):
    op = case["op"]
    if op["kind"] == "bin":
        return len(case["x"]["dims"]) >= 1 and len(op["y"]["dims"]) >= 1 and case["x"]["dims"] != op["y"]["dims"]
    return len(case["x"]["dims"]) >= 2
